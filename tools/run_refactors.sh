#!/bin/bash
# usage: tools/run_refactors.sh [batch1|batch2] [jobs]
# Runs every check against the combined behaviour-preserving refactor patch of a batch (selftest/refactors/<batch>/ALL_combined.diff)
# through a source overlay; every check must stay silent (exit 0).  /repo is not touched.
B=${1:-batch2}; J=${2:-4}
cd /verif
ls sa/rules/C*.py | sed 's/.*\///; s/\.py//' | xargs -P "$J" -I{} sh -c 'out=$(tools/check_with_patch.sh selftest/refactors/'"$B"'/ALL_combined.diff {} 2>&1); if echo "$out" | grep -q "^OK"; then echo "SILENT {}"; else echo "ALARM {}"; echo "$out" | grep -v KNOWN | head -6; fi' | sort
