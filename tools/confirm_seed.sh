#!/bin/bash
# usage: tools/confirm_seed.sh <worktree> <seed-dir> <jobs>
# Independently confirms a seeded breakage in a scratch worktree (never /repo):
#   demo passes on the clean tree; with patch.diff the tree still builds, the demo fails, and every pre-existing ctest test passes.
# Writes <seed-dir>/confirm.log and prints a one-line verdict.
WT="$1"; SD="$2"; J="${3:-6}"
export CCACHE_BASEDIR="$WT" CCACHE_NOHASHDIR=1
LOG="$SD/confirm.log"; : > "$LOG"
cd "$WT" || exit 2
git checkout -q -- . ; git clean -fdq src test
git apply "$SD/demo.diff" >>"$LOG" 2>&1 || { echo "$SD: demo.diff does not apply"; exit 1; }
UNIT=$(git status --porcelain | grep -oE 'src/(wallet/)?test/[A-Za-z0-9_]+\.cpp' | grep -v CMake | head -1)
FUNC=$(git status --porcelain | grep -oE 'test/functional/[A-Za-z0-9_]+\.py' | grep -v test_runner | head -1)
build() { nice cmake --build build -j"$J" >>"$LOG" 2>&1; }
rundemo() {
  if [ -n "$UNIT" ]; then build/bin/test_bitcoin --run_test="$(basename "$UNIT" .cpp)" >>"$LOG" 2>&1
  else python3 "$FUNC" --configfile=build/test/config.ini --tmpdir="$(mktemp -u /tmp/seedconf_XXXXXX)" >>"$LOG" 2>&1; fi
}
echo "== demo on clean tree (unit=$UNIT func=$FUNC)" >>"$LOG"
build || { echo "$SD: clean+demo build FAILED"; exit 1; }
rundemo; CLEAN=$?
git apply "$SD/patch.diff" >>"$LOG" 2>&1 || { echo "$SD: patch.diff does not apply"; exit 1; }
echo "== demo on mutated tree" >>"$LOG"
build || { echo "$SD: mutated build FAILED"; git checkout -q -- .; git clean -fdq src test; exit 1; }
rundemo; MUT=$?
echo "== full ctest on mutated tree" >>"$LOG"
EXCL=""; [ -n "$UNIT" ] && EXCL="-E $(basename "$UNIT" .cpp)"
ctest --test-dir build -j"$J" --timeout 900 $EXCL >"$SD/ctest.log" 2>&1; CT=$?
tail -5 "$SD/ctest.log" >>"$LOG"
git checkout -q -- . ; git clean -fdq src test
VERDICT="demo_clean_exit=$CLEAN demo_mutated_exit=$MUT ctest_exit=$CT"
echo "$VERDICT" >>"$LOG"
if [ $CLEAN -eq 0 ] && [ $MUT -ne 0 ] && [ $CT -eq 0 ]; then echo "$SD: CONFIRMED ($VERDICT)"; else echo "$SD: NOT CONFIRMED ($VERDICT)"; fi
