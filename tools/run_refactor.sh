#!/bin/bash
# usage: tools/run_refactor.sh <patch.diff>  : applies a behaviour-preserving patch to /repo, runs EVERY check, prints non-OK results, reverts.
P="$1"; cd /repo || exit 2
[ -n "$(git status --porcelain --untracked-files=no)" ] && { echo "repo dirty"; exit 2; }
git apply "$P" || { echo "patch does not apply: $P"; exit 2; }
cd /verif
for f in sa/rules/C*.py; do p=$(basename $f .py); VERIF_EVIDENCE_DIR=/tmp/verif_refactor_evidence ./check $p 2>&1 | grep -E "^(VIOLATION|ANALYSIS|  rule)" | head -4 | cut -c1-260; done
git -C /repo checkout -- .
