#!/bin/bash
# keeps every confirmed seed of /tmp/seed/out that is not yet under /verif/seeded (see keep_seed.py)
for d in /tmp/seed/out/C*; do
  id=$(basename $d); [ -d /verif/seeded/$id ] && continue
  [ -f $d/confirm.log ] || continue
  tail -1 $d/confirm.log | grep -q "demo_clean_exit=0 demo_mutated_exit=[1-9][0-9]* ctest_exit=0" || { echo "$id not confirmed: $(tail -1 $d/confirm.log)"; continue; }
  prop=$(echo $id | sed 's/[a-z]$//')
  case " $SKIP " in *" $prop "*) continue;; esac
  /verif/tools/keep_seed.py $d $id $prop $prop
done
