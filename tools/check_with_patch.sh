#!/bin/bash
# usage: tools/check_with_patch.sh <patch.diff> <Cnn> [<Cnn>...]
# Analyses the tree *as if* the patch were applied, through a source overlay (nothing under /repo is touched; safe to run concurrently).
P="$1"; shift
T=$(mktemp -d /tmp/verif_patch_XXXXXX)
python3 - "$P" "$T" <<'PY'
import json, os, re, subprocess, sys
patch, tmp = sys.argv[1], sys.argv[2]
files = re.findall(r"^\+\+\+ b/(\S+)", open(patch).read(), re.M)
ov = {}
for f in files:
    src = os.path.join("/repo", f)
    dst = os.path.join(tmp, f)
    os.makedirs(os.path.dirname(dst), exist_ok=True)
    if os.path.exists(src):
        open(dst, "w").write(open(src).read())
r = subprocess.run(["patch", "-p1", "-s", "-d", tmp, "-i", os.path.abspath(patch)], capture_output=True, text=True)
if r.returncode != 0:
    print("patch failed:", r.stdout, r.stderr); sys.exit(2)
for f in files:
    if os.path.exists(os.path.join("/repo", f)):
        ov[os.path.join("/repo", f)] = os.path.join(tmp, f)
json.dump(ov, open(os.path.join(tmp, "overlay.json"), "w"))
PY
[ $? -eq 0 ] || { rm -rf "$T"; exit 2; }
for c in "$@"; do
  VERIF_OVERLAY="$T/overlay.json" VERIF_EVIDENCE_DIR="$T/evidence" /verif/check "$c" 2>&1 | grep -E "^(OK|VIOLATION|ANALYSIS|  rule|  detail)" | cut -c1-400 | head -8
done
rm -rf "$T"
