#!/usr/bin/env python3
"""Regenerates /verif/MANIFEST.json from sa/manifest_table.py and the rule modules present."""
import json
import os
import sys

VERIF = os.path.dirname(os.path.dirname(os.path.abspath(__file__)))
sys.path.insert(0, VERIF)
import importlib  # noqa: E402
from sa.manifest_table import NOT_APPLICABLE, TRUST  # noqa: E402

props = [json.loads(l) for l in open(os.path.join(VERIF, "properties.jsonl"))]
checks = []
na = []
for p in props:
    pid = p["id"]
    has_rule = os.path.exists(os.path.join(VERIF, "sa", "rules", pid + ".py"))
    c = None
    if has_rule:
        try:
            c = getattr(importlib.import_module("sa.rules." + pid), "CLAIM", None)
        except Exception as e:  # a rule module under construction is not registered
            print("skipping %s: %s" % (pid, e))
    only = os.environ.get("VERIF_MANIFEST_ONLY")
    if only and pid not in only.split(","):
        c = None
    if c is not None:
        checks.append({
            "property_id": pid,
            "quick_cmd": "./check %s --tier quick" % pid,
            "thorough_cmd": "./check %s --tier thorough" % pid,
            "evidence_file": "/verif/evidence/%s.json" % pid,
            "replay_cmd_template": "cat {path}",
            "engine": "sa",
            "level_claimed": {"category": c.get("category", "other"), "text": c["text"], "design_ref": c["ref"]},
            "level_note": c["note"] + " " + TRUST,
            "technique": c["technique"],
        })
    elif pid in NOT_APPLICABLE:
        na.append({"property_id": pid, "reason": "static analysis not applicable: " + NOT_APPLICABLE[pid]})
    else:
        na.append({"property_id": pid, "reason": "structural clauses are planned in DESIGN.md §3 but no check is registered in this revision (not claimed)"})
m = {
    "version": 1,
    "setup_cmd": "sh tools/bcfacts/build.sh && ./check --warm",
    "hooks": {
        "guard": "BITCOIN_VERIF_ANNOTATIONS",
        "enable": "no hooks are needed: all analysis is external to /repo (facts are extracted from the unmodified sources with the build's own flags)",
        "baseline_off_cmd": "ctest --test-dir /repo/_build -j8 --timeout 900",
        "source_commits": [],
        "add_only": True,
    },
    "engines": [{"name": "sa", "path": "/verif/sa", "serves_properties": [c["property_id"] for c in checks],
                 "kind_free_text": "custom static analysis: libTooling fact extractor (tools/bcfacts) + Python rule engine over structured "
                                   "statement trees (ladder/truth-table, must-flow, call graph, provenance, symmetry, constants, clang -Wthread-safety)"}],
    "checks": checks,
    "not_applicable": na,
    "notes": "Technique family: static analysis only. Exit 0 = obligations discharged; exit 1 + VIOLATION line; exit 2 = ANALYSIS-BROKEN (vanished anchor / front-end failure). See DESIGN.md. /repo carries one unguarded repair of a genuine defect found by C47: commit a98e645 'fix: merge the sighash type when combining PSBT inputs' (recorded as `fixed:` in known_findings.json; the existing test suite passes with it). Known findings (known_findings.json, printed as KNOWN-FINDING, exit 0): C63 removed-without-added on size-limit eviction (1 key), C47 finalized PSBT input re-encodes without its non-final records (18 keys, one per key type).",
}
json.dump(m, open(os.path.join(VERIF, "MANIFEST.json"), "w"), indent=1)
print("checks:", len(checks), "not_applicable:", len(na))
