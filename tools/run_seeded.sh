#!/bin/sh
# usage: tools/run_seeded.sh <patch.diff> <Cnn> [<Cnn>...]   applies the patch to /repo, runs the checks, reverts.
# (used only to evaluate the checks against seeded breakages; /repo is restored afterwards)
P="$1"; shift
cd /repo || exit 2
if [ -n "$(git status --porcelain --untracked-files=no)" ]; then echo "repo dirty, refusing"; exit 2; fi
git apply "$P" || { echo "patch does not apply"; exit 2; }
for c in "$@"; do
  (cd /verif && VERIF_EVIDENCE_DIR=/tmp/verif_seed_evidence ./check "$c" 2>&1 | grep -E "^(OK|VIOLATION|ANALYSIS|  rule)" | cut -c1-260 | head -6)
done
git checkout -- . 
