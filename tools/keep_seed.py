#!/usr/bin/env python3
"""tools/keep_seed.py <seed-out-dir> <seed-id> <property> <check>[,<check>...]
Stores a confirmed seeded breakage under /verif/seeded/<seed-id>/ (patch.diff, demo.diff, README.md, confirm.log, meta.json)
after running the named checks against it (the patch is analysed through a source overlay; /repo is not modified)."""
import json, os, re, shutil, subprocess, sys
src, sid, prop, checks = sys.argv[1], sys.argv[2], sys.argv[3], sys.argv[4].split(",")
dst = os.path.join("/verif/seeded", sid)
os.makedirs(dst, exist_ok=True)
for f in ("patch.diff", "demo.diff", "README.md", "confirm.log"):
    if os.path.exists(os.path.join(src, f)):
        shutil.copy(os.path.join(src, f), os.path.join(dst, f))
conf = open(os.path.join(src, "confirm.log")).read().strip().splitlines()[-1] if os.path.exists(os.path.join(src, "confirm.log")) else "not confirmed"
r = subprocess.run(["/verif/tools/check_with_patch.sh", os.path.join(dst, "patch.diff")] + checks, capture_output=True, text=True)  # overlay: /repo untouched
out = r.stdout
caught = sorted(set(re.findall(r"VIOLATION property=(C\d+)", out)))
rules = [l.strip()[:300] for l in out.splitlines() if l.startswith("  rule=")][:6]
readme = open(os.path.join(src, "README.md")).read() if os.path.exists(os.path.join(src, "README.md")) else ""
meta = {"id": sid, "property": prop, "needs_to_manifest": "see README.md (written by the seeding agent)",
        "confirmation": {"by": "tools/confirm_seed.sh in a scratch worktree (demo passes clean, fails mutated, full ctest passes mutated)", "result": conf},
        "checks_run": checks, "caught_by": caught, "first_reports": rules}
json.dump(meta, open(os.path.join(dst, "meta.json"), "w"), indent=1)
print(sid, "caught_by", caught)
