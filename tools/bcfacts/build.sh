#!/bin/sh
# Builds the libTooling fact extractor (offline; clang 14 dev files are pre-installed).
set -e
cd "$(dirname "$0")"
mkdir -p ../../.cache/bin
OUT=../../.cache/bin/bcfacts
if [ -x "$OUT" ] && [ "$OUT" -nt bcfacts.cc ]; then exit 0; fi
clang++-14 $(llvm-config-14 --cxxflags) -fno-rtti -O1 -w bcfacts.cc -o "$OUT.tmp.$$" \
  /usr/lib/llvm-14/lib/libclang-cpp.so.14 /usr/lib/llvm-14/lib/libLLVM-14.so
mv "$OUT.tmp.$$" "$OUT"
