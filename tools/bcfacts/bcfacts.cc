// bcfacts - fact extractor for /verif's static analysis of bitcoin/bitcoin.
//
// For one translation unit it emits a JSON document with, for every function defined in the
// repository's own sources (or in /verif/spec), a *structured* statement tree whose leaves are
// canonical, name-resolved expressions (DESIGN.md Appendix B), plus records (fields, GUARDED_BY
// attributes, bases, virtual methods), enums, integral constants, front-end errors and the list
// of repository files the unit depends on.  Nothing is executed; this is a pure AST walk.
//
// usage: bcfacts <source> -o <out.json> [--root <dir>]... -- <compile flags>

#include "clang/AST/ASTConsumer.h"
#include "clang/AST/ASTContext.h"
#include "clang/AST/Attr.h"
#include "clang/AST/DeclCXX.h"
#include "clang/AST/DeclTemplate.h"
#include "clang/AST/ExprCXX.h"
#include "clang/AST/RecursiveASTVisitor.h"
#include "clang/AST/StmtCXX.h"
#include "clang/Basic/Diagnostic.h"
#include "clang/Basic/SourceManager.h"
#include "clang/Frontend/CompilerInstance.h"
#include "clang/Frontend/FrontendAction.h"
#include "clang/Lex/Lexer.h"
#include "clang/Tooling/CompilationDatabase.h"
#include "clang/Tooling/Tooling.h"
#include "llvm/Support/JSON.h"
#include "llvm/Support/raw_ostream.h"

#include <map>
#include <set>
#include <string>
#include <vector>

using namespace clang;
namespace json = llvm::json;

static std::vector<std::string> g_roots;   // directories whose definitions are emitted
static std::string g_out;
static std::vector<std::pair<std::string, std::string>> g_maps; // path -> replacement content file

namespace {

struct ErrRec { std::string file; unsigned line; std::string msg; };

class Extractor {
public:
    ASTContext& Ctx;
    SourceManager& SM;
    std::vector<ErrRec>& Errors;
    json::Array Functions, Records, Enums;
    json::Object Consts;
    std::set<std::string> SeenFn, SeenRec, SeenEnum;
    std::vector<std::pair<const FunctionDecl*, std::string>> LambdaQueue;
    std::map<const Decl*, std::string> LambdaNames;
    bool CurRecovery = false;
    bool CurGoto = false;

    Extractor(ASTContext& C, std::vector<ErrRec>& E) : Ctx(C), SM(C.getSourceManager()), Errors(E) {}

    // ------------------------------------------------------------------ locations
    SourceLocation fileLoc(SourceLocation L) const { return SM.getExpansionLoc(L); }
    std::string fileOf(SourceLocation L) const
    {
        L = fileLoc(L);
        if (L.isInvalid()) return "";
        auto fn = SM.getFilename(L);
        return fn.str();
    }
    unsigned lineOf(SourceLocation L) const
    {
        L = fileLoc(L);
        if (L.isInvalid()) return 0;
        return SM.getExpansionLineNumber(L);
    }
    bool inRoots(SourceLocation L) const
    {
        std::string f = fileOf(L);
        if (f.empty()) return false;
        for (auto& r : g_roots) {
            if (f.compare(0, r.size(), r) == 0) {
                // vendored subtrees are not analysed
                static const char* skip[] = {"/leveldb/", "/secp256k1/", "/crc32c/", "/minisketch/", "/univalue/", "/ipc/libmultiprocess/", "/crypto/ctaes/", "/test/", "/bench/", "/qt/"};
                for (auto s : skip) if (f.find(s) != std::string::npos) return false;
                return true;
            }
        }
        return false;
    }
    std::string macroName(SourceLocation L) const
    {
        if (!L.isMacroID()) return "";
        SourceLocation prev = L;
        while (L.isMacroID()) { prev = L; L = SM.getImmediateMacroCallerLoc(L); }
        return Lexer::getImmediateMacroName(prev, SM, Ctx.getLangOpts()).str();
    }

    // ------------------------------------------------------------------ names
    std::string qname(const NamedDecl* D)
    {
        if (!D) return "?";
        std::vector<std::string> parts;
        std::string own;
        if (auto* MD = dyn_cast<CXXMethodDecl>(D)) {
            if (MD->getParent()->isLambda()) {
                auto it = LambdaNames.find(MD->getParent());
                if (it != LambdaNames.end()) return it->second;
            }
        }
        if (auto* CD = dyn_cast<CXXConstructorDecl>(D)) own = CD->getParent()->getNameAsString();
        else if (auto* DD = dyn_cast<CXXDestructorDecl>(D)) own = "~" + DD->getParent()->getNameAsString();
        else if (auto* CV = dyn_cast<CXXConversionDecl>(D)) own = "operator " + typeStr(CV->getConversionType());
        else own = D->getNameAsString();
        parts.push_back(own);
        const DeclContext* DC = D->getDeclContext();
        while (DC) {
            if (auto* NS = dyn_cast<NamespaceDecl>(DC)) {
                if (NS->isAnonymousNamespace()) { /* transparent */ }
                else if (!NS->isInline()) parts.push_back(NS->getNameAsString());
            } else if (auto* RD = dyn_cast<CXXRecordDecl>(DC)) {
                if (RD->isLambda()) {
                    auto it = LambdaNames.find(RD);
                    parts.push_back(it != LambdaNames.end() ? it->second : std::string("lambda"));
                    break; // lambda name is already fully qualified
                }
                std::string n = RD->getNameAsString();
                if (n.empty()) n = "(anon)";
                parts.push_back(n);
            } else if (auto* RD2 = dyn_cast<RecordDecl>(DC)) {
                parts.push_back(RD2->getNameAsString());
            } else if (auto* FD = dyn_cast<FunctionDecl>(DC)) {
                parts.push_back(qname(FD));
                break;
            } else if (auto* ED = dyn_cast<EnumDecl>(DC)) {
                if (ED->isScoped()) parts.push_back(ED->getNameAsString());
            }
            DC = DC->getParent();
        }
        std::string out;
        for (auto it = parts.rbegin(); it != parts.rend(); ++it) {
            if (!out.empty()) out += "::";
            out += *it;
        }
        return out;
    }
    std::string typeStr(QualType T)
    {
        if (T.isNull()) return "?";
        PrintingPolicy PP(Ctx.getLangOpts());
        PP.SuppressTagKeyword = true;
        PP.SuppressUnwrittenScope = true;
        PP.Bool = true;
        return T.getAsString(PP);
    }

    // ------------------------------------------------------------------ expressions
    static const Expr* strip(const Expr* e)
    {
        while (e) {
            if (auto* x = dyn_cast<ParenExpr>(e)) { e = x->getSubExpr(); continue; }
            if (auto* x = dyn_cast<ImplicitCastExpr>(e)) { e = x->getSubExpr(); continue; }
            if (auto* x = dyn_cast<FullExpr>(e)) { e = x->getSubExpr(); continue; }
            if (auto* x = dyn_cast<MaterializeTemporaryExpr>(e)) { e = x->getSubExpr(); continue; }
            if (auto* x = dyn_cast<CXXBindTemporaryExpr>(e)) { e = x->getSubExpr(); continue; }
            if (auto* x = dyn_cast<SubstNonTypeTemplateParmExpr>(e)) { e = x->getReplacement(); continue; }
            if (auto* x = dyn_cast<CXXDefaultInitExpr>(e)) { e = x->getExpr(); continue; }
            if (auto* x = dyn_cast<OpaqueValueExpr>(e)) { if (x->getSourceExpr()) { e = x->getSourceExpr(); continue; } }
            if (auto* x = dyn_cast<CXXStdInitializerListExpr>(e)) { e = x->getSubExpr(); continue; }
            break;
        }
        return e;
    }

    json::Value mkInt(const llvm::APSInt& v)
    {
        if (v.isSigned() ? v.isSignedIntN(63) : v.isIntN(62)) return json::Value((int64_t)v.getExtValue());
        llvm::SmallString<40> s; v.toString(s, 10);
        return json::Value(std::string(s.str())); // big values as decimal strings
    }

    json::Value E(const Expr* e0)
    {
        if (!e0) return json::Array{"none"};
        // constant folding first (on the expression including implicit conversions)
        const Expr* e = strip(e0);
        if (!e) return json::Array{"none"};
        if (auto* b = dyn_cast<CXXBoolLiteralExpr>(e)) return json::Array{"bool", b->getValue()};
        if (auto* dr = dyn_cast<DeclRefExpr>(e)) {
            if (auto* ec = dyn_cast<EnumConstantDecl>(dr->getDecl()))
                return json::Array{"enum", qname(ec), mkInt(ec->getInitVal())};
        }
        if (!e0->getType().isNull() && !e0->isValueDependent() && !e0->isTypeDependent() && !e0->containsErrors() &&
            e0->getType()->isIntegralOrEnumerationType() && !isa<InitListExpr>(e)) {
            Expr::EvalResult R;
            if (e0->EvaluateAsInt(R, Ctx, Expr::SE_NoSideEffects)) {
                json::Array a{"int", mkInt(R.Val.getInt())};
                if (auto* dr = dyn_cast<DeclRefExpr>(e)) a.push_back(qname(dr->getDecl()));
                else if (auto* me = dyn_cast<MemberExpr>(e)) a.push_back(qname(me->getMemberDecl()));
                return std::move(a);
            }
        }
        return EE(e);
    }

    json::Value args(json::Array a, llvm::ArrayRef<const Expr*> as)
    {
        for (auto* x : as) {
            if (auto* d = dyn_cast_or_null<CXXDefaultArgExpr>(x)) a.push_back(json::Array{"defarg", E(d->getExpr())});
            else a.push_back(E(x));
        }
        return std::move(a);
    }

    static std::string opSpelling(OverloadedOperatorKind k) { return getOperatorSpelling(k); }

    json::Value declRef(const ValueDecl* D)
    {
        if (auto* P = dyn_cast<ParmVarDecl>(D)) return json::Array{"param", P->getNameAsString()};
        if (auto* V = dyn_cast<VarDecl>(D)) {
            if (V->isLocalVarDecl() && !V->isStaticLocal()) return json::Array{"local", V->getNameAsString()};
            if (V->isStaticLocal()) return json::Array{"global", qname(V)};
            return json::Array{"global", qname(V)};
        }
        if (auto* B = dyn_cast<BindingDecl>(D)) return json::Array{"local", B->getNameAsString()};
        if (auto* F = dyn_cast<FunctionDecl>(D)) return json::Array{"fn", qname(F)};
        if (auto* EC = dyn_cast<EnumConstantDecl>(D)) return json::Array{"enum", qname(EC), mkInt(EC->getInitVal())};
        if (auto* NT = dyn_cast<NonTypeTemplateParmDecl>(D)) return json::Array{"tparam", NT->getNameAsString()};
        if (auto* FD = dyn_cast<FieldDecl>(D)) return json::Array{".", json::Array{"this"}, qname(FD)};
        return json::Array{"ref", D->getNameAsString()};
    }

    json::Value EE(const Expr* e)
    {
        if (e->containsErrors()) CurRecovery = true;
        if (auto* x = dyn_cast<IntegerLiteral>(e)) { llvm::APSInt v(x->getValue(), !x->getType()->isSignedIntegerType()); return json::Array{"int", mkInt(v)}; }
        if (auto* x = dyn_cast<CharacterLiteral>(e)) return json::Array{"int", (int64_t)x->getValue()};
        if (auto* x = dyn_cast<FloatingLiteral>(e)) { llvm::SmallString<32> s; x->getValue().toString(s); return json::Array{"float", std::string(s.str())}; }
        if (auto* x = dyn_cast<StringLiteral>(e)) { if (x->getCharByteWidth() == 1) return json::Array{"str", x->getString().str()}; return json::Array{"str", "<wide>"}; }
        if (isa<CXXNullPtrLiteralExpr>(e) || isa<GNUNullExpr>(e)) return json::Array{"null"};
        if (isa<CXXThisExpr>(e)) return json::Array{"this"};
        if (auto* x = dyn_cast<PredefinedExpr>(e)) return json::Array{"str", std::string("__func__")};
        if (auto* x = dyn_cast<DeclRefExpr>(e)) return declRef(x->getDecl());
        if (auto* x = dyn_cast<MemberExpr>(e)) {
            auto* md = x->getMemberDecl();
            if (auto* V = dyn_cast<VarDecl>(md)) return json::Array{"global", qname(V)};
            if (auto* EC = dyn_cast<EnumConstantDecl>(md)) return json::Array{"enum", qname(EC), mkInt(EC->getInitVal())};
            if (auto* M = dyn_cast<CXXMethodDecl>(md)) return json::Array{"method", qname(M), E(x->getBase())};
            return json::Array{".", E(x->getBase()), qname(md)};
        }
        if (auto* x = dyn_cast<CXXRewrittenBinaryOperator>(e)) {
            auto d = x->getDecomposedForm();
            return json::Array{"b", BinaryOperator::getOpcodeStr(d.Opcode).str(), E(d.LHS), E(d.RHS)};
        }
        if (auto* x = dyn_cast<BinaryOperator>(e)) {
            return json::Array{"b", x->getOpcodeStr().str(), E(x->getLHS()), E(x->getRHS())};
        }
        if (auto* x = dyn_cast<UnaryOperator>(e)) {
            std::string op = UnaryOperator::getOpcodeStr(x->getOpcode()).str();
            if (x->isPostfix()) op = "post" + op;
            return json::Array{"u", op, E(x->getSubExpr())};
        }
        if (auto* x = dyn_cast<ConditionalOperator>(e)) {
            // assert(c) with -UNDEBUG: (c) ? void(0) : __assert_fail(...)
            if (auto* ce = dyn_cast<CallExpr>(strip(x->getFalseExpr())))
                if (auto* fd = ce->getDirectCallee())
                    if (fd->getIdentifier() && fd->getName() == "__assert_fail") return json::Array{"asserted", E(x->getCond())};
            return json::Array{"?:", E(x->getCond()), E(x->getTrueExpr()), E(x->getFalseExpr())};
        }
        if (auto* x = dyn_cast<BinaryConditionalOperator>(e)) return json::Array{"?:", E(x->getCommon()), E(x->getCommon()), E(x->getFalseExpr())};
        if (auto* x = dyn_cast<ArraySubscriptExpr>(e)) return json::Array{"idx", E(x->getBase()), E(x->getIdx())};
        if (auto* x = dyn_cast<CXXThrowExpr>(e)) return json::Array{"throw", E(x->getSubExpr())};
        if (auto* x = dyn_cast<LambdaExpr>(e)) return json::Array{"lambda", lambdaName(x)};
        if (auto* x = dyn_cast<CXXNewExpr>(e)) {
            json::Array a{"new", typeStr(x->getAllocatedType())};
            if (auto* ce = x->getConstructExpr()) for (auto* arg : ce->arguments()) a.push_back(E(arg));
            return std::move(a);
        }
        if (auto* x = dyn_cast<CXXDeleteExpr>(e)) return json::Array{"delete", E(x->getArgument())};
        if (auto* x = dyn_cast<InitListExpr>(e)) {
            if (x->getNumInits() == 1 && x->isTransparent()) return E(x->getInit(0));
            if (x->getNumInits() == 1 && !x->getType().isNull() && !x->getType()->isRecordType() && !x->getType()->isArrayType()) return E(x->getInit(0));
            json::Array a{"init", typeStr(x->getType())};
            for (auto* i : x->inits()) a.push_back(E(i));
            return std::move(a);
        }
        if (auto* x = dyn_cast<CXXConstructExpr>(e)) {
            auto* cd = x->getConstructor();
            if (cd->isCopyOrMoveConstructor() && x->getNumArgs() == 1) return E(x->getArg(0));
            json::Array a{"ctor", qname(cd->getParent())};
            std::vector<const Expr*> as(x->arg_begin(), x->arg_end());
            return args(std::move(a), as);
        }
        if (auto* x = dyn_cast<CXXInheritedCtorInitExpr>(e)) return json::Array{"ctor", qname(x->getConstructor()->getParent())};
        if (auto* x = dyn_cast<CXXScalarValueInitExpr>(e)) return json::Array{"ctor", typeStr(x->getType())};
        if (auto* x = dyn_cast<ExplicitCastExpr>(e)) {
            const Expr* sub = strip(x->getSubExpr());
            if (sub && (isa<CXXConstructExpr>(sub) || isa<InitListExpr>(sub))) return E(sub);
            if (x->getCastKind() == CK_UserDefinedConversion || x->getCastKind() == CK_ConstructorConversion) return E(sub);
            return json::Array{"cast", typeStr(x->getType()), E(x->getSubExpr()), typeStr(x->getSubExpr()->IgnoreParenImpCasts()->getType().getCanonicalType()), typeStr(x->getType().getCanonicalType())};
        }
        if (auto* x = dyn_cast<CXXOperatorCallExpr>(e)) {
            auto k = x->getOperator();
            const FunctionDecl* fd = x->getDirectCallee();
            std::string q = fd ? qname(fd) : "?";
            unsigned n = x->getNumArgs();
            if (k == OO_Arrow && n == 1) return E(x->getArg(0));
            if (k == OO_Star && n == 1) return json::Array{"u", "*", E(x->getArg(0)), q};
            if (k == OO_Subscript && n == 2) return json::Array{"idx", E(x->getArg(0)), E(x->getArg(1)), q};
            if (k == OO_Call) {
                json::Array a{"opcall", "()", q};
                std::vector<const Expr*> as(x->arg_begin(), x->arg_end());
                return args(std::move(a), as);
            }
            if (n == 2 && (k == OO_PlusPlus || k == OO_MinusMinus)) return json::Array{"u", std::string("post") + opSpelling(k), E(x->getArg(0)), q};
            if (n == 1) return json::Array{"u", opSpelling(k), E(x->getArg(0)), q};
            if (n == 2) return json::Array{"b", opSpelling(k), E(x->getArg(0)), E(x->getArg(1)), q};
            json::Array a{"opcall", opSpelling(k), q};
            std::vector<const Expr*> as(x->arg_begin(), x->arg_end());
            return args(std::move(a), as);
        }
        if (auto* x = dyn_cast<CXXMemberCallExpr>(e)) {
            const CXXMethodDecl* md = x->getMethodDecl();
            std::vector<const Expr*> as(x->arg_begin(), x->arg_end());
            if (!md) {
                json::Array a{"icall", E(x->getCallee())};
                return args(std::move(a), as);
            }
            bool virt = md->isVirtual();
            if (virt) if (auto* me = dyn_cast<MemberExpr>(strip(x->getCallee()))) if (me->hasQualifier()) virt = false;
            json::Array a{virt ? "vcall" : "mcall", qname(md), E(x->getImplicitObjectArgument())};
            return args(std::move(a), as);
        }
        if (auto* x = dyn_cast<CallExpr>(e)) {
            std::vector<const Expr*> as(x->arg_begin(), x->arg_end());
            if (const FunctionDecl* fd = x->getDirectCallee()) {
                if (fd->getIdentifier() && fd->getName() == "inline_assertion_check" && !as.empty())
                    return json::Array{"asserted", E(as[0])};
                if (fd->getIdentifier() && fd->getName() == "__builtin_expect" && as.size() == 2) return E(as[0]);
                if (fd->getIdentifier() && (fd->getName() == "move" || fd->getName() == "forward") && as.size() == 1 &&
                    fd->isInStdNamespace()) return E(as[0]);
                json::Array a{"call", qname(fd)};
                json::Value av = args(std::move(a), as);
                // explicitly written template arguments (Using<CompactSizeFormatter<false>>(x)) as a trailing marker
                if (auto* dre = dyn_cast_or_null<DeclRefExpr>(strip(x->getCallee()))) {
                    if (dre->hasExplicitTemplateArgs()) {
                        std::string ts;
                        PrintingPolicy PP(Ctx.getLangOpts()); PP.SuppressTagKeyword = true; PP.Bool = true;
                        for (auto& tal : dre->template_arguments()) {
                            if (!ts.empty()) ts += ", ";
                            llvm::raw_string_ostream os(ts);
                            tal.getArgument().print(PP, os, /*IncludeType=*/false);
                            os.flush();
                        }
                        if (auto* arr = av.getAsArray()) arr->push_back(json::Array{"targs", ts});
                    }
                }
                return av;
            }
            const Expr* cal = strip(x->getCallee());
            if (auto* ul = dyn_cast_or_null<UnresolvedLookupExpr>(cal)) {
                json::Array a{"ucall", ul->getName().getAsString()};
                return args(std::move(a), as);
            }
            if (auto* um = dyn_cast_or_null<UnresolvedMemberExpr>(cal)) {
                json::Array a{"umcall", um->getMemberName().getAsString(), um->isImplicitAccess() ? json::Value(json::Array{"this"}) : E(um->getBase())};
                return args(std::move(a), as);
            }
            if (auto* dm = dyn_cast_or_null<CXXDependentScopeMemberExpr>(cal)) {
                json::Array a{"umcall", dm->getMember().getAsString(), dm->isImplicitAccess() ? json::Value(json::Array{"this"}) : E(dm->getBase())};
                return args(std::move(a), as);
            }
            if (auto* pd = dyn_cast_or_null<CXXPseudoDestructorExpr>(cal)) return json::Array{"other", "pseudo-dtor"};
            json::Array a{"icall", E(x->getCallee())};
            return args(std::move(a), as);
        }
        if (auto* x = dyn_cast<CXXUnresolvedConstructExpr>(e)) {
            json::Array a{"uctor", typeStr(x->getTypeAsWritten())};
            for (auto* arg : x->arguments()) a.push_back(E(arg));
            return std::move(a);
        }
        if (auto* x = dyn_cast<CXXDependentScopeMemberExpr>(e)) return json::Array{"umem", x->getMember().getAsString(), x->isImplicitAccess() ? json::Value(json::Array{"this"}) : E(x->getBase())};
        if (auto* x = dyn_cast<UnresolvedLookupExpr>(e)) return json::Array{"uref", x->getName().getAsString()};
        if (auto* x = dyn_cast<UnresolvedMemberExpr>(e)) return json::Array{"umem", x->getMemberName().getAsString(), x->isImplicitAccess() ? json::Value(json::Array{"this"}) : E(x->getBase())};
        if (auto* x = dyn_cast<DependentScopeDeclRefExpr>(e)) return json::Array{"uref", x->getDeclName().getAsString()};
        if (auto* x = dyn_cast<UnaryExprOrTypeTraitExpr>(e)) return json::Array{"sizeof", x->isArgumentType() ? typeStr(x->getArgumentType()) : std::string("expr")};
        if (auto* x = dyn_cast<CXXDefaultArgExpr>(e)) return json::Array{"defarg", E(x->getExpr())};
        if (auto* x = dyn_cast<PackExpansionExpr>(e)) return json::Array{"pack", E(x->getPattern())};
        if (auto* x = dyn_cast<CXXFoldExpr>(e)) return json::Array{"fold", BinaryOperator::getOpcodeStr(x->getOperator()).str(), x->getLHS() ? E(x->getLHS()) : json::Value(nullptr), x->getRHS() ? E(x->getRHS()) : json::Value(nullptr)};
        if (auto* x = dyn_cast<ParenListExpr>(e)) { json::Array a{"parenlist"}; for (unsigned i = 0; i < x->getNumExprs(); ++i) a.push_back(E(const_cast<ParenListExpr*>(x)->getExpr(i))); return std::move(a); }
        if (auto* x = dyn_cast<RecoveryExpr>(e)) { CurRecovery = true; json::Array a{"recovery"}; for (auto* s : x->subExpressions()) a.push_back(E(s)); return std::move(a); }
        if (auto* x = dyn_cast<ConceptSpecializationExpr>(e)) return json::Array{"other", "concept"};
        if (auto* x = dyn_cast<RequiresExpr>(e)) return json::Array{"other", "requires"};
        if (auto* x = dyn_cast<TypeTraitExpr>(e)) return json::Array{"other", "typetrait"};
        if (auto* x = dyn_cast<CXXNoexceptExpr>(e)) return json::Array{"other", "noexcept"};
        if (auto* x = dyn_cast<SizeOfPackExpr>(e)) return json::Array{"other", "sizeof..."};
        if (auto* x = dyn_cast<CXXTypeidExpr>(e)) return json::Array{"other", "typeid"};
        if (auto* x = dyn_cast<StmtExpr>(e)) return json::Array{"other", "stmtexpr"};
        if (auto* x = dyn_cast<CXXPseudoDestructorExpr>(e)) return json::Array{"other", "pseudo-dtor"};
        if (auto* x = dyn_cast<ArrayInitLoopExpr>(e)) return json::Array{"other", "arrayinit"};
        if (auto* x = dyn_cast<ImplicitValueInitExpr>(e)) return json::Array{"ctor", typeStr(x->getType())};
        if (auto* x = dyn_cast<AtomicExpr>(e)) return json::Array{"other", "atomic-builtin"};
        if (auto* x = dyn_cast<VAArgExpr>(e)) return json::Array{"other", "va_arg"};
        return json::Array{"other", std::string(e->getStmtClassName())};
    }

    std::string lambdaName(const LambdaExpr* L)
    {
        const CXXRecordDecl* RD = L->getLambdaClass();
        auto it = LambdaNames.find(RD);
        if (it != LambdaNames.end()) return it->second;
        std::string parent = CurFn.empty() ? std::string("(global)") : CurFn;
        std::string n = parent + "::lambda@" + std::to_string(lineOf(L->getBeginLoc())) + ":" + std::to_string(SM.getExpansionColumnNumber(fileLoc(L->getBeginLoc())));
        LambdaNames[RD] = n;
        if (auto* op = L->getCallOperator()) LambdaQueue.push_back({op, n});
        return n;
    }

    // ------------------------------------------------------------------ statements
    std::string CurFn;

    json::Object pos(const Stmt* s)
    {
        json::Object o;
        o["l"] = (int64_t)lineOf(s->getBeginLoc());
        std::string m = macroName(s->getBeginLoc());
        if (!m.empty()) o["m"] = m;
        return o;
    }

    json::Value varDecl(const VarDecl* V, const Stmt* at)
    {
        json::Object o = at ? pos(at) : json::Object{};
        if (!at) o["l"] = (int64_t)lineOf(V->getLocation());
        o["k"] = "decl";
        o["n"] = V->getNameAsString();
        o["ty"] = typeStr(V->getType());
        if (V->isStaticLocal()) o["static"] = true;
        if (auto* DD = dyn_cast<DecompositionDecl>(V)) {
            json::Array b;
            for (auto* bd : DD->bindings()) b.push_back(bd->getNameAsString());
            o["binds"] = std::move(b);
        }
        if (V->hasInit()) o["i"] = E(V->getInit());
        return std::move(o);
    }

    void flattenSwitchBody(const Stmt* s, json::Array& out)
    {
        if (!s) return;
        if (auto* c = dyn_cast<CompoundStmt>(s)) { for (auto* x : c->body()) flattenSwitchBody(x, out); return; }
        if (auto* c = dyn_cast<CaseStmt>(s)) {
            json::Object o = pos(c); o["k"] = "case"; o["v"] = E(c->getLHS());
            if (c->getRHS()) o["hi"] = E(c->getRHS());
            out.push_back(std::move(o));
            flattenSwitchBody(c->getSubStmt(), out);
            return;
        }
        if (auto* d = dyn_cast<DefaultStmt>(s)) {
            json::Object o = pos(d); o["k"] = "default";
            out.push_back(std::move(o));
            flattenSwitchBody(d->getSubStmt(), out);
            return;
        }
        if (auto* a = dyn_cast<AttributedStmt>(s)) { flattenSwitchBody(a->getSubStmt(), out); return; }
        // a nested compound statement inside a case keeps its own scope
        out.push_back(S(s));
    }

    json::Value S(const Stmt* s)
    {
        if (!s) return nullptr;
        if (auto* x = dyn_cast<CompoundStmt>(s)) {
            json::Object o = pos(x); o["k"] = "seq";
            json::Array a;
            for (auto* c : x->body()) { if (isa<NullStmt>(c)) continue; a.push_back(S(c)); }
            o["s"] = std::move(a);
            return std::move(o);
        }
        if (auto* x = dyn_cast<AttributedStmt>(s)) return S(x->getSubStmt());
        if (auto* x = dyn_cast<IfStmt>(s)) {
            json::Object o = pos(x); o["k"] = "if";
            if (x->isConstexpr()) o["constexpr"] = true;
            if (x->getInit()) o["init"] = S(x->getInit());
            if (auto* v = x->getConditionVariable()) o["var"] = varDecl(v, nullptr);
            o["c"] = E(x->getCond());
            o["t"] = S(x->getThen());
            if (x->getElse()) o["e"] = S(x->getElse());
            return std::move(o);
        }
        if (auto* x = dyn_cast<ForStmt>(s)) {
            json::Object o = pos(x); o["k"] = "for";
            if (x->getInit()) o["init"] = S(x->getInit());
            if (x->getCond()) o["c"] = E(x->getCond());
            if (x->getInc()) o["inc"] = E(x->getInc());
            o["b"] = S(x->getBody());
            return std::move(o);
        }
        if (auto* x = dyn_cast<CXXForRangeStmt>(s)) {
            json::Object o = pos(x); o["k"] = "foreach";
            if (x->getInit()) o["init"] = S(x->getInit());
            if (auto* v = x->getLoopVariable()) {
                json::Object vo; vo["n"] = v->getNameAsString(); vo["ty"] = typeStr(v->getType());
                if (auto* DD = dyn_cast<DecompositionDecl>(v)) { json::Array b; for (auto* bd : DD->bindings()) b.push_back(bd->getNameAsString()); vo["binds"] = std::move(b); }
                o["var"] = std::move(vo);
            }
            o["range"] = E(x->getRangeInit());
            o["b"] = S(x->getBody());
            return std::move(o);
        }
        if (auto* x = dyn_cast<WhileStmt>(s)) {
            json::Object o = pos(x); o["k"] = "while";
            if (auto* v = x->getConditionVariable()) o["var"] = varDecl(v, nullptr);
            o["c"] = E(x->getCond()); o["b"] = S(x->getBody());
            return std::move(o);
        }
        if (auto* x = dyn_cast<DoStmt>(s)) {
            json::Object o = pos(x); o["k"] = "do";
            o["c"] = E(x->getCond()); o["b"] = S(x->getBody());
            return std::move(o);
        }
        if (auto* x = dyn_cast<SwitchStmt>(s)) {
            json::Object o = pos(x); o["k"] = "switch";
            if (x->getInit()) o["init"] = S(x->getInit());
            o["c"] = E(x->getCond());
            o["cty"] = typeStr(x->getCond()->IgnoreParenImpCasts()->getType());
            json::Array items; flattenSwitchBody(x->getBody(), items);
            o["s"] = std::move(items);
            return std::move(o);
        }
        if (auto* x = dyn_cast<ReturnStmt>(s)) {
            json::Object o = pos(x); o["k"] = "ret";
            if (x->getRetValue()) o["v"] = E(x->getRetValue());
            return std::move(o);
        }
        if (isa<BreakStmt>(s)) { json::Object o = pos(s); o["k"] = "break"; return std::move(o); }
        if (isa<ContinueStmt>(s)) { json::Object o = pos(s); o["k"] = "continue"; return std::move(o); }
        if (auto* x = dyn_cast<DeclStmt>(s)) {
            json::Array ds;
            for (auto* d : x->decls()) {
                if (auto* v = dyn_cast<VarDecl>(d)) ds.push_back(varDecl(v, x));
            }
            if (ds.size() == 1) return std::move(ds[0]);
            json::Object o = pos(x); o["k"] = "seq"; o["flat"] = true; o["s"] = std::move(ds);
            return std::move(o);
        }
        if (auto* x = dyn_cast<CXXTryStmt>(s)) {
            json::Object o = pos(x); o["k"] = "try";
            o["b"] = S(x->getTryBlock());
            json::Array hs;
            for (unsigned i = 0; i < x->getNumHandlers(); ++i) {
                auto* h = x->getHandler(i);
                json::Object ho = pos(h);
                ho["ty"] = h->getExceptionDecl() ? typeStr(h->getCaughtType()) : std::string("...");
                if (h->getExceptionDecl()) ho["n"] = h->getExceptionDecl()->getNameAsString();
                ho["b"] = S(h->getHandlerBlock());
                hs.push_back(std::move(ho));
            }
            o["h"] = std::move(hs);
            return std::move(o);
        }
        if (isa<GotoStmt>(s) || isa<LabelStmt>(s) || isa<IndirectGotoStmt>(s)) {
            CurGoto = true;
            json::Object o = pos(s); o["k"] = "goto";
            if (auto* l = dyn_cast<LabelStmt>(s)) { o["k"] = "label"; o["b"] = S(l->getSubStmt()); }
            return std::move(o);
        }
        if (isa<NullStmt>(s)) { json::Object o = pos(s); o["k"] = "seq"; o["s"] = json::Array{}; return std::move(o); }
        if (auto* x = dyn_cast<Expr>(s)) {
            json::Object o = pos(x);
            const Expr* st = strip(x);
            if (st && isa<CXXThrowExpr>(st)) { o["k"] = "throw"; o["v"] = E(cast<CXXThrowExpr>(st)->getSubExpr()); return std::move(o); }
            o["k"] = "expr"; o["e"] = E(x);
            return std::move(o);
        }
        if (auto* x = dyn_cast<CoreturnStmt>(s)) { json::Object o = pos(s); o["k"] = "ret"; return std::move(o); }
        json::Object o = pos(s); o["k"] = "other"; o["cls"] = std::string(s->getStmtClassName());
        return std::move(o);
    }

    // ------------------------------------------------------------------ attributes
    std::string attrText(const Attr* A)
    {
        std::string s; llvm::raw_string_ostream os(s);
        PrintingPolicy PP(Ctx.getLangOpts());
        A->printPretty(os, PP);
        os.flush();
        // trim
        size_t b = s.find_first_not_of(' ');
        if (b != std::string::npos) s = s.substr(b);
        return s;
    }
    std::string exprStr(const Expr* e)
    {
        if (!e) return "";
        std::string s; llvm::raw_string_ostream os(s);
        PrintingPolicy PP(Ctx.getLangOpts());
        e->printPretty(os, nullptr, PP);
        os.flush();
        return s;
    }
    template <class It> std::string argList(It b, It e)
    {
        std::string out;
        for (auto it = b; it != e; ++it) { if (!out.empty()) out += ", "; out += exprStr(*it); }
        return out;
    }
    json::Array tsaAttrs(const Decl* D)
    {
        json::Array a;
        for (auto* at : D->attrs()) {
            if (auto* x = dyn_cast<GuardedByAttr>(at)) a.push_back("guarded_by(" + exprStr(x->getArg()) + ")");
            else if (auto* x = dyn_cast<PtGuardedByAttr>(at)) a.push_back("pt_guarded_by(" + exprStr(x->getArg()) + ")");
            else if (auto* x = dyn_cast<RequiresCapabilityAttr>(at)) a.push_back(std::string(x->isShared() ? "requires_shared_capability(" : "requires_capability(") + argList(x->args_begin(), x->args_end()) + ")");
            else if (auto* x = dyn_cast<LocksExcludedAttr>(at)) a.push_back("locks_excluded(" + argList(x->args_begin(), x->args_end()) + ")");
            else if (auto* x = dyn_cast<AcquireCapabilityAttr>(at)) a.push_back("acquire_capability(" + argList(x->args_begin(), x->args_end()) + ")");
            else if (auto* x = dyn_cast<ReleaseCapabilityAttr>(at)) a.push_back("release_capability(" + argList(x->args_begin(), x->args_end()) + ")");
            else if (auto* x = dyn_cast<TryAcquireCapabilityAttr>(at)) a.push_back("try_acquire_capability(" + argList(x->args_begin(), x->args_end()) + ")");
            else if (auto* x = dyn_cast<AssertCapabilityAttr>(at)) a.push_back("assert_capability(" + argList(x->args_begin(), x->args_end()) + ")");
            else if (auto* x = dyn_cast<AcquiredAfterAttr>(at)) a.push_back("acquired_after(" + argList(x->args_begin(), x->args_end()) + ")");
            else if (auto* x = dyn_cast<AcquiredBeforeAttr>(at)) a.push_back("acquired_before(" + argList(x->args_begin(), x->args_end()) + ")");
            else if (auto* x = dyn_cast<LockReturnedAttr>(at)) a.push_back("lock_returned(" + exprStr(x->getArg()) + ")");
            else if (isa<NoThreadSafetyAnalysisAttr>(at)) a.push_back(std::string("no_thread_safety_analysis"));
            else if (isa<ScopedLockableAttr>(at)) a.push_back(std::string("scoped_lockable"));
            else if (isa<CapabilityAttr>(at)) a.push_back(std::string("capability"));
            else if (isa<WarnUnusedResultAttr>(at)) a.push_back(std::string("nodiscard"));
        }
        return a;
    }

    // ------------------------------------------------------------------ declarations
    void emitFunction(const FunctionDecl* FD, const std::string& forcedName = "")
    {
        if (!FD->doesThisDeclarationHaveABody()) return;
        if (!inRoots(FD->getLocation())) return;
        std::string file = fileOf(FD->getLocation());
        unsigned line = lineOf(FD->getLocation());
        bool dependent = FD->isDependentContext();
        std::string q = forcedName.empty() ? qname(FD) : forcedName;
        std::string key = file + ":" + std::to_string(line) + ":" + q;
        // prefer instantiations over dependent patterns: patterns are emitted in a second pass
        if (SeenFn.count(key)) return;
        SeenFn.insert(key);

        std::string saveFn = CurFn; bool saveRec = CurRecovery, saveGoto = CurGoto;
        CurFn = q; CurRecovery = false; CurGoto = false;

        json::Object o;
        o["q"] = q;
        o["file"] = file;
        o["l"] = (int64_t)line;
        o["end"] = (int64_t)lineOf(FD->getEndLoc());
        o["ret"] = typeStr(FD->getReturnType());
        json::Array ps;
        for (auto* p : FD->parameters()) {
            json::Object po; po["n"] = p->getNameAsString(); po["ty"] = typeStr(p->getType());
            if (p->hasDefaultArg() && !p->hasUninstantiatedDefaultArg() && !p->hasUnparsedDefaultArg()) po["def"] = E(p->getDefaultArg());
            ps.push_back(std::move(po));
        }
        o["params"] = std::move(ps);
        if (dependent) o["dep"] = true;
        if (FD->getTemplatedKind() == FunctionDecl::TK_FunctionTemplateSpecialization || FD->getTemplatedKind() == FunctionDecl::TK_MemberSpecialization ||
            (isa<CXXMethodDecl>(FD) && isa<ClassTemplateSpecializationDecl>(cast<CXXMethodDecl>(FD)->getParent()))) {
            o["inst"] = true;
        }
        if (auto* MD = dyn_cast<CXXMethodDecl>(FD)) {
            o["cls"] = qname(MD->getParent());
            if (MD->isConst()) o["const"] = true;
            if (MD->isStatic()) o["static"] = true;
            if (MD->isVirtual()) {
                o["virt"] = true;
                json::Array ov;
                for (auto* om : MD->overridden_methods()) ov.push_back(qname(om));
                o["ov"] = std::move(ov);
            }
        }
        json::Array at = tsaAttrs(FD);
        // attributes may sit on the declaration rather than the definition
        for (auto* R : FD->redecls()) if (R != FD) for (auto& v : tsaAttrs(R)) at.push_back(v);
        if (!at.empty()) o["attrs"] = std::move(at);
        if (auto* CD = dyn_cast<CXXConstructorDecl>(FD)) {
            json::Array inits;
            for (auto* ci : CD->inits()) {
                json::Object io;
                if (ci->isAnyMemberInitializer()) io["f"] = qname(ci->getAnyMember());
                else if (ci->isBaseInitializer()) io["base"] = typeStr(QualType(ci->getBaseClass(), 0));
                else if (ci->isDelegatingInitializer()) io["delegating"] = true;
                io["written"] = ci->isWritten();
                io["i"] = E(ci->getInit());
                io["l"] = (int64_t)lineOf(ci->getSourceLocation());
                inits.push_back(std::move(io));
            }
            o["inits"] = std::move(inits);
        }
        o["body"] = S(FD->getBody());
        if (CurRecovery) o["recovery"] = true;
        if (CurGoto) o["goto"] = true;
        Functions.push_back(std::move(o));
        CurFn = saveFn; CurRecovery = saveRec; CurGoto = saveGoto;
        drainLambdas();
    }

    void drainLambdas()
    {
        while (!LambdaQueue.empty()) {
            auto item = LambdaQueue.back(); LambdaQueue.pop_back();
            emitFunction(item.first, item.second);
        }
    }

    void emitRecord(const CXXRecordDecl* RD)
    {
        if (!RD->isThisDeclarationADefinition() || RD->isLambda()) return;
        if (!inRoots(RD->getLocation())) return;
        if (RD->isDependentContext() && isa<ClassTemplatePartialSpecializationDecl>(RD)) return;
        std::string q = qname(RD);
        std::string key = fileOf(RD->getLocation()) + ":" + std::to_string(lineOf(RD->getLocation())) + ":" + q;
        if (SeenRec.count(key)) return;
        SeenRec.insert(key);
        json::Object o;
        o["q"] = q; o["file"] = fileOf(RD->getLocation()); o["l"] = (int64_t)lineOf(RD->getLocation());
        json::Array bases;
        if (!RD->isDependentContext() || true) {
            for (auto& b : RD->bases()) bases.push_back(typeStr(b.getType()));
        }
        o["bases"] = std::move(bases);
        json::Array fields;
        for (auto* f : RD->fields()) {
            json::Object fo; fo["n"] = f->getNameAsString(); fo["ty"] = typeStr(f->getType());
            fo["l"] = (int64_t)lineOf(f->getLocation());
            if (f->isMutable()) fo["mutable"] = true;
            json::Array a = tsaAttrs(f);
            if (!a.empty()) fo["attrs"] = std::move(a);
            if (f->hasInClassInitializer() && f->getInClassInitializer()) fo["i"] = E(f->getInClassInitializer());
            fields.push_back(std::move(fo));
        }
        o["fields"] = std::move(fields);
        json::Array statics;
        for (auto* d : RD->decls()) {
            if (auto* v = dyn_cast<VarDecl>(d)) {
                json::Object so; so["n"] = v->getNameAsString(); so["ty"] = typeStr(v->getType());
                json::Array a = tsaAttrs(v);
                if (!a.empty()) so["attrs"] = std::move(a);
                statics.push_back(std::move(so));
            }
        }
        if (!statics.empty()) o["statics"] = std::move(statics);
        json::Array methods;
        for (auto* m : RD->methods()) {
            if (m->isImplicit()) continue;
            json::Object mo; mo["n"] = m->getNameAsString();
            mo["l"] = (int64_t)lineOf(m->getLocation());
            if (m->isVirtual()) mo["virt"] = true;
            if (m->isConst()) mo["const"] = true;
            if (m->isPure()) mo["pure"] = true;
            if (m->isDeleted()) mo["deleted"] = true;
            json::Array ps; for (auto* p : m->parameters()) ps.push_back(typeStr(p->getType()));
            mo["params"] = std::move(ps);
            json::Array a = tsaAttrs(m);
            if (!a.empty()) mo["attrs"] = std::move(a);
            methods.push_back(std::move(mo));
        }
        o["methods"] = std::move(methods);
        Records.push_back(std::move(o));
    }

    void emitEnum(const EnumDecl* ED)
    {
        if (!ED->isThisDeclarationADefinition()) return;
        if (!inRoots(ED->getLocation())) return;
        std::string q = qname(ED);
        std::string key = fileOf(ED->getLocation()) + ":" + std::to_string(lineOf(ED->getLocation()));
        if (SeenEnum.count(key)) return;
        SeenEnum.insert(key);
        json::Object o; o["q"] = q; o["file"] = fileOf(ED->getLocation()); o["l"] = (int64_t)lineOf(ED->getLocation());
        o["scoped"] = ED->isScoped();
        json::Array vs;
        for (auto* ec : ED->enumerators()) vs.push_back(json::Array{ec->getNameAsString(), mkInt(ec->getInitVal())});
        o["values"] = std::move(vs);
        Enums.push_back(std::move(o));
    }

    bool unwrapInt(const APValue& v, llvm::APSInt& out, int depth = 0)
    {
        if (v.isInt()) { out = v.getInt(); return true; }
        if (depth > 3) return false;
        if (v.isStruct() && v.getStructNumBases() == 0 && v.getStructNumFields() == 1) return unwrapInt(v.getStructField(0), out, depth + 1);
        if (v.isStruct() && v.getStructNumBases() == 1 && v.getStructNumFields() == 0) return unwrapInt(v.getStructBase(0), out, depth + 1);
        return false;
    }

    void emitConst(const VarDecl* V)
    {
        if (V->isLocalVarDecl() || isa<ParmVarDecl>(V)) return;
        if (!inRoots(V->getLocation())) return;
        if (V->isTemplated() || V->getType()->isDependentType()) return;
        QualType T = V->getType();
        if (!T.isConstQualified() && !V->isConstexpr()) return;
        if (!T->isIntegralOrEnumerationType() && !T->isRecordType()) return;
        if (T->isRecordType() && !V->isConstexpr()) return;
        const Expr* init = V->getAnyInitializer();
        if (!init || init->isValueDependent() || init->containsErrors()) return;
        if (const APValue* val = V->evaluateValue()) {
            llvm::APSInt iv;
            if (unwrapInt(*val, iv)) Consts[qname(V)] = mkInt(iv);
        }
    }
};

class Visitor : public RecursiveASTVisitor<Visitor> {
public:
    Extractor& X;
    std::vector<const FunctionDecl*> Patterns;
    explicit Visitor(Extractor& x) : X(x) {}
    bool shouldVisitTemplateInstantiations() const { return true; }
    bool shouldVisitImplicitCode() const { return false; }
    bool VisitFunctionDecl(FunctionDecl* FD)
    {
        if (!FD->doesThisDeclarationHaveABody()) return true;
        if (auto* MD = dyn_cast<CXXMethodDecl>(FD)) if (MD->getParent()->isLambda()) return true; // via LambdaQueue
        if (FD->isDependentContext()) { Patterns.push_back(FD); return true; }
        X.emitFunction(FD);
        return true;
    }
    bool VisitCXXRecordDecl(CXXRecordDecl* RD) { X.emitRecord(RD); return true; }
    bool VisitEnumDecl(EnumDecl* ED) { X.emitEnum(ED); return true; }
    bool VisitVarDecl(VarDecl* V) { X.emitConst(V); return true; }
};

class DiagCollector : public DiagnosticConsumer {
public:
    std::vector<ErrRec>& Errs;
    explicit DiagCollector(std::vector<ErrRec>& e) : Errs(e) {}
    void HandleDiagnostic(DiagnosticsEngine::Level L, const Diagnostic& Info) override
    {
        DiagnosticConsumer::HandleDiagnostic(L, Info);
        if (L < DiagnosticsEngine::Error) return;
        llvm::SmallString<256> msg; Info.FormatDiagnostic(msg);
        ErrRec r; r.msg = std::string(msg.str()); r.line = 0;
        if (Info.hasSourceManager() && Info.getLocation().isValid()) {
            auto& SM = Info.getSourceManager();
            auto loc = SM.getExpansionLoc(Info.getLocation());
            r.file = SM.getFilename(loc).str();
            r.line = SM.getExpansionLineNumber(loc);
        }
        Errs.push_back(r);
    }
};

class Consumer : public ASTConsumer {
public:
    std::vector<ErrRec>& Errs;
    std::string Main;
    explicit Consumer(std::vector<ErrRec>& e, std::string m) : Errs(e), Main(std::move(m)) {}
    void HandleTranslationUnit(ASTContext& Ctx) override
    {
        Extractor X(Ctx, Errs);
        Visitor V(X);
        V.TraverseDecl(Ctx.getTranslationUnitDecl());
        // dependent patterns that were never instantiated in this unit
        for (auto* FD : V.Patterns) X.emitFunction(FD);
        X.drainLambdas();

        json::Object root;
        root["unit"] = Main;
        json::Array errs;
        for (auto& e : Errs) { json::Object eo; eo["file"] = e.file; eo["line"] = (int64_t)e.line; eo["msg"] = e.msg; errs.push_back(std::move(eo)); }
        root["errors"] = std::move(errs);
        // mark degraded functions: an error location inside the function's range
        for (auto& fv : X.Functions) {
            auto* fo = fv.getAsObject();
            auto file = fo->getString("file"); auto l = fo->getInteger("l"); auto en = fo->getInteger("end");
            for (auto& e : Errs) if (file && e.file == file->str() && (int64_t)e.line >= *l && (int64_t)e.line <= *en) { (*fo)["degraded"] = e.msg; break; }
        }
        root["functions"] = std::move(X.Functions);
        root["records"] = std::move(X.Records);
        root["enums"] = std::move(X.Enums);
        root["consts"] = std::move(X.Consts);
        json::Array deps;
        auto& SM = Ctx.getSourceManager();
        std::set<std::string> seen;
        for (auto it = SM.fileinfo_begin(); it != SM.fileinfo_end(); ++it) {
            std::string n = it->first->getName().str();
            if (n.compare(0, 1, "/") != 0) continue;
            if (n.compare(0, 5, "/usr/") == 0) continue;
            if (seen.insert(n).second) deps.push_back(n);
        }
        root["deps"] = std::move(deps);
        std::error_code EC;
        llvm::raw_fd_ostream os(g_out, EC);
        if (EC) { llvm::errs() << "cannot write " << g_out << "\n"; return; }
        os << json::Value(std::move(root));
    }
};

class Action : public ASTFrontendAction {
public:
    std::vector<ErrRec> Errs;
    std::unique_ptr<ASTConsumer> CreateASTConsumer(CompilerInstance& CI, StringRef file) override
    {
        CI.getDiagnostics().setClient(new DiagCollector(Errs), /*ShouldOwnClient=*/true);
        CI.getDiagnostics().setErrorLimit(0);
        return std::make_unique<Consumer>(Errs, file.str());
    }
};

} // namespace

int main(int argc, const char** argv)
{
    std::string source;
    std::vector<std::string> flags;
    int i = 1;
    for (; i < argc; ++i) {
        std::string a = argv[i];
        if (a == "--") { ++i; break; }
        if (a == "-o" && i + 1 < argc) { g_out = argv[++i]; continue; }
        if (a == "--root" && i + 1 < argc) { g_roots.push_back(argv[++i]); continue; }
        if (a == "--map" && i + 1 < argc) {
            std::string m = argv[++i];
            auto eq = m.find('=');
            if (eq != std::string::npos) g_maps.push_back({m.substr(0, eq), m.substr(eq + 1)});
            continue;
        }
        source = a;
    }
    for (; i < argc; ++i) flags.push_back(argv[i]);
    if (source.empty() || g_out.empty()) { llvm::errs() << "usage: bcfacts <source> -o <out.json> [--root dir]... -- <flags>\n"; return 2; }
    if (g_roots.empty()) g_roots.push_back("/repo/src");
    clang::tooling::FixedCompilationDatabase db(".", flags);
    clang::tooling::ClangTool tool(db, {source});
    std::vector<std::string> contents; contents.reserve(g_maps.size());
    for (auto& m : g_maps) {
        auto buf = llvm::MemoryBuffer::getFile(m.second);
        if (!buf) { llvm::errs() << "cannot read " << m.second << "\n"; return 2; }
        contents.push_back((*buf)->getBuffer().str());
        tool.mapVirtualFile(m.first, contents.back());
    }
    class Factory : public clang::tooling::FrontendActionFactory {
    public:
        std::unique_ptr<FrontendAction> create() override { return std::make_unique<Action>(); }
    } factory;
    tool.run(&factory);
    // exit status 0 even with front-end errors: they are recorded in the output
    return 0;
}
