#!/bin/bash
# usage: tools/run_all_seeds.sh [jobs]
# Runs every kept seeded breakage (seeded/<id>/patch.diff) against the check of its own property through a source overlay
# (/repo untouched) and prints CAUGHT / MISSED / BROKEN per seed.  All must be CAUGHT.
cd /verif
ls seeded | xargs -P "${1:-5}" -I{} sh -c 'p=$(python3 -c "import json;print(json.load(open(\"seeded/{}/meta.json\"))[\"property\"])"); out=$(tools/check_with_patch.sh seeded/{}/patch.diff $p 2>&1); if echo "$out" | grep -q "^VIOLATION"; then echo "CAUGHT {} $p"; elif echo "$out" | grep -q "^ANALYSIS"; then echo "BROKEN {} $p"; else echo "MISSED {} $p"; fi' | sort
