"""C28 Test-accept is faithful and side-effect free; policy implies consensus (DESIGN §3 C28)."""
import re

from sa.engine.api import *
from sa.engine import callgraph
from sa.rules._helpers_D import *

UNITS = ["validation.cpp", "kernel/chainparams.cpp"]
EXPLANATION = ("EFFECT/CALLGRAPH: in MemPoolAccept::AcceptSingleTransactionInternal every call site whose path condition is compatible with "
               "args.m_test_accept == true is a start node; over the whole-program call graph no start reaches a function that writes the mempool's committed "
               "state (mapTx, mapNextTx, totals, sequence number, prioritisation map, unbroadcast set; the set of writers is derived from the facts), nor "
               "CTxMemPool::Apply / ChangeSet::Apply / LimitMempoolSize / TrimToSize / TransactionAddedToMempool; staged (TxGraph staging) changes made by the "
               "checks are discarded: AcceptSingleTransactionAndCleanup always calls ClearSubPackageState, which replaces m_subpackage, and ~ChangeSet aborts "
               "staging. FAITHFUL: the path condition of the test-accept VALID exit equals the path condition of the commit (FinalizeSubpackage) with only the "
               "m_test_accept literal flipped; no check call and no rejection before the commit is control-dependent on m_test_accept; no other MemPoolAccept "
               "function reads the flag; SingleAccept / AcceptToMemoryPool wire the caller's flag. POLICY=>CONSENSUS: commit and VALID are past PolicyScriptChecks "
               "then ConsensusScriptChecks, PolicyScriptChecks verifies with STANDARD_SCRIPT_VERIFY_FLAGS, ConsensusScriptChecks with GetBlockScriptFlags(tip), and "
               "every flag GetBlockScriptFlags can set (incl. the chain parameters' exception entries) is contained in STANDARD_SCRIPT_VERIFY_FLAGS.")
ASSUMPTIONS = ["calls through std::function objects are resolved via the function references that create them (call-graph convention)",
               "TxGraph staging operations (AddTransaction/RemoveTransaction/AddDependency/SetTransactionFee while staging exists) do not alter the main graph until CommitStaging",
               "CTxMemPool::GetMinFee's rolling-fee decay (mutable cache fields) is not mempool content",
               "script verification is monotone in its flags (C11): more flags never accept more"]
CLAIM = dict(
    technique="static analysis: call-graph region reachability from path-condition-selected call sites, guard-formula cofactor comparison, argument provenance, flag-set inclusion",
    text="For all paths of single-transaction acceptance: with test_accept set, no function that writes committed mempool state, trims, applies a changeset or "
         "notifies TransactionAddedToMempool is reachable, and staged changes are aborted; the condition for answering VALID in test mode is the condition for "
         "committing in submit mode (same checks, same order, none depending on the flag), so verdicts can differ only by the post-commit 'mempool full' rung; "
         "a transaction passing PolicyScriptChecks is checked by ConsensusScriptChecks under a subset of the policy flags. A test samples transactions.",
    note="Not decided: verdict equality as a semantic fact (the checks are treated as deterministic functions of unchanged state); coins-cache contents (test-accept "
         "may leave fetched coins in the UTXO cache); package test-accept (outside the property statement) is only covered by the reachability clause for its "
         "Success results.",
    ref="DESIGN.md §3 C28")

TESTK = "args.m_test_accept"
TFIELD = "MemPoolAccept::ATMPArgs::m_test_accept"
STATE_FIELDS = ["mapTx", "mapNextTx", "totalTxSize", "m_total_fee", "cachedInnerUsage", "txns_randomized", "mapDeltas", "m_unbroadcast_txids",
                "m_sequence_number", "nTransactionsUpdated"]
MUTATING = {"insert", "erase", "emplace", "emplace_back", "emplace_hint", "push_back", "pop_back", "clear", "modify", "extract", "swap", "operator[]",
            "try_emplace", "insert_or_assign", "merge", "replace"}
FIXED_MUTATORS = ["CTxMemPool::Apply", "CTxMemPool::ChangeSet::Apply", "LimitMempoolSize", "CTxMemPool::TrimToSize", "CTxMemPool::Expire",
                  "ValidationSignals::TransactionAddedToMempool", "MemPoolAccept::FinalizeSubpackage", "MemPoolAccept::SubmitPackage",
                  "CTxMemPool::removeUnchecked", "CTxMemPool::addNewTransaction", "CTxMemPool::RemoveStaged", "CTxMemPool::GetAndIncrementSequence"]


def mutators(cg):
    out = {}
    for n in STATE_FIELDS:
        fq = "CTxMemPool::" + n
        for q, _, _ in cg.writers(fq):
            if q != "CTxMemPool::CTxMemPool":
                out.setdefault(q, "writes " + fq)
        for q, _, m, _ in cg.field_calls(fq):
            if m.rsplit("::", 1)[-1] in MUTATING:
                out.setdefault(q, "%s.%s" % (fq, m.rsplit("::", 1)[-1]))
    for q, _, m, _ in cg.field_calls("CTxMemPool::m_txgraph"):
        if m.rsplit("::", 1)[-1] in ("CommitStaging", "Trim"):
            out.setdefault(q, "m_txgraph." + m.rsplit("::", 1)[-1])
    for q in FIXED_MUTATORS:
        if not cg.defined(q):
            raise AnalysisBroken("mutation primitive %s not found in the program" % q)
        out.setdefault(q, "primitive")
    return out


def check(ctx):
    P = ctx.program(UNITS)
    cg = callgraph.load_all()
    mut = mutators(cg)
    ctx.floor("mempool mutators derived from facts", len(mut), 12)
    ctx.extra["mutators"] = sorted(mut)
    _side_effect_free(ctx, P, cg, mut)
    _faithful(ctx, P)
    _wiring(ctx, P)
    _policy_consensus(ctx, P)


def _compatible_calls(f, P, sub, testatom):
    """call sites of f not excluded by m_test_accept == true"""
    out = []
    for s in all_sites(f, P):
        if s.expr is not None and callee(s.expr):
            if not F.implies(s.formula(sub), F.mk_not(testatom)):
                out.append(s)
    return out


def _side_effect_free(ctx, P, cg, mut):
    for q, floor in (("MemPoolAccept::AcceptSingleTransactionInternal", 15), ("MemPoolAccept::AcceptMultipleTransactionsInternal", 15)):
        f = inline_condvars(ctx.used(P.fn(q)))
        sub = naming(f, P)
        short = q.rsplit("::", 1)[-1]
        reads = [s for s in sites(f, lambda e: match([".", ANY, TFIELD], e), P)]
        ctx.floor("%s reads of m_test_accept" % short, len(reads), 1)
        ss = _compatible_calls(f, P, sub, F.atom(TESTK))
        ctx.floor("%s call sites compatible with test_accept" % short, len(ss), floor)
        starts = {}
        for s in ss:
            c = callee(s.expr)
            starts.setdefault(c, s)
            if s.expr[0] == "vcall":
                for o in cg.overriders.get(c, ()):
                    starts.setdefault(o, s)
        direct = sorted(c for c in starts if c in mut)
        ctx.ob("%s/test-accept/direct" % short, "EFFECT", "no call site of %s that can execute with m_test_accept == true calls a mempool-mutating function" % q,
               not direct, starts[direct[0]].where if direct else f.where, {"calls": direct} if direct else None)
        seen = cg.reach(set(starts))
        hit = sorted(m for m in mut if m in seen)
        ctx.ob("%s/test-accept/reach" % short, "CALLGRAPH", "from the call sites of %s that can execute with m_test_accept == true no call path reaches a function that "
               "writes committed mempool state, applies a changeset, trims the mempool or signals TransactionAddedToMempool" % q, not hit, f.where,
               None if not hit else {"reached": [(h, mut[h]) for h in hit[:6]], "path": cg.path(seen, hit[0])})
        ctx.extra["reach_size_" + short] = len(seen)
        # direct field effects on m_pool in the function itself (none expected: all access is through member functions)
        # opaque edges inside the reach set are listed for the record
        ctx.extra["opaque_in_reach_" + short] = len(cg.opaque_in(seen))

    # staged changes are discarded
    ac = ctx.used(P.fn("MemPoolAccept::AcceptSingleTransactionAndCleanup"))
    mf = MustFlow(ac, P, marks=[("RAN", call_to("MemPoolAccept::AcceptSingleTransactionInternal")), ("CLEARED", call_to("MemPoolAccept::ClearSubPackageState"))],
                  kills=[("CLEARED", call_to("MemPoolAccept::AcceptSingleTransactionInternal"))])
    mf.run()
    ok = bool(mf.exits) and all("RAN" in st and "CLEARED" in st for st, _ in mf.exits)
    ctx.ob("AcceptSingleTransactionAndCleanup/cleanup", "ORDER", "every exit of AcceptSingleTransactionAndCleanup has run AcceptSingleTransactionInternal and, after it, "
           "ClearSubPackageState (staged mempool changes do not outlive the evaluation)", ok, ac.where)
    cl = ctx.used(P.fn("MemPoolAccept::ClearSubPackageState"))
    ws = [s for s in sites(cl, lambda e: e[0] == "b" and e[1] == "=" and match([".", ["this"], "MemPoolAccept::m_subpackage"], e[2]), P)]
    ok = len(ws) == 1 and not [g for g in ws[0].guards if g.kind != "post"] and ws[0].expr[3][0] in ("init", "ctor") and \
        not contains(["local", ANY], ws[0].expr[3]) and not contains(["param", ANY], ws[0].expr[3])
    ctx.ob("ClearSubPackageState/reset", "EFFECT", "ClearSubPackageState unconditionally replaces m_subpackage by a fresh SubPackageState (destroying the changeset)", ok, cl.where)
    dt = ctx.used(P.fn("CTxMemPool::ChangeSet::~ChangeSet"))
    check_guard(ctx, dt, P, lambda e: callee(e) == "TxGraph::AbortStaging", "HAVE", {"HAVE": re.compile(r".*HaveStaging\(\)")}, "~ChangeSet/abort",
                "the changeset destructor aborts TxGraph staging")
    ab = sites(dt, lambda e: callee(e) == "TxGraph::AbortStaging", P)
    # every path with staging present passes the abort: the only guard of the abort is HaveStaging()
    own = [g for s in ab for g in s.guards if g.kind != "post"]
    ctx.ob("~ChangeSet/abort-always", "EFFECT", "whenever staging exists when a changeset is destroyed it is aborted (the abort is guarded by HaveStaging() only)",
           len(ab) == 1 and len(own) == 1 and "HaveStaging" in show(own[0].expr) and own[0].pol is True, dt.where)


def _faithful(ctx, P):
    f = inline_condvars(ctx.used(P.fn("MemPoolAccept::AcceptSingleTransactionInternal")))
    sub = naming(f, P)
    T = F.atom(TESTK)
    fin = sites(f, call_to("MemPoolAccept::FinalizeSubpackage"), P)
    if len(fin) != 1:
        raise AnalysisBroken("AcceptSingleTransactionInternal: expected one FinalizeSubpackage call, found %d" % len(fin))
    fs = fin[0].formula(sub)
    ex = exits(f, P, sub)
    tv = [e for e in ex if e.kind == "ret" and result_kind(e.value) == "VALID" and F.implies(e.formula, T)]
    ctx.floor("test-accept VALID exits", len(tv), 1)
    for e in tv:
        flipped = F.rename(fs, {TESTK: (TESTK, False)})
        c1, c2 = F.counterexample(e.formula, flipped), F.counterexample(flipped, e.formula)
        ok = c1 is None and c2 is None
        ctx.ob("AcceptSingle/same-condition@L%s" % e.line, "LADDER", "the test-accept VALID exit is reached under exactly the condition under which submission commits "
               "(FinalizeSubpackage), with only the m_test_accept literal flipped", ok, "%s:%s" % (f.file, e.line),
               None if ok else {"test_valid": F.fshow(e.formula)[:700], "commit": F.fshow(fs)[:700], "counterexample": c1 or c2})
    ok = F.implies(fs, F.mk_not(T))
    ctx.ob("AcceptSingle/commit-not-test", "MPT", "FinalizeSubpackage is reached only with m_test_accept == false", ok, fin[0].where)
    # every VALID exit is either the test exit or past the commit
    for e in ex:
        if e.kind == "ret" and result_kind(e.value) == "VALID" and e not in tv:
            ctx.ob("AcceptSingle/valid-submit@L%s" % e.line, "MPT", "a non-test VALID result is returned only with m_test_accept == false (after the commit)",
                   F.implies(e.formula, F.mk_not(T)), "%s:%s" % (f.file, e.line))
    # no check and no rejection depends on the flag, except the post-commit mempool-full rung
    checks = ["MemPoolAccept::PreChecks", "MemPoolAccept::ReplacementChecks", "CTxMemPool::ChangeSet::CheckMemPoolPolicyLimits", "EntriesAndTxidsDisjoint",
              "CheckEphemeralSpends", "MemPoolAccept::PolicyScriptChecks", "MemPoolAccept::ConsensusScriptChecks"]
    n = 0
    for c in checks:
        for s in uniq_sites(sites(f, call_to(c), P)):
            n += 1
            ok = TESTK not in F.atoms(s.formula(sub))
            ctx.ob("AcceptSingle/check-independent/%s@L%s" % (c.rsplit("::", 1)[-1], s.line), "ORDER", "the check %s runs whatever m_test_accept is (the flag is read "
                   "only after it)" % c, ok, s.where)
    ctx.floor("check calls in AcceptSingleTransactionInternal", n, 7)
    full = re.compile(r"m_pool\.exists\(ws\.m_hash\)|m_pool\.exists\(.*GetHash\(\)\)")
    for e in ex:
        if e.kind == "ret" and result_kind(e.value) == "INVALID" and TESTK in F.atoms(e.formula):
            g, _, _ = F.bind_atoms(e.formula, {"T": TESTK, "STILLIN": full})
            ok = F.counterexample(g, F.parse("!T && !STILLIN")) is None
            ctx.ob("AcceptSingle/reject-independent@L%s" % e.line, "LADDER", "a rejection that depends on m_test_accept is only the post-commit eviction ('mempool full') rung",
                   ok, "%s:%s" % (f.file, e.line))
    # no other function of MemPoolAccept consults the flag
    allowed = {"MemPoolAccept::AcceptSingleTransactionInternal", "MemPoolAccept::AcceptMultipleTransactionsInternal", "MemPoolAccept::ATMPArgs::SingleInPackageAccept",
               "MemPoolAccept::ATMPArgs::ATMPArgs"}
    readers = set()
    nfun = 0
    for q, fl in P.funcs.items():
        for g in fl:
            if g.body is None or not g.file.endswith("validation.cpp"):
                continue
            nfun += 1
            if any(match([".", ANY, TFIELD], x) for _, e in all_exprs(g.body) for x in subexprs(e)):
                readers.add(q)
    ctx.floor("functions scanned for m_test_accept reads", nfun, 100)
    extra = sorted(readers - allowed)
    ctx.ob("m_test_accept/readers", "WHO-MAY-READ", "m_test_accept is consulted only by AcceptSingleTransactionInternal / AcceptMultipleTransactionsInternal (and copied "
           "by SingleInPackageAccept): PreChecks, ReplacementChecks, the script checks and CheckFeeRate behave identically in both modes", not extra and
           "MemPoolAccept::AcceptSingleTransactionInternal" in readers, None, {"readers": sorted(readers)})


def _wiring(ctx, P):
    ctor = ctx.used(P.fn("MemPoolAccept::ATMPArgs::ATMPArgs"))
    names = [p["n"] for p in ctor.params]
    idx = names.index("test_accept") if "test_accept" in names else None
    ini = [i for i in (ctor.d.get("inits") or []) if i.get("f") == TFIELD]
    ok = idx is not None and len(ini) == 1 and match(["param", "test_accept"], ini[0].get("i"))
    ctx.ob("ATMPArgs/ctor", "PROVENANCE", "ATMPArgs' constructor initialises m_test_accept from its test_accept parameter", ok, ctor.where)
    if idx is None:
        return
    want = {"MemPoolAccept::ATMPArgs::SingleAccept": ["param", "test_accept"], "MemPoolAccept::ATMPArgs::PackageTestAccept": ["bool", True],
            "MemPoolAccept::ATMPArgs::PackageChildWithParents": ["bool", False]}
    for q, w in want.items():
        g = ctx.used(P.fn(q))
        cs = [x for e in exits(g, P) if e.kind == "ret" for x in subexprs(e.value) if x[0] in ("ctor", "init") and x[1] == "MemPoolAccept::ATMPArgs" and len(x) > 2 + idx]
        ok = len(cs) >= 1 and all(match(w, undefarg(x[2 + idx])) for x in cs)
        ctx.ob("%s/test_accept" % q.rsplit("::", 1)[-1], "PROVENANCE", "%s constructs ATMPArgs with test_accept = %s" % (q, show(w)), ok, g.where,
               {"got": [show(x[2 + idx]) for x in cs]})
    # the dry-run flag must not leak into any *other* acceptance option (it would make the two modes evaluate differently)
    g = ctx.used(P.fn("MemPoolAccept::ATMPArgs::SingleAccept"))
    for e in exits(g, P):
        if e.kind != "ret":
            continue
        for x in subexprs(e.value):
            if x[0] in ("ctor", "init") and x[1] == "MemPoolAccept::ATMPArgs":
                leaks = [(names[i] if i < len(names) else i, show(a)) for i, a in enumerate(x[2:]) if i != idx and contains(["param", "test_accept"], a)]
                ctx.ob("SingleAccept/flag-only-in-its-slot@L%s" % e.line, "PROVENANCE", "in ATMPArgs::SingleAccept the test_accept parameter feeds only the "
                       "m_test_accept option: no other acceptance option (replacement, sibling eviction, limits, ...) depends on it", not leaks, g.where, leaks or None)
    for st in stmts(g.body):
        if st.get("k") in ("if", "while", "for", "switch") and is_expr(st.get("c")) and contains(["param", "test_accept"], st["c"]):
            ctx.ob("SingleAccept/no-branch-on-flag@L%s" % st.get("l"), "PROVENANCE", "ATMPArgs::SingleAccept does not branch on test_accept", False, g.where)
    # no other member of ATMPArgs is derived from m_test_accept inside the constructor
    for i in (ctor.d.get("inits") or []):
        if i.get("f") != TFIELD and is_expr(i.get("i")) and contains(["param", "test_accept"], i["i"]):
            ctx.ob("ATMPArgs/ctor-leak:%s" % i.get("f"), "PROVENANCE", "no other ATMPArgs member is initialised from test_accept", False, ctor.where, show(i["i"]))
    atmp = ctx.used(P.fn("AcceptToMemoryPool"))
    sa = [s for s in sites(atmp, call_to("MemPoolAccept::ATMPArgs::SingleAccept"), P)]
    ok = len(sa) == 1 and len(call_args(sa[0].expr)) >= 5 and match(["param", "test_accept"], call_args(sa[0].expr)[4])
    ctx.ob("AcceptToMemoryPool/test_accept", "PROVENANCE", "AcceptToMemoryPool hands its test_accept parameter to ATMPArgs::SingleAccept", ok, atmp.where)
    sp = [p["n"] for p in P.fn("MemPoolAccept::ATMPArgs::SingleAccept").params]
    ctx.ob("SingleAccept/params", "PROVENANCE", "SingleAccept's fifth parameter is test_accept", len(sp) >= 5 and sp[4] == "test_accept", None, {"params": sp})


def _flag_bits(e):
    """script_verify_flag_name enumerators (bit positions) mentioned in an expression."""
    return [(x[1].rsplit("::", 1)[-1], x[2]) for x in subexprs(e) if x[0] == "enum" and x[1].startswith("script_verify_flag_name::")]


def _policy_consensus(ctx, P):
    f = inline_condvars(ctx.used(P.fn("MemPoolAccept::AcceptSingleTransactionInternal")))
    sub = naming(f, P)
    atoms = {"POLICY": "MemPoolAccept::PolicyScriptChecks(args, ws)", "CONSENSUS": "MemPoolAccept::ConsensusScriptChecks(args, ws)"}
    site_implies(ctx, sites(f, call_to("MemPoolAccept::ConsensusScriptChecks"), P), sub, "POLICY", atoms, "AcceptSingle/policy-first",
                 "ConsensusScriptChecks (which fills the script cache) runs only after PolicyScriptChecks succeeded")
    site_implies(ctx, sites(f, call_to("MemPoolAccept::FinalizeSubpackage"), P), sub, "POLICY && CONSENSUS", atoms, "AcceptSingle/scripts-before-commit",
                 "the commit is reached only past PolicyScriptChecks and ConsensusScriptChecks")
    accept_implies(ctx, f, P, lambda e: e.kind == "ret" and result_kind(e.value) == "VALID", "POLICY && CONSENSUS", atoms, "AcceptSingle/scripts-before-valid",
                   "VALID is answered only past PolicyScriptChecks and ConsensusScriptChecks", min_accepts=2)
    std = P.const("STANDARD_SCRIPT_VERIFY_FLAGS")
    man = P.const("MANDATORY_SCRIPT_VERIFY_FLAGS")
    ctx.ob("const/MANDATORY-in-STANDARD", "CONST", "MANDATORY_SCRIPT_VERIFY_FLAGS is a subset of STANDARD_SCRIPT_VERIFY_FLAGS", man & ~std == 0, None,
           {"mandatory": man, "standard": std})
    pol = ctx.used(P.fn("MemPoolAccept::PolicyScriptChecks"))
    psub = naming(pol, P)
    cs = sites(pol, call_to("CheckInputScripts"), P)
    ctx.floor("PolicyScriptChecks CheckInputScripts calls", len(cs), 1)
    for s in cs:
        a = call_args(s.expr)
        src = a[3] if len(a) > 3 else None
        if src is not None and src[0] == "local":
            vals = local_values(pol, src[1])
            src = vals[0][1] if len(vals) == 1 else None
        ok = src is not None and match(["global", "STANDARD_SCRIPT_VERIFY_FLAGS"], strip_wrappers(src))
        ctx.ob("PolicyScriptChecks/flags@L%s" % s.line, "PROVENANCE", "PolicyScriptChecks verifies scripts with STANDARD_SCRIPT_VERIFY_FLAGS", ok, s.where,
               {"flags": show(src) if src else None})
    accept_implies(ctx, pol, P, is_true_ret, "OK", {"OK": re.compile(r"CheckInputScripts\(.*\)")}, "PolicyScriptChecks/accept",
                   "PolicyScriptChecks succeeds only if CheckInputScripts did")
    con = ctx.used(P.fn("MemPoolAccept::ConsensusScriptChecks"))
    cs = sites(con, call_to("CheckInputsFromMempoolAndCache"), P)
    ctx.floor("ConsensusScriptChecks CheckInputsFromMempoolAndCache calls", len(cs), 1)
    for s in cs:
        a = call_args(s.expr)
        src = a[4] if len(a) > 4 else None
        if src is not None and src[0] == "local":
            vals = local_values(con, src[1])
            src = vals[0][1] if len(vals) == 1 else None
        ok = src is not None and any(is_call_to("GetBlockScriptFlags", x) for x in subexprs(src))
        ctx.ob("ConsensusScriptChecks/flags@L%s" % s.line, "PROVENANCE", "ConsensusScriptChecks verifies scripts with GetBlockScriptFlags(tip)", ok, s.where,
               {"flags": show(src) if src else None})
    gb = ctx.used(P.fn("GetBlockScriptFlags"))
    rets = [e for e in exits(gb, P) if e.kind == "ret"]
    rl = {show(e.value) for e in rets}
    if len(rl) != 1 or not all(is_expr(e.value) and strip_wrappers(e.value)[0] == "local" for e in rets):
        raise AnalysisBroken("GetBlockScriptFlags: result is not a single local accumulator (idiom changed)")
    acc = strip_wrappers(rets[0].value)[1]
    vals = local_values(gb, acc)
    ctx.floor("GetBlockScriptFlags flag assignments", len(vals), 5)
    for line, v in vals:
        vv = v[2] if v[0] == "compound" and len(v) > 2 else v
        where = "%s:%s" % (gb.file, line)
        if v[0] == "compound" and v[1] != "|=":
            raise AnalysisBroken("GetBlockScriptFlags: unexpected update %s of the flag accumulator" % v[1])
        bits = _flag_bits(vv)
        if bits:
            bad = [n for n, b in bits if not (std >> b) & 1]
            ctx.ob("GetBlockScriptFlags/subset@L%s" % line, "TABLE", "every script flag GetBlockScriptFlags can set is contained in STANDARD_SCRIPT_VERIFY_FLAGS "
                   "(policy verification is at least as strict as consensus verification)", not bad, where, {"flags": [n for n, _ in bits], "not_standard": bad})
        elif "script_flag_exceptions" in show(F.expand(vv, naming(gb, P))) or re.search(r"\.second$", show(vv)):
            _exceptions(ctx, P, std, where)
        else:
            raise AnalysisBroken("GetBlockScriptFlags: flag source %s not understood" % show(vv))


def _exceptions(ctx, P, std, where):
    n = 0
    for q, fl in P.funcs.items():
        for g in fl:
            if g.body is None or not g.file.endswith("kernel/chainparams.cpp"):
                continue
            for s in sites(g, lambda e: callee(e) in ("std::map::emplace", "std::map::insert", "std::map::try_emplace", "std::map::operator[]", "std::map::insert_or_assign")
                           and is_expr(call_obj(e)) and show(call_obj(e)).endswith("script_flag_exceptions"), P):
                n += 1
                a = call_args(s.expr)
                bits = _flag_bits(a[-1]) if a else []
                known = bool(a) and (bits or contains(["global", "SCRIPT_VERIFY_NONE"], a[-1]) or match(["int", 0], strip_wrappers(a[-1])))
                if not known:
                    raise AnalysisBroken("script_flag_exceptions entry %s not understood" % show(s.expr))
                bad = [nm for nm, b in bits if not (std >> b) & 1]
                ctx.ob("script_flag_exceptions/%s@L%s" % (g.q.rsplit("::", 1)[-1], s.line), "TABLE", "the per-block script flag exception is a subset of the standard flags",
                       not bad, s.where, {"flags": [nm for nm, _ in bits]})
    ctx.floor("script_flag_exceptions entries", n, 2)
