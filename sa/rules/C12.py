"""C12 The script interpreter implements Bitcoin script semantics (DESIGN §3 C12) - bounded structural clauses."""
import re

from sa.engine.api import *

UNITS = ["script/interpreter.cpp"]
EXPLANATION = ("Taken whole (agreement with a reference interpreter on all scripts) the property is not decidable statically; decided are structural "
               "necessary conditions: (a) EXHAUST/TABLE: every opcodetype enumerator is a case of EvalScript's dispatch switch, a push opcode "
               "(<= OP_PUSHDATA4), one of the 15 disabled opcodes rejected before dispatch, or one of the 7 reserved/invalid opcodes that fall to "
               "the BAD_OPCODE default - computed from the enum and the switch, compared with the frozen semantic table; the disabled set in the "
               "code equals the 15 listed by the CVE-2010-5137 fix; (b) the resource-limit rejections are present, un-nested and fire whenever "
               "their spec condition holds: script size > 10,000 (BASE/V0), push > 520, op count > 201 for opcodes above OP_16 (BASE/V0), "
               "stack+altstack > 1000 per step, CHECKMULTISIG key count outside [0,20] and its addition to the op count, witness stack element > 520, "
               "initial tapscript stack > 1000, witness-script accepting only a single true element; (c) the tapscript signature-weight budget is "
               "decremented by 50 before its < 0 test for every non-empty signature. The stack-depth rule of the design was dropped: stack accesses "
               "use std::vector::at, so a missing depth guard changes only the error code, not the verdict.")
ASSUMPTIONS = ["opcode semantics inside each case (arithmetic, CScriptNum encoding) are not decided"]
CLAIM = dict(
    technique="static analysis: enum-vs-switch exhaustiveness table, own-guard implication of limit rejections (truth tables), must-flow ordering, constants",
    text="Every opcode has a handler consistent with the frozen semantic classification and all resource limits named by the property are enforced on "
         "every path where their condition holds; deleting a case, un-disabling an opcode, weakening a limit or moving the weight decrement after "
         "its test is reported. This is a bounded part of the property, stated as such.",
    note="Not decided: opcode arithmetic/stack effects, CScriptNum encoding, dispatch results, agreement with a reference interpreter (N/A part).",
    ref="DESIGN.md §3 C12")

DISABLED = {"OP_CAT", "OP_SUBSTR", "OP_LEFT", "OP_RIGHT", "OP_INVERT", "OP_AND", "OP_OR", "OP_XOR", "OP_2MUL", "OP_2DIV", "OP_MUL", "OP_DIV", "OP_MOD",
            "OP_LSHIFT", "OP_RSHIFT"}
DEFAULT = {"OP_RESERVED", "OP_VER", "OP_VERIF", "OP_VERNOTIF", "OP_RESERVED1", "OP_RESERVED2", "OP_INVALIDOPCODE"}


def reject_sites(fn, P, code):
    return [s for s in stmt_sites(fn, lambda st: st.get("k") == "ret" and is_expr(st.get("v")) and (callee(st["v"]) or "").endswith("set_error")
                                  and any(x[0] == "enum" and x[1].endswith("::" + code) or (x[0] == "enum" and x[1] == code) for x in subexprs(st["v"])), P)]


def own_guard(site, subst, inner=True):
    """Branch conditions introduced after the innermost enclosing loop / switch case (the rejection's own condition)."""
    gs = site.guards
    if inner:
        last = max([i for i, g in enumerate(gs) if g.kind in ("case", "loop")] + [-1])
        gs = gs[last + 1:]
    return F.mk_and([g.formula(subst) for g in gs if g.kind in ("if", "sc")])


def limit(ctx, fn, P, code, spec_text, atoms, oid, text, subst, nmin=1):
    """Some rejection with error `code` fires whenever the spec condition holds: spec => own guard (ignoring loop conditions)."""
    ss = reject_sites(fn, P, code)
    if len(ss) < nmin:
        raise AnalysisBroken("%s: no rejection with %s found" % (fn.q, code))
    spec = F.parse(spec_text)
    best = None
    for s in ss:
        own = own_guard(s, subst)
        fb, mp, un = F.bind_atoms(own, atoms)
        cex = F.counterexample(spec, fb)
        if best is None or cex is None:
            best = (cex, s, own, un)
        if cex is None:
            break
    cex, s, own, un = best
    ctx.ob(oid, "LIMIT", text, cex is None, s.where, None if cex is None else {"own_guard": F.fshow(own)[:400], "spec": spec_text, "unbound_code_atoms": un[:8], "counterexample": cex})


def check(ctx):
    op_success_table(ctx)
    P = ctx.program(UNITS)
    es = ctx.used(P.fn("EvalScript", nparams=7))
    subst = naming(es, P)
    # ---- (a) opcode table
    sws = [s for s in stmts(es.body) if s.get("k") == "switch" and show(s.get("c")) == "opcode"]
    sws.sort(key=lambda s: -len(s.get("s", [])))
    if not sws or (len(sws) > 1 and len(sws[1]["s"]) * 3 > len(sws[0]["s"])):
        raise AnalysisBroken("EvalScript: main dispatch switch on opcode not identifiable (%d candidates)" % len(sws))
    sw = sws[0]   # the outer dispatch (inner switches on opcode select the variant inside a shared case body)
    cases = {show(it["v"]).rsplit("::", 1)[-1] for it in sw["s"] if it.get("k") == "case"}
    has_default = any(it.get("k") == "default" for it in sw["s"])
    en = P.enum("opcodetype")
    vals = {v[0]: int(v[1]) for v in en["values"]}
    ctx.floor("opcodetype enumerators", len(vals), 110)
    push = {n for n, v in vals.items() if v <= vals["OP_PUSHDATA4"]}
    aliases = {}
    for n, v in vals.items():
        aliases.setdefault(v, []).append(n)
    handled_vals = {vals[c] for c in cases if c in vals}
    rest = {n for n, v in vals.items() if v not in handled_vals and n not in push}
    # names that alias a handled value (OP_FALSE/OP_0, OP_TRUE/OP_1, OP_NOP2/CLTV ...) are handled
    code_disabled = set()
    for s in reject_sites(es, P, "SCRIPT_ERR_DISABLED_OPCODE"):
        for a in F.atoms(own_guard(s, subst)):
            m = re.fullmatch(r"opcode == (?:opcodetype::)?(OP_\w+)", a)
            if m:
                code_disabled.add(m.group(1))
    ctx.ob("opcodes/disabled-set", "TABLE", "the opcodes rejected as disabled before dispatch are exactly the 15 of CVE-2010-5137", code_disabled == DISABLED, es.where,
           {"missing": sorted(DISABLED - code_disabled), "extra": sorted(code_disabled - DISABLED)})
    unhandled = rest - code_disabled
    ctx.ob("opcodes/exhaustive", "EXHAUST", "every opcodetype enumerator is a switch case, a push opcode, a disabled opcode, or one of the 7 reserved/invalid opcodes "
           "that fall to the BAD_OPCODE default", unhandled == DEFAULT and has_default, "%s:%s" % (es.file, sw["l"]),
           {"unexpectedly_unhandled": sorted(unhandled - DEFAULT), "unexpectedly_handled": sorted(DEFAULT - unhandled), "cases": len(cases)})
    dflt = [s for s in reject_sites(es, P, "SCRIPT_ERR_BAD_OPCODE") if any(g.kind == "case" and "default" in [v for v in g.vals if isinstance(v, str)] for g in s.guards)]
    ctx.ob("opcodes/default-rejects", "EXHAUST", "the dispatch default rejects with BAD_OPCODE", len(dflt) >= 1, "%s:%s" % (es.file, sw["l"]))
    # the conditional-execution gate: non-executed branches still dispatch IF..ENDIF
    # ---- (b) limits
    BV = {"BASE": "sigversion == SigVersion::BASE", "V0": "sigversion == SigVersion::WITNESS_V0"}
    limit(ctx, es, P, "SCRIPT_ERR_SCRIPT_SIZE", "(BASE || V0) && BIG", dict(BV, BIG=("script.size() < 10001", False)), "limit/script-size",
          "EvalScript rejects BASE/WITNESS_V0 scripts larger than 10,000 bytes", subst)
    limit(ctx, es, P, "SCRIPT_ERR_PUSH_SIZE", "BIG", {"BIG": ("vchPushValue.size() < 521", False)}, "limit/push-size",
          "every pushed element larger than 520 bytes is rejected", subst)
    limit(ctx, es, P, "SCRIPT_ERR_OP_COUNT", "(BASE || V0) && ABOVE16 && OVER", dict(BV, ABOVE16="OP_16 < opcode", OVER=("++nOpCount < 202", False)), "limit/op-count",
          "under BASE/WITNESS_V0 every opcode above OP_16 is counted and the 202nd is rejected", subst)
    limit(ctx, es, P, "SCRIPT_ERR_STACK_SIZE", "OVER", {"OVER": (re.compile(r"(altstack\.size\(\) \+ stack\.size\(\)|stack\.size\(\) \+ altstack\.size\(\)) < 1001"), False)},
          "limit/stack-size", "after every opcode, stack + altstack larger than 1000 elements is rejected", subst)
    limit(ctx, es, P, "SCRIPT_ERR_PUBKEY_COUNT", "NEG || MANY", {"NEG": "nKeysCount < 0", "MANY": ("nKeysCount < 21", False)}, "limit/multisig-keys",
          "CHECKMULTISIG rejects key counts outside [0, 20]", subst)
    adds = sites(es, lambda e: match(["b", "+=", ["local", "nOpCount"], ["local", "nKeysCount"]], e), P)
    ctx.ob("limit/multisig-opcount", "LIMIT", "CHECKMULTISIG adds its key count to the operation count", len(adds) == 1, es.where)
    for name, want in (("MAX_SCRIPT_SIZE", 10000), ("MAX_SCRIPT_ELEMENT_SIZE", 520), ("MAX_OPS_PER_SCRIPT", 201), ("MAX_STACK_SIZE", 1000),
                       ("MAX_PUBKEYS_PER_MULTISIG", 20), ("VALIDATION_WEIGHT_PER_SIGOP_PASSED", 50)):
        v = P.const(name)
        ctx.ob("const/%s" % name, "CONST", "%s == %d" % (name, want), v == want, None, {"value": v})
    # the stack-size test is at the end of the per-opcode loop body (not under an opcode-specific branch)
    ss = reject_sites(es, P, "SCRIPT_ERR_STACK_SIZE")
    ok = any(not [g for g in s.guards if g.kind == "case"] and len([g for g in s.guards if g.kind == "if"]) == 1 for s in ss)
    ctx.ob("limit/stack-size-position", "LIMIT", "the stack-size test runs after every opcode (not inside a case of the dispatch)", ok, es.where)
    # ---- witness script wrapper
    ew = ctx.used(P.fn("ExecuteWitnessScript"))
    wsub = naming(ew, P)
    limit(ctx, ew, P, "SCRIPT_ERR_PUSH_SIZE", "BIG", {"BIG": (re.compile(r"each\(stack\)\.size\(\) < 521"), False)}, "witness/element-size",
          "every initial witness stack element larger than 520 bytes is rejected", wsub)
    limit(ctx, ew, P, "SCRIPT_ERR_STACK_SIZE", "TAP && OVER", {"TAP": "sigversion == SigVersion::TAPSCRIPT", "OVER": ("stack.size() < 1001", False)}, "witness/tapscript-initial-stack",
          "a tapscript initial stack larger than 1000 elements is rejected", wsub)
    for e in exits(ew, P, wsub):
        if is_true_ret(e):
            fb, mp, un = F.bind_atoms(e.formula, {"EVAL": re.compile(r"EvalScript\(stack, exec_script, flags, checker, sigversion, execdata, serror\)"),
                                                  "ONE": "stack.size() == 1", "TRUE": "CastToBool(stack.back())"})
            cex = F.counterexample(fb, F.parse("EVAL && ONE && TRUE"))
            ctx.ob("witness/accept@L%s" % e.line, "LADDER", "a witness script is accepted only if EvalScript succeeded and left exactly one true element", cex is None,
                   "%s:%s" % (ew.file, e.line), None if cex is None else {"counterexample": cex, "unbound": un[:6]})
    # ---- (c) tapscript validation weight
    ct = ctx.used(P.fn("EvalChecksigTapscript"))
    tsub = naming(ct, P)
    is_dec = lambda e: e[0] == "b" and e[1] == "-=" and show(e[2]).endswith("m_validation_weight_left") and match(["int", 50], e[3])
    decs = sites(ct, is_dec, P)
    ctx.floor("weight decrement sites", len(decs), 1)
    for s in decs:
        own = own_guard(s, tsub)
        fb, mp, un = F.bind_atoms(own, {"EMPTY": ["sig.empty()", ("success", False)]})
        ok = F.implies(F.parse("!EMPTY"), fb)
        ctx.ob("tapscript/weight-decrement@L%s" % s.line, "LIMIT", "every non-empty tapscript signature consumes 50 units of the validation-weight budget", ok, s.where,
               None if ok else {"own_guard": F.fshow(own)})
    sdef = sites(ct, lambda e: match(["b", "=", ["param", "success"]], e), P)
    ok = len(sdef) == 1 and F.equivalent(F.to_formula(sdef[0].expr[3], tsub), F.mk_not(F.atom("sig.empty()"))) and not [g for g in sdef[0].guards if g.kind in ("if", "sc", "loop")]
    ctx.ob("tapscript/success-def", "PROVENANCE", "`success` is unconditionally defined as !sig.empty() before it is used", ok, ct.where)
    mf = MustFlow(ct, P, marks=[("dec", is_dec)])
    mf.watch = lambda e: e[0] == "b" and e[1] in ("<", ">=", "<=", ">") and "m_validation_weight_left" in show(e)
    mf.run()
    ctx.floor("weight budget tests", len(mf.events), 1)
    for e, st, stmt in mf.events:
        ctx.ob("tapscript/weight-order@L%s" % stmt.get("l"), "ORDER", "the budget is decremented before it is compared with zero", "dec" in st, "%s:%s" % (ct.file, stmt.get("l")))
    limit(ctx, ct, P, "SCRIPT_ERR_TAPSCRIPT_VALIDATION_WEIGHT", "!EMPTY && NEG", {"EMPTY": ["sig.empty()", ("success", False)], "NEG": "execdata.m_validation_weight_left < 0"},
          "tapscript/weight-reject", "a negative remaining budget after a non-empty signature fails the script", tsub)


# ------------------------------------------------------------------------------------------------
BIP342_OP_SUCCESS = {80, 98} | set(range(126, 130)) | set(range(131, 135)) | {137, 138, 141, 142} | set(range(149, 154)) | set(range(187, 255))


def _eval_int_pred(e, var, val, consts):
    """Value of a side-effect free predicate over one integer variable (a finite table, folded from the syntax tree - nothing is run)."""
    if not is_expr(e):
        raise AnalysisBroken("IsOpSuccess: unexpected node %r" % (e,))
    t = e[0]
    if t in ("paren", "defarg"):
        return _eval_int_pred(e[1], var, val, consts)
    if t == "cast":
        return _eval_int_pred(e[2], var, val, consts)
    if t == "int":
        return int(e[1])
    if t == "bool":
        return bool(e[1])
    if t == "enum":
        return int(e[2]) if len(e) > 2 else consts(e[1])
    if t in ("param", "local") and e[1] == var:
        return val
    if t == "u" and e[1] == "!":
        return not _eval_int_pred(e[2], var, val, consts)
    if t == "b":
        op = e[1]
        if op == "||":
            return bool(_eval_int_pred(e[2], var, val, consts)) or bool(_eval_int_pred(e[3], var, val, consts))
        if op == "&&":
            return bool(_eval_int_pred(e[2], var, val, consts)) and bool(_eval_int_pred(e[3], var, val, consts))
        a, b = _eval_int_pred(e[2], var, val, consts), _eval_int_pred(e[3], var, val, consts)
        if op in ("==", "!=", "<", ">", "<=", ">="):
            return {"==": a == b, "!=": a != b, "<": a < b, ">": a > b, "<=": a <= b, ">=": a >= b}[op]
    raise AnalysisBroken("IsOpSuccess: cannot fold %s" % show(e)[:80])


def op_success_table(ctx):
    """BIP342: the opcodes that make a tapscript succeed unconditionally are exactly 80, 98, 126-129, 131-134, 137-138, 141-142,
    149-153 and 187-254 (255, OP_INVALIDOPCODE, is not one of them)."""
    PS = ctx.program(["script/script.cpp"])
    f = ctx.used(PS.fn("IsOpSuccess"))
    rets = [e for e in exits(f, PS) if e.kind == "ret"]
    if len(rets) != 1 or not is_expr(rets[0].value) or len(f.params) != 1 or [g for g in rets[0].site.guards if g.kind in ("if", "sc", "loop", "case")]:
        # several exits: fold each exit's own condition as well
        raise AnalysisBroken("IsOpSuccess: not a single return of a predicate over its parameter (idiom changed)")
    var = f.params[0]["n"]
    consts = lambda name: PS.const(name)
    got = {v for v in range(256) if _eval_int_pred(rets[0].value, var, v, consts)}
    ctx.ob("IsOpSuccess/table", "TABLE", "IsOpSuccess is true exactly for the BIP342 OP_SUCCESSx opcodes (80, 98, 126-129, 131-134, 137-138, 141-142, 149-153, 187-254)",
           got == BIP342_OP_SUCCESS, f.where, None if got == BIP342_OP_SUCCESS else {"extra": sorted(got - BIP342_OP_SUCCESS), "missing": sorted(BIP342_OP_SUCCESS - got)})
