"""C46 Signing produces valid spends and never fakes a satisfaction - structural clause only (originally listed N/A).

"Complete" is a flag (SignatureData::complete).  Decided here: who may set it and from what - it is only ever the
result of VerifyScript under the standard flags on the very scriptSig/witness being reported, or a copy of an already
finalized PSBT input; and a failed solving step is never overridden.  What the satisfier does is not decided."""
import re

from sa.engine.api import *
from sa.engine import callgraph

UNITS = ["script/sign.cpp", "psbt.cpp"]
EXPLANATION = ("Taken whole the property depends on the miniscript/legacy satisfier semantics over all scripts; decided is the part visible in the code's shape: "
               "(1) SignatureData::complete is written by exactly four functions; (2) ProduceSignature writes it once, as `solved && VerifyScript(sigdata.scriptSig, "
               "fromPubKey, &sigdata.scriptWitness, STANDARD_SCRIPT_VERIFY_FLAGS, creator.Checker())` - the script and witness it has just assembled - as its last "
               "action, returns that value, and returns true earlier only if the data was complete on entry; (3) the local `solved` is only ever narrowed "
               "(`solved = solved && ..`) or recomputed under `!solved` (the miniscript fallback), so a failed step cannot be forgotten; (4) DataFromTransaction sets "
               "complete only under a successful VerifyScript of the transaction's own scriptSig/witness with the standard flags; (5) PSBTInput::FillSignatureData "
               "sets it only when copying a non-empty final scriptSig / non-null final witness; SignPSBTInput only ever clears it; (6) SignTransaction clears an "
               "input's error only if the data is complete or VerifyScript with the standard flags accepts the updated input.")
ASSUMPTIONS = ["VerifyScript is the script interpreter decided by C10-C12", "creator.Checker() checks against the transaction being signed (dummy creators verify nothing real and are used only for size estimation)"]
CLAIM = dict(
    technique="static analysis: who-may-write and value-shape of the completeness flag, exit ladder of ProduceSignature, monotonicity of the solved flag, guard rules at the other writers",
    text="Necessary structure behind 'complete implies verifies': the completeness flag is only the outcome of script verification under the standard flags "
         "of the data being reported (or a copy of already-final PSBT fields), and an unsolved step cannot be turned into a success except by the miniscript "
         "fallback. Setting the flag elsewhere, verifying with other flags or other data, returning success past the verification, or overwriting a failed "
         "`solved` is reported.",
    note="Not decided: that satisfiable inputs are in fact completed, satisfier semantics (keys/preimages/timelocks), PSBT finalization details (weak, structural claim).",
    ref="DESIGN.md §3 C46 (claimed partially after the design; see §6.1)")

STD = ["global", "STANDARD_SCRIPT_VERIFY_FLAGS"]
COMPLETE = "SignatureData::complete"


def complete_writes(f, P):
    return sites(f, lambda e: e[0] == "b" and e[1] in ASSIGN_OPS and is_expr(e[2]) and e[2][0] == "." and e[2][2] == COMPLETE, P)


def verify_of(obj, e):
    """e is VerifyScript(<obj>.scriptSig, <pubkey>, &<obj>.scriptWitness, STANDARD_SCRIPT_VERIFY_FLAGS, ...)"""
    if not (is_expr(e) and e[0] == "call" and e[1] == "VerifyScript"):
        return False
    a = call_args(e)
    return len(a) >= 5 and a[0] == [".", obj, "SignatureData::scriptSig"] and a[2] == ["u", "&", [".", obj, "SignatureData::scriptWitness"]] and a[3] == STD


def check(ctx):
    P = ctx.program(UNITS)
    cg = callgraph.load_all()
    w = sorted({q for q, fl, ls in cg.writers(COMPLETE) if not q.startswith("SignatureData::SignatureData")})
    ctx.ob("who-writes/complete", "WHO-MAY-WRITE", "SignatureData::complete is written only by ProduceSignature, DataFromTransaction, PSBTInput::FillSignatureData and SignPSBTInput",
           w == ["DataFromTransaction", "PSBTInput::FillSignatureData", "ProduceSignature", "SignPSBTInput"], None, {"writers": w})

    # ---- ProduceSignature
    ps = ctx.used(P.fn("ProduceSignature"))
    sd = ["param", ps.params[3]["n"]] if len(ps.params) == 4 else None
    ws = complete_writes(ps, P)
    ctx.floor("ProduceSignature writes of complete", len(ws), 1)
    ok = len(ws) == 1 and sd is not None and ws[0].expr[1] == "=" and ws[0].expr[2][1] == sd
    psub = naming(ps, P)
    val = F.expand(ws[0].expr[3], psub) if ws else None
    while is_expr(val) and val[0] == "paren":
        val = val[1]
    solved = None
    if ok:
        ok = is_expr(val) and val[0] == "b" and val[1] == "&&" and is_expr(val[2]) and val[2][0] == "local" and verify_of(sd, val[3])
        if ok:
            solved = val[2][1]
            a = call_args(val[3])
            ok = a[1] == ["param", ps.params[2]["n"]] and match(["vcall", "BaseSignatureCreator::Checker", ["param", ps.params[1]["n"]]], a[4])
    ctx.ob("ProduceSignature/value", "VALUE-SHAPE", "complete = solved && VerifyScript(sigdata.scriptSig, fromPubKey, &sigdata.scriptWitness, STANDARD_SCRIPT_VERIFY_FLAGS, "
           "creator.Checker()): the verdict of the standard-flags interpreter on the data being returned, checked against the caller's creator", bool(ok), ps.where,
           {"value": show(val)[:300] if is_expr(val) else None})
    ctx.ob("ProduceSignature/unconditional", "MPT", "that assignment is on every path that gets past the entry test (no branch skips the verification)",
           bool(ws) and not [g for g in ws[0].guards if g.kind in ("if", "sc", "loop", "case")], ps.where)
    ex = [e for e in exits(ps, P) if e.kind == "ret"]
    early = [e for e in ex if ws and e.line < ws[0].line]
    late = [e for e in ex if ws and e.line >= ws[0].line]
    oke = len(early) == 1 and is_true_ret(early[0]) and sd is not None and \
        F.equivalent(F.mk_and([g.formula(None) for g in early[0].site.guards if g.kind in ("if", "sc")]), F.atom("%s.complete" % sd[1]))
    ctx.ob("ProduceSignature/early-exit", "LADDER", "before the verification ProduceSignature returns only `true`, and only if the data was already complete on entry", oke, ps.where,
           {"early_exits": [(e.line, show(e.value)) for e in early]})
    okl = len(late) == 1 and is_expr(late[0].value) and late[0].value == [".", sd, COMPLETE]
    body = ps.body.get("s", []) if isinstance(ps.body, dict) else []
    tail = [st for st in body if isinstance(st, dict)][-2:]
    okl = okl and len(tail) == 2 and tail[0].get("l") == ws[0].line and tail[1].get("k") == "ret"
    ctx.ob("ProduceSignature/result", "LADDER", "the only other exit returns sigdata.complete, immediately after the verification (nothing modifies the data in between)", bool(okl), ps.where)
    # scriptSig / scriptWitness are not touched after the verification (they are what the caller gets)
    late_w = [s.line for s in sites(ps, lambda e: e[0] in ("b", "opcall") and e[1] in ASSIGN_OPS and is_expr(e[2 if e[0] == "b" else 3]) and
                                    contains([".", sd, "SignatureData::scriptSig"], e[2 if e[0] == "b" else 3]), P) if ws and s.line > ws[0].line]
    ctx.ob("ProduceSignature/no-late-write", "ORDER", "the scriptSig is not assigned after it was verified", not late_w, ps.where, {"lines": late_w})
    # monotone `solved`
    if solved:
        asg = sites(ps, lambda e: e[0] == "b" and e[1] in ASSIGN_OPS and e[2] == ["local", solved], P)
        ctx.floor("ProduceSignature assignments of solved", len(asg), 3)
        for s in asg:
            rhs = s.expr[3]
            narrowing = False
            x = rhs
            while is_expr(x) and x[0] == "b" and x[1] == "&&":
                x = x[2]
            if x == ["local", solved] and s.expr[1] == "=":
                narrowing = True
            fb, mp, un = F.bind_atoms(s.formula(None), {"SOLVED": solved})
            if not narrowing and s.expr[1] == "=" and F.implies(fb, F.parse("SOLVED")):
                narrowing = True        # `if (solved) solved = X;` is `solved = solved && X`
            # the one audited way back from "unsolved": the miniscript satisfier, tried only where the legacy solver failed
            fallback = F.implies(fb, F.parse("!SOLVED")) and contains(["mcall", "miniscript::Node::Satisfy"], rhs) and "miniscript::Availability::YES" in show(rhs)
            ctx.ob("ProduceSignature/solved-monotone@L%s" % s.line, "TYPESTATE", "`solved` is only narrowed (`solved = solved && ..`, or assigned where it is known true) or, where it is "
                   "currently false, recomputed by the miniscript satisfier (`.. Satisfy(..) == Availability::YES`): a failed solving step is never overridden otherwise",
                   narrowing or fallback, s.where, {"assignment": show(s.expr)[:200], "guard": F.fshow(s.formula(None))[:300]})
        # every solving step counts: the result of each SignStep call is conjoined into `solved`
        steps = sites(ps, call_to("SignStep"), P)
        ctx.floor("ProduceSignature SignStep calls", len(steps), 3)
        for s in steps:
            st = s.stmt
            rhs = None
            if st.get("k") == "decl" and st.get("n") == solved:
                rhs = st.get("i")
            elif st.get("k") == "expr" and is_expr(st.get("e")) and st["e"][0] == "b" and st["e"][1] == "=" and st["e"][2] == ["local", solved]:
                rhs = st["e"][3]
            okc = is_expr(rhs) and F.implies(F.to_formula(rhs), F.atom(F.key(s.expr)))
            ctx.ob("ProduceSignature/step-counts@L%s" % s.line, "VALUE-SHAPE", "the result of this SignStep call is assigned to `solved` conjunctively (solved can be true afterwards only if the "
                   "step succeeded)", bool(okc), s.where, {"statement": show(rhs)[:200] if is_expr(rhs) else None})
        d = [st for st in stmts(ps.body) if st.get("k") == "decl" and st.get("n") == solved]
        okd = len(d) == 1 and is_expr(d[0].get("i")) and is_call_to("SignStep", d[0]["i"])
        ctx.ob("ProduceSignature/solved-start", "PROVENANCE", "`solved` starts as the result of SignStep on the output script", okd, ps.where)

    # ---- DataFromTransaction
    df = ctx.used(P.fn("DataFromTransaction"))
    ws = complete_writes(df, P)
    ctx.floor("DataFromTransaction writes of complete", len(ws), 1)
    for s in ws:
        obj = s.expr[2][1]
        dsub = naming(df, P)
        vs = [g for g in s.guards if g.kind == "if" and g.pol and verify_of(obj, F.expand(g.expr, dsub))]
        okv = match(["bool", True], s.expr[3]) and len(vs) == 1
        ctx.ob("DataFromTransaction/guard@L%s" % s.line, "MPT", "DataFromTransaction marks the extracted data complete only if VerifyScript accepted that scriptSig/witness under the standard flags",
               okv, s.where)
        # the data verified are the transaction's own scriptSig / witness of that input
        cp = sites(df, lambda e: e[0] in ("b", "opcall") and e[1] == "=" and contains([".", obj, "SignatureData::scriptSig"], e[2 if e[0] == "b" else 3]) and
                   contains([".", ANY, "CTxIn::scriptSig"], e), P)
        ctx.ob("DataFromTransaction/source@L%s" % s.line, "PROVENANCE", "the verified scriptSig is the one copied from the transaction input", len(cp) == 1 and cp[0].line < s.line, s.where)

    # ---- PSBT
    fs = ctx.used(P.fn("PSBTInput::FillSignatureData"))
    ws = complete_writes(fs, P)
    ctx.floor("FillSignatureData writes of complete", len(ws), 2)
    for s in ws:
        fb, mp, un = F.bind_atoms(F.mk_and([g.formula(None) for g in s.guards if g.kind in ("if", "sc")]),
                                  {"SIG": ("final_script_sig.empty()", False), "WIT": ("final_script_witness.IsNull()", False)})
        okg = match(["bool", True], s.expr[3]) and not un and (F.equivalent(fb, F.parse("SIG")) or F.equivalent(fb, F.parse("WIT")))
        which = "scriptSig" if F.equivalent(fb, F.parse("SIG")) else "scriptWitness"
        src = "PSBTInput::final_script_sig" if which == "scriptSig" else "PSBTInput::final_script_witness"
        blk = [x for x in sites(fs, lambda e: e[0] in ("b", "opcall") and e[1] == "=", P) if [(g.line, g.pol) for g in x.guards if g.kind == "if"] == [(g.line, g.pol) for g in s.guards if g.kind == "if"]]
        cp = [x for x in blk if contains([".", ANY, "SignatureData::" + which], x.expr) and contains([".", ["this"], src], x.expr)]
        ctx.ob("FillSignatureData/final-only@L%s" % s.line, "MPT", "a PSBT input is reported complete only because it already carries a final %s, which is copied into the data" % which,
               bool(okg) and len(cp) == 1, s.where, {"guard": F.fshow(fb)})
    sp = ctx.used(P.fn("SignPSBTInput"))
    ws = complete_writes(sp, P)
    ctx.ob("SignPSBTInput/only-clears", "VALUE-SHAPE", "SignPSBTInput never sets complete, it only clears it (when not finalizing)", bool(ws) and all(match(["bool", False], s.expr[3]) for s in ws), sp.where)
    ctx.floor("SignPSBTInput writes of complete", len(ws), 1)

    # ---- SignTransaction
    stx = ctx.used(P.fn("SignTransaction", file="script/sign.cpp")) if P.fns("SignTransaction") else None
    if stx is None:
        raise AnalysisBroken("SignTransaction not found in script/sign.cpp")
    er = sites(stx, lambda e: e[0] in ("mcall", "vcall") and str(e[1]).endswith("::erase") and contains(["param", "input_errors"], e), P)
    ctx.floor("SignTransaction success sites", len(er), 1)
    sub = naming(stx, P)
    for s in er:
        f0 = s.formula(sub)
        vs = [k for k in F.atoms(f0) if k.startswith("VerifyScript(") and "STANDARD_SCRIPT_VERIFY_FLAGS" in k and ".scriptSig" in k and ".scriptWitness" in k]
        fb, mp, un = F.bind_atoms(f0, {"COMPLETE": re.compile(r"\w+\.complete"), "VERIFIES": lambda k: k in vs})
        cex = F.counterexample(fb, F.parse("COMPLETE || VERIFIES")) if len(vs) == 1 else {"standard-flags VerifyScript atom": len(vs)}
        ctx.ob("SignTransaction/success-guard@L%s" % s.line, "MPT", "an input's error entry is cleared only if its data is complete or VerifyScript with the standard flags accepts the updated input",
               cex is None, s.where, None if cex is None else {"counterexample": cex})
        # a witness spend whose amount is only the MAX_MONEY placeholder cannot have been verified against the real output
        fb2, mp2, un2 = F.bind_atoms(f0, {"NOAMOUNT": re.compile(r"(.+ == (MAX_MONEY|2100000000000000)|(MAX_MONEY|2100000000000000) == .+)"), "NOWITNESS": re.compile(r".+\.scriptWitness\.IsNull\(\)")})
        cex2 = F.counterexample(fb2, F.parse("!NOAMOUNT || NOWITNESS")) if {"NOAMOUNT", "NOWITNESS"} <= set(mp2.values()) else {"missing-amount test not found": True}
        ctx.ob("SignTransaction/amount-known@L%s" % s.line, "MPT", "an input with a witness is reported signed only if its amount is known (not the MAX_MONEY placeholder): otherwise the "
               "verification ran against an amount that is not the spent output's", cex2 is None, s.where, None if cex2 is None else {"counterexample": cex2})
    rets = [e for e in exits(stx, P) if e.kind == "ret"]
    okr = bool(rets) and all(is_expr(e.value) and show(e.value) == "input_errors.empty()" for e in rets)
    ctx.ob("SignTransaction/result", "LADDER", "SignTransaction reports success exactly as `input_errors.empty()`", okr, stx.where)
