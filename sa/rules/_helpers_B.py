"""Helpers shared by the storage/chain rule modules C16, C17, C19, C08, C09 (rule-side only; no engine changes)."""
from sa.engine.api import *


def mcall_named(*names):
    """Predicate: a (virtual) member call whose qualified callee is one of names."""
    ns = set(names)
    return lambda e: is_expr(e) and e[0] in ("mcall", "vcall") and e[1] in ns


def any_call_named(*names):
    ns = set(names)
    return lambda e: is_expr(e) and e[0] in ("mcall", "vcall", "call") and e[1] in ns


def assign_to_field(field, ops=None):
    """Predicate: an assignment (any assignment operator, or only `ops`) whose target is <x>.<field>."""
    def p(e):
        return (is_expr(e) and e[0] == "b" and e[1] in (ops or ASSIGN_OPS) and is_expr(e[2]) and e[2][0] == "." and e[2][2] == field)
    return p


def assign_to_local(name, value=None):
    def p(e):
        if not (is_expr(e) and e[0] == "b" and e[1] == "=" and match(["local", name], e[2])):
            return False
        return value is None or match(value, e[3])
    return p


def must_before(ctx, fn, P, marks, checks, oid, branch_marks=(), kills=(), exit_checks=(), rule="ORDER", min_events=None):
    """ORDER obligations by must-flow.  marks / branch_marks / kills as in MustFlow.
    checks: [(name, pred(expr), required, text)] - at every expression event matching pred the must-set (labels that have
    happened on *every* path to the event) contains each item of `required`; an item may be a tuple = any one of them.
    exit_checks: [(name, pred(stmt), required, text)] for function exits.
    Returns {name: number of events}."""
    mf = MustFlow(fn, P, marks=marks, branch_marks=branch_marks, kills=kills)
    mf.watch = lambda e: any(p(e) for _, p, _, _ in checks)
    mf.run()
    ctx.used(fn)
    counts = {n: 0 for n, _, _, _ in checks}
    for e, state, stmt in mf.events:
        for name, pred, required, text in checks:
            if not pred(e):
                continue
            counts[name] += 1
            missing = _missing(state, required)
            ctx.ob("%s/%s@L%s" % (oid, name, stmt.get("l")), rule, "%s [%s, line %s]" % (text, fn.q, stmt.get("l")), not missing,
                   "%s:%s" % (fn.file, stmt.get("l")), None if not missing else {"not_guaranteed_before": missing, "guaranteed": sorted(state)})
    for name, pred, required, text in exit_checks:
        counts.setdefault(name, 0)
        for state, stmt in mf.exits:
            if not pred(stmt):
                continue
            counts[name] += 1
            missing = _missing(state, required)
            ctx.ob("%s/%s@L%s" % (oid, name, stmt.get("l")), rule, "%s [%s, exit at line %s]" % (text, fn.q, stmt.get("l")), not missing,
                   "%s:%s" % (fn.file, stmt.get("l")), None if not missing else {"not_guaranteed_before": missing, "guaranteed": sorted(state)})
    for name, n in counts.items():
        ctx.floor("%s/%s sites" % (oid, name), n, 1 if min_events is None else min_events.get(name, 1))
    return counts


def _missing(state, required):
    out = []
    for r in required:
        if isinstance(r, tuple):
            if not any(x in state for x in r):
                out.append(" | ".join(r))
        elif r not in state:
            out.append(r)
    return out


def ret_true(stmt):
    return stmt.get("k") == "ret" and match(["bool", True], stmt.get("v"))


def ret_any(stmt):
    return stmt.get("k") in ("ret", "end")


def stream_chain(e, op):
    """`s << a << b` / `s >> a >> b` → (root stream expression, [a, b]); None if e is not such a chain."""
    items = []
    while is_expr(e) and e[0] == "b" and e[1] == op:
        items.append(e[3])
        e = e[2]
    if not items:
        return None
    return e, items[::-1]


def stream_ops(fn, P, op):
    """Ordered list of (line, root, operand, site) for every *maximal* stream chain `root <op> x <op> y` in fn (source order)."""
    out = []
    ss = sites(fn, lambda e: is_expr(e) and e[0] == "b" and e[1] == op and len(e) > 4, P)
    inner = set()
    for s in ss:
        x = s.expr[2]
        while is_expr(x) and x[0] == "b" and x[1] == op:
            inner.add(id(x))
            x = x[2]
    for s in ss:
        if id(s.expr) in inner:
            continue
        root, items = stream_chain(s.expr, op)
        for it in items:
            out.append((s.line, root, it, s))
    out.sort(key=lambda t: t[0] or 0)
    return out


def fclose_ok_mark(label):
    """branch mark: `<file>.fclose() != 0` is false (or `== 0` true)."""
    def is_ne(a):
        return is_expr(a) and a[0] == "b" and a[1] == "!=" and contains(["mcall", "AutoFile::fclose"], a[2]) and match(["int", 0], a[3])

    def is_eq(a):
        return is_expr(a) and a[0] == "b" and a[1] == "==" and contains(["mcall", "AutoFile::fclose"], a[2]) and match(["int", 0], a[3])
    return [(label, is_ne, False), (label, is_eq, True)]


def const_key(e, name):
    """The expression is the named integral constant (any namespace qualification)."""
    return is_expr(e) and e[0] == "int" and len(e) > 2 and isinstance(e[2], str) and e[2].rsplit("::", 1)[-1] == name


def alias_naming(fn, P):
    """naming(fn, P) extended by reference/pointer aliases: locals declared exactly once, never re-assigned, whose initialiser is an
    access path (field, element, dereference, address-of) - e.g. `CBlockIndex& block_index{entry.second};`."""
    sub = dict(naming(fn, P))
    decls = {}
    for st in stmts(fn.body):
        if st.get("k") == "decl" and st.get("n"):
            decls.setdefault(st["n"], []).append(st)

    def is_path(e):
        if not is_expr(e):
            return False
        if e[0] in ("local", "param", "this"):
            return True
        if e[0] == "." or e[0] == "idx":
            return is_path(e[1])
        if e[0] == "u" and e[1] in ("*", "&"):
            return is_path(e[2])
        return False
    assigned = {x[2][1] for st_, e in all_exprs(fn.body) for x in subexprs(e) if x[0] == "b" and x[1] in ASSIGN_OPS and is_expr(x[2]) and x[2][0] == "local"}
    for n, ds in decls.items():
        if n in sub or len(ds) != 1 or n in assigned:
            continue
        i = ds[0].get("i")
        if is_path(i) and i[0] not in ("local", "param", "this"):
            sub[n] = i
    return sub


def zero_test_marks(label, pred, pol):
    """Branch marks for a flag test spelled `x`, `x != 0` or `x == 0`: label is added where `pred(x)` has truth value pol."""
    def ne(a):
        return is_expr(a) and a[0] == "b" and a[1] == "!=" and match(["int", 0], a[3]) and pred(a[2])

    def eq(a):
        return is_expr(a) and a[0] == "b" and a[1] == "==" and match(["int", 0], a[3]) and pred(a[2])

    def strip(a):
        while is_expr(a) and a[0] == "cast":
            a = a[2]
        return a
    return [(label, lambda a: pred(strip(a)), pol), (label, lambda a: ne(strip(a)), pol), (label, lambda a: eq(strip(a)), not pol)]
