"""C10 Signature checks accept exactly valid signatures over the right message (DESIGN §3 C10) -
what the digest commits to, and the checker ladders."""
import re

from sa.engine.api import *

UNITS = ["script/interpreter.cpp", "pubkey.cpp"]
EXPLANATION = ("SYMMETRY in sequence-vs-table mode: the ordered list of (guard, written term) of every stream write into the digest writer is extracted "
               "from SignatureHashSchnorr, from the WITNESS_V0 branch of SignatureHash and from the legacy CTransactionSignatureSerializer, and compared - "
               "order, term and guard (truth-table equivalence over canonical atoms) - with the field tables of BIP341/342, BIP143 and the original "
               "sighash algorithm; sub-hash definitions (hashPrevouts/hashSequence/hashOutputs) are compared with their BIP143 conditions; the hash-type "
               "validity rung, SIGHASH_SINGLE out-of-range rungs and the tagged hasher are checked; SigHashCache.Load returns a midstate only for an "
               "equal script code and CacheIndex separates exactly the (ANYONECANPAY, SINGLE, NONE) classes; the ECDSA/Schnorr checker ladders accept "
               "only past a successful verification over the digest computed from the checker's own transaction, input index, amount and the signature's "
               "hash type; CPubKey::Verify normalises S before verifying. Decides which transaction fields each sighash type commits to (so changing a "
               "committed field changes the digest input); the curve mathematics and SHA-256 are not decided.")
ASSUMPTIONS = ["HashWriter operator<< serialises the written object completely (C48)", "SHA256/secp256k1 are correct (C49/C50, not applicable to static analysis)"]
CLAIM = dict(
    technique="static analysis: writer-sequence extraction vs BIP field tables (ordered, guards by truth table), LADDER on the checker functions, must-flow ordering",
    text="For every sighash type the set and order of transaction fields entering the signature digest equals the BIP tables, and the signature "
         "checkers return true only through the verification call on that digest; dropping a field, weakening an ANYONECANPAY/SINGLE/NONE guard, "
         "reordering, or verifying a digest of other data is reported at the write site.",
    note="Not decided: validity of signatures as a numeric fact, digest values, DER parsing (ecdsa_signature_parse_der_lax).",
    ref="DESIGN.md §3 C10")

ACP341 = {"ACP": re.compile(r"\(?SIGHASH_INPUT_MASK & hash_type\)? == SIGHASH_ANYONECANPAY|SIGHASH_ANYONECANPAY == \(?SIGHASH_INPUT_MASK & hash_type\)?")}
OUT341 = {"DEFAULT": re.compile(r"SIGHASH_DEFAULT == hash_type|hash_type == SIGHASH_DEFAULT"),
          "OUT_ALL": re.compile(r"\(?SIGHASH_OUTPUT_MASK & hash_type\)? == SIGHASH_ALL"),
          "OUT_SINGLE": re.compile(r"\(?SIGHASH_OUTPUT_MASK & hash_type\)? == SIGHASH_SINGLE"),
          "ALL_IS_ALL": re.compile(r"SIGHASH_ALL == SIGHASH_ALL"), "ALL_IS_SINGLE": re.compile(r"SIGHASH_ALL == SIGHASH_SINGLE")}
TAPS = {"TAPSCRIPT": "sigversion == SigVersion::TAPSCRIPT"}
ANNEX = {"ANNEX": "execdata.m_annex_present"}

# (term regex, spec guard, atoms)
BIP341 = [
    (r"0", "true", {}),                                        # epoch
    (r"hash_type", "true", {}),
    (r"tx_to\.version", "true", {}),
    (r"tx_to\.nLockTime", "true", {}),
    (r"cache\.m_prevouts_single_hash", "!ACP", ACP341),
    (r"cache\.m_spent_amounts_single_hash", "!ACP", ACP341),
    (r"cache\.m_spent_scripts_single_hash", "!ACP", ACP341),
    (r"cache\.m_sequences_single_hash", "!ACP", ACP341),
    (r"cache\.m_outputs_single_hash", "DEFAULT || OUT_ALL", OUT341),
    (r"spend_type", "true", {}),
    (r"tx_to\.vin\[in_pos\]\.prevout", "ACP", ACP341),
    (r"cache\.m_spent_outputs\[in_pos\]", "ACP", ACP341),
    (r"tx_to\.vin\[in_pos\]\.nSequence", "ACP", ACP341),
    (r"in_pos", "!ACP", ACP341),
    (r"execdata\.m_annex_hash", "ANNEX", ANNEX),
    (r"execdata\.m_output_hash\.value\(\)", "!DEFAULT && OUT_SINGLE", OUT341),
    (r"execdata\.m_tapleaf_hash", "TAPSCRIPT", TAPS),
    (r"key_version", "TAPSCRIPT", TAPS),
    (r"execdata\.m_codeseparator_pos", "TAPSCRIPT", TAPS),
]

V0 = {"V0": "sigversion == SigVersion::WITNESS_V0"}
BIP143 = [
    (r"txTo\.version", "V0"), (r"hashPrevouts", "V0"), (r"hashSequence", "V0"), (r"txTo\.vin\[nIn\]\.prevout", "V0"), (r"scriptCode", "V0"),
    (r"amount", "V0"), (r"txTo\.vin\[nIn\]\.nSequence", "V0"), (r"hashOutputs", "V0"), (r"txTo\.nLockTime", "V0"),
    (r"txTmp", "!V0"), (r"nHashType", "true"),
]
HT = {"V0": "sigversion == SigVersion::WITNESS_V0", "ACP": re.compile(r"SIGHASH_ANYONECANPAY & nHashType|nHashType & SIGHASH_ANYONECANPAY"),
      "SINGLE": re.compile(r"\(?31 & nHashType\)? == SIGHASH_SINGLE"), "NONE": re.compile(r"\(?31 & nHashType\)? == SIGHASH_NONE"),
      "INRANGE": "nIn < txTo.vout.size()"}


def own(site, subst):
    return F.mk_and([g.formula(subst) for g in site.guards if g.kind in ("if", "sc", "case")])


def writes(fn, P, stream, subst):
    """Ordered (line, term key, own guard) of `stream << term` writes in fn."""
    out = []
    for s in all_sites(fn, P):
        e = s.expr
        if e is not None and e[0] == "b" and e[1] == "<<" and show(e[2]) == stream:
            out.append((s.line, F.key(e[3]), own(s, subst), s))
    # chained writes (a << b << c) nest: flatten by line/position order already given by traversal
    return out


def compare_sequence(ctx, fn, seq, spec, oid, what):
    ctx.ob("%s/length" % oid, "SEQUENCE", "%s writes exactly %d items into the digest" % (what, len(spec)), len(seq) == len(spec), fn.where,
           {"code": [t for _, t, _, _ in seq], "spec": [s[0] for s in spec]} if len(seq) != len(spec) else None)
    for i, sp in enumerate(spec):
        if i >= len(seq):
            break
        term_re, guard = sp[0], sp[1]
        atoms = sp[2] if len(sp) > 2 else HT
        line, term, g, site = seq[i]
        okt = re.fullmatch(term_re, term) is not None
        fb, mp, un = F.bind_atoms(g, atoms)
        specf = F.parse(guard)
        c1, c2 = F.counterexample(fb, specf), F.counterexample(specf, fb)
        ok = okt and c1 is None and c2 is None
        ctx.ob("%s/#%d:%s" % (oid, i + 1, term_re.replace("\\", "")), "SEQUENCE",
               "item %d of the %s preimage is `%s`, written exactly when (%s)" % (i + 1, what, term_re.replace("\\", ""), guard), ok, site.where,
               None if ok else {"code_term": term, "code_guard": F.fshow(g), "unbound_atoms": un[:6], "counterexample": c1 or c2})


def check(ctx):
    P = ctx.program(UNITS)
    # ---------------- BIP341/342
    sch = ctx.used(P.fn("SignatureHashSchnorr"))
    ssub = naming(sch, P)
    seq = writes(sch, P, "ss", ssub)
    compare_sequence(ctx, sch, seq, BIP341, "schnorr", "BIP341/342 signature message")
    # spend_type = (ext_flag << 1) + (annex ? 1 : 0); ext_flag 0 for TAPROOT, 1 for TAPSCRIPT; key_version 0
    sdefs = local_defs(sch, P)
    sp = F.expand(sdefs.get("spend_type"), sdefs) if sdefs.get("spend_type") else None
    ok = sp is not None and re.fullmatch(r"\(?ext_flag << 1\)? \+ \(?execdata\.m_annex_present \? 1 : 0\)?|\(?execdata\.m_annex_present \? 1 : 0\)? \+ \(?ext_flag << 1\)?", F.key(sp)) is not None
    ctx.ob("schnorr/spend_type", "PROVENANCE", "spend_type is (ext_flag << 1) + (annex present ? 1 : 0)", ok, sch.where, show(sp) if sp else None)
    ev = {}
    for s in sites(sch, lambda e: e[0] == "b" and e[1] == "=" and e[2][0] == "local" and e[2][1] in ("ext_flag", "key_version"), P):
        cases = [show(v).rsplit("::", 1)[-1] for g in s.guards if g.kind == "case" for v in g.vals if not isinstance(v, str)]
        ev[(s.expr[2][1], tuple(cases))] = show(s.expr[3])
    ok = ev.get(("ext_flag", ("TAPROOT",))) == "0" and ev.get(("ext_flag", ("TAPSCRIPT",))) == "1" and ev.get(("key_version", ("TAPSCRIPT",))) == "0" and len(ev) == 3
    ctx.ob("schnorr/ext_flag", "TABLE", "ext_flag is 0 for key-path (TAPROOT) and 1 for TAPSCRIPT spends; key_version is 0", ok, sch.where, {str(k): v for k, v in ev.items()})
    # validity of hash_type and SINGLE out-of-range
    falses = [e for e in exits(sch, P, ssub) if is_false_ret(e)]
    ht_atoms = {"LE3": "hash_type < 4", "GE81": ("hash_type < 129", False), "LE83": "hash_type < 132"}
    okv = any(F.equivalent(F.bind_atoms(e.own_formula(None), ht_atoms)[0], F.parse("!(LE3 || (GE81 && LE83))")) for e in falses)
    ctx.ob("schnorr/hash_type-valid", "LADDER", "the digest fails unless hash_type <= 0x03 or 0x81 <= hash_type <= 0x83", okv, sch.where,
           [F.fshow(e.own_formula(None)) for e in falses])
    oks = any(F.equivalent(F.bind_atoms(e.own_formula(ssub), dict(OUT341, OOR=("in_pos < tx_to.vout.size()", False)))[0], F.parse("!DEFAULT && OUT_SINGLE && OOR"))
              for e in falses)
    ctx.ob("schnorr/single-out-of-range", "LADDER", "SIGHASH_SINGLE with no corresponding output makes the digest fail", oks, sch.where)
    # every false/true exit: hash_type validity precedes the first write of hash_type (ORDER)
    # the single-output hash covers vout[in_pos]
    so = [s for s in all_sites(sch, P) if s.expr is not None and s.expr[0] == "b" and s.expr[1] == "<<" and show(s.expr[2]) == "sha_single_output"]
    ctx.ob("schnorr/single-output-hash", "PROVENANCE", "the SIGHASH_SINGLE output hash is the hash of tx_to.vout[in_pos]", len(so) == 1 and F.key(so[0].expr[3]) == "tx_to.vout[in_pos]",
           sch.where)
    hs = [st for st in stmts(sch.body) if st.get("k") == "decl" and st.get("n") == "ss"]
    ok = len(hs) == 1 and "HASHER_TAPSIGHASH" in show(hs[0].get("i"))
    ctx.ob("schnorr/tagged-hasher", "PROVENANCE", "the digest writer starts from the TapSighash tagged hasher", ok, sch.where)
    outw = sites(sch, lambda e: match(["b", "=", ["param", "hash_out"]], e), P)
    ok = len(outw) == 1 and show(outw[0].expr[3]) == "ss.GetSHA256()"
    ctx.ob("schnorr/result", "PROVENANCE", "hash_out is the SHA256 of exactly that writer", ok, sch.where)

    # ---------------- BIP143 + legacy
    sh = ctx.used(P.fn("SignatureHash"))
    hsub = {}      # keep hashPrevouts etc. as names
    seq = [w for w in writes(sh, P, "ss", hsub) if not any("sighash_cache" in F.fshow(g.formula(None)) and g.kind in ("if", "sc") for g in w[3].guards)]
    compare_sequence(ctx, sh, seq, BIP143, "sighash", "BIP143 / legacy signature message")
    subh = {"hashPrevouts": ("!ACP", r"cacheready \? cache\.hashPrevouts : SHA256Uint256\(GetPrevoutsSHA256\(txTo\)\)"),
            "hashSequence": ("!ACP && !SINGLE && !NONE", r"cacheready \? cache\.hashSequence : SHA256Uint256\(GetSequencesSHA256\(txTo\)\)")}
    assigns = sites(sh, lambda e: e[0] == "b" and e[1] == "=" and e[2][0] == "local" and e[2][1] in ("hashPrevouts", "hashSequence", "hashOutputs"), P)
    by = {}
    for s in assigns:
        by.setdefault(s.expr[2][1], []).append(s)
    for name, (guard, val) in subh.items():
        ss_ = by.get(name, [])
        ok = len(ss_) == 1
        if ok:
            fb, _, un = F.bind_atoms(own(ss_[0], hsub), HT)
            ok = F.equivalent(fb, F.mk_and([F.parse("V0"), F.parse(guard)])) and re.fullmatch(val, show(ss_[0].expr[3])) is not None
        ctx.ob("sighash/%s" % name, "TABLE", "%s commits to all inputs exactly when (%s), otherwise it stays zero" % (name, guard), ok, sh.where,
               [(F.fshow(own(s, hsub)), show(s.expr[3])[:90]) for s in ss_])
    outs = by.get("hashOutputs", [])
    ok = len(outs) == 2
    if ok:
        g0 = F.bind_atoms(own(outs[0], hsub), HT)[0]
        g1 = F.bind_atoms(own(outs[1], hsub), HT)[0]
        ok = F.equivalent(g0, F.parse("V0 && !SINGLE && !NONE")) and "GetOutputsSHA256(txTo)" in show(outs[0].expr[3]) and \
            F.equivalent(g1, F.parse("V0 && SINGLE && INRANGE")) and show(outs[1].expr[3]) == "inner_ss.GetHash()"
    ctx.ob("sighash/hashOutputs", "TABLE", "hashOutputs commits to all outputs unless SINGLE/NONE, to vout[nIn] for SINGLE with nIn in range, else zero", ok, sh.where)
    inner = [s for s in all_sites(sh, P) if s.expr is not None and s.expr[0] == "b" and s.expr[1] == "<<" and show(s.expr[2]) == "inner_ss"]
    ctx.ob("sighash/single-output", "PROVENANCE", "the SINGLE output hash covers txTo.vout[nIn]", len(inner) == 1 and F.key(inner[0].expr[3]) == "txTo.vout[nIn]", sh.where)
    ones = [e for e in exits(sh, P) if e.kind == "ret" and show(e.value) == "uint256::ONE"]
    ok = len(ones) == 1 and F.equivalent(F.bind_atoms(ones[0].own_formula(None), HT)[0], F.parse("!V0 && SINGLE && !INRANGE"))
    ctx.ob("sighash/legacy-single-bug", "LADDER", "legacy SIGHASH_SINGLE with nIn >= vout.size() returns the constant ONE (and only then)", ok, sh.where)
    tmp = local_defs(sh, P).get("txTmp") or next((st.get("i") for st in stmts(sh.body) if st.get("k") == "decl" and st.get("n") == "txTmp"), None)
    ok = tmp is not None and re.fullmatch(r"CTransactionSignatureSerializer\{txTo, scriptCode, nIn, nHashType\}", show(tmp)) is not None
    ctx.ob("sighash/legacy-serializer-args", "PROVENANCE", "the legacy serializer is built from (txTo, scriptCode, nIn, nHashType)", ok, sh.where, show(tmp) if tmp else None)
    # cache load: only when the stored script code equals the current one
    ld = ctx.used(P.fn("SigHashCache::Load"))
    for e in exits(ld, P):
        if is_true_ret(e):
            ats = F.atoms(e.formula)
            ok = any(re.search(r"script_code == .*first|first == script_code", a) for a in ats) and F.implies(e.formula, F.atom([a for a in ats if "script_code" in a][0]))
            ctx.ob("SigHashCache/Load@L%s" % e.line, "LADDER", "a cached midstate is used only if its script code equals the current script code", ok, "%s:%s" % (ld.file, e.line))
    ci = ctx.used(P.fn("SigHashCache::CacheIndex"))
    rv = [e for e in exits(ci, P)]
    ok = len(rv) == 1 and re.fullmatch(r"\(\(3 \* !!\(hash_type & SIGHASH_ANYONECANPAY\)\) \+ \(2 \* \(\(hash_type & 31\) == SIGHASH_SINGLE\)\)\) \+ \(1 \* \(\(hash_type & 31\) == SIGHASH_NONE\)\)", show(rv[0].value)) is not None
    ctx.ob("SigHashCache/CacheIndex", "TABLE", "the cache index separates exactly the (ANYONECANPAY, SINGLE, NONE) classes the pre-hashtype preimage depends on", ok, ci.where,
           show(rv[0].value) if rv else None)
    # legacy serializer
    ctor = P.fns("CTransactionSignatureSerializer::CTransactionSignatureSerializer")
    if len(ctor) != 1:
        raise AnalysisBroken("CTransactionSignatureSerializer constructor not found")
    inits = {i.get("f", "").rsplit("::", 1)[-1]: show(i["i"]) for i in ctor[0].d.get("inits", [])}
    ok = inits.get("fAnyoneCanPay") == "!!(nHashTypeIn & SIGHASH_ANYONECANPAY)" and inits.get("fHashSingle") == "(nHashTypeIn & 31) == SIGHASH_SINGLE" and \
        inits.get("fHashNone") == "(nHashTypeIn & 31) == SIGHASH_NONE" and inits.get("nIn") == "nInIn" and inits.get("txTo") == "txToIn" and inits.get("scriptCode") == "scriptCodeIn"
    ctx.ob("legacy/flags", "TABLE", "the legacy serializer derives ANYONECANPAY = type & 0x80, SINGLE/NONE = (type & 0x1f) == 3/2", ok, ctor[0].where, inits)
    ser = ctx.used(P.fn("CTransactionSignatureSerializer::Serialize"))
    d = {st.get("n"): show(st.get("i")) for st in stmts(ser.body) if st.get("k") == "decl" and is_expr(st.get("i"))}
    ok = d.get("nInputs") == "fAnyoneCanPay ? 1 : txTo.vin.size()" and d.get("nOutputs") == "fHashNone ? 0 : (fHashSingle ? (nIn + 1) : txTo.vout.size())"
    ctx.ob("legacy/counts", "TABLE", "inputs serialized: 1 under ANYONECANPAY else all; outputs: 0 under NONE, nIn+1 under SINGLE, else all", ok, ser.where, d)
    order = [show(e)[:60] for st in ser.body.get("s", []) for e in ([st.get("e")] if st.get("k") == "expr" else []) if is_expr(e)]
    loops = [(show(st.get("c")), [callee(x) for _, e in all_exprs(st["b"]) for x in subexprs(e) if callee(x)]) for st in ser.body.get("s", []) if st.get("k") == "for"]
    ok = order[:1] == ["Serialize(s, txTo.version)"] and order[-1:] == ["Serialize(s, txTo.nLockTime)"] and len(loops) == 2 and \
        loops[0][0] == "nInput < nInputs" and any((c or "").endswith("SerializeInput") for c in loops[0][1]) and \
        loops[1][0] == "nOutput < nOutputs" and any((c or "").endswith("SerializeOutput") for c in loops[1][1])
    ctx.ob("legacy/order", "SEQUENCE", "legacy preimage order: version, inputs, outputs, locktime", ok, ser.where, {"stmts": order, "loops": loops})
    si = ctx.used(P.fn("CTransactionSignatureSerializer::SerializeInput"))
    isub = {}
    blank = [s for s in all_sites(si, P) if s.expr is not None and callee(s.expr) and callee(s.expr).endswith("Serialize") and len(call_args(s.expr)) == 2]
    tab = {F.key(call_args(s.expr)[1]): F.fshow(own(s, isub)) for s in blank}
    want = {"txTo.vin[nInput].prevout": "true", "CScript{}": "nIn != nInput", "0": None, "txTo.vin[nInput].nSequence": None}
    ok = set(tab) == set(want) and tab["txTo.vin[nInput].prevout"] == "true"
    seqg = F.bind_atoms(own([s for s in blank if F.key(call_args(s.expr)[1]) == "0"][0], isub) if ok else F.T,
                        {"OTHER": ("nIn == nInput", False), "SINGLE": "fHashSingle", "NONE": "fHashNone"})[0] if ok else F.T
    blankg = F.bind_atoms(own([s for s in blank if F.key(call_args(s.expr)[1]) == "CScript{}"][0], isub) if ok else F.T, {"OTHER": ("nIn == nInput", False)})[0] if ok else F.T
    ok = ok and F.equivalent(seqg, F.parse("OTHER && (SINGLE || NONE)")) and F.equivalent(blankg, F.parse("OTHER"))
    ctx.ob("legacy/input", "TABLE", "each serialized input: prevout always; script blanked for other inputs; sequence zeroed for other inputs under SINGLE/NONE", ok, si.where, tab)
    acp = sites(si, lambda e: match(["b", "=", ["param", "nInput"], [".", ["this"], "CTransactionSignatureSerializer::nIn"]], e), P)
    ok = len(acp) == 1 and F.fshow(own(acp[0], isub)) == "fAnyoneCanPay"
    ctx.ob("legacy/input-acp", "TABLE", "under ANYONECANPAY the only serialized input is the one being signed", ok, si.where)
    so_ = ctx.used(P.fn("CTransactionSignatureSerializer::SerializeOutput"))
    outs_ = [s for s in all_sites(so_, P) if s.expr is not None and callee(s.expr) and callee(s.expr).endswith("Serialize") and len(call_args(s.expr)) == 2]
    tab = {F.key(call_args(s.expr)[1]): F.bind_atoms(own(s, {}), {"SINGLE": "fHashSingle", "OTHER": ("nIn == nOutput", False)})[0] for s in outs_}
    ok = set(tab) == {"CTxOut{}", "txTo.vout[nOutput]"} and F.equivalent(tab["CTxOut{}"], F.parse("SINGLE && OTHER")) and F.equivalent(tab["txTo.vout[nOutput]"], F.parse("!(SINGLE && OTHER)"))
    ctx.ob("legacy/output", "TABLE", "under SINGLE the outputs before nIn are blanked, every other serialized output is the real one", ok, so_.where, {k: F.fshow(v) for k, v in tab.items()})

    # ---------------- checkers
    ce = ctx.used(P.fn("GenericTransactionSignatureChecker::CheckECDSASignature", file="interpreter.cpp"))
    esub = naming(ce, P)
    for e in exits(ce, P, esub):
        if is_true_ret(e):
            fb, mp, un = F.bind_atoms(e.formula, {"PKVALID": re.compile(r"(pubkey|CPubKey\{vchPubKey\})\.IsValid\(\)"), "EMPTY": "vchSig.empty()",
                                                  "VERIFIED": re.compile(r"GenericTransactionSignatureChecker::VerifyECDSASignature\(vchSig, (pubkey|CPubKey\{vchPubKey\}), "
                                                                         r"(sighash|SignatureHash\(scriptCode, \*txTo, nIn, nHashType, amount, sigversion, (this\.)?txdata, &m_sighash_cache\))\)")})
            cex = F.counterexample(fb, F.parse("PKVALID && !EMPTY && VERIFIED"))
            ctx.ob("CheckECDSASignature/accept@L%s" % e.line, "LADDER", "an ECDSA signature is accepted only if the key is valid, the signature non-empty and "
                   "VerifyECDSASignature(sig, pubkey, sighash) succeeded", cex is None, "%s:%s" % (ce.file, e.line), None if cex is None else {"unbound": un[:6], "counterexample": cex})
    shd = [st.get("i") for st in stmts(ce.body) if st.get("k") == "decl" and st.get("n") == "sighash"]
    ok = len(shd) == 1 and re.fullmatch(r"SignatureHash\(scriptCode, \*txTo, nIn, nHashType, amount, sigversion, (this\.)?txdata, &m_sighash_cache\)", show(shd[0])) is not None
    ctx.ob("CheckECDSASignature/digest-args", "PROVENANCE", "the verified digest is SignatureHash(scriptCode, *txTo, nIn, nHashType, amount, sigversion, txdata, cache) "
           "over the checker's own transaction, input index and amount", ok, ce.where, show(shd[0]) if shd else None)
    mf = MustFlow(ce, P, marks=[("hashtype-read", lambda e: e[0] == "mcall" and e[1].endswith("::back") and show(e[2]) == "vchSig")])
    mf.watch = lambda e: e[0] == "mcall" and e[1].endswith("::pop_back") and show(e[2]) == "vchSig"
    mf.run()
    ok = len(mf.events) == 1 and "hashtype-read" in mf.events[0][1]
    htv = local_values(ce, "nHashType")
    ok = ok and len(htv) == 1 and show(htv[0][1]) == "vchSig.back()"
    ctx.ob("CheckECDSASignature/hashtype", "ORDER", "the hash type is the signature's last byte, read before it is stripped", ok, ce.where)
    cs = ctx.used(P.fn("GenericTransactionSignatureChecker::CheckSchnorrSignature", file="interpreter.cpp"))
    csub = naming(cs, P)
    for e in exits(cs, P, csub):
        if is_true_ret(e):
            fb, mp, un = F.bind_atoms(e.formula, {"S64": "sig.size() == 64", "S65": "sig.size() == 65",
                                                  "DIGEST": re.compile(r"SignatureHashSchnorr\(sighash, execdata, \*txTo, nIn, hashtype, sigversion, \*(this\.)?txdata, m_mdb\)"),
                                                  "VERIFIED": re.compile(r"GenericTransactionSignatureChecker::VerifySchnorrSignature\(sig, (pubkey|XOnlyPubKey\{pubkey_in\}), sighash\)"),
                                                  "TYPE0": re.compile(r"hashtype == SIGHASH_DEFAULT|SIGHASH_DEFAULT == hashtype")})
            cex = F.counterexample(fb, F.parse("(S64 || S65) && DIGEST && VERIFIED && (!S65 || !TYPE0)"))
            ctx.ob("CheckSchnorrSignature/accept@L%s" % e.line, "LADDER", "a Schnorr signature is accepted only with size 64/65, a non-default explicit hash type, a computed "
                   "digest for (txTo, nIn, hashtype) and a successful VerifySchnorrSignature(sig, pubkey, sighash)", cex is None, "%s:%s" % (cs.file, e.line),
                   None if cex is None else {"unbound": un[:6], "counterexample": cex, "path": F.fshow(e.formula)[:500]})
    hv = local_values(cs, "hashtype")
    ok = len(hv) == 2 and show(hv[0][1]) == "SIGHASH_DEFAULT" and show(hv[1][1]) == "SpanPopBack(sig)"
    ctx.ob("CheckSchnorrSignature/hashtype", "PROVENANCE", "the Schnorr hash type is SIGHASH_DEFAULT for 64-byte signatures, else the popped 65th byte", ok, cs.where, [show(v) for _, v in hv])
    for q, callee_q, text in (("GenericTransactionSignatureChecker::VerifyECDSASignature", "CPubKey::Verify", "pubkey.Verify(sighash, vchSig)"),
                              ("GenericTransactionSignatureChecker::VerifySchnorrSignature", "XOnlyPubKey::VerifySchnorr", "pubkey.VerifySchnorr(sighash, sig)")):
        fn = ctx.used(P.fn(q, file="interpreter.cpp"))
        ex = exits(fn, P)
        ok = len(ex) == 1 and show(ex[0].value) == text
        ctx.ob("%s/forward" % q.rsplit("::", 1)[-1], "PROVENANCE", "%s is exactly %s" % (q.rsplit("::", 1)[-1], text), ok, fn.where, [show(e.value) for e in ex])
    # low-S normalisation precedes verification
    pv = ctx.used(P.fn("CPubKey::Verify"))
    mf = MustFlow(pv, P, marks=[("normalized", call_to("secp256k1_ecdsa_signature_normalize")), ("parsed", call_to("ecdsa_signature_parse_der_lax"))])
    mf.watch = call_to("secp256k1_ecdsa_verify")
    mf.run()
    ctx.floor("secp256k1_ecdsa_verify sites", len(mf.events), 1)
    for e, st, stmt in mf.events:
        a = call_args(e)
        ok = {"normalized", "parsed"} <= st and len(a) == 4 and show(a[2]) == "hash.begin()"
        ctx.ob("CPubKey::Verify/order@L%s" % stmt.get("l"), "ORDER", "the signature is parsed and S-normalised before secp256k1_ecdsa_verify over the given hash", ok,
               "%s:%s" % (pv.file, stmt.get("l")))
    for e in exits(pv, P):
        if e.kind == "ret" and not is_false_ret(e):
            ok = is_call_to("secp256k1_ecdsa_verify", e.value) or (is_expr(e.value) and any(is_call_to("secp256k1_ecdsa_verify", x) for x in subexprs(e.value)))
            ctx.ob("CPubKey::Verify/result@L%s" % e.line, "LADDER", "CPubKey::Verify returns true only as the result of secp256k1_ecdsa_verify", ok, "%s:%s" % (pv.file, e.line))
