"""C07 Headers need real proof of work and the exact required difficulty (DESIGN §3 C07)."""
import re

from sa.engine.api import *
from sa.rules._helpers_A import *

UNITS = ["pow.cpp", "validation.cpp", "kernel/chainparams.cpp"]
EXPLANATION = ("Twin conformance (truth tables over canonical atoms + ordered operation sequences on the big-number locals): DeriveTarget (none iff negative || zero || "
               "overflow || > powLimit, after SetCompact(nBits,&neg,&ovf)); CheckProofOfWorkImpl (true iff target exists and !(hash > target)); CheckProofOfWork == Impl in this "
               "build; CalculateNextWorkRequired (no-retarget exit, timespan clamp to [T/4, 4T] with strict comparisons, SetCompact(last or BIP94-first bits), *= span, /= T, cap "
               "at powLimit, GetCompact); GetNextWorkRequired (four exits: min-difficulty late block, walk-back, unchanged, retarget exactly when (h+1) % interval == 0 with the "
               "first block of the period); PermittedDifficultyTransition (decision formula and both bound computations: old bits x 4T or T/4, / T, cap, rounded through "
               "GetCompact) and its SYMMETRY with CalculateNextWorkRequired (same timespan field, factors and cap). LADDER ContextualCheckBlockHeader (bad-diffbits, time-too-old "
               "<= MTP, timewarp, time-too-new > now + 7200 s, version rungs) with only-if and result enums; CheckBlockHeader high-hash rung; MPT AcceptBlockHeader -> "
               "AddToBlockIndex only through both header checks (genesis exempt) on the parent found by hashPrevBlock. Constants pinned.")
ASSUMPTIONS = ["arith_uint256 SetCompact/GetCompact/operators implement the reference compact encoding and 256-bit arithmetic (numeric part not decided)",
               "CBlockIndex::GetMedianTimePast is the median of the previous 11 timestamps (C54)", "the analysed build is not a fuzzing build (EnableFuzzDeterminism() is constant false; checked)"]
CLAIM = dict(
    technique="static analysis: twin conformance of decision formulas and ordered big-number operation sequences, reject ladder with result enums, "
              "must-pass-through guard implication, sibling symmetry, constants",
    text="Decides, for all paths, the decision structure, comparison operators, operand order and constants of the proof-of-work check, the retargeting computation, the "
         "permitted-transition check and the contextual header ladder, and that a header enters the block index only through them. The structural necessary condition for "
         "'required => permitted' (same parameter field, same factors 4 and 1/4, same cap, same multiply-then-divide order) is checked between the two functions.",
    note="Not decided: bit-level SetCompact/GetCompact encoding and 256-bit arithmetic, the for-all-inputs implication 'required => permitted' itself, per-chain parameter values "
         "(listed in evidence only), GetMedianTimePast (C54).",
    ref="DESIGN.md §3 C07")

IH = "BlockValidationResult::BLOCK_INVALID_HEADER"
T = r"params\.nPowTargetTimespan"
T4 = r"(?:4 \* " + T + r"|" + T + r" \* 4)"
TQ = T + r" / 4"
LIMIT = r"UintToArith256\(params\.powLimit\)"
DIVT = r"(?:base_uint\{)?" + T + r"\}?"
INTERVAL = "params.DifficultyAdjustmentInterval()"


def check(ctx):
    P = ctx.program(UNITS)
    consts(ctx, P)
    derive_target(ctx, P)
    check_pow(ctx, P)
    calc = calculate(ctx, P)
    get_next(ctx, P)
    perm = permitted(ctx, P)
    symmetry(ctx, P, calc, perm)
    contextual_header(ctx, P)
    accept_header(ctx, P)
    chains(ctx, P)


def consts(ctx, P):
    for name, want, txt in [("MAX_FUTURE_BLOCK_TIME", 7200, "2 * 60 * 60"), ("MAX_TIMEWARP", 600, "600"), ("CBlockIndex::nMedianTimeSpan", 11, "11")]:
        v = P.const(name)
        ctx.ob("const/%s" % name, "CONST", "%s == %s" % (name, txt), v == want, None, {"value": v})
    f = ctx.used(P.fn("Consensus::Params::DifficultyAdjustmentInterval"))
    rv = [show(e.value) for e in exits(f, P)]
    ctx.ob("DifficultyAdjustmentInterval/formula", "TWIN", "DifficultyAdjustmentInterval() == nPowTargetTimespan / nPowTargetSpacing", rv == ["nPowTargetTimespan / nPowTargetSpacing"], f.where,
           {"returns": rv})


# ---------------------------------------------------------------------------------------------- proof of work
def derive_target(ctx, P):
    f = ctx.used(P.fn("DeriveTarget"))
    subst = naming(f, P)
    ex = exits(f, P, subst)
    vals = [e for e in ex if is_expr(e.value) and e.value[0] == "ctor" and len(e.value) > 2 and is_expr(e.value[2]) and e.value[2][0] == "local"]
    none = [e for e in ex if e not in vals]
    if len(vals) != 1 or len(none) != 1:
        raise AnalysisBroken("DeriveTarget: expected one exit returning the target local and one returning an empty optional")
    tgt = vals[0].value[2][1]
    ops = ops_on(f, P, tgt, subst)
    okops = len(ops) == 1 and ops[0].kind == "SetCompact" and len(ops[0].args) == 3 and ops[0].args[0] == "nBits" and F.equivalent(ops[0].guard, F.T) \
        and all(re.fullmatch(r"&\w+", a) for a in ops[0].args[1:]) and ops[0].line < min(e.line for e in ex)
    ctx.ob("DeriveTarget/decode", "SEQUENCE", "the target is decoded once, unconditionally, by SetCompact(nBits, &negative, &overflow) before any test", okops, f.where,
           {"operations": [repr(o) for o in ops]})
    if not okops:
        return
    neg, ovf = ops[0].args[1][1:], ops[0].args[2][1:]
    wr = [w for n in (neg, ovf) for w in writes_to_local(f, n) if w[1] != "&"]
    atoms = {"NEG": neg, "OVF": ovf, "ZERO": (tgt, False), "ABOVE": "UintToArith256(pow_limit) < %s" % tgt}
    check_equiv(ctx, none[0].formula, "NEG || ZERO || OVF || ABOVE", atoms, "DeriveTarget/none", "TWIN",
                "DeriveTarget yields no target exactly when the compact value is negative, zero, overflowing or above the proof-of-work limit", "%s:%s" % (f.file, none[0].line))
    ctx.ob("DeriveTarget/none-value", "TWIN", "the rejecting exit returns an empty optional and the flags are written only by SetCompact",
           is_expr(none[0].value) and none[0].value[0] == "ctor" and len([a for a in none[0].value[2:] if is_expr(a)]) == 0 and not wr, "%s:%s" % (f.file, none[0].line),
           {"value": show(none[0].value)})


def check_pow(ctx, P):
    f = ctx.used(P.fn("CheckProofOfWorkImpl"))
    subst = full_subst(f, P)
    atoms = {"TARGET": "DeriveTarget(nBits, params.powLimit)", "HIGH": "DeriveTarget(nBits, params.powLimit) < UintToArith256(hash)"}
    check_returns(ctx, f, P, "TARGET && !HIGH", atoms, subst=subst)
    g = ctx.used(P.fn("CheckProofOfWork"))
    atoms = {"FUZZ": "EnableFuzzDeterminism()", "IMPL": "CheckProofOfWorkImpl(hash, nBits, params)", "HIGHBIT": re.compile(r".*hash\.data\(\)\[31\].*")}
    check_returns(ctx, g, P, "(FUZZ && !HIGHBIT) || (!FUZZ && IMPL)", atoms)
    h = ctx.used(P.fn("EnableFuzzDeterminism"))
    check_returns(ctx, h, P, "false", {}, oid="EnableFuzzDeterminism")
    # the header rung
    c = ctx.used(P.fn("CheckBlockHeader"))
    atoms = {"CHECK": "fCheckPOW", "POW": "CheckProofOfWork(block.GetHash(), block.nBits, consensusParams)"}
    ex = exits(c, P)
    check_excludes(ctx, c, P, [e for e in ex if is_true_ret(e)], "CHECK && !POW", atoms, "CheckBlockHeader/rung:high-hash",
                   "CheckBlockHeader accepts (when PoW checking is requested) only if CheckProofOfWork(block.GetHash(), block.nBits, params)")
    check_results(ctx, c, P, {"high-hash": IH}, ex=ex)
    for e in ex:
        if invalid_call(e.value):
            f_, m_, un = bound(e.formula, atoms)
            ok = F.equivalent(f_, F.parse("CHECK && !POW")) and not un
            ctx.ob("CheckBlockHeader/only-if:high-hash", "LADDER", "high-hash is raised exactly when PoW checking is requested and CheckProofOfWork fails", ok, "%s:%s" % (c.file, e.line))


# ---------------------------------------------------------------------------------------------- retargeting
def calculate(ctx, P):
    f = ctx.used(P.fn("CalculateNextWorkRequired"))
    subst = naming(f, P)
    ex = exits(f, P, subst)
    keep = [e for e in ex if F.key(F.expand(e.value, subst)) == "pindexLast.nBits"]
    comp = [e for e in ex if is_expr(e.value) and e.value[0] == "mcall" and e.value[1].endswith("::GetCompact") and is_expr(e.value[2]) and e.value[2][0] == "local"]
    if len(keep) != 1 or len(comp) != 1 or len(ex) != 2:
        raise AnalysisBroken("CalculateNextWorkRequired: expected exits `pindexLast->nBits` and `<target>.GetCompact()`")
    atoms = {"NORETARGET": "params.fPowNoRetargeting", "BIP94": "params.enforce_BIP94"}
    check_equiv(ctx, keep[0].formula, "NORETARGET", atoms, "CalculateNextWorkRequired/no-retarget", "TWIN", "the previous bits are kept exactly when fPowNoRetargeting", "%s:%s" % (f.file, keep[0].line))
    check_equiv(ctx, comp[0].formula, "!NORETARGET", atoms, "CalculateNextWorkRequired/retarget-exit", "TWIN", "otherwise the recomputed target is returned in compact form", "%s:%s" % (f.file, comp[0].line))
    B = comp[0].value[2][1]
    ops = ops_on(f, P, B, subst)
    mul = [o for o in ops if o.kind == "*="]
    X = mul[0].args[0] if len(mul) == 1 and re.fullmatch(r"\w+", mul[0].args[0]) else None
    ctx.ob("CalculateNextWorkRequired/span-local", "SEQUENCE", "the target is multiplied by the (clamped) actual-timespan local", X is not None, f.where, {"operations": [repr(o) for o in ops]})
    if X is None:
        return None
    d = decl_of(f, X)
    k0 = F.key(F.expand(d["i"], subst)) if d is not None and is_expr(d.get("i")) else None
    ctx.ob("CalculateNextWorkRequired/span-init", "TWIN", "actual timespan = pindexLast->GetBlockTime() - nFirstBlockTime", k0 == "pindexLast.GetBlockTime() - nFirstBlockTime", f.where, {"init": k0})
    xat = {"LOW": "%s < params.nPowTargetTimespan / 4" % X, "HIGH": "4 * params.nPowTargetTimespan < %s" % X}
    xops = ops_on(f, P, X, subst)
    check_ops(ctx, f, xops, [[("=", [TQ], "LOW"), ("=", [T4], "HIGH")]], xat, "CalculateNextWorkRequired/clamp",
              "the timespan is clamped to [T/4, 4T]: set to T/4 exactly when < T/4 and to 4T exactly when > 4T (strict), nothing else modifies it")
    okorder = bool(xops) and max(o.line for o in xops) < mul[0].line
    ctx.ob("CalculateNextWorkRequired/clamp-first", "ORDER", "the clamp precedes the multiplication", okorder, f.where)
    first = r"pindexLast\.GetAncestor\(pindexLast\.nHeight - \(params\.DifficultyAdjustmentInterval\(\) - 1\)\)\.nBits"
    groups = [[("SetCompact", [first], "BIP94"), ("SetCompact", [r"pindexLast\.nBits"], "!BIP94")],
              [("*=", [re.escape(X)], "true")], [("/=", [DIVT], "true")], [("=", [LIMIT], "CAP")]]
    bat = dict(atoms, CAP="UintToArith256(params.powLimit) < %s" % B)
    check_ops(ctx, f, ops, groups, bat, "CalculateNextWorkRequired/sequence",
              "new target = SetCompact(last bits; first-of-period bits under BIP94), *= timespan, /= nPowTargetTimespan, capped at powLimit exactly when above it - in this order")
    okret = bool(ops) and max(o.line for o in ops) < comp[0].line
    ctx.ob("CalculateNextWorkRequired/return-last", "ORDER", "GetCompact() is taken after all operations", okret, "%s:%s" % (f.file, comp[0].line))
    return dict(fn=f, ops=ops, X=X, xops=xops)


def get_next(ctx, P):
    f = ctx.used(P.fn("GetNextWorkRequired"))
    subst = naming(f, P)
    ex = exits(f, P, subst)
    limit = "UintToArith256(params.powLimit).GetCompact()"
    lps = loops_in(f, "while")
    if len(lps) != 1:
        raise AnalysisBroken("GetNextWorkRequired: walk-back loop not found")
    w = lps[0].get("b")
    # the walking pointer
    asg = sites(f, lambda e: e[0] == "b" and e[1] == "=" and is_expr(e[2]) and e[2][0] == "local" and match([".", ["local", e[2][1]], "CBlockIndex::pprev"], e[3]), P)
    if len(asg) != 1:
        raise AnalysisBroken("GetNextWorkRequired: `p = p->pprev` not found")
    p = asg[0].expr[2][1]
    atoms = {"LAST": "pindexLast", "OFF": "(1 + pindexLast.nHeight) % " + INTERVAL, "MINDIFF": "params.fPowAllowMinDifficultyBlocks",
             "LATE": "(2 * params.nPowTargetSpacing) + pindexLast.GetBlockTime() < pblock.GetBlockTime()",
             "HASPREV": "%s.pprev" % p, "POFF": "%s.nHeight %% %s" % (p, INTERVAL), "PMIN": ["%s == %s.nBits" % (limit, p), "%s.nBits == %s" % (p, limit)],
             "FIRSTOK": ("pindexLast.nHeight - (%s - 1) < 0" % INTERVAL, False), "FIRST": "pindexLast.GetAncestor(pindexLast.nHeight - (%s - 1))" % INTERVAL}
    want = [
        (re.escape(limit), "LAST && OFF && MINDIFF && LATE", "min-difficulty",
         "the limit is returned exactly for a non-retarget block on a min-difficulty chain whose time is > prev time + 2 * spacing (strict)"),
        (re.escape(p) + r"\.nBits", "LAST && OFF && MINDIFF && !LATE && !(HASPREV && POFF && PMIN)", "walk-back",
         "otherwise on such a chain: the bits of the last block that is a period start or not at the limit"),
        (r"pindexLast\.nBits", "LAST && OFF && !MINDIFF", "unchanged", "a non-retarget block on a normal chain keeps the previous bits"),
        (r"CalculateNextWorkRequired\(pindexLast, pindexLast\.GetAncestor\(pindexLast\.nHeight - \(params\.DifficultyAdjustmentInterval\(\) - 1\)\)\.GetBlockTime\(\), params\)",
         "LAST && !OFF && FIRSTOK && FIRST", "retarget", "exactly when (height + 1) % interval == 0 the target is recomputed from the time of the first block of the period"),
    ]
    ctx.ob("GetNextWorkRequired/exits", "TWIN", "GetNextWorkRequired has exactly the four specified exits", len(ex) == 4, f.where, {"exits": [(e.line, show(e.value)) for e in ex]})
    for rx, spec, label, text in want:
        hit = [e for e in ex if is_expr(e.value) and re.fullmatch(rx, F.key(F.expand(e.value, subst)))]
        if len(hit) != 1:
            ctx.ob("GetNextWorkRequired/%s" % label, "TWIN", text, False, f.where, {"exits": [(e.line, F.key(F.expand(e.value, subst))) for e in ex]})
            continue
        check_equiv(ctx, hit[0].formula, spec, atoms, "GetNextWorkRequired/%s" % label, "TWIN", text, "%s:%s" % (f.file, hit[0].line))
    # walk-back loop shape
    d = decl_of(f, p)
    pops = ops_on(f, P, p, subst)
    lc = F.bind_atoms(F.to_formula(lps[0].get("c"), subst), atoms)
    okw = d is not None and F.key(d.get("i")) == "pindexLast" and len(pops) == 1 and pops[0].kind == "=" and pops[0].args == ["%s.pprev" % p] \
        and F.equivalent(lc[0], F.parse("HASPREV && POFF && PMIN")) and not lc[2] and not has_break(w) and pops[0].site.loops and pops[0].site.loops[-1] is lps[0]
    ctx.ob("GetNextWorkRequired/walk-back-loop", "TWIN", "the walk-back starts at pindexLast and steps to pprev while (pprev exists && height % interval != 0 && bits == limit)", okw,
           "%s:%s" % (f.file, lps[0].get("l")), {"cond": F.fshow(F.to_formula(lps[0].get("c"), subst)), "ops": [repr(o) for o in pops]})


def permitted(ctx, P):
    f = ctx.used(P.fn("PermittedDifficultyTransition"))
    subst = naming(f, P)
    ex = exits(f, P, subst)
    rej = [e for e in ex if is_false_ret(e)]
    cmps = []
    for e in rej:
        for a in F.atoms(e.own_formula(None)):
            m = re.fullmatch(r"(\w+) < (\w+)", a)
            if m and decl_of(f, m.group(1)) is not None and decl_of(f, m.group(2)) is not None:
                cmps.append(m.groups())
    cmps = sorted(set(cmps))
    obs = [x for x in {a for c in cmps for a in c} if sum(1 for c in cmps if x in c) == 2]
    if len(cmps) != 2 or len(obs) != 1:
        raise AnalysisBroken("PermittedDifficultyTransition: the two bound comparisons were not recognised")
    obs = obs[0]
    mx = [c[0] for c in cmps if c[1] == obs]
    mn = [c[1] for c in cmps if c[0] == obs]
    ok = len(mx) == 1 and len(mn) == 1
    ctx.ob("PermittedDifficultyTransition/bounds", "TWIN", "the observed target is compared as (maximum < observed) and (observed < minimum)", ok, f.where, {"comparisons": cmps})
    if not ok:
        return None
    mx, mn = mx[0], mn[0]
    atoms = {"MINDIFF": "params.fPowAllowMinDifficultyBlocks", "OFF": "height % " + INTERVAL, "EASY": "%s < %s" % (mx, obs), "HARD": "%s < %s" % (obs, mn),
             "SAME": ["new_nbits == old_nbits", "old_nbits == new_nbits"]}
    check_returns(ctx, f, P, "MINDIFF || (!OFF && !EASY && !HARD) || (OFF && SAME)", atoms, subst=subst)
    ctx.ob("PermittedDifficultyTransition/exits", "TWIN", "PermittedDifficultyTransition exits only by returning a boolean constant", all(is_true_ret(e) or is_false_ret(e) for e in ex), f.where)
    oat = {"ADJ": ("height % " + INTERVAL, False)}
    check_ops(ctx, f, ops_on(f, P, obs, subst), [[("SetCompact", [r"new_nbits"], "ADJ")]], oat, "PermittedDifficultyTransition/observed", "observed target = SetCompact(new_nbits)")
    out = dict(fn=f)
    for name, bound_local, factor, label in ((mx, "largest", T4, "maximum"), (mn, "smallest", TQ, "minimum")):
        o1 = ops_on(f, P, name, subst)
        m = re.fullmatch(r"(\w+)\.GetCompact\(\)", o1[0].args[0]) if len(o1) == 1 and o1[0].kind == "SetCompact" and len(o1[0].args) == 1 else None
        ctx.ob("PermittedDifficultyTransition/%s-rounded" % label, "SEQUENCE", "the %s permitted target is rounded through the compact encoding: SetCompact(<bound>.GetCompact())" % label,
               bool(m), f.where, {"operations": [repr(o) for o in o1]})
        if not m:
            continue
        src = m.group(1)
        o2 = ops_on(f, P, src, subst)
        cat = dict(oat, CAP="UintToArith256(params.powLimit) < %s" % src)
        check_ops(ctx, f, o2, [[("SetCompact", [r"old_nbits"], "ADJ")], [("*=", [factor], "ADJ")], [("/=", [DIVT], "ADJ")], [("=", [LIMIT], "ADJ && CAP")]], cat,
                  "PermittedDifficultyTransition/%s-sequence" % label,
                  "%s bound = SetCompact(old_nbits), *= %s, /= nPowTargetTimespan, capped at powLimit exactly when above it - in this order" % (label, "4T" if label == "maximum" else "T/4"))
        ctx.ob("PermittedDifficultyTransition/%s-order" % label, "ORDER", "the %s bound is complete before it is rounded and compared" % label,
               bool(o2) and max(o.line for o in o2) < o1[0].line, f.where)
        out[label] = o2
    return out


def symmetry(ctx, P, calc, perm):
    if not calc or not perm or "maximum" not in perm or "minimum" not in perm:
        ctx.ob("symmetry/required-vs-permitted", "SYMMETRY", "CalculateNextWorkRequired and PermittedDifficultyTransition were both recognised", False, None)
        return
    def shape(ops):
        return [(o.kind, re.sub(r"base_uint\{(.*)\}", r"\1", o.args[0]) if o.kind in ("/=", "=") else None) for o in ops if o.kind != "SetCompact"]
    c = shape(calc["ops"])
    a, b = shape(perm["maximum"]), shape(perm["minimum"])
    ok = c == a == b
    ctx.ob("symmetry/operations", "SYMMETRY", "required-work and both permitted bounds apply the same operations in the same order: *= span, /= nPowTargetTimespan, cap at the same powLimit",
           ok, calc["fn"].where, {"calculate": c, "permitted_max": a, "permitted_min": b})
    clamp = sorted(o.args[0] for o in calc["xops"])
    fac = sorted([o.args[0] for o in perm["maximum"] if o.kind == "*="] + [o.args[0] for o in perm["minimum"] if o.kind == "*="])
    ctx.ob("symmetry/factors", "SYMMETRY", "the clamp bounds of the required timespan {T/4, 4T} are exactly the multipliers of the permitted bounds", clamp == fac and len(clamp) == 2,
           calc["fn"].where, {"clamp": clamp, "permitted_factors": fac})


# ---------------------------------------------------------------------------------------------- contextual header ladder
def contextual_header(ctx, P):
    f = ctx.used(P.fn("ContextualCheckBlockHeader"))
    subst = naming(f, P)
    cp = "chainman.GetConsensus()"
    off = "(1 + pindexPrev.nHeight) % " + cp + ".DifficultyAdjustmentInterval()"
    atoms = {"PREV": "pindexPrev",
             "BITSOK": ["GetNextWorkRequired(pindexPrev, &block, %s) == block.nBits" % cp, "block.nBits == GetNextWorkRequired(pindexPrev, &block, %s)" % cp],
             "AFTERMTP": "pindexPrev.GetMedianTimePast() < block.GetBlockTime()",
             "BIP94": cp + ".enforce_BIP94", "OFF": off, "WARP": "block.GetBlockTime() < pindexPrev.GetBlockTime() - 600",
             "FUTURE": "NodeClock::now() + std::chrono::duration{7200} < block.Time()",
             "V2": "block.nVersion < 2", "V3": "block.nVersion < 3", "V4": "block.nVersion < 4",
             "B34": "DeploymentActiveAfter(pindexPrev, chainman, Consensus::DEPLOYMENT_HEIGHTINCB)", "B66": "DeploymentActiveAfter(pindexPrev, chainman, Consensus::DEPLOYMENT_DERSIG)",
             "B65": "DeploymentActiveAfter(pindexPrev, chainman, Consensus::DEPLOYMENT_CLTV)"}
    ex = exits(f, P, subst)
    acc = [e for e in ex if is_true_ret(e)]
    ctx.floor("ContextualCheckBlockHeader accepting exits", len(acc), 1)
    rungs = [("bad-diffbits", "!BITSOK", IH, "a header whose nBits differs from GetNextWorkRequired(prev, header, params)"),
             ("time-too-old", "!AFTERMTP", IH, "a header whose time is <= the median time past of its parent"),
             ("time-timewarp-attack", "BIP94 && !OFF && WARP", IH, "a period-start header more than MAX_TIMEWARP before its parent (where BIP94 is enforced)"),
             ("time-too-new", "FUTURE", "BlockValidationResult::BLOCK_TIME_FUTURE", "a header more than MAX_FUTURE_BLOCK_TIME ahead of the node clock"),
             (None, "(V2 && B34) || (V3 && B66) || (V4 && B65)", IH, "a header with an outdated version once BIP34/66/65 are active")]
    for label, cond, result, text in rungs:
        oid = label or "bad-version"
        check_excludes(ctx, f, P, acc, cond, atoms, "ContextualCheckBlockHeader/rung:%s" % oid, "ContextualCheckBlockHeader never accepts " + text)
        hits = [e for e in ex if invalid_call(e.value) and (invalid_call(e.value)[1] == label if label else "bad-version" in invalid_call(e.value)[1])]
        okh = len(hits) == 1
        if okh:
            e = hits[0]
            f_, m_, un = bound(drop_done(e.own_formula(None)), atoms)
            cex = F.counterexample(f_, F.parse(cond))
            okh = cex is None and not un and invalid_call(e.value)[0] == result
        ctx.ob("ContextualCheckBlockHeader/only-if:%s" % oid, "LADDER", "'%s' is raised (as %s) only when (%s)" % (oid, result.split("::")[-1], cond), okh,
               "%s:%s" % (f.file, hits[0].line) if hits else f.where, None if okh else {"found": len(hits), "result": invalid_call(hits[0].value)[0] if hits else None})
    n = len([e for e in ex if invalid_call(e.value)])
    ctx.ob("ContextualCheckBlockHeader/rung-count", "LADDER", "ContextualCheckBlockHeader has exactly the five specified rejections", n == 5, f.where, {"found": n})


def accept_header(ctx, P):
    f = ctx.used(P.fn("ChainstateManager::AcceptBlockHeader"))
    subst = full_subst(f, P)
    gc = "ChainstateManager::GetConsensus()"
    ss = sites(f, call_to("ContextualCheckBlockHeader"), P)
    if len(ss) != 1:
        raise AnalysisBroken("AcceptBlockHeader: expected one ContextualCheckBlockHeader call")
    a = call_args(ss[0].expr)
    prev = a[3][1] if len(a) == 4 and a[3][0] == "local" else None
    atoms = {"GENESIS": ["%s.hashGenesisBlock == block.GetHash()" % gc, "block.GetHash() == %s.hashGenesisBlock" % gc],
             "CBH": "CheckBlockHeader(block, state, %s)" % gc, "CCBH": "ContextualCheckBlockHeader(block, state, *this, %s)" % prev}
    check_guard(ctx, f, P, call_to("node::BlockManager::AddToBlockIndex"), "GENESIS || (CBH && CCBH)", atoms, "AcceptBlockHeader/AddToBlockIndex",
                "a header enters the block index only through the true edges of CheckBlockHeader and ContextualCheckBlockHeader (the genesis hash is exempt)", subst=subst)
    for s in sites(f, call_to("CheckBlockHeader"), P):
        aa = call_args(s.expr)
        ok = len(aa) < 4 or match(["defarg", ["bool", True]], aa[3]) or match(["bool", True], aa[3])
        ctx.ob("AcceptBlockHeader/CheckBlockHeader-pow@L%s" % s.line, "PROVENANCE", "AcceptBlockHeader calls CheckBlockHeader with proof-of-work checking enabled", ok, s.where)
    # the parent handed to the contextual check is the index entry of block.hashPrevBlock
    okp = False
    detail = {}
    if prev:
        vals = [(l, v) for l, v in local_values(f, prev) if not match(["null"], v)]
        detail["values"] = [(l, show(v)) for l, v in vals]
        if len(vals) == 1:
            its = [x[1] for x in subexprs(vals[0][1]) if x[0] == "local"]
            if len(its) == 1:
                d = decl_of(f, its[0])
                detail["iterator_init"] = show(d.get("i")) if d else None
                okp = d is not None and any(x[0] == "mcall" and x[1].endswith("::find") and show(call_args(x)[0]) == "block.hashPrevBlock" for x in subexprs(d.get("i")))
    ctx.ob("AcceptBlockHeader/parent", "PROVENANCE", "the parent index given to ContextualCheckBlockHeader is the block-index entry found for block.hashPrevBlock", okp, ss[0].where, detail)


# ---------------------------------------------------------------------------------------------- built-in chains
CHAINS = ["CMainParams", "CTestNetParams", "CTestNet4Params", "SigNetParams", "CRegTestParams"]


def chains(ctx, P):
    """Per-chain retarget parameters (set in constructors, so taken from the extractor): listed in evidence; the divisibility
    facts that the shared expressions T/4 and T/spacing rely on are obligations."""
    table = {}
    for c in CHAINS:
        fs = P.fns("%s::%s" % (c, c))
        if len(fs) != 1:
            raise AnalysisBroken("chain parameter constructor %s not found" % c)
        f = ctx.used(fs[0])
        row = {}
        for s in sites(f, lambda e: e[0] == "b" and e[1] == "=" and is_expr(e[2]) and e[2][0] == "." and isinstance(e[2][2], str) and e[2][2].startswith("Consensus::Params::"), P):
            name = e_name = s.expr[2][2].split("::")[-1]
            if name in ("nPowTargetTimespan", "nPowTargetSpacing", "fPowAllowMinDifficultyBlocks", "fPowNoRetargeting", "enforce_BIP94", "powLimit"):
                v = s.expr[3]
                row.setdefault(name, []).append(v[1] if is_expr(v) and v[0] in ("int", "bool") else show(v)[:90])
        table[c] = row
        ts, sp = row.get("nPowTargetTimespan", []), row.get("nPowTargetSpacing", [])
        ok = len(ts) == 1 and len(sp) == 1 and isinstance(ts[0], int) and isinstance(sp[0], int) and sp[0] > 0 and ts[0] % sp[0] == 0 and ts[0] % 4 == 0 and ts[0] // sp[0] >= 1
        ctx.ob("chain/%s/retarget-params" % c, "CONST", "%s sets nPowTargetTimespan and nPowTargetSpacing once, to constants with spacing | timespan and 4 | timespan "
               "(T/4 and the adjustment interval are exact)" % c, ok, f.where, {"timespan": ts, "spacing": sp})
    m = table["CMainParams"]
    ctx.ob("chain/CMainParams/values", "CONST", "mainnet: timespan 14 days, spacing 10 minutes (interval 2016), real retargeting, no min-difficulty blocks",
           m.get("nPowTargetTimespan") == [1209600] and m.get("nPowTargetSpacing") == [600] and m.get("fPowAllowMinDifficultyBlocks") == [False] and m.get("fPowNoRetargeting") == [False],
           None, m)
    ctx.floor("built-in chains", len(table), 5)
    ctx.extra["chain_pow_parameters"] = table
