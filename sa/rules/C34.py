"""C34 Transaction download scheduling follows its specification - structural clauses only (originally listed N/A).

The tracker is a small state machine over announcements (CANDIDATE_DELAYED -> CANDIDATE_READY -> CANDIDATE_BEST ->
REQUESTED -> COMPLETED).  Decided here is the transition table as written in the code: which function may move an
announcement into which state and under which test.  Those are necessary conditions of the three "never" clauses."""
import re

from sa.engine.api import *

UNITS = ["txrequest.cpp"]
IMPL = "TxRequestTracker::Impl::"
EXPLANATION = ("Taken whole the property is equivalence with a reference model over interleavings; decided is the transition table of the announcement "
               "state machine in TxRequestTracker::Impl: (1) every state write goes through the Modify wrapper (and every erase through Erase), which keep "
               "the per-peer counters in step, and each target state is written only by its frozen set of functions; (2) an announcement leaves "
               "CANDIDATE_DELAYED only in SetTimePoint and only when its request time is <= now, time moving backwards demotes selectable "
               "announcements again, and GetRequestable first moves time and then returns only this peer's CANDIDATE_BEST announcements (never "
               "requests before the earliest time); (3) REQUESTED is written at exactly one place, RequestedTx, after any other CANDIDATE_BEST of the "
               "same txhash was demoted and any other REQUESTED one completed (never two outstanding requests for one transaction), and only for an "
               "announcement that is CANDIDATE_BEST or, failing that, still a candidate (never a second request for a REQUESTED/COMPLETED announcement); "
               "(4) MakeCompleted deletes all announcements of a txhash exactly when the completed one was the last non-COMPLETED one (forgets a "
               "transaction once only failed announcements remain), with IsOnlyNonCompleted looking at both neighbours; (5) ReceivedInv adds an "
               "announcement only if none exists for (peer, txhash) and counts it only if the insertion happened.")
ASSUMPTIONS = ["the boost multi_index ordering (ByTxHash: txhash, then state class, then priority) is as the comments state - the 'neighbour' tests rely on it",
               "priority computation (preferred bit, salted hash) is numeric and not decided"]
CLAIM = dict(
    technique="static analysis: typestate transition table of the announcement state machine (who-may-write per target state, guards of each transition by truth table, must-precede in GetRequestable/RequestedTx)",
    text="Necessary structure behind the scheduling guarantees: an announcement becomes requestable only through the time test in SetTimePoint, a request "
         "is recorded at one place only after competing selected announcements of the same transaction were demoted or completed, a transaction is "
         "forgotten exactly when its last live announcement completes, and all index changes go through the accounting wrappers. A transition added "
         "elsewhere, a weakened time test, or a request recorded without displacing the previous one is reported.",
    note="Not decided: equivalence with the reference model, preference among peers (priority arithmetic), behaviour over interleavings as such (weak, structural claim).",
    ref="DESIGN.md §3 C34 (claimed partially after the design; see §6.1)")

STATES = ("CANDIDATE_DELAYED", "CANDIDATE_READY", "CANDIDATE_BEST", "REQUESTED", "COMPLETED")


def st_atom(obj, state):
    return re.compile(r"%s\.GetState\(\) == State::%s" % (obj, state))


def modify_sites(P, f):
    """(site, target state or ('param', name), modified iterator expr) for every Modify(it, lambda) in f."""
    out = []
    for s in sites(f, lambda e: e[0] == "mcall" and e[1] == IMPL + "Modify", P):
        a = call_args(s.expr)
        tgt = None
        extra = []
        if len(a) == 2 and is_expr(a[1]) and a[1][0] == "lambda":
            lf = P.fns(a[1][1])
            if len(lf) == 1:
                for st, e in all_exprs(lf[0].body):
                    for x in subexprs(e):
                        if x[0] == "mcall" and x[1] == "Announcement::SetState":
                            v = call_args(x)[0]
                            tgt = v[1].split("::")[-1] if v[0] == "enum" else (v[0], v[1] if len(v) > 1 else None)
                        elif x[0] == "b" and x[1] in ASSIGN_OPS:
                            extra.append(show(x))
        out.append((s, tgt, a[0] if a else None, extra))
    return out


def check(ctx):
    P = ctx.program(UNITS)
    fns = {q[len(IMPL):]: P.fn(q) for q in P.funcs if q.startswith(IMPL) and "::lambda" not in q}
    for n in ("Modify", "Erase", "PromoteCandidateReady", "ChangeAndReselect", "IsOnlyNonCompleted", "MakeCompleted", "SetTimePoint", "GetRequestable",
              "RequestedTx", "ReceivedInv", "ReceivedResponse", "DisconnectedPeer", "ForgetTxHash"):
        if n not in fns:
            raise AnalysisBroken("TxRequestTracker::Impl::%s not found" % n)
        ctx.used(fns[n])

    # ---- (1) wrappers and the who-writes-which-state table
    raw_mod, raw_erase, setters = [], [], []
    for n, f in fns.items():
        for s in sites(f, lambda e: e[0] in ("mcall", "vcall", "umcall") and re.search(r"(^|::)modify$", str(e[1]).lstrip("?")) is not None, P, inline_lambdas="all"):
            raw_mod.append(n)
        for s in sites(f, lambda e: e[0] in ("mcall", "vcall", "umcall") and re.search(r"(^|::)erase$", str(e[1]).lstrip("?")) is not None
                       and not contains([".", ANY, "TxRequestTracker::Impl::m_peerinfo"], e), P, inline_lambdas="all"):
            raw_erase.append(n)
        for s in sites(f, lambda e: e[0] == "mcall" and e[1] == "Announcement::SetState", P, inline_lambdas="none"):
            setters.append(n)
    ctx.ob("wrappers/modify", "WHO-MAY-CALL", "the announcement index is modified in place only inside the Modify wrapper (which re-counts the peer's "
           "requested/completed announcements around the change)", sorted(set(raw_mod)) == ["Modify"], fns["Modify"].where, {"callers": sorted(set(raw_mod))})
    ctx.ob("wrappers/erase", "WHO-MAY-CALL", "announcements are erased from the index only inside the Erase wrapper (which updates the peer's counters)",
           sorted(set(raw_erase)) == ["Erase"], fns["Erase"].where, {"callers": sorted(set(raw_erase))})
    ctx.ob("wrappers/setstate", "WHO-MAY-CALL", "Announcement::SetState is called only from modifier lambdas handed to Modify (never directly on an indexed element)",
           not setters, None, {"direct_callers": sorted(set(setters))})
    table = {}
    all_mods = {}
    for n, f in fns.items():
        ms = modify_sites(P, f)
        all_mods[n] = ms
        for s, tgt, it, extra in ms:
            table.setdefault(tgt if isinstance(tgt, str) else "<%s>" % (tgt[1] if tgt else "?"), []).append(n)
    want = {"CANDIDATE_READY": ["PromoteCandidateReady", "PromoteCandidateReady", "RequestedTx"],
            "CANDIDATE_BEST": ["ChangeAndReselect", "PromoteCandidateReady", "PromoteCandidateReady"],
            "REQUESTED": ["RequestedTx"], "COMPLETED": ["RequestedTx"], "<new_state>": ["ChangeAndReselect"]}
    got = {k: sorted(v) for k, v in table.items()}
    ctx.floor("state transitions through Modify", sum(len(v) for v in got.values()), 5)
    ctx.ob("table/who-writes-which-state", "TYPESTATE", "each target state is written only by its audited functions: READY by PromoteCandidateReady (promotion, demotion "
           "of the displaced best) and RequestedTx (demotion of the displaced best); BEST by PromoteCandidateReady and ChangeAndReselect; REQUESTED only by "
           "RequestedTx; COMPLETED by RequestedTx (displaced request) and, with DELAYED, through ChangeAndReselect's asserted parameter", got == want, None, {"table": got})
    car = fns["ChangeAndReselect"]
    asr = [s for s in all_sites(car, P) if s.expr is None and s.stmt.get("k") == "expr" and is_expr(s.stmt.get("e")) and s.stmt["e"][0] == "asserted"]
    okp = any(F.equivalent(F.bind_atoms(F.to_formula(s.stmt["e"][1]), {"C": "new_state == State::COMPLETED", "D": "new_state == State::CANDIDATE_DELAYED"})[0], F.parse("C || D"))
              for s in asr)
    ctx.ob("table/reselect-targets", "TYPESTATE", "ChangeAndReselect asserts that its target state is COMPLETED or CANDIDATE_DELAYED (never a selected state)", okp, car.where)
    callers = {n: [s for s in sites(f, lambda e: e[0] == "mcall" and e[1] == IMPL + "ChangeAndReselect", P)] for n, f in fns.items()}
    cr = {n: [show(call_args(s.expr)[1]).split("::")[-1] for s in ss] for n, ss in callers.items() if ss}
    ctx.ob("table/reselect-callers", "TYPESTATE", "ChangeAndReselect is called with COMPLETED only by MakeCompleted and with CANDIDATE_DELAYED only by SetTimePoint",
           cr == {"MakeCompleted": ["COMPLETED"], "SetTimePoint": ["CANDIDATE_DELAYED"]}, None, {"callers": cr})

    # ---- (2) earliest time
    stp = fns["SetTimePoint"]
    pcs = {n: sites(f, lambda e: e[0] == "mcall" and e[1] == IMPL + "PromoteCandidateReady", P) for n, f in fns.items()}
    who = sorted(n for n, ss in pcs.items() if ss)
    ctx.ob("time/promote-callers", "WHO-MAY-CALL", "an announcement is promoted out of CANDIDATE_DELAYED only by SetTimePoint", who == ["SetTimePoint"], stp.where, {"callers": who})
    tsub = naming(stp, P)
    for s in pcs.get("SetTimePoint", []):
        fb, mp, un = F.bind_atoms(s.formula(tsub), {"DELAYED": st_atom(r".+", "CANDIDATE_DELAYED"), "EARLY": re.compile(r"now < .+\.m_time")})
        cex = F.counterexample(fb, F.parse("DELAYED && !EARLY"))
        ctx.ob("time/promote-guard@L%s" % s.line, "MPT", "SetTimePoint promotes an announcement only if it is CANDIDATE_DELAYED and its request time is not after now",
               cex is None, s.where, None if cex is None else {"path_condition": F.fshow(s.formula(tsub))[:400], "counterexample": cex})
        obj = F.expand(call_args(s.expr)[0], tsub)
        tested = {m.group(1) for k in F.atoms(s.formula(tsub)) for m in [re.fullmatch(r"now < (.+)\.m_time", k)] if m}
        ctx.ob("time/promote-same@L%s" % s.line, "PROVENANCE", "the announcement promoted is the one whose time was tested", any(t_ in show(obj) for t_ in tested), s.where,
               {"promoted": show(obj), "tested": sorted(tested)})
    ctx.floor("PromoteCandidateReady call sites", len(pcs.get("SetTimePoint", [])), 1)
    pr = fns["PromoteCandidateReady"]
    asr = [s.stmt["e"][1] for s in all_sites(pr, P) if s.expr is None and s.stmt.get("k") == "expr" and is_expr(s.stmt.get("e")) and s.stmt["e"][0] == "asserted"]
    ctx.ob("time/promote-source", "TYPESTATE", "PromoteCandidateReady asserts that its argument is CANDIDATE_DELAYED",
           any(st_atom(r"\w+", "CANDIDATE_DELAYED").fullmatch(F.fshow(F.to_formula(a))) for a in asr), pr.where)
    # transitions inside PromoteCandidateReady: only a CANDIDATE_BEST neighbour is displaced (never a REQUESTED one), and the promoted
    # announcement becomes BEST only when no selected announcement of the txhash exists or it displaces that CANDIDATE_BEST
    prsub = naming(pr, P)
    PA = {"NEXT_BEST": st_atom(r".+", "CANDIDATE_BEST"), "NEXT_DONE": st_atom(r".+", "COMPLETED"),
          "NEXT_END": re.compile(r"(.+ == m_index\.get\(\)\.end\(\)|m_index\.get\(\)\.end\(\) == .+)"),
          "SAME": re.compile(r".+\.m_gtxid\.ToUint256\(\) == .+\.m_gtxid\.ToUint256\(\)")}
    npm = 0
    for s, tgt, itx, extra in all_mods["PromoteCandidateReady"]:
        own = F.mk_and([g.formula(prsub) for g in s.guards if g.kind in ("if", "sc")])
        fb, mp, un = F.bind_atoms(own, PA)
        arg = show(itx)
        if tgt == "CANDIDATE_READY" and arg != "it":
            npm += 1
            cex = F.counterexample(fb, F.parse("NEXT_BEST"))
            ctx.ob("promote/displace-only-best@L%s" % s.line, "MPT", "PromoteCandidateReady moves the neighbouring announcement back to CANDIDATE_READY only if that neighbour is "
                   "CANDIDATE_BEST (an in-flight REQUESTED announcement is never displaced by a promotion)", cex is None, s.where,
                   None if cex is None else {"guard": F.fshow(own)[:300], "counterexample": cex})
        elif tgt == "CANDIDATE_BEST":
            npm += 1
            cex = F.counterexample(fb, F.parse("NEXT_END || !SAME || NEXT_DONE || NEXT_BEST"))
            ctx.ob("promote/best-only-if-unselected@L%s" % s.line, "MPT", "PromoteCandidateReady makes the announcement CANDIDATE_BEST only if the following announcement in the by-txhash "
                   "order is absent, of another txhash or COMPLETED (nothing selected for this txhash) or is the CANDIDATE_BEST it replaces", cex is None, s.where,
                   None if cex is None else {"guard": F.fshow(own)[:300], "counterexample": cex})
    ctx.floor("PromoteCandidateReady guarded transitions", npm, 3)
    dem = [s for s in callers.get("SetTimePoint", [])]
    for s in dem:
        fb, mp, un = F.bind_atoms(s.formula(tsub), {"SELECTABLE": re.compile(r".+\.IsSelectable\(\)"), "FUTURE": re.compile(r"now < .+\.m_time")})
        cex = F.counterexample(fb, F.parse("SELECTABLE && FUTURE"))
        ctx.ob("time/demote-guard@L%s" % s.line, "MPT", "SetTimePoint moves an announcement back to CANDIDATE_DELAYED only if it is selectable and its request time is after now "
               "(time went backwards)", cex is None, s.where, None if cex is None else {"counterexample": cex})
    loops = [st for st in stmts(stp.body) if st.get("k") == "while"]
    lasts = []
    for lp in loops:
        body = lp.get("b")
        tail = [x for x in stmts(body) if x.get("k") == "break"]
        lasts.append((lp.get("l"), len(tail)))
    ctx.ob("time/loops", "LOOP", "SetTimePoint has its two scans (oldest-first promotion/expiry, newest-first demotion), each ended by a break when the head no longer qualifies",
           len(loops) == 2 and all(n == 1 for _, n in lasts), stp.where, {"loops": lasts})
    sel = P.fn("Announcement::IsSelectable")
    rets = [e for e in exits(sel, P) if e.kind == "ret"]
    oks = len(rets) == 1 and F.equivalent(F.bind_atoms(F.to_formula(rets[0].value), {"R": re.compile(r"(Announcement::GetState\(\)|m_state) == State::CANDIDATE_READY"), "B": re.compile(r"(Announcement::GetState\(\)|m_state) == State::CANDIDATE_BEST")})[0], F.parse("R || B"))
    ctx.ob("time/selectable", "TWIN", "IsSelectable is exactly CANDIDATE_READY or CANDIDATE_BEST", oks, sel.where)
    # GetRequestable: SetTimePoint first; results only from this peer's CANDIDATE_BEST announcements
    gr = fns["GetRequestable"]
    mf = MustFlow(gr, P, marks=[("moved", lambda e: e[0] == "mcall" and e[1] == IMPL + "SetTimePoint" and call_args(e)[:1] == [["param", "now"]])])
    mf.run()
    picks = sites(gr, lambda e: e[0] in ("mcall", "vcall") and str(e[1]).endswith("::emplace_back") and contains(["local", "selected"], e[2]), P)
    ctx.floor("GetRequestable selection sites", len(picks), 1)
    for s in picks:
        fb, mp, un = F.bind_atoms(s.formula(naming(gr, P)), {"PEER": re.compile(r"(.+\.m_peer == peer|peer == .+\.m_peer)"), "BEST": st_atom(r".+", "CANDIDATE_BEST")})
        cex = F.counterexample(fb, F.parse("PEER && BEST"))
        ctx.ob("requestable/select-guard@L%s" % s.line, "MPT", "GetRequestable selects an announcement only if it belongs to the asking peer and is CANDIDATE_BEST", cex is None, s.where,
               None if cex is None else {"counterexample": cex})
    first_use = min([s.line for s in sites(gr, lambda e: contains([".", ["this"], IMPL + "m_index"], e), P)] or [0])
    mv = [s.line for s in sites(gr, lambda e: e[0] == "mcall" and e[1] == IMPL + "SetTimePoint", P)]
    ctx.ob("requestable/time-first", "ORDER", "GetRequestable brings the tracker to `now` (SetTimePoint(now, ..)) before it looks at the index", len(mv) == 1 and mv[0] < first_use and
           not [g for s in sites(gr, lambda e: e[0] == "mcall" and e[1] == IMPL + "SetTimePoint", P) for g in s.guards if g.kind not in ("post", "assert")], gr.where,
           {"SetTimePoint_line": mv, "first_index_use": first_use})
    rets = [e for e in exits(gr, P) if e.kind == "ret"]
    tr = sites(gr, lambda e: e[0] == "call" and e[1] == "std::transform", P)
    okr = len(rets) == 1 and len(tr) == 1 and contains(["local", "selected"], tr[0].expr) and is_expr(rets[0].value) and contains(["local", "ret"], rets[0].value) \
        and contains(["local", "ret"], tr[0].expr)
    ctx.ob("requestable/result", "PROVENANCE", "the returned list is built from the selected announcements only", okr, gr.where)

    # ---- (3) one outstanding request per transaction, and only candidates are requested
    rq = fns["RequestedTx"]
    ms = all_mods["RequestedTx"]
    req = [m for m in ms if m[1] == "REQUESTED"]
    oldb = [m for m in ms if m[1] == "CANDIDATE_READY"]
    oldr = [m for m in ms if m[1] == "COMPLETED"]
    ok = len(req) == 1 and len(oldb) == 1 and len(oldr) == 1
    ctx.ob("request/shape", "TYPESTATE", "RequestedTx has one place that records the request and one each that demotes a displaced CANDIDATE_BEST and completes a displaced REQUESTED", ok,
           rq.where, {"modifies": [(m[0].line, str(m[1]), show(m[2])) for m in ms]})
    if ok:
        r, b, o = req[0], oldb[0], oldr[0]
        ctx.ob("request/sets-expiry", "PROVENANCE", "recording the request also stores the expiry time in the announcement", any(re.fullmatch(r"\w+\.m_time = expiry", x) for x in r[3]), r[0].where,
               {"assignments": r[3]})
        other = show(b[2])
        ctx.ob("request/displaced-is-other", "PROVENANCE", "the demoted and the completed announcement are the same looked-up 'other selected announcement of this txhash', not the one being requested",
               show(o[2]) == other and other != show(r[2]) and b[2][0] == "local", b[0].where, {"displaced": other, "requested": show(r[2])})
        sub = naming(rq, P)
        fb, mp, un = F.bind_atoms(b[0].formula(sub), {"OB": st_atom(r".+", "CANDIDATE_BEST"), "SAME": re.compile(r"(.+\.m_gtxid\.ToUint256\(\) == txhash|txhash == .+\.m_gtxid\.ToUint256\(\))")})
        cex1 = F.counterexample(fb, F.parse("OB && SAME"))
        fb, mp, un = F.bind_atoms(o[0].formula(sub), {"OR": st_atom(r".+", "REQUESTED"), "SAME": re.compile(r"(.+\.m_gtxid\.ToUint256\(\) == txhash|txhash == .+\.m_gtxid\.ToUint256\(\))")})
        cex2 = F.counterexample(fb, F.parse("OR && SAME"))
        ctx.ob("request/displace-guards", "MPT", "the other announcement is demoted only if it has the same txhash and is CANDIDATE_BEST, and completed only if it has the same txhash and is REQUESTED",
               cex1 is None and cex2 is None, b[0].where, {"demote": cex1, "complete": cex2})
        d = local_defs(rq, P, allow_overwritten=True).get(b[2][1]) if b[2][0] == "local" else None
        okl = is_expr(d) and contains(["mcall", ANY], d) and "lower_bound" in show(d) and "txhash" in show(d) and "CANDIDATE_BEST" in show(d)
        ctx.ob("request/displaced-lookup", "PROVENANCE", "the other selected announcement is looked up in the by-txhash index at (txhash, CANDIDATE_BEST, 0): the first selected announcement of that txhash",
               bool(okl), b[0].where, {"lookup": show(d) if is_expr(d) else None})
        # the displacement handling covers both states: under the branch where the requested announcement was not CANDIDATE_BEST,
        # reaching the request with the other announcement still BEST or REQUESTED is impossible
        br = [g for g in b[0].guards if g.kind == "if" and g.pol][:1]
        same = br and any(g.line == br[0].line and g.kind == "if" and g.pol for g in o[0].guards)
        ctx.ob("request/displace-before-record", "ORDER", "both displacement steps lie in the branch taken when the requested announcement was not CANDIDATE_BEST, before the request is recorded",
               bool(same) and b[0].line < r[0].line and o[0].line < r[0].line and not [g for g in r[0].guards if g.kind in ("if", "sc", "loop", "case")], r[0].where)
        # the early return: nothing is requested unless the announcement is a candidate
        ex = [e for e in exits(rq, P, sub) if e.kind == "ret"]
        early = [e for e in ex if e.line < r[0].line]
        okc = False
        detail = None
        if len(early) == 1:
            fb, mp, un = F.bind_atoms(early[0].own_formula(None), {"D": st_atom(r"\w+", "CANDIDATE_DELAYED"), "R": st_atom(r"\w+", "CANDIDATE_READY"),
                                                                     "NONE": re.compile(r"(\w+ == m_index\.get\(\)\.end\(\)|m_index\.get\(\)\.end\(\) == \w+)")})
            # within the not-BEST branch the function returns unless (found && (DELAYED || READY))
            inner = [g for g in early[0].site.guards if g.kind == "if"][-1:]
            fi, _, _ = F.bind_atoms(F.mk_and([g.formula(None) for g in inner]), {"D": st_atom(r"\w+", "CANDIDATE_DELAYED"), "R": st_atom(r"\w+", "CANDIDATE_READY"),
                                                                                  "NONE": re.compile(r"(\w+ == m_index\.get\(\)\.end\(\)|m_index\.get\(\)\.end\(\) == \w+)")})
            okc = F.equivalent(fi, F.parse("NONE || (!D && !R)"))
            detail = {"return_guard": F.fshow(fi)}
        ctx.ob("request/only-candidates", "LADDER", "when no CANDIDATE_BEST announcement exists for (peer, txhash), RequestedTx returns without effect unless an announcement exists and is "
               "CANDIDATE_DELAYED or CANDIDATE_READY (a REQUESTED or COMPLETED announcement is never requested again)", okc, rq.where, detail)
        finds = sites(rq, lambda e: e[0] in ("mcall", "vcall") and str(e[1]).endswith("::find"), P)
        keys = [show(call_args(s.expr)[0]) for s in finds]
        ctx.ob("request/lookup-keys", "PROVENANCE", "the announcement is looked up by (peer, is-best, txhash) for the calling peer and hash: first as CANDIDATE_BEST, then as non-best",
               len(keys) == 2 and "peer, true, txhash" in keys[0] and "peer, false, txhash" in keys[1], rq.where, {"keys": keys})

    # ---- (4) forgetting
    mc = fns["MakeCompleted"]
    er = sites(mc, lambda e: e[0] == "mcall" and e[1] == IMPL + "Erase", P)
    ctx.floor("MakeCompleted erase sites", len(er), 1)
    # the erase loop advances `it`: the tests made on entry are facts about the announcement being completed (an older `it`)
    msub = naming(mc, P, allow_overwritten=True)
    LAST = re.compile(r"TxRequestTracker::Impl::IsOnlyNonCompleted\(\w+(#\w+)?\)")
    for s in er:
        fb, mp, un = F.bind_atoms(s.formula(msub), {"LAST": LAST, "DONE": st_atom(r"\w+(#\w+)?", "COMPLETED")})
        cex = F.counterexample(fb, F.parse("LAST && !DONE"))
        ctx.ob("forget/erase-guard@L%s" % s.line, "MPT", "MakeCompleted erases announcements only when the one being completed is the last non-COMPLETED announcement of its txhash", cex is None,
               s.where, None if cex is None else {"path_condition": F.fshow(s.formula(msub))[:300], "counterexample": cex})
        lp = [l for l in s.loops if l.get("k") == "do"]
        okl = len(lp) == 1 and is_expr(lp[0].get("c"))
        if okl:
            fc, _, _ = F.bind_atoms(F.to_formula(lp[0]["c"], naming(mc, P)), {"END": re.compile(r"(\w+ == m_index\.get\(\)\.end\(\)|m_index\.get\(\)\.end\(\) == \w+)"),
                                                                "SAME": re.compile(r"(\w+\.m_gtxid\.ToUint256\(\) == txhash|txhash == \w+\.m_gtxid\.ToUint256\(\))")})
            okl = F.equivalent(fc, F.parse("!END && SAME"))
        ctx.ob("forget/erase-all@L%s" % s.line, "LOOP", "... and then erases every following announcement with the same txhash (do/while over the by-txhash order)", okl, s.where)
    ex = exits(mc, P)
    keep = [s for s in callers.get("MakeCompleted", [])]
    okm = len(keep) == 1 and F.implies(F.bind_atoms(keep[0].formula(msub), {"LAST": LAST})[0], F.parse("!LAST"))
    ctx.ob("forget/else-complete", "LADDER", "otherwise the announcement is marked COMPLETED through ChangeAndReselect (which re-selects the next best candidate)", okm, mc.where)
    io = fns["IsOnlyNonCompleted"]
    rets = [e for e in exits(io, P, naming(io, P)) if e.kind == "ret"]
    tr = [e for e in rets if is_true_ret(e)]
    okt = False
    det = None
    if len(tr) == 1:
        A = {"BEGIN": re.compile(r"(\w+ == m_index\.get\(\)\.begin\(\)|m_index\.get\(\)\.begin\(\) == \w+)"),
             "PSAME": re.compile(r"(std::prev\(\w+\)\.m_gtxid\.ToUint256\(\) == \w+\.m_gtxid\.ToUint256\(\)|\w+\.m_gtxid\.ToUint256\(\) == std::prev\(\w+\)\.m_gtxid\.ToUint256\(\))"),
             "NEND": re.compile(r"(std::next\(\w+\) == m_index\.get\(\)\.end\(\)|m_index\.get\(\)\.end\(\) == std::next\(\w+\))"),
             "NSAME": re.compile(r"(std::next\(\w+\)\.m_gtxid\.ToUint256\(\) == \w+\.m_gtxid\.ToUint256\(\)|\w+\.m_gtxid\.ToUint256\(\) == std::next\(\w+\)\.m_gtxid\.ToUint256\(\))"),
             "NDONE": st_atom(r"std::next\(\w+\)", "COMPLETED")}
        A["ITEND"] = re.compile(r"(it == m_index\.get\(\)\.end\(\)|m_index\.get\(\)\.end\(\) == it)")      # asserted preconditions
        A["ITDONE"] = st_atom("it", "COMPLETED")
        fb, mp, un = F.bind_atoms(tr[0].formula, A)
        okt = F.equivalent(fb, F.parse("!ITEND && !ITDONE && !(!BEGIN && PSAME) && !(!NEND && NSAME && !NDONE)")) and not un
        det = {"true_when": F.fshow(fb), "unbound": un}
    ctx.ob("forget/only-non-completed", "TWIN", "IsOnlyNonCompleted is true exactly when neither the predecessor has the same txhash nor the successor has the same txhash and is not COMPLETED",
           okt, io.where, det)
    fg = fns["ForgetTxHash"]
    dp = fns["DisconnectedPeer"]
    okf = len(sites(fg, lambda e: e[0] == "mcall" and e[1] == IMPL + "Erase", P)) == 1 and not all_mods["ForgetTxHash"]
    ctx.ob("forget/forget-txhash", "TYPESTATE", "ForgetTxHash only erases (it never changes a state)", okf, fg.where)
    ecall = {n: sites(f, lambda e: e[0] == "mcall" and e[1] == IMPL + "Erase", P) for n, f in fns.items()}
    ew = sorted(n for n, ss in ecall.items() if ss)
    ctx.ob("forget/erase-callers", "WHO-MAY-CALL", "announcements are erased only by MakeCompleted (all of a txhash, when the last live one completes), ForgetTxHash (all of a txhash) "
           "and DisconnectedPeer", ew == ["DisconnectedPeer", "ForgetTxHash", "MakeCompleted"], None, {"callers": ew})
    dsub = naming(dp, P)
    for s in ecall.get("DisconnectedPeer", []):
        MC = re.compile(r"TxRequestTracker::Impl::MakeCompleted\((.+)\)")
        fb, mp, un = F.bind_atoms(s.formula(dsub), {"COMPLETED_FIRST": MC})
        cex = F.counterexample(fb, F.parse("COMPLETED_FIRST"))
        mcs = [m.group(1) for k in F.atoms(s.formula(dsub)) for m in [MC.fullmatch(k)] if m]
        same = len(mcs) == 1 and show(F.expand(call_args(s.expr)[0], dsub)) in mcs[0]
        ctx.ob("forget/disconnect-completes-first@L%s" % s.line, "MPT", "DisconnectedPeer erases a single announcement only after MakeCompleted ran for that same announcement and returned "
               "true (so the last-live-announcement test - and with it forgetting the transaction - is never skipped)", cex is None and same, s.where,
               None if cex is None and same else {"guard": F.fshow(s.formula(dsub))[:300], "counterexample": cex, "completed": mcs})
    okd = len(sites(dp, lambda e: e[0] == "mcall" and e[1] == IMPL + "MakeCompleted", P)) >= 1 and len(sites(dp, lambda e: e[0] == "mcall" and e[1] == IMPL + "Erase", P)) >= 1 and not all_mods["DisconnectedPeer"]
    ctx.ob("forget/disconnect", "TYPESTATE", "DisconnectedPeer removes the peer's announcements through MakeCompleted/Erase only", okd, dp.where)
    rr = fns["ReceivedResponse"]
    okr = len(sites(rr, lambda e: e[0] == "mcall" and e[1] == IMPL + "MakeCompleted", P)) == 1 and not all_mods["ReceivedResponse"] and \
        not sites(rr, lambda e: e[0] == "mcall" and e[1] == IMPL + "Erase", P)
    ctx.ob("forget/response", "TYPESTATE", "a received response completes the announcement through MakeCompleted", okr, rr.where)

    # ---- (5) ReceivedInv
    ri = fns["ReceivedInv"]
    em = sites(ri, lambda e: e[0] in ("mcall", "vcall") and str(e[1]).endswith("::emplace"), P)
    okE = len(em) == 1
    if okE:
        fb, mp, un = F.bind_atoms(em[0].formula(None), {"HASBEST": re.compile(r"m_index\.get\(\)\.count\(.*peer, true, .*\)")})
        okE = F.implies(fb, F.parse("!HASBEST")) and "DELAYED" not in show(em[0].expr)
        a = call_args(em[0].expr)
        okE = okE and len(a) == 5 and show(a[1]) == "peer" and show(a[3]) == "reqtime"
    ctx.ob("inv/no-duplicate", "MPT", "ReceivedInv inserts a new announcement (for this peer and request time) only if no CANDIDATE_BEST announcement exists for (peer, txhash); other "
           "duplicates are rejected by the unique by-peer index", okE, ri.where)
    cnt = sites(ri, lambda e: e[0] == "u" and e[1] in ("++", "post++") and contains([".", ANY, "TxRequestTracker::Impl::m_peerinfo"], e), P)
    risub = naming(ri, P)
    emp = [st.get("n") for st in stmts(ri.body) if st.get("k") == "decl" and st.get("n") and is_expr(st.get("i")) and "emplace(" in show(st["i"])]
    INS = re.compile(r"(bind1\(.*emplace\(.*\)\)|.*emplace\(.*\)\.second%s)" % "".join("|%s\\.second" % re.escape(n_) for n_ in emp))
    okC = False
    if len(cnt) == 1:
        fbC, mpC, unC = F.bind_atoms(cnt[0].formula(risub), {"INSERTED": INS})
        okC = "INSERTED" in mpC.values() and F.implies(fbC, F.parse("INSERTED"))
    ctx.ob("inv/count-if-inserted", "MPT", "the peer's announcement count is increased only if the insertion took place", bool(okC), ri.where)
    ctor = P.fn("Announcement::Announcement")
    inits = [show(x) for x in (ctor.d.get("inits") or [])] if ctor is not None else []
    ok0 = any("CANDIDATE_DELAYED" in i_ for i_ in inits) if inits else None
    if ok0 is None:
        # initialiser list not in the facts: look for the member initialisation in the constructor expression sites
        ok0 = any("CANDIDATE_DELAYED" in show(s.expr) for s in all_sites(ctor, P) if s.expr is not None) if ctor is not None else False
    ctx.ob("inv/starts-delayed", "TYPESTATE", "a new announcement starts in CANDIDATE_DELAYED (it can only become requestable through the time test)", bool(ok0), ctor.where if ctor else None)
