"""C14 Parallel validation gives the same results as serial validation, without races (DESIGN §3 C14) - race-freedom shape."""
import re

from sa.engine.api import *
from sa.engine import callgraph, tsa

UNITS = ["validation.cpp", "coins.cpp"]
EXPLANATION = ("(1) clang -Wthread-safety over the units that instantiate the check queue and the coins views, plus annotation-presence obligations "
               "(CCheckQueue's shared fields are GUARDED_BY(m_mutex); Loop/Add/Complete require !m_mutex) so that deleting lock and annotation together is "
               "caught; (2) the CoinsViewOverlay hand-over protocol: the worker writes the coin before ready.test_and_set(release) and the consumer "
               "reads it only after ready.wait(false, acquire), with exactly those memory orders; m_inputs is resized/cleared only by StartFetching/"
               "StopFetching, StopFetching waits for every future before clearing and StartFetching asserts no futures are outstanding; (3) EFFECT: the "
               "code reachable from the worker (ProcessInput -> CCoinsView::PeekCoin overriders) writes no field of any coins view; (4) in "
               "ConnectBlock the queued checks are completed before the verdict and the per-transaction data the checks point to is declared before "
               "(destroyed after) the queue control.")
ASSUMPTIONS = ["clang's thread-safety analysis is sound for annotated state", "std::atomic_flag wait/test_and_set release-acquire semantics (C++20)"]
CLAIM = dict(
    technique="static analysis: clang-16 -Wthread-safety on the units + annotation presence, must-flow ordering with memory-order constants, who-may-write, call-graph effect analysis",
    text="Decides the race-freedom shape for every schedule: lock discipline of the script-check queue, the publish/consume ordering of prefetched "
         "coins with release/acquire, exclusive mutation of the shared input vector while no worker runs, and write-freedom of worker-reachable "
         "code on the base views.",
    note="Not decided: verdict equality across thread counts (schedule property), races on state that carries no annotation.",
    ref="DESIGN.md §3 C14")

TSA_WHOLE_TREE = True
RELAXED, ACQUIRE, RELEASE = 0, 2, 3


def stale_result_rule(ctx, P):
    """CCheckQueue::Loop keeps a per-thread result that outlives one Complete() session. A failure that lost the race for
    m_result must not survive into the next session: either (A) every executed check overwrites the private result on its
    normal (passing) path, or (B) the private result is re-assigned/reset between the publish point and the work loop, or
    (C) it is declared inside the per-batch loop."""
    lp = ctx.used(P.fn("CCheckQueue::Loop"))
    works = [st for st in stmts(lp.body) if st.get("k") == "foreach" and any(x[0] == "opcall" and x[1] == "()" for _, e in all_exprs(st["b"]) for x in subexprs(e))]
    if len(works) != 1:
        raise AnalysisBroken("CCheckQueue::Loop: the loop executing the checks was not recognised (%d candidates)" % len(works))
    work = works[0]
    # the private result variable: the local that is swapped/moved into m_result
    pubs = [x for st, e in all_exprs(lp.body) for x in subexprs(e) if callee(x) in ("std::swap", "std::optional::swap") and "m_result" in show(x)]
    names = {a[1] for x in pubs for a in subexprs(x) if a[0] == "local"}
    if len(names) != 1:
        raise AnalysisBroken("CCheckQueue::Loop: the thread-private result published into m_result was not recognised: %s" % sorted(names))
    var = names.pop()
    is_kill = lambda e: (e[0] == "b" and e[1] == "=" and match(["local", var], e[2])) or (e[0] == "mcall" and e[1].endswith("::reset") and match(["local", var], e[2]))
    body = sub_function(lp, work["b"], "per-check")
    mfa = MayFlow(body, P, kills=[("stale", is_kill)], init={"stale"})
    out = mfa.run()
    end_states = [s for s in (out.get("normal"), out.get("continue")) if s is not None]
    a_ok = bool(end_states) and all("stale" not in s for s in end_states)
    # (B): between the publish and the work loop
    dos = [st for st in stmts(lp.body) if st.get("k") == "do"]
    b_ok = False
    c_ok = False
    if dos:
        batch = sub_function(lp, dos[0]["b"], "per-batch")
        mfb = MustFlow(batch, P, marks=[("fresh", is_kill)], kills=[("fresh", lambda e: e in pubs)])
        seen = []
        mfb.on_stmt = lambda state, st, _s=seen: (_s.append(state) if st is work else None) or state
        mfb.run()
        b_ok = bool(seen) and all("fresh" in s for s in seen)
        c_ok = any(st.get("k") == "decl" and st.get("n") == var for st in stmts(dos[0]["b"]))
    ok = a_ok or b_ok or c_ok
    ctx.ob("CCheckQueue::Loop/no-stale-result", "TYPESTATE", "a worker's private check result cannot carry a lost-race failure into the next Complete() session: every executed "
           "(passing) check overwrites `%s`, or it is reset between publishing and the next batch" % var, ok, "%s:%s" % (lp.file, work.get("l")),
           {"overwritten_by_each_check": a_ok, "reset_before_batch": b_ok, "declared_per_batch": c_ok})


def overlay_reads_only(ctx, P):
    BASE = [".", ["this"], "CCoinsViewBacked::base"]
    n = 0
    bad = []
    for q, lst in P.funcs.items():
        if not q.startswith("CoinsViewOverlay::"):
            continue
        for g in [x.simp() for x in lst]:
            if g.body is None:
                continue
            for s in all_sites(g, P, "all"):
                e = s.expr
                if e is None or callee(e) is None:
                    continue
                onbase = e[0] in ("mcall", "vcall") and len(e) > 2 and is_expr(e[2]) and contains(BASE, e[2])
                inherited = e[0] in ("mcall", "vcall", "call") and str(e[1]) in ("CCoinsViewCache::FetchCoinFromBase", "CCoinsViewCache::FetchCoin", "CCoinsViewBacked::GetCoin",
                                                                                   "CCoinsViewBacked::HaveCoin", "CCoinsViewCache::GetCoin")
                if onbase:
                    n += 1
                    if str(e[1]).rsplit("::", 1)[-1] != "PeekCoin":
                        bad.append((g.q, s.line, show(e)[:100]))
                elif inherited and q.rsplit("::", 1)[-1] in ("FetchCoinFromBase", "ProcessInput", "StartFetching"):
                    bad.append((g.q, s.line, show(e)[:100]))
    ctx.ob("overlay/base-read-only", "WHO-MAY-CALL", "CoinsViewOverlay touches the view below it only through PeekCoin (never a caching lookup such as GetCoin / the inherited "
           "CCoinsViewCache::FetchCoinFromBase), so the base view is not mutated while the prefetch workers read it", not bad, None, {"other_accesses": bad} if bad else None)
    ctx.floor("CoinsViewOverlay accesses to the base view", n + len(bad), 2)


def check(ctx):
    P = ctx.program(UNITS)
    # (1) lock discipline of the check queue
    for fld in ("queue", "nIdle", "nTotal", "m_result", "nTodo", "m_request_stop"):
        tsa.guarded_by(ctx, P, "CCheckQueue", fld, "m_mutex")
    rec = P.record("CCheckQueue")
    for m in ("Loop", "Add", "Complete"):
        ms = [x for x in rec["methods"] if x["n"] == m]
        ok = bool(ms) and any(re.search(r"requires_capability\(!\s*(this->)?m_mutex\)", a) for x in ms for a in x.get("attrs", []))
        ctx.ob("requires/CCheckQueue::%s" % m, "TSA-ANNOT", "CCheckQueue::%s requires that m_mutex is not held (negative capability)" % m, ok, rec["file"])
    tsa.check_units(ctx, UNITS)

    # (1b) no stale verdict carried across queue sessions: a worker's private result is refreshed by every executed check
    stale_result_rule(ctx, P)

    # (1c) the overlay never mutates the view below it: while prefetch workers read the base view without a lock, every access the
    # overlay makes to `base` is the non-caching PeekCoin (a caching GetCoin/FetchCoin would insert into the base cache concurrently)
    overlay_reads_only(ctx, P)

    # (2) overlay hand-over
    pi = ctx.used(P.fn("CoinsViewOverlay::ProcessInput"))
    is_coin_write = lambda e: e[0] == "b" and e[1] == "=" and match([".", ANY, "CoinsViewOverlay::InputToFetch::coin"], e[2])
    is_tas = lambda e: e[0] == "mcall" and e[1].endswith("atomic_flag::test_and_set")
    mf = MustFlow(pi, P, marks=[("coin-written", is_coin_write)])
    mf.watch = is_tas
    mf.run()
    ctx.floor("ProcessInput publish sites", len(mf.events), 1)
    for e, st, stmt in mf.events:
        order = call_args(e)[0] if call_args(e) else None
        ok = "coin-written" in st and is_expr(order) and order[0] == "int" and int(order[1]) == RELEASE
        ctx.ob("ProcessInput/publish@L%s" % stmt.get("l"), "ORDER", "the worker stores the fetched coin before ready.test_and_set(memory_order_release)", ok,
               "%s:%s" % (pi.file, stmt.get("l")), {"memory_order": show(order) if order else None, "coin_written_before": "coin-written" in st})
    ws = sites(pi, is_coin_write, P)
    okw = len(ws) == 1 and contains(["vcall", "CCoinsView::PeekCoin"], ws[0].expr[3])
    ctx.ob("ProcessInput/coin-source", "PROVENANCE", "the published coin is the result of base->PeekCoin(input.outpoint) (read-only peek of the base view)", okw, pi.where)
    fc = ctx.used(P.fn("CoinsViewOverlay::FetchCoinFromBase"))
    is_wait = lambda e: e[0] == "mcall" and e[1].endswith("atomic_flag::wait")
    is_coin_read = lambda e: match([".", ANY, "CoinsViewOverlay::InputToFetch::coin"], e)
    mf2 = MustFlow(fc, P, marks=[("waited", is_wait)])
    mf2.watch = is_coin_read
    mf2.run()
    ctx.floor("FetchCoinFromBase coin reads", len(mf2.events), 1)
    for e, st, stmt in mf2.events:
        ctx.ob("FetchCoinFromBase/consume@L%s" % stmt.get("l"), "ORDER", "the consumer reads input.coin only after ready.wait(false, memory_order_acquire)", "waited" in st,
               "%s:%s" % (fc.file, stmt.get("l")))
    for s in sites(fc, is_wait, P):
        a = call_args(s.expr)
        ok = len(a) == 2 and match(["bool", False], a[0]) and a[1][0] == "int" and int(a[1][1]) == ACQUIRE
        ctx.ob("FetchCoinFromBase/acquire@L%s" % s.line, "CONST", "ready.wait uses old=false and memory_order_acquire", ok, s.where, [show(x) for x in a])
    # m_input_head is only touched through atomic operations; m_inputs mutated only in Start/StopFetching
    cg = callgraph.load_all()
    mut = {"clear", "emplace_back", "push_back", "resize", "reserve", "erase", "insert", "pop_back", "swap", "assign", "shrink_to_fit"}
    writers = sorted({q for q, fl, m, ls in cg.field_calls("CoinsViewOverlay::m_inputs") if m.rsplit("::", 1)[-1] in mut} |
                     {q for q, fl, ls in cg.writers("CoinsViewOverlay::m_inputs")})
    ctx.ob("who-mutates/m_inputs", "WHO-MAY-WRITE", "the shared input vector is resized/cleared only by StartFetching and StopFetching", 
           set(writers) <= {"CoinsViewOverlay::StartFetching", "CoinsViewOverlay::StopFetching", "CoinsViewOverlay::CoinsViewOverlay"} and len(writers) >= 2, None, {"mutators": writers})
    sp = ctx.used(P.fn("CoinsViewOverlay::StopFetching"))
    is_fw = lambda e: e[0] == "mcall" and e[1].endswith("future::wait")
    mf3 = MustFlow(sp, P, marks=[("all-waited", lambda e: False)])
    # the wait is inside a range-for over m_futures: mark when the loop statement has completed
    waited_loops = [st for st in stmts(sp.body) if st.get("k") == "foreach" and show(st.get("range")).endswith("m_futures") and
                    any(is_fw(x) for _, e in all_exprs(st["b"]) for x in subexprs(e)) and not has_break(st["b"])]
    ctx.floor("StopFetching wait loop", len(waited_loops), 1)
    clears = sites(sp, lambda e: e[0] == "mcall" and e[1].endswith("::clear") and show(e[2]).endswith("m_inputs"), P)
    ctx.floor("StopFetching clears", len(clears), 1)
    for s in clears:
        f = s.formula(naming(sp, P))
        ok = F.implies(f, F.atom("done(loop@%s)" % waited_loops[0]["l"]))
        ctx.ob("StopFetching/wait-before-clear@L%s" % s.line, "ORDER", "StopFetching clears the input vector only after waiting on every outstanding future", ok, s.where)
    sf = ctx.used(P.fn("CoinsViewOverlay::StartFetching"))
    emp = sites(sf, lambda e: e[0] == "mcall" and e[1].endswith("::emplace_back") and show(e[2]).endswith("m_inputs"), P)
    ctx.floor("StartFetching fills m_inputs", len(emp), 1)
    for s in emp:
        f = s.formula(naming(sf, P))
        ok = F.implies(f, F.atom("m_futures.empty()"))
        ctx.ob("StartFetching/no-workers-while-filling@L%s" % s.line, "ORDER", "StartFetching appends inputs only after asserting that no worker futures are outstanding", ok, s.where,
               None if ok else {"path": F.fshow(f)[:300]})
    # head index accesses are atomic member calls only
    heads = [(st, x) for q in ("CoinsViewOverlay::ProcessInput", "CoinsViewOverlay::StopFetching", "CoinsViewOverlay::StartFetching") for fn in P.fns(q)
             for st, e in all_exprs(fn.body) for x in subexprs(e) if x[0] == "b" and x[1] in ASSIGN_OPS and show(x[2]).endswith("m_input_head")]
    ctx.ob("m_input_head/atomic-only", "EFFECT", "the shared head index is never assigned non-atomically", not heads, None)

    # (3) worker-reachable code writes no coins-view state
    starts = {"CCoinsView::PeekCoin"} | set(cg.overriders.get("CCoinsView::PeekCoin", ()))
    ctx.floor("PeekCoin implementations", len(starts), 3)
    seen = cg.reach(starts)
    view_recs = ("CCoinsViewCache::", "CoinsViewOverlay::", "CCoinsViewBacked::", "CCoinsViewDB::", "CCoinsViewErrorCatcher::", "CCoinsViewMemPool::")
    bad = []
    for q in seen:
        for info in cg.by_q.get(q, ()):
            for fld in info["writes"]:
                if fld.startswith(view_recs):
                    bad.append((q, fld))
            for k in info["fcalls"]:
                fld, m = k.split("|", 1)
                if fld.startswith(view_recs) and m.rsplit("::", 1)[-1] in mut | {"try_emplace", "emplace"}:
                    bad.append((q, fld + " ." + m.rsplit("::", 1)[-1]))
    ctx.ob("worker/no-view-writes", "EFFECT", "no function reachable from CCoinsView::PeekCoin (what worker threads run) writes a field of a coins view "
           "(the base view stays unchanged and there is no write/write race)", not bad, None, {"reached": len(seen), "writes": bad[:6]})
    ctx.extra["peek_reach"] = sorted(seen)[:60]

    # (4) ConnectBlock: queue completed before verdict; txsdata outlives control
    cb = ctx.used(P.fn("Chainstate::ConnectBlock"))
    decl_lines = {st.get("n"): st.get("l") for st in stmts(cb.body) if st.get("k") == "decl"}
    ok = "txsdata" in decl_lines and "control" in decl_lines and decl_lines["txsdata"] < decl_lines["control"]
    ctx.ob("ConnectBlock/txsdata-outlives-control", "ORDER", "the precomputed transaction data that queued checks point to is declared before the queue control "
           "(so it is destroyed after the control has waited for the workers)", ok, cb.where, {k: decl_lines.get(k) for k in ("txsdata", "control")})
    is_emplace = lambda e: e[0] == "mcall" and e[1].endswith("::emplace") and match(["local", "control"], e[2])
    is_complete = lambda e: e[0] == "mcall" and e[1] == "CCheckQueueControl::Complete"
    mfc = MayFlow(cb, P, gens=[("pending", is_emplace)], kills=[("pending", is_complete)],
                  branch_kills=[("pending", lambda a: F.atoms(F.to_formula(a)) == ["control"], False)])
    mfc.run()
    n = 0
    for st, stmt in mfc.exits:
        if stmt.get("k") == "ret" and match(["bool", True], stmt.get("v")):
            n += 1
            ctx.ob("ConnectBlock/Complete-before-accept@L%s" % stmt.get("l"), "ORDER", "ConnectBlock never returns true while queued script checks are pending",
                   "pending" not in st, "%s:%s" % (cb.file, stmt.get("l")))
    ctx.floor("ConnectBlock accepting returns", n, 2)
