"""C51 Probabilistic filters never produce false negatives - agreement clause only (originally listed N/A).

Taken whole the property is algorithmic.  Decided here is the clause visible in the shape of the code: the inserting /
encoding side and the querying / decoding side of each structure address the same bits and use the same mapping."""
import copy
import itertools
import re

from sa.engine.api import *

UNITS = ["common/bloom.cpp", "blockfilter.cpp", "merkleblock.cpp"]
EXPLANATION = ("SYMMETRY between the inserting/encoding and the querying/decoding side of each probabilistic structure. CBloomFilter: insert and contains run "
               "the same hash-index loop under the same entry condition, the bit insert sets (word, bit position; helper functions and lambdas inlined, locals "
               "expanded) is the bit whose absence makes contains answer false, the write only ORs that bit in, contains answers true only for the empty filter "
               "or after the complete loop, the byte index stays inside the modulus Hash reduces by and the bit position inside the element; the other "
               "overloads derive the key bytes identically and forward. CRollingBloomFilter: same loop, same hash/bit/position terms, contains answers false "
               "only if the bit is clear in both words insert writes; by abstract evaluation of insert's statements over generation in {1,2,3} and one bit per "
               "word: each write replaces exactly the addressed bit by a one-bit code of the generation, the codes are non-zero and distinct, the generation "
               "stays in {1,2,3} (reset and roll-over), and the roll-over wipe leaves the entries of the other generations untouched and comes before the new "
               "entry is written. GCSFilter: encoder, Match and MatchAny map elements through HashToRange (which reads only the element, m_params and m_F), "
               "m_F is computed alike by the encoding and the decoding constructor, the count is written/read first, every Golomb-Rice call uses the same P, "
               "deltas are formed and accumulated inversely, the hashed set is sorted, the decoder reads exactly m_N deltas, the bit writer is flushed; both "
               "BlockFilter constructors take the parameters from BuildParams; BasicFilterElements inserts every non-empty, non-OP_RETURN output script and "
               "every non-empty spent script. CPartialMerkleTree: TraverseAndBuild and TraverseAndExtract produce/consume one bit per node, stop, descend "
               "(left, then right under the same right-child test that CalcHash uses) and push/consume a hash under the same conditions - conditions built only "
               "from height == 0, the flag and the right-child test (plus the two overflow checks in the extractor) - and matched leaves are reported exactly at "
               "height 0 with the flag set; constructor and ExtractMatches start from the same root.")
ASSUMPTIONS = ["MurmurHash3, SipHash and FastRange32/64 are deterministic functions of their arguments (the hash functions themselves are not decided)",
               "GolombRiceDecode(P) inverts GolombRiceEncode(P) and BitStreamReader inverts BitStreamWriter (coding correctness is not decided)",
               "ReadCompactSize inverts WriteCompactSize (C48)",
               "a CRollingBloomFilter is reset() before use (its constructor calls reset) so the generation starts in {1,2,3}"]
CLAIM = dict(
    technique="static analysis: writer/reader symmetry of extracted bit addresses, loop headers and exit conditions (truth tables over canonical atoms), abstract "
              "evaluation of the bitwise update statements over a two-position word model, traversal-event comparison of the two tree walks",
    text="Agreement between the inserting and the querying side (a necessary condition of 'no false negatives', not the property itself): for CBloomFilter, "
         "CRollingBloomFilter, GCSFilter/BlockFilter and CPartialMerkleTree the code that inserts/encodes and the code that queries/decodes iterate the same range, "
         "compute the same hash/position terms, address the same words and bits (or stream items, with the same Golomb-Rice parameter and hash range) and "
         "stop/descend under the same conditions; a query answers 'absent' only where the bit the inserter sets is clear; the basic block filter is fed every "
         "non-empty output script not starting with OP_RETURN and every non-empty spent script. A shift, mask, modulus, tweak, loop bound, coding parameter or "
         "child test changed on one side only, a dropped word, an early answer, a generation number that can become 0 or a wipe that touches a live generation "
         "is reported.",
    note="Not decided: false-positive rates; the hash functions themselves (MurmurHash3, SipHash, FastRange); Golomb-Rice / bit-stream coding correctness; equality "
         "with the BIP158/BIP37 reference encodings; the rolling filter's capacity as a number (how many recent elements survive) and that the wipe really "
         "clears the reused generation (decided is only that it spares the other two: clearing too little costs false positives, not false negatives); the merge "
         "walk of GCSFilter::MatchInternal over the sorted hashes; the computation of the parent-of-match flag over a subtree's leaf range in TraverseAndBuild; "
         "which data elements of a transaction CBloomFilter::IsRelevantAndUpdate tests and inserts; duplicate-hash (CVE-2012-2459) handling and the consumed-all "
         "checks of ExtractMatches. Loop agreement is decided as equality of the two headers (a one-sided change that only adds false positives is reported too). "
         "This is a weak, structural claim: the two sides agree, not that either is right.",
    ref="DESIGN.md §3 C51 (claimed partially after the design; see §6.1)")


# ======================================================================================================================
# generic helpers (candidates for the engine: expression-level inlining of single-return helpers, power-of-two
# normalisation, alpha-renaming, projection of a guard onto chosen atoms, two-position bit evaluation)

UNSIGNED = {"unsigned int", "unsigned long", "unsigned char", "unsigned short", "unsigned long long", "uint8_t", "uint16_t", "uint32_t", "uint64_t", "size_t",
            "std::size_t", "unsigned"}


def _ty(t):
    return (t or "").replace("const ", "").replace("&", "").strip()


def strip(e):
    """Casts, parentheses and defaulted-argument wrappers removed at the top."""
    while is_expr(e):
        if e[0] == "cast" and len(e) >= 3 and is_expr(e[2]):
            e = e[2]
        elif e[0] in ("paren", "defarg") and len(e) == 2 and is_expr(e[1]):
            e = e[1]
        else:
            break
    return e


def strip_all(e):
    if not is_expr(e):
        return e
    e = strip(e)
    return [e[0]] + [strip_all(x) if is_expr(x) else x for x in e[1:]]


def K(e, subst=None):
    return F.key(F.expand(e, subst) if subst else e)


def _single_return(f):
    """The returned expression if the body of f is a single `return e;`."""
    if f is None or not isinstance(f.body, dict):
        return None
    items = f.body.get("s", []) if f.body.get("k") == "seq" else [f.body]
    items = [x for x in items if isinstance(x, dict)]
    if len(items) == 1 and items[0].get("k") == "ret" and is_expr(items[0].get("v")):
        return items[0]["v"]
    return None


def _subst(e, params, this):
    if not is_expr(e):
        return e
    if e[0] == "param" and e[1] in params:
        return copy.deepcopy(params[e[1]])
    if e[0] == "this" and this is not None:
        return copy.deepcopy(this)
    return [e[0]] + [_subst(x, params, this) if is_expr(x) else x for x in e[1:]]


def inline_helpers(e, P, stack=(), keep=()):
    """Calls of functions / member functions / named local lambdas whose body is a single `return expr;` are replaced by
    that expression (arguments substituted; only when every argument is side-effect free), to depth 4."""
    if not is_expr(e):
        return e
    e = [e[0]] + [inline_helpers(x, P, stack, keep) if is_expr(x) else x for x in e[1:]]
    t, q, obj, args = e[0], None, None, None
    if t == "call":
        q, args = e[1], call_args(e)
    elif t == "mcall":
        q, obj, args = e[1], e[2], call_args(e)
    elif t == "opcall" and e[1] == "()" and isinstance(e[2], str) and "::lambda@" in e[2] and len(e) > 3 and is_expr(e[3]) and e[3][0] == "local":
        q, args = e[2], call_args(e)
    if q is None or q in stack or len(stack) >= 4 or any(q.startswith(k) for k in keep):
        return e
    cands = P.funcs.get(q, [])
    if len(cands) != 1:
        return e
    f = cands[0]
    v = _single_return(f)
    if v is None or len(f.params) != len(args):
        return e
    if any(x[0] in ("u",) and x[1] in ("++", "--", "post++", "post--") or (x[0] == "b" and x[1] in ASSIGN_OPS) for a in args for x in subexprs(a)):
        return e
    mapping = {p["n"]: a for p, a in zip(f.params, args) if p.get("n")}
    return inline_helpers(_subst(v, mapping, obj), P, stack + (q,), keep)


def _pow2(n):
    return isinstance(n, int) and n > 0 and n & (n - 1) == 0


class Prepared:
    """A copy of a function with parameters renamed #0.., single-return helpers inlined, `x / 2^k`, `x % 2^k` of unsigned x
    written as `x >> k`, `x & (2^k-1)`, and (optionally) chosen locals renamed."""

    def __init__(self, fn, P, keep=()):
        self.orig = fn
        self.P = P
        self.pnames = {p["n"]: "#%d" % i for i, p in enumerate(fn.params) if p.get("n")}
        self.ltypes = {}
        for st in stmts(fn.body):
            if st.get("k") == "decl" and st.get("n"):
                self.ltypes[st["n"]] = _ty(st.get("ty"))
            if st.get("k") == "foreach" and isinstance(st.get("var"), dict) and st["var"].get("n"):
                self.ltypes[st["var"]["n"]] = _ty(st["var"].get("ty"))
        self.ptypes = {p["n"]: _ty(p.get("ty")) for p in fn.params if p.get("n")}
        f2 = copy.copy(fn)
        f2.body = copy.deepcopy(fn.body)
        self.fn = f2
        self.map_exprs(lambda e: self.pow2(inline_helpers(e, P, (), keep)))
        self.map_exprs(self.ren_params)
        f2.params = [dict(p, n=self.pnames.get(p.get("n"), p.get("n"))) for p in fn.params]
        self._subst = None

    def map_exprs(self, fun):
        for st in stmts(self.fn.body):
            for k in ("c", "e", "v", "i", "range", "inc"):
                if is_expr(st.get(k)):
                    st[k] = fun(st[k])
            v = st.get("var")
            if isinstance(v, dict) and is_expr(v.get("i")):
                v["i"] = fun(v["i"])
        self._subst = None

    def ren_params(self, e):
        if not is_expr(e):
            return e
        if e[0] == "param" and e[1] in self.pnames:
            return ["param", self.pnames[e[1]]]
        return [e[0]] + [self.ren_params(x) if is_expr(x) else x for x in e[1:]]

    def rename_locals(self, mapping):
        def ren(e):
            if not is_expr(e):
                return e
            if e[0] == "local" and e[1] in mapping:
                return ["local", mapping[e[1]]]
            return [e[0]] + [ren(x) if is_expr(x) else x for x in e[1:]]
        self.map_exprs(ren)
        for st in stmts(self.fn.body):
            if st.get("k") == "decl" and st.get("n") in mapping:
                st["n"] = mapping[st["n"]]
            if st.get("k") == "foreach" and isinstance(st.get("var"), dict) and st["var"].get("n") in mapping:
                st["var"]["n"] = mapping[st["var"]["n"]]
        for a, b in mapping.items():
            if a in self.ltypes:
                self.ltypes[b] = self.ltypes[a]

    def unsigned(self, e):
        e0 = e
        if not is_expr(e):
            return False
        if e[0] == "cast":
            return _ty(e[1]) in UNSIGNED if len(e) < 5 else _ty(e[4]) in UNSIGNED or _ty(e[1]) in UNSIGNED
        if e[0] == "local":
            return self.ltypes.get(e[1]) in UNSIGNED
        if e[0] == "param":
            return self.ptypes.get(e[1]) in UNSIGNED
        if e[0] in ("call", "mcall"):
            c = self.P.funcs.get(e[1], [])
            return len(c) == 1 and _ty(c[0].d.get("ret")) in UNSIGNED
        if e[0] == "b" and e[1] in ("+", "*", "&", "|", "^", ">>", "<<", "%", "/") and len(e) >= 4:
            l, r = e[2], e[3]
            lit = lambda x: is_expr(x) and x[0] == "int" and isinstance(x[1], int) and x[1] >= 0
            if e[1] in (">>", "<<"):
                return self.unsigned(l)
            return (self.unsigned(l) and (self.unsigned(r) or lit(r))) or (lit(l) and self.unsigned(r))
        return False

    def pow2(self, e):
        if not is_expr(e):
            return e
        e = [e[0]] + [self.pow2(x) if is_expr(x) else x for x in e[1:]]
        if e[0] == "b" and e[1] in ("/", "%") and len(e) == 4 and is_expr(e[3]) and e[3][0] == "int" and _pow2(e[3][1]) and e[3][1] > 1 and self.unsigned(e[2]):
            k = e[3][1].bit_length() - 1
            return ["b", ">>", e[2], ["int", k]] if e[1] == "/" else ["b", "&", e[2], ["int", e[3][1] - 1]]
        return e

    @property
    def subst(self):
        if self._subst is None:
            self._subst = naming(self.fn, self.P, allow_overwritten=True)
        return self._subst

    def key(self, e):
        return K(e, self.subst)

    def x(self, e):
        return F.expand(e, self.subst)


def loops_of(fn):
    return [st for st in stmts(fn.body) if st.get("k") in ("for", "while", "foreach", "do")]


def loop_header(loop, var="$i"):
    """(start, condition, step) of a counting `for` loop, the index variable rendered as `var`; None if it is not one."""
    if loop.get("k") != "for":
        return None
    init, c, inc = loop.get("init"), loop.get("c"), loop.get("inc")
    if not (isinstance(init, dict) and init.get("k") == "decl" and init.get("n") and is_expr(init.get("i")) and is_expr(c) and is_expr(inc)):
        return None
    i = init["n"]

    def ren(e):
        if not is_expr(e):
            return e
        if e[0] == "local" and e[1] == i:
            return ["local", var]
        return [e[0]] + [ren(x) if is_expr(x) else x for x in e[1:]]
    step = None
    if inc[0] == "u" and inc[1] in ("++", "post++") and inc[2] == ["local", i]:
        step = 1
    elif inc[0] == "b" and inc[1] == "+=" and inc[2] == ["local", i] and match(["int", ANY], inc[3]):
        step = inc[3][1]
    elif inc[0] == "b" and inc[1] == "=" and inc[2] == ["local", i] and match(["b", "+", ["local", i], ["int", ANY]], inc[3]):
        step = inc[3][3][1]
    if step is None:
        return None
    body_writes = [x for st, e in all_exprs(loop.get("b")) for x in subexprs(e)
                   if (x[0] == "b" and x[1] in ASSIGN_OPS and x[2] == ["local", i]) or (x[0] == "u" and x[1] in ("++", "--", "post++", "post--") and x[2] == ["local", i])]
    if body_writes:
        return None
    return (F.key(ren(strip_all(init["i"]))), F.fshow(F.to_formula(ren(c), None)), step)


def project(formula, keep):
    """The set of assignments of the atoms `keep` under which `formula` is satisfiable (all other atoms existentially forgotten)."""
    others = sorted(a for a in F.atoms(formula) if a not in keep)
    if len(others) > 12:
        raise AnalysisBroken("C51: condition too large to project (%d atoms)" % len(others))
    keep = list(keep)
    out = set()
    for vals in itertools.product((False, True), repeat=len(keep)):
        env = dict(zip(keep, vals))
        for ov in itertools.product((False, True), repeat=len(others)):
            env.update(zip(others, ov))
            if F.ev(formula, env):
                out.add(vals)
                break
    return out


def cond_leaves(fn, subst):
    """{atom text: expanded expression} for the leaves of every branch/loop condition of fn."""
    out = {}

    def leaf(e):
        e = strip(e)
        if not is_expr(e):
            return
        if e[0] == "u" and e[1] == "!":
            return leaf(e[2])
        if e[0] == "b" and e[1] in ("&&", "||"):
            leaf(e[2])
            return leaf(e[3])
        if e[0] == "b" and e[1] in ("==", "!=") and (match(["int", 0], strip(e[3])) or match(["int", 0], strip(e[2]))):
            return leaf(e[2] if match(["int", 0], strip(e[3])) else e[3])
        if e[0] == "?:":
            leaf(e[1])
            leaf(e[2])
            return leaf(e[3])
        f = F.to_formula(e, subst)
        for a in F.atoms(f):
            out.setdefault(a, F.expand(e, subst))
    for st in stmts(fn.body):
        if is_expr(st.get("c")) and st.get("k") in ("if", "while", "for", "do"):
            leaf(st["c"])
    return out


# ---------------------------------------------------------------------------------------------- two-position bit model
class Unknown(Exception):
    pass


class BitEval:
    """Abstract evaluation of straight-line bitwise code over 64-bit words.  A word is (bit at the addressed position S, any
    other bit); `c << S` with c in {0,1} is (c, 0); `0 - c` with c in {0,1} is (c, c); small integers (the generation
    number and terms over it) are evaluated exactly.  Anything else raises Unknown (the rule then reports an unknown idiom)."""

    def __init__(self, data_field, subst, gen_field=None, gen=None):
        self.data_field, self.gen_field, self.gen, self.subst = data_field, gen_field, gen, subst
        self.S = None
        self.mem = {}
        self.loc = {}
        self.wide = False           # a value wider than one bit was shifted to the addressed position
        self.halted = False         # the iteration / block was left by continue, break or return
        self.lenient = False        # generation-only pass: word computations that cannot be evaluated are skipped

    def clone(self):
        c = BitEval(self.data_field, self.subst, self.gen_field, self.gen)
        c.S, c.mem, c.loc, c.wide, c.halted, c.lenient = self.S, dict(self.mem), dict(self.loc), self.wide, self.halted, self.lenient
        return c

    def is_data(self, e):
        return is_expr(e) and e[0] == "idx" and match([".", ["this"], self.data_field], e[1])

    def is_gen(self, e):
        return self.gen_field is not None and match([".", ["this"], self.gen_field], e)

    def cell(self, e):
        return F.key(F.expand(strip_all(e[2]), self.subst))

    def word(self, v):
        if v[0] == "w":
            return v
        if v[0] == "i" and v[1] == 0:
            return ("w", 0, 0)
        raise Unknown("integer %s used as a word" % (v[1],))

    def ev(self, e):
        e = strip(e)
        if not is_expr(e):
            raise Unknown(str(e))
        t = e[0]
        if t == "int":
            return ("i", int(e[1]))
        if t == "bool":
            return ("i", 1 if e[1] else 0)
        if self.is_gen(e):
            if self.gen is None:
                raise Unknown("generation")
            return ("i", self.gen)
        if t == "local":
            if e[1] in self.loc and self.loc[e[1]] is not None:
                return self.loc[e[1]]
            raise Unknown("local %s" % e[1])
        if self.is_data(e):
            k = self.cell(e)
            if k not in self.mem:
                raise Unknown("word %s" % k)
            return self.mem[k]
        if t == "u" and e[1] == "~":
            v = self.ev(e[2])
            if v[0] == "w":
                return ("w", 1 - v[1], 1 - v[2])
            if v[1] == 0:
                return ("w", 1, 1)
            raise Unknown("~%s" % (v[1],))
        if t == "u" and e[1] == "!":
            v = self.ev(e[2])
            return ("i", 0 if (v[1] if v[0] == "i" else (v[1] or v[2])) else 1)
        if t == "?:":
            c = self.ev(e[1])
            if c[0] != "i":
                raise Unknown("?:")
            return self.ev(e[2] if c[1] else e[3])
        if t == "b" and len(e) >= 4:
            op = e[1]
            if op == "<<":
                l = self.ev(e[2])
                sk = F.key(F.expand(strip_all(e[3]), self.subst))
                r = None
                try:
                    r = self.ev(e[3])
                except Unknown:
                    pass
                if r is not None and r[0] == "i" and l[0] == "i":
                    return ("i", l[1] << r[1])
                if self.S is None:
                    self.S = sk
                if sk != self.S or l[0] != "i":
                    raise Unknown("shift by %s" % sk)
                if l[1] not in (0, 1):
                    self.wide = True
                return ("w", l[1] & 1, 0)
            l, r = self.ev(e[2]), self.ev(e[3])
            if l[0] == "i" and r[0] == "i":
                a, b = l[1], r[1]
                if op == "-" and a == 0 and b in (0, 1):
                    return ("w", b, b) if b else ("i", 0)
                fn = {"+": lambda: a + b, "-": lambda: a - b, "*": lambda: a * b, "&": lambda: a & b, "|": lambda: a | b, "^": lambda: a ^ b,
                      ">>": lambda: a >> b, "==": lambda: int(a == b), "!=": lambda: int(a != b), "<": lambda: int(a < b), ">": lambda: int(a > b),
                      "<=": lambda: int(a <= b), ">=": lambda: int(a >= b), "&&": lambda: int(bool(a) and bool(b)), "||": lambda: int(bool(a) or bool(b)),
                      "%": lambda: a % b if b else None}.get(op)
                v = fn() if fn else None
                if v is None:
                    raise Unknown("operator %s" % op)
                return ("i", v)
            if op in ("&", "|", "^"):
                if op == "&" and ((l[0] == "i" and l[1] == 0) or (r[0] == "i" and r[1] == 0)):
                    return ("w", 0, 0)
                l, r = self.word(l), self.word(r)
                f = {"&": lambda x, y: x & y, "|": lambda x, y: x | y, "^": lambda x, y: x ^ y}[op]
                return ("w", f(l[1], r[1]), f(l[2], r[2]))
            raise Unknown("operator %s on words" % op)
        raise Unknown(show(e)[:60])

    # -- statements: returns the list of possible final states
    def touches(self, e):
        return any(self.is_data(x) or self.is_gen(x) or match([".", ["this"], self.data_field], x) for x in subexprs(e))

    def assign(self, e):
        """expression statement"""
        e0 = strip(e)
        if e0[0] == "u" and e0[1] in ("++", "post++", "--", "post--") and self.is_gen(strip(e0[2])):
            self.gen = self.gen + (1 if "+" in e0[1] else -1)
            return
        if e0[0] == "b" and e0[1] in ASSIGN_OPS:
            tgt = strip(e0[2])
            if self.is_gen(tgt) or self.is_data(tgt) or (tgt[0] == "local" and tgt[1] in self.loc):
                rhs = self.ev(e0[3])
                if e0[1] != "=":
                    cur = self.ev(tgt)
                    op = e0[1][:-1]
                    if cur[0] == "i" and rhs[0] == "i":
                        rhs = self.ev(["b", op, ["int", cur[1]], ["int", rhs[1]]])
                    elif op in ("&", "|", "^"):
                        a, b = self.word(cur), self.word(rhs)
                        f = {"&": lambda x, y: x & y, "|": lambda x, y: x | y, "^": lambda x, y: x ^ y}[op]
                        rhs = ("w", f(a[1], b[1]), f(a[2], b[2]))
                    else:
                        raise Unknown("compound %s" % e0[1])
                if self.is_gen(tgt):
                    if rhs[0] != "i":
                        raise Unknown("generation := word")
                    self.gen = rhs[1]
                elif self.is_data(tgt):
                    self.mem[self.cell(tgt)] = self.word(rhs)
                else:
                    self.loc[tgt[1]] = rhs
                return
        if self.touches(e0):
            raise Unknown("statement %s" % show(e0)[:80])

    def run(self, items):
        states = [self]
        for st in items:
            nxt = []
            for s in states:
                nxt.extend([s] if s.halted else s.step(st))
            states = nxt
        return states

    def step(self, st):
        k = st.get("k")
        if k == "seq":
            return self.run([x for x in st.get("s", []) if isinstance(x, dict)])
        if k in ("continue", "break", "ret"):
            self.halted = True
            return [self]
        if k == "decl":
            if st.get("n"):
                try:
                    self.loc[st["n"]] = self.ev(st["i"]) if is_expr(st.get("i")) else None
                except Unknown:
                    self.loc[st["n"]] = None       # using it later in a word computation raises Unknown there
            return [self]
        if k == "expr":
            if is_expr(st.get("e")):
                try:
                    self.assign(st["e"])
                except Unknown:
                    if not self.lenient or any(self.is_gen(strip(x[2])) for x in subexprs(st["e"]) if x[0] in ("b", "u") and len(x) > 2 and is_expr(x[2])
                                               and (x[0] == "u" or x[1] in ASSIGN_OPS)):
                        raise
            return [self]
        if k == "if" and not isinstance(st.get("init"), dict):
            try:
                c = self.ev(st["c"])
                known = c[0] == "i"
            except Unknown:
                if self.touches(st["c"]):
                    raise
                known = False
            out = []
            for pol in ((bool(c[1]),) if known else (True, False)):
                s = self.clone() if not known else self
                br = st.get("t") if pol else st.get("e")
                out.extend(s.step(br) if isinstance(br, dict) else [s])
            return out
        if k == "for":
            # one generic iteration: the index is an opaque even number advancing by 2 (checked by the caller)
            init = st.get("init")
            if isinstance(init, dict) and init.get("n"):
                self.loc[init["n"]] = None
            out = self.step(st.get("b")) if isinstance(st.get("b"), dict) else [self]
            for o in out:
                o.halted = False
            return out
        raise Unknown("statement kind %s at line %s" % (k, st.get("l")))


def parity(e, even_locals):
    """'even' / 'odd' / None for an index term."""
    e = strip(e)
    if not is_expr(e):
        return None
    if e[0] == "int":
        return "even" if e[1] % 2 == 0 else "odd"
    if e[0] == "local" and e[1] in even_locals:
        return "even"
    if e[0] == "b" and e[1] == "&" and any(match(["int", ANY], strip(x)) and strip(x)[1] % 2 == 0 for x in e[2:4]):
        return "even"
    if e[0] == "b" and e[1] == "|" and any(match(["int", 1], strip(x)) for x in e[2:4]):
        return "odd"
    if e[0] == "b" and e[1] == "+" and len(e) == 4:
        a, b = parity(e[2], even_locals), parity(e[3], even_locals)
        if a and b:
            return "even" if a == b else "odd"
    return None


def bit_tests(term, data_field, subst):
    """For a term tested for non-zero: (set of word keys, shift key) if the term is non-zero exactly when the bit at one
    position S is set in at least one of those words; None otherwise."""
    t = strip_all(term)

    def rw(e):
        # (X >> S) & 1  ==  X & (1 << S) as a truth value
        if not is_expr(e):
            return e
        b = {}
        if match(["b", "&", ["b", ">>", V("x"), V("s")], ["int", 1]], e, b) or match(["b", "&", ["int", 1], ["b", ">>", V("x"), V("s")]], e, b):
            return ["b", "&", b["x"], ["b", "<<", ["int", 1], b["s"]]]
        return e
    t = rw(t)
    probe = BitEval(data_field, subst)
    cells = sorted({probe.cell(x) for x in subexprs(t) if probe.is_data(x)})
    if not cells or len(cells) > 4:
        return None
    res = {}
    S = None
    for vals in itertools.product((0, 1), repeat=2 * len(cells)):
        ev = BitEval(data_field, subst)
        for i, c in enumerate(cells):
            ev.mem[c] = ("w", vals[2 * i], vals[2 * i + 1])
        try:
            v = ev.ev(t)
        except Unknown:
            return None
        if ev.wide:
            return None
        S = ev.S
        res[vals] = bool(v[1]) if v[0] == "i" else bool(v[1] or v[2])
    if S is None:
        return None
    words = set()
    for i, c in enumerate(cells):
        only = tuple(1 if j == 2 * i else 0 for j in range(2 * len(cells)))
        if res[only]:
            words.add(c)
    for vals, r in res.items():
        if r != any(vals[2 * i] for i, c in enumerate(cells) if c in words):
            return None
    return words, S


def alpha(fn_body_items):
    """Canonical rendering of a statement list with locals renamed in order of declaration."""
    names = {}
    for st in fn_body_items:
        for s in stmts(st):
            if s.get("k") == "decl" and s.get("n") and s["n"] not in names:
                names[s["n"]] = "$L%d" % len(names)

    def ren(e):
        if not is_expr(e):
            return e
        if e[0] == "local" and e[1] in names:
            return ["local", names[e[1]]]
        return [e[0]] + [ren(x) if is_expr(x) else x for x in e[1:]]
    return names, ren


# ======================================================================================================================
# (1) CBloomFilter

def span_overload(P, q):
    c = [f for f in P.fns(q) if len(f.params) == 1 and "span" in f.params[0]["ty"]]
    if len(c) != 1:
        raise AnalysisBroken("C51: the byte-span overload of %s was not found" % q)
    return c[0]


def hash_loop(pf, what):
    """The unique loop of a prepared function whose body mentions the key parameter #0."""
    ls = [l for l in loops_of(pf.fn) if any(x == ["param", "#0"] for _, e in all_exprs(l.get("b")) for x in subexprs(e))]
    ls = [l for l in ls if not any(l2 is not l and any(s is l for s in stmts(l2.get("b"))) for l2 in ls)]
    if len(ls) != 1:
        raise AnalysisBroken("C51: %s: expected one loop over the hash functions, found %d" % (what, len(ls)))
    return ls[0]


def escapes(st, in_loop=False, in_switch=False):
    """The statement can be left other than by completing: return/throw/goto anywhere, break/continue bound outside it."""
    if not isinstance(st, dict):
        return False
    k = st.get("k")
    if k in ("ret", "throw", "goto"):
        return True
    if k == "break":
        return not (in_loop or in_switch)
    if k == "continue":
        return not in_loop
    loop = in_loop or k in ("for", "while", "foreach", "do")
    sw = in_switch or k == "switch"
    for key in ("s", "h"):
        for x in st.get(key) or []:
            if escapes(x, loop, sw):
                return True
    for key in ("t", "e", "b", "init"):
        if isinstance(st.get(key), dict) and escapes(st[key], loop if key != "init" else in_loop, sw):
            return True
    return False


def reach(site, subst, whole_range_loops=()):
    """Reachability condition of a site: its guards without the post-conditions of earlier statements that cannot leave
    the enclosing block (no return/throw/break/continue inside: `statement completed` says nothing about reachability).
    The bound test of a counting loop that the engine normalises to a range-for (lines in whole_range_loops) is dropped."""
    gs = []
    for g in site.guards:
        if g.kind == "loop" and g.line in whole_range_loops:
            continue
        if g.kind == "post" and isinstance(g.vals, dict) and not escapes(g.vals) and F.implies(F.T, F.forget(g.formula(subst), [a for a in F.atoms(g.formula(subst))])):
            continue
        gs.append(g.formula(subst))
    return F.mk_and(gs)


def body_entry(pf, loop):
    """Condition under which an iteration of `loop` starts (site formula of the loop body)."""
    b = loop.get("b")
    ss = stmt_sites(pf.fn, lambda st: st is b, pf.P)
    if len(ss) != 1:
        raise AnalysisBroken("C51: loop body site not found in %s" % pf.orig.q)
    return reach(ss[0], pf.subst)


def data_writes(pf, field, within=None):
    pred = lambda e: (e[0] == "b" and e[1] in ASSIGN_OPS and is_expr(strip(e[2])) and strip(e[2])[0] == "idx" and match([".", ["this"], field], strip(e[2])[1])) or \
        (e[0] == "u" and e[1] in ("++", "--", "post++", "post--") and is_expr(strip(e[2])) and strip(e[2])[0] == "idx" and match([".", ["this"], field], strip(e[2])[1]))
    out = sites(pf.fn, pred, pf.P)
    if within is not None:
        inside = {id(s) for s in stmts(within)}
        out = [s for s in out if id(s.stmt) in inside]
    return out


def run_body(pf, loop, field, cells, init, gen_field=None, gen=None):
    """Evaluate one iteration of the loop body with the given initial (at, other) bits of the named cells."""
    ev = BitEval(field, pf.subst, gen_field, gen)
    for c, v in zip(cells, init):
        ev.mem[c] = ("w", v[0], v[1])
    return ev.run([loop["b"]])


def write_effects(pf, loop, field, gen_field=None, gens=(None,)):
    """{cell: {gen: bit stored at the addressed position}} if every write of the loop body replaces exactly the addressed bit
    of its word by a value that does not depend on the word's old content, keeps the other bits, and no value wider than one
    bit is shifted in; (None, reason) otherwise.  Also returns the shift key."""
    ws = data_writes(pf, field, loop["b"])
    probe = BitEval(field, pf.subst)
    cells = sorted({probe.cell(strip(s.expr[2])) for s in ws})
    if not cells:
        return None, "no write", None
    eff = {c: {} for c in cells}
    S = None
    for g in gens:
        seen = {c: set() for c in cells}
        for vals in itertools.product((0, 1), repeat=2 * len(cells)):
            init = [(vals[2 * i], vals[2 * i + 1]) for i in range(len(cells))]
            try:
                finals = run_body(pf, loop, field, cells, init, gen_field, g)
            except Unknown as u:
                return None, "unknown idiom: %s" % u, None
            for st in finals:
                if st.wide:
                    return None, "a value wider than one bit is shifted to the addressed position", None
                S = st.S if st.S is not None else S
                for i, c in enumerate(cells):
                    w = st.mem[c]
                    if w[2] != init[i][1]:
                        return None, "the write to %s changes bits other than the addressed one" % c, None
                    seen[c].add(w[1])
        for c in cells:
            if len(seen[c]) != 1:
                return None, "the bit stored in %s depends on the old content" % c, None
            eff[c][g] = next(iter(seen[c]))
    return eff, None, S


def or_only(pf, loop, field):
    """Every write of the loop body can only set bits (new value = old | something)."""
    ws = data_writes(pf, field, loop["b"])
    probe = BitEval(field, pf.subst)
    cells = sorted({probe.cell(strip(s.expr[2])) for s in ws})
    for vals in itertools.product((0, 1), repeat=2 * len(cells)):
        init = [(vals[2 * i], vals[2 * i + 1]) for i in range(len(cells))]
        try:
            finals = run_body(pf, loop, field, cells, init)
        except Unknown:
            return None
        for st in finals:
            for i, c in enumerate(cells):
                w = st.mem[c]
                if (w[1] | init[i][0], w[2] | init[i][1]) != (w[1], w[2]):
                    return False
    return True


def false_exit_tests(ctx, pf, field, oid, what):
    """For each `return false` of a prepared contains(): the union of (word, shift) whose bit is known clear there."""
    leaves = cond_leaves(pf.fn, pf.subst)
    out = []
    for e in exits(pf.fn, pf.P, pf.subst):
        if e.kind != "ret" or is_true_ret(e):
            continue
        if not is_false_ret(e):
            out.append((e, None))
            continue
        clear = set()
        for a in F.atoms(e.formula):
            if a in leaves and F.implies(e.formula, F.mk_not(F.atom(a))):
                bt = bit_tests(leaves[a], field, pf.subst)
                if bt:
                    clear |= {(w, bt[1]) for w in bt[0]}
        out.append((e, clear))
    return out


def true_exits_complete(pf, loop, extra_atoms=()):
    """Every `return true` happens after the complete loop (or under one of extra_atoms)."""
    bad = []
    done = F.atom("done(loop@%s)" % loop.get("l"))
    for e in exits(pf.fn, pf.P, pf.subst):
        if e.kind == "ret" and not is_false_ret(e):
            if not is_true_ret(e) or not F.implies(e.formula, F.mk_or([done] + [F.atom(a) for a in extra_atoms])):
                bad.append((e.line, F.fshow(e.formula)[:200]))
    return bad


def compare_filter(ctx, P, oid, cls, field, gen_field=None):
    """Common part for CBloomFilter / CRollingBloomFilter.  Returns (prepared insert, prepared contains, insert loop, contains loop, effects, S)."""
    ins0, con0 = ctx.used(span_overload(P, cls + "::insert")), ctx.used(span_overload(P, cls + "::contains"))
    ins, con = Prepared(ins0, P), Prepared(con0, P)
    li, lc = hash_loop(ins, cls + "::insert"), hash_loop(con, cls + "::contains")
    for pf, l in ((ins, li), (con, lc)):
        init = l.get("init")
        if isinstance(init, dict) and init.get("n"):
            pf.rename_locals({init["n"]: "$i"})
    hi, hc = loop_header(li), loop_header(lc)
    if hi is None or hc is None:
        raise AnalysisBroken("C51: %s: the hash-function loop is not a counting loop (unknown idiom)" % cls)
    ctx.ob("%s/loop" % oid, "SYMMETRY", "%s::insert and ::contains iterate the same hash-function index range (same start, bound and step)" % cls,
           hi == hc, con0.where, {"insert": hi, "contains": hc})
    ei, ec = body_entry(ins, li), body_entry(con, lc)
    ctx.ob("%s/entry" % oid, "SYMMETRY", "an iteration of the hash-function loop starts under the same condition in %s::insert and ::contains (same treatment of the "
           "empty filter, nothing else skips the loop on one side only)" % cls, F.equivalent(ei, ec), con0.where, {"insert": F.fshow(ei), "contains": F.fshow(ec)})
    ws = data_writes(ins, field, li["b"])
    uncond = [s.line for s in ws if not F.equivalent(reach(s, ins.subst), ei)]
    ctx.ob("%s/insert-unconditional" % oid, "MPT", "every iteration of %s::insert's loop performs the bit write(s) (no branch inside the loop skips them) and the loop "
           "has no break" % cls, bool(ws) and not uncond and not has_break(li["b"]), ins0.where, {"conditional_writes": uncond})
    gens = (1, 2, 3) if gen_field else (None,)
    eff, why, S = write_effects(ins, li, field, gen_field, gens)
    if eff is None and why and why.startswith("unknown idiom"):
        raise AnalysisBroken("C51: %s::insert: %s" % (cls, why))
    ctx.ob("%s/write-effect" % oid, "VALUE-SHAPE", "each write in %s::insert's loop changes only the addressed bit of its word (abstract evaluation over the addressed and "
           "any other bit position)" % cls, eff is not None, ins0.where, why)
    # contains side
    fe = false_exit_tests(ctx, con, field, oid, cls)
    want = {(c, S) for c in (eff or {})}
    okf = bool(fe) and eff is not None
    det = []
    for e, clear in fe:
        good = clear is not None and want <= clear
        okf = okf and good
        det.append({"line": e.line, "known_clear": sorted(clear) if clear is not None else "not a plain `return false`", "ok": good})
    ctx.ob("%s/address" % oid, "SYMMETRY", "%s::contains answers false only where the bit at the position %s::insert writes (same hash term, same word index, same "
           "bit position; helpers inlined, locals expanded) is clear in every word insert writes" % (cls, cls), okf, con0.where,
           {"insert_writes": sorted(want), "contains_false_exits": det})
    return ins, con, li, lc, eff, S


def bloom(ctx, P):
    cls, field = "CBloomFilter", "CBloomFilter::vData"
    ins, con, li, lc, eff, S = compare_filter(ctx, P, "bloom", cls, field)
    ins0, con0 = ins.orig, con.orig
    ro = or_only(ins, li, field)
    ctx.ob("bloom/or-only", "VALUE-SHAPE", "CBloomFilter::insert only sets bits (the write ORs the mask in: bits set for earlier elements survive) and sets the addressed one",
           ro is True and eff is not None and all(v.get(None) == 1 for v in eff.values()), ins0.where, {"effects": eff})
    bad = true_exits_complete(con, lc, ("vData.empty()",))
    ctx.ob("bloom/true-after-loop", "LOOP", "CBloomFilter::contains answers true only for the empty filter or after all hash functions were examined (no early true, no break)",
           not bad and not has_break(lc["b"]), con0.where, {"early": bad})
    # index range: byte index H >> K1 with H = X % (vData.size() * 2^K3), bit position H & (2^K2 - 1), element width 8
    ws = data_writes(ins, field, li["b"])
    det = {}
    ok = len(ws) >= 1 and S is not None
    for s in ws:
        idx = strip_all(ins.x(strip(s.expr[2])[2]))
        b = {}
        if not match(["b", ">>", V("h"), ["int", V("k1")]], idx, b):
            ok = False
            det["byte_index"] = show(idx)[:120]
            continue
        h = b["h"]
        hk = F.key(h)
        m = {}
        if not match(["b", "%", ANY, V("m")], h, m):
            raise AnalysisBroken("C51: CBloomFilter: the hash index is not reduced by `%` (unknown idiom): " + show(h)[:120])
        mod = m["m"]
        k3 = None
        for a, c in ((mod[2], mod[3]), (mod[3], mod[2])) if is_expr(mod) and mod[0] == "b" and mod[1] == "*" and len(mod) == 4 else ():
            if match(["mcall", "std::vector::size", [".", ["this"], field]], a) and match(["int", ANY], c) and _pow2(c[1]):
                k3 = c[1].bit_length() - 1
        if is_expr(mod) and mod[0] == "b" and mod[1] == "<<" and match(["mcall", "std::vector::size", [".", ["this"], field]], mod[2]) and match(["int", ANY], mod[3]):
            k3 = mod[3][1]
        k2 = None
        for pat in (["b", "&", ["int", V("m2")], V("h2")], ["b", "&", V("h2"), ["int", V("m2")]]):
            b2 = {}
            sx = [x for _, e in all_exprs(li["b"]) for x in subexprs(e) if x[0] == "b" and x[1] == "<<"]
            for x in sx:
                amt = strip_all(ins.x(x[3]))
                if F.key(amt) == S and match(pat, amt, b2) and F.key(b2["h2"]) == hk and _pow2(b2["m2"] + 1):
                    k2 = (b2["m2"] + 1).bit_length() - 1
        det.update({"byte_shift": b["k1"], "modulus_factor_log2": k3, "bit_mask_log2": k2})
        ok = ok and k3 is not None and k2 is not None and b["k1"] >= k3 and k2 <= 3
    elem = _ty(P.field("CBloomFilter", "vData").get("ty"))
    ctx.ob("bloom/in-range", "VALUE-SHAPE", "the word index is the hash index shifted right by at least the log2 of the factor in Hash's modulus `vData.size() * 8` (index inside "
           "the vector) and the bit position is the hash index masked to at most 3 bits (inside the 8-bit element)", ok and "unsigned char" in elem, ins0.where,
           dict(det, element=elem))
    # the other overloads forward
    forwarders(ctx, P)


def forwarders(ctx, P):
    fi = [f for f in P.fns("CBloomFilter::insert") if not (len(f.params) == 1 and "span" in f.params[0]["ty"])]
    fc = [f for f in P.fns("CBloomFilter::contains") if not (len(f.params) == 1 and "span" in f.params[0]["ty"])]

    def canon(f, name):
        pf = Prepared(f, P)
        items = [x for x in pf.fn.body.get("s", []) if isinstance(x, dict)]
        if not items:
            return None
        names, ren = alpha(items)
        last = items[-1]
        call = last.get("e") if last.get("k") == "expr" else last.get("v") if last.get("k") == "ret" else None
        if not (is_expr(call) and call[0] == "mcall" and call[1] == name and call[2] == ["this"] and len(call) == 4):
            return None
        pre = []
        for st in items[:-1]:
            if st.get("k") == "decl":
                pre.append(("decl", _ty(st.get("ty")), F.key(ren(st["i"])) if is_expr(st.get("i")) else None))
            elif st.get("k") == "expr":
                pre.append(("expr", F.key(ren(st["e"]))))
            else:
                return None
        return pre, F.key(ren(call[3]))
    ti = {_ty(f.params[0]["ty"]) if f.params else "": f for f in fi}
    tc = {_ty(f.params[0]["ty"]) if f.params else "": f for f in fc}
    ctx.ob("bloom/overloads", "SYMMETRY", "CBloomFilter::insert and ::contains have overloads for the same key types", sorted(ti) == sorted(tc) and len(ti) == len(fi) and len(tc) == len(fc),
           None, {"insert": sorted(ti), "contains": sorted(tc)})
    n = 0
    for t in sorted(set(ti) & set(tc)):
        a, b = canon(ctx.used(ti[t]), "CBloomFilter::insert"), canon(ctx.used(tc[t]), "CBloomFilter::contains")
        n += 1
        ctx.ob("bloom/forward:%s" % t, "SYMMETRY", "the %s overloads of CBloomFilter::insert and ::contains derive the key bytes by the same statements and forward them to the "
               "byte-span overload" % t, a is not None and a == b, tc[t].where, {"insert": a, "contains": b})
    return n


# ======================================================================================================================
# (2) CRollingBloomFilter

GEN = "CRollingBloomFilter::nGeneration"
RDATA = "CRollingBloomFilter::data"


def gen_writes(f, P):
    return sites(f, lambda e: (e[0] == "b" and e[1] in ASSIGN_OPS and match([".", ["this"], GEN], strip(e[2]))) or
                 (e[0] == "u" and e[1] in ("++", "--", "post++", "post--") and match([".", ["this"], GEN], strip(e[2]))), P)


def rolling(ctx, P):
    cls = "CRollingBloomFilter"
    ins, con, li, lc, eff, S = compare_filter(ctx, P, "rolling", cls, RDATA, GEN)
    ins0, con0 = ins.orig, con.orig
    bad = true_exits_complete(con, lc)
    ctx.ob("rolling/true-after-loop", "LOOP", "CRollingBloomFilter::contains answers true only after all hash functions were examined (no early true, no break)",
           not bad and not has_break(lc["b"]), con0.where, {"early": bad})
    # the two words of a position and the code of a generation
    enc = None
    pair_ok = False
    det = {}
    if eff is not None:
        ws = data_writes(ins, RDATA, li["b"])
        idx = {}
        for s in ws:
            e = strip_all(ins.x(strip(s.expr[2])[2]))
            idx[F.key(e)] = e
        ev_, od_ = [k for k, e in idx.items() if parity(e, ()) == "even"], [k for k, e in idx.items() if parity(e, ()) == "odd"]
        det = {"even_words": ev_, "odd_words": od_}
        if len(idx) == 2 and len(ev_) == 1 and len(od_) == 1:
            a, b = idx[ev_[0]], idx[od_[0]]
            xa = [x for x in a[2:4] if not match(["int", ANY], x)]
            xb = [x for x in b[2:4] if not match(["int", 1], x)]
            pair_ok = len(xa) == 1 and len(xb) == 1 and F.key(xa[0]) == F.key(xb[0]) and any(match(["int", ANY], x) and x[1] & 0xFFFFFFFF == 0xFFFFFFFE for x in a[2:4])
            enc = {g: (eff[ev_[0]][g], eff[od_[0]][g]) for g in (1, 2, 3)}
    ctx.ob("rolling/word-pair", "VALUE-SHAPE", "CRollingBloomFilter::insert writes the two words `pos & ~1` and `pos | 1` of one position (an aligned even/odd pair)", pair_ok, ins0.where, det)
    okc = enc is not None and all(v != (0, 0) for v in enc.values()) and len(set(enc.values())) == 3
    ctx.ob("rolling/code", "VALUE-SHAPE", "for every generation number 1, 2, 3 the two bits insert stores are not both 0 (so contains, which tests the OR of the two words, sees "
           "the entry) and the three codes differ", okc, ins0.where, {"code(generation) = (even word bit, odd word bit)": enc})
    # roll-over: statements of insert before the hash loop
    top = [x for x in ins.fn.body.get("s", []) if isinstance(x, dict)]
    if not any(x is li for x in top):
        raise AnalysisBroken("C51: CRollingBloomFilter::insert: the hash loop is not a top-level statement (unknown idiom)")
    pos_ = [i for i, x in enumerate(top) if x is li][0]
    prefix, suffix = top[:pos_], top[pos_ + 1:]
    late = [st.get("l") for x in suffix for st, e in all_exprs(x) for y in subexprs(e)
            if match([".", ["this"], GEN], y) or match([".", ["this"], RDATA], y)]
    ctx.ob("rolling/order", "ORDER", "in CRollingBloomFilter::insert the generation roll-over and its wipe come before the loop that writes the new entry; nothing touches the "
           "generation number or the words afterwards", not late, ins0.where, {"late": late})
    pre_fn = sub_function(ins.fn, {"k": "seq", "l": ins.fn.body.get("l"), "s": prefix}, "rollover")
    pre = Prepared.__new__(Prepared)
    pre.fn, pre.P, pre.orig, pre._subst = pre_fn, P, ins0, None
    wsites = data_writes(pre, RDATA)
    even_locals = set()
    for l in loops_of(pre_fn):
        h = loop_header(l)
        if h is not None and re.fullmatch(r"\d+", h[0]) and int(h[0]) % 2 == 0 and h[2] % 2 == 0:
            even_locals.add(l["init"]["n"])
    probe = BitEval(RDATA, pre.subst)
    cells = {}
    for s in wsites:
        tgt = strip(s.expr[2])
        cells[probe.cell(tgt)] = parity(strip_all(tgt[2]), even_locals)
    evc, odc = [c for c, p_ in cells.items() if p_ == "even"], [c for c, p_ in cells.items() if p_ == "odd"]
    aligned = (not cells) or (len(cells) == 2 and len(evc) == 1 and len(odc) == 1)
    if aligned and cells:
        # the odd cell is the even one + 1
        a = [strip_all(strip(s.expr[2])[2]) for s in wsites]
        e_ = [x for x in a if parity(x, even_locals) == "even"][0]
        aligned = any(F.key(x) == F.key(["b", "+", e_, ["int", 1]]) for x in a)
    ctx.ob("rolling/wipe-pairs", "VALUE-SHAPE", "the roll-over wipe of CRollingBloomFilter::insert visits aligned word pairs (even index from 0 in steps of 2, and index + 1): the same "
           "pairs the entries are written to", aligned, ins0.where, {"cells": cells})
    gw = gen_writes(pre_fn, P)
    ctx.floor("CRollingBloomFilter::insert generation updates", len(gw), 1)
    problems = []
    if aligned and enc is not None:
        for g0 in (1, 2, 3):
            ev = BitEval(RDATA, pre.subst, GEN, g0)
            ev.lenient = True
            try:
                gens_after = sorted({st.gen for st in ev.run(copy.deepcopy(prefix))})
            except Unknown as u:
                raise AnalysisBroken("C51: CRollingBloomFilter::insert roll-over: unknown idiom: %s" % u)
            if any(g not in (1, 2, 3) for g in gens_after):
                problems.extend("generation %d becomes %d" % (g0, g) for g in gens_after if g not in (1, 2, 3))
                continue
            for d1, d2 in itertools.product((0, 1), repeat=2):
                ev = BitEval(RDATA, pre.subst, GEN, g0)
                if cells:
                    ev.mem[evc[0]] = ("w", d1, d1)
                    ev.mem[odc[0]] = ("w", d2, d2)
                try:
                    finals = ev.run(prefix)
                except Unknown as u:
                    raise AnalysisBroken("C51: CRollingBloomFilter::insert roll-over: unknown idiom: %s" % u)
                for st in finals:
                    g1 = st.gen
                    if g1 not in (1, 2, 3):
                        problems.append("generation %d becomes %d" % (g0, g1))
                        continue
                    if not cells:
                        continue
                    n = (st.mem[evc[0]], st.mem[odc[0]])
                    if any(w[1] != w[2] for w in n):
                        raise AnalysisBroken("C51: roll-over wipe is not bit-parallel (unknown idiom)")
                    n = (n[0][1], n[1][1])
                    if n == (d1, d2):
                        continue
                    owner = [g for g, c in enc.items() if c == (d1, d2)]
                    # only entries of the generation now being reused (and not the one just filled) may change
                    if owner and (owner[0] != g1 or g1 == g0):
                        problems.append("rolling from generation %d to %d changes an entry of generation %d: bits %s -> %s" % (g0, g1, owner[0], (d1, d2), n))
    problems = sorted(set(problems))
    ctx.ob("rolling/generation", "TYPESTATE", "by evaluation of the roll-over statements for generation 1, 2 and 3: the generation number stays in {1,2,3} (never 0: an entry "
           "written with code 00 would be invisible), and the wipe changes only entries carrying the code of the generation that is about to be reused, never those of "
           "the generation just filled or the one before", aligned and enc is not None and not problems, ins0.where, {"problems": problems[:8]})
    # who writes the generation number
    writers = {}
    for q, fl in P.funcs.items():
        if q.startswith(cls + "::"):
            for f in fl:
                if f.body is not None and gen_writes(f, P):
                    writers[q] = f
    ctx.ob("rolling/who-writes", "WHO-MAY-WRITE", "the generation number is written only by CRollingBloomFilter::insert and ::reset", sorted(writers) == [cls + "::insert", cls + "::reset"],
           None, {"writers": sorted(writers)})
    rs = writers.get(cls + "::reset")
    if rs is not None:
        ctx.used(rs)
        ws = gen_writes(rs, P)
        ok = bool(ws) and all(s.expr[0] == "b" and s.expr[1] == "=" and match(["int", ANY], strip(s.expr[3])) and strip(s.expr[3])[1] in (1, 2, 3) and
                              not [g for g in s.guards if g.kind in ("if", "sc", "loop", "case")] for s in ws)
        ctx.ob("rolling/reset", "VALUE-SHAPE", "CRollingBloomFilter::reset sets the generation number to a constant in {1,2,3}", ok, rs.where, [show(s.expr) for s in ws])
    ctors = P.fns(cls + "::" + cls)
    ctx.floor("CRollingBloomFilter constructors", len(ctors), 1)
    for c in ctors:
        ctx.used(c)
        rc = sites(c, lambda e: e[0] == "mcall" and e[1] == cls + "::reset" and e[2] == ["this"], P)
        ok = len(rc) >= 1 and any(not [g for g in s.guards if g.kind in ("if", "sc", "loop", "case")] for s in rc)
        ctx.ob("rolling/ctor-resets@L%s" % c.line, "MPT", "the CRollingBloomFilter constructor calls reset() unconditionally (the generation number has no other initialiser)", ok, c.where)


# ======================================================================================================================
# (3) GCSFilter / BlockFilter

GKEEP = ("GCSFilter::", "BlockFilter::", "BasicFilterElements", "GolombRice", "ReadCompactSize", "WriteCompactSize", "prevector::", "std::")


def plain(site):
    """The site is not under a branch, short-circuit, case or loop of its own function."""
    return not [g for g in site.guards if g.kind in ("if", "sc", "case", "loop")] and not site.loops


def field_writes(pf, field):
    return sites(pf.fn, lambda e: e[0] == "b" and e[1] in ASSIGN_OPS and match([".", ["this"], field], strip(e[2])), pf.P)


def gcs(ctx, P):
    h2r = Prepared(ctx.used(P.fn("GCSFilter::HashToRange")), P, GKEEP)
    bhs = Prepared(ctx.used(P.fn("GCSFilter::BuildHashedSet")), P, GKEEP)
    ctors = P.fns("GCSFilter::GCSFilter")
    encs = [f for f in ctors if len(f.params) == 2 and "ElementSet" in f.params[1]["ty"]]
    decs = [f for f in ctors if len(f.params) >= 2 and "vector" in f.params[1]["ty"]]
    if len(encs) != 1 or len(decs) != 1:
        raise AnalysisBroken("C51: GCSFilter: encoding / decoding constructor not found (%d / %d)" % (len(encs), len(decs)))
    enc, dec = Prepared(ctx.used(encs[0]), P, GKEEP), Prepared(ctx.used(decs[0]), P, GKEEP)
    mi = Prepared(ctx.used(P.fn("GCSFilter::MatchInternal")), P, GKEEP)
    m1 = Prepared(ctx.used(P.fn("GCSFilter::Match")), P, GKEEP)
    ma = Prepared(ctx.used(P.fn("GCSFilter::MatchAny")), P, GKEEP)

    # -- the mapping element -> [0, F)
    ex = [e for e in exits(h2r.fn, P, h2r.subst) if e.kind == "ret"]
    bad, seen = [], set()

    def deps(e):
        if not is_expr(e):
            return
        if e[0] == "." and len(e) == 3 and e[1] == ["this"]:
            if e[2] in ("GCSFilter::m_params", "GCSFilter::m_F"):
                seen.add(e[2])
            else:
                bad.append(e[2])
            return
        if e[0] in ("this", "global", "local"):
            bad.append(show(e))
            return
        if e[0] == "param":
            seen.add(e[1])
        for x in e[1:]:
            deps(x)
    for e in ex:
        deps(h2r.x(e.value))
    calls = sorted({callee(x).rsplit("::", 1)[-1] for e in ex for x in subexprs(h2r.x(e.value)) if x[0] in ("call", "mcall", "ctor") and callee(x)})
    ok = len(ex) == 1 and not bad and seen == {"GCSFilter::m_params", "GCSFilter::m_F", "#0"}
    ctx.ob("gcs/hash-to-range", "PROVENANCE", "GCSFilter::HashToRange computes its result from the element, m_params and m_F only (no other state: the encoder and a later "
           "query on the same filter object map an element to the same number)", ok, h2r.orig.where, {"reads": sorted(seen), "other": bad, "calls": calls})
    who = sorted(q for q, fl in P.funcs.items() if q.startswith("GCSFilter::") for f in fl if f.body is not None and sites(f, call_to("GCSFilter::HashToRange"), P))
    ctx.ob("gcs/hash-users", "WHO-MAY-CALL", "elements are hashed only through HashToRange, called by BuildHashedSet (sets) and Match (single element)",
           who == ["GCSFilter::BuildHashedSet", "GCSFilter::Match"], None, {"callers": who})
    hashers = sorted(q for q, fl in P.funcs.items() if q.startswith("GCSFilter::") and q != "GCSFilter::HashToRange" for f in fl if f.body is not None and
                     sites(f, lambda e: callee(e) is not None and ("CSipHasher" in str(callee(e)) or "FastRange" in str(callee(e))), P))
    ctx.ob("gcs/no-other-hash", "WHO-MAY-CALL", "no other GCSFilter member hashes or range-reduces by itself", not hashers, None, {"others": hashers})

    # -- BuildHashedSet: every element hashed, result sorted
    fe = [l for l in loops_of(bhs.fn)]
    rets = [e for e in exits(bhs.fn, P, {}) if e.kind == "ret"]
    vec = rets[0].value[1] if len(rets) == 1 and is_expr(rets[0].value) and rets[0].value[0] == "local" else None
    ok = vec is not None and len(fe) == 1 and fe[0].get("k") == "foreach" and fe[0].get("range") == ["param", "#0"] and not has_break(fe[0]["b"])
    if ok:
        var = fe[0]["var"].get("n")
        pb = sites(bhs.fn, lambda e: e[0] == "mcall" and e[1].rsplit("::", 1)[-1] in ("push_back", "emplace_back") and e[2] == ["local", vec], P)
        ok = len(pb) == 1 and pb[0].loops == [fe[0]] and not [g for g in pb[0].guards if g.kind in ("if", "sc", "case")] and F.equivalent(reach(pb[0], {}), F.T) and \
            call_args(pb[0].expr) == [["mcall", "GCSFilter::HashToRange", ["this"], ["local", var]]]
    ctx.ob("gcs/hashed-set", "LOOP", "BuildHashedSet pushes HashToRange(element) for every element of its argument (complete loop, no skip) into the vector it returns",
           bool(ok), bhs.orig.where)
    so = sites(bhs.fn, call_to("std::sort"), P) if vec else []
    ok = len(so) == 1 and plain(so[0]) and [F.key(a) for a in call_args(so[0].expr)[:2]] == ["%s.begin()" % vec, "%s.end()" % vec] and len(call_args(so[0].expr)) == 2 and \
        bool(fe) and fe[0].get("l") < so[0].line < rets[0].line
    ctx.ob("gcs/sorted", "ORDER", "BuildHashedSet sorts the whole vector (default order) after filling it and before returning it: the delta encoder and the merge walk of "
           "MatchInternal both rely on ascending order", ok, bhs.orig.where)

    # -- users of the mapping
    el = [l for l in loops_of(enc.fn) if l.get("k") == "foreach"]
    ok = len(el) == 1 and F.key(el[0].get("range")) == "GCSFilter::BuildHashedSet(#1)"
    ctx.ob("gcs/encoder-set", "SYMMETRY", "the encoding constructor iterates BuildHashedSet(elements) of its element set", ok, enc.orig.where, [F.key(l.get("range")) for l in el])
    r = [e for e in exits(ma.fn, P, ma.subst) if e.kind == "ret"]
    ok = len(r) == 1 and K(r[0].value, ma.subst) == "GCSFilter::MatchInternal(GCSFilter::BuildHashedSet(#0).data(), GCSFilter::BuildHashedSet(#0).size())"
    ctx.ob("gcs/matchany-set", "SYMMETRY", "MatchAny queries MatchInternal with BuildHashedSet(elements) - the function the encoder uses - and its full length", ok, ma.orig.where,
           [K(e.value, ma.subst) for e in r])
    r = [e for e in exits(m1.fn, P, m1.subst) if e.kind == "ret"]
    ok = False
    if len(r) == 1 and is_expr(r[0].value) and r[0].value[0] == "mcall" and r[0].value[1] == "GCSFilter::MatchInternal" and len(call_args(r[0].value)) == 2:
        a0, a1 = [strip(x) for x in call_args(r[0].value)]
        q = a0[2][1] if match(["u", "&", ["local", ANY]], a0) else None
        decl = [st for st in stmts(m1.fn.body) if st.get("k") == "decl" and st.get("n") == q]
        wr = sites(m1.fn, lambda e: ((e[0] == "b" and e[1] in ASSIGN_OPS) or (e[0] == "u" and e[1] in ("++", "--", "post++", "post--"))) and strip(e[2]) == ["local", q], P)
        ok = q is not None and len(decl) == 1 and is_expr(decl[0].get("i")) and F.key(decl[0]["i"]) == "GCSFilter::HashToRange(#0)" and not wr and match(["int", 1], m1.x(a1))
    ctx.ob("gcs/match-hash", "SYMMETRY", "Match queries MatchInternal with the single value HashToRange(element)", ok, m1.orig.where, [K(e.value, m1.subst) for e in r])

    # -- N and F
    vals = {}
    for name, pf in (("encoder", enc), ("decoder", dec)):
        wf, wn = field_writes(pf, "GCSFilter::m_F"), field_writes(pf, "GCSFilter::m_N")
        vals[name] = dict(F=[F.key(s.expr[3]) for s in wf], N=[K(s.expr[3], pf.subst) for s in wn], plain=all(plain(s) for s in wf + wn),
                          order=bool(wf) and bool(wn) and max(s.line for s in wn) < min(s.line for s in wf))
    ok = all(len(v["F"]) == 1 and len(v["N"]) == 1 and v["plain"] and v["order"] for v in vals.values()) and vals["encoder"]["F"] == vals["decoder"]["F"] and \
        "m_N" in vals["encoder"]["F"][0] and "m_params.m_M" in vals["encoder"]["F"][0]
    ctx.ob("gcs/F", "SYMMETRY", "the encoding and the decoding constructor compute the hash range m_F by the same expression over m_N and m_params.m_M, after setting m_N",
           ok, dec.orig.where, vals)
    ok = bool(vals["encoder"]["N"]) and bool(vals["decoder"]["N"]) and re.fullmatch(r"(\(uint32_t\))?#1\.size\(\)", vals["encoder"]["N"][0]) is not None and \
        re.fullmatch(r"(\(uint32_t\))?ReadCompactSize\(\w+(, true)?\)", vals["decoder"]["N"][0]) is not None
    ctx.ob("gcs/N", "SYMMETRY", "m_N is the number of elements on the encoding side and the count read from the head of the encoding on the decoding side", ok, dec.orig.where,
           {k: v["N"] for k, v in vals.items()})

    # -- stream items: count first, then the deltas, same P
    seqs = {}
    pkeys = {}
    for name, pf, cnt, gr in (("encoder", enc, "WriteCompactSize", "GolombRiceEncode"), ("decoder", dec, "ReadCompactSize", "GolombRiceDecode"),
                              ("MatchInternal", mi, "ReadCompactSize", "GolombRiceDecode")):
        cs, gs = sites(pf.fn, call_to(cnt), P), sites(pf.fn, call_to(gr), P)
        seqs[name] = dict(count=len(cs), coded=len(gs), count_first=bool(cs) and bool(gs) and max(s.line for s in cs) < min(s.line for s in gs),
                          count_plain=all(plain(s) for s in cs), in_loop=all(len(s.loops) == 1 for s in gs),
                          uncond=all(not [g for g in s.guards if g.kind in ("if", "sc", "case")] for s in gs))
        pkeys[name] = sorted({K(call_args(s.expr)[1], pf.subst) for s in gs if len(call_args(s.expr)) >= 2})
    ok = all(v["count"] == 1 and v["coded"] == 1 and v["count_first"] and v["count_plain"] and v["in_loop"] and v["uncond"] for v in seqs.values())
    ctx.ob("gcs/stream-order", "SYMMETRY", "encoder, decoding constructor and MatchInternal each write/read the element count once, first, and then one Golomb-Rice item per loop "
           "iteration", ok, mi.orig.where, seqs)
    w = enc and sites(enc.fn, call_to("WriteCompactSize"), P)
    ok = len(w) == 1 and K(call_args(w[0].expr)[1], enc.subst) in ("m_N", "#1.size()")
    ctx.ob("gcs/count-written", "SYMMETRY", "the count the encoder writes is m_N (the number of elements)", ok, enc.orig.where)
    allp = sorted({k for v in pkeys.values() for k in v})
    ctx.ob("gcs/golomb-P", "SYMMETRY", "GolombRiceEncode in the encoder and GolombRiceDecode in the decoding constructor and in MatchInternal get the same parameter m_params.m_P",
           len(allp) == 1 and all(len(v) == 1 for v in pkeys.values()) and allp[0] == "m_params.m_P", mi.orig.where, pkeys)

    # -- deltas
    es = sites(enc.fn, call_to("GolombRiceEncode"), P)
    ok, det = False, {}
    if len(es) == 1 and len(el) == 1 and len(call_args(es[0].expr)) == 3:
        var = el[0]["var"].get("n")
        body = sub_function(enc.fn, el[0]["b"], "encode-step")
        bsub = local_defs(body, P, allow_overwritten=True)
        d = strip_all(F.expand(call_args(es[0].expr)[2], bsub))
        b = {}
        if match(["b", "-", ["local", var], ["local", V("last")]], d, b):
            last = b["last"]
            decl = [st for st in stmts(enc.fn.body) if st.get("k") == "decl" and st.get("n") == last]
            asg = sites(enc.fn, lambda e: (e[0] == "b" and e[1] in ASSIGN_OPS and strip(e[2]) == ["local", last]) or
                        (e[0] == "u" and e[1] in ("++", "--", "post++", "post--") and strip(e[2]) == ["local", last]), P)
            ok = len(decl) == 1 and match(["int", 0], strip(decl[0].get("i"))) and decl[0].get("l") < el[0].get("l") and len(asg) == 1 and asg[0].expr[1] == "=" and \
                strip(asg[0].expr[3]) == ["local", var] and asg[0].loops == [el[0]] and not [g for g in asg[0].guards if g.kind in ("if", "sc", "case")] and \
                asg[0].line > es[0].line and not has_break(el[0]["b"]) and not [g for g in es[0].guards if g.kind in ("if", "sc", "case")]
        det = {"delta": show(d)}
    ctx.ob("gcs/delta-encode", "VALUE-SHAPE", "the encoder emits, for every value of the sorted set in turn, value - previous (previous starts at 0 and becomes the value after it "
           "was encoded)", ok, enc.orig.where, det)
    ds = sites(mi.fn, call_to("GolombRiceDecode"), P)
    ok, det = False, {}
    dl = ds[0].loops[0] if len(ds) == 1 and len(ds[0].loops) == 1 else None
    acc = None
    if dl is not None:
        body = sub_function(mi.fn, dl["b"], "decode-step")
        bsub = local_defs(body, P, allow_overwritten=True)
        adds = sites(mi.fn, lambda e: e[0] == "b" and e[1] in ASSIGN_OPS and is_expr(strip(e[2])) and strip(e[2])[0] == "local" and
                     any(is_call_to("GolombRiceDecode", x) for x in subexprs(F.expand(e[3], bsub))), P)
        if len(adds) == 1:
            acc = strip(adds[0].expr[2])[1]
            rhs = strip_all(F.expand(adds[0].expr[3], bsub))
            shape = (adds[0].expr[1] == "+=" and is_call_to("GolombRiceDecode", rhs)) or \
                (adds[0].expr[1] == "=" and rhs[0] == "b" and rhs[1] == "+" and sorted([rhs[2] == ["local", acc], is_call_to("GolombRiceDecode", rhs[3]) or is_call_to("GolombRiceDecode", rhs[2])]) == [True, True]
                 and (rhs[2] == ["local", acc] or rhs[3] == ["local", acc]))
            decl = [st for st in stmts(mi.fn.body) if st.get("k") == "decl" and st.get("n") == acc]
            other = sites(mi.fn, lambda e: ((e[0] == "b" and e[1] in ASSIGN_OPS) or (e[0] == "u" and e[1] in ("++", "--", "post++", "post--"))) and strip(e[2]) == ["local", acc], P)
            first = [x for x in dl["b"].get("s", []) if isinstance(x, dict)]
            lead = [x for x in first if x.get("l") <= adds[0].line]
            ok = bool(shape) and len(decl) == 1 and match(["int", 0], strip(decl[0].get("i"))) and decl[0].get("l") < dl.get("l") and len(other) == 1 and \
                adds[0].loops == [dl] and not [g for g in adds[0].guards if g.kind in ("if", "sc", "case")] and \
                all(x.get("k") in ("decl", "expr") for x in lead) and F.equivalent(reach(adds[0], {}), reach(ds[0], {}))
            det = {"accumulator": acc, "update": show(adds[0].expr)}
    ctx.ob("gcs/delta-decode", "VALUE-SHAPE", "MatchInternal adds every decoded delta to one accumulator that starts at 0, first thing in each iteration (the inverse of the encoder's "
           "value - previous)", ok, mi.orig.where, det)
    if acc is not None:
        tr = [e for e in exits(mi.fn, P, {}) if e.kind == "ret" and not is_false_ret(e)]
        okt = bool(tr) and all(is_true_ret(e) and any(re.fullmatch(r"(#0\[\w+\] == %s|%s == #0\[\w+\])" % (acc, acc), a) and F.implies(e.formula, F.atom(a)) for a in F.atoms(e.formula))
                               for e in tr)
        ctx.ob("gcs/match-compares-accumulator", "LADDER", "MatchInternal answers true only where a query hash equals the accumulated value", okt, mi.orig.where,
               [F.fshow(e.formula)[:200] for e in tr])

    # -- number of deltas read
    for name, pf in (("decoder", dec), ("MatchInternal", mi)):
        gs = sites(pf.fn, call_to("GolombRiceDecode"), P)
        hd = loop_header(gs[0].loops[0]) if len(gs) == 1 and len(gs[0].loops) == 1 else None
        ctx.ob("gcs/count-read:%s" % name, "LOOP", "%s reads exactly m_N deltas (index 0 .. m_N-1, no break)" % name, hd == ("0", "$i < m_N", 1) and not has_break(gs[0].loops[0]["b"])
               if name == "decoder" else hd == ("0", "$i < m_N", 1), pf.orig.where, {"loop": hd})
    # -- flush
    mf = MustFlow(enc.fn, P, marks=[("flush", lambda e: e[0] == "mcall" and e[1] == "BitStreamWriter::Flush"), ("coded", call_to("GolombRiceEncode")),
                                    ("writer", lambda e: e[0] == "ctor" and e[1] == "BitStreamWriter")])
    mf.run()
    late = [(st.get("l"), sorted(state)) for state, st in mf.exits if st.get("k") in ("ret", "end") and "writer" in state and "flush" not in state]
    ctx.ob("gcs/flush", "MPT", "once the encoder has created the bit writer it returns only after BitStreamWriter::Flush (the last partial byte reaches the encoding)",
           not late and any("writer" in state for state, st in mf.exits), enc.orig.where, {"exits_without_flush": late})
    fl = sites(enc.fn, lambda e: e[0] == "mcall" and e[1] == "BitStreamWriter::Flush", P)
    ctx.ob("gcs/flush-after-loop", "ORDER", "the flush comes after the encoding loop", len(fl) >= 1 and len(el) == 1 and all(s.line > el[0].get("l") and not s.loops for s in fl), enc.orig.where)


def blockfilter(ctx, P):
    ctors = P.fns("BlockFilter::BlockFilter")
    n = 0
    for c in ctors:
        pf = Prepared(c, P, GKEEP)
        gc = sites(pf.fn, lambda e: e[0] == "ctor" and e[1] == "GCSFilter" and len(call_args(e)) >= 2, P)
        if not gc:
            continue
        ctx.used(c)
        n += 1
        for s in gc:
            a0 = strip(call_args(s.expr)[0])
            nm = a0[1] if is_expr(a0) and a0[0] == "local" else None
            fm = s.formula({})
            ok = nm is not None and F.implies(fm, F.atom("BlockFilter::BuildParams(%s)" % nm))
            decl = [st for st in stmts(pf.fn.body) if st.get("k") == "decl" and st.get("n") == nm]
            wr = sites(pf.fn, lambda e: e[0] == "b" and e[1] in ASSIGN_OPS and is_expr(strip(e[2])) and contains(["local", nm], strip(e[2])), P) if nm else []
            ctx.ob("blockfilter/params@L%s" % c.line, "SYMMETRY", "this BlockFilter constructor passes GCSFilter the parameter block filled by BuildParams (which derives the SipHash key from "
                   "the block hash and sets P and M per filter type) and only if BuildParams succeeded - the same source on the encoding and the decoding side", ok and len(decl) == 1 and not wr,
                   c.where, {"guard": F.fshow(fm)[:200]})
    ctx.floor("BlockFilter constructors building a GCSFilter", n, 2)
    bp = ctx.used(P.fn("BlockFilter::BuildParams"))
    pw = sites(bp, lambda e: e[0] == "b" and e[1] in ASSIGN_OPS and is_expr(strip(e[2])) and strip(e[2])[0] == "." and str(strip(e[2])[2]).startswith("GCSFilter::Params::"), P)
    srcs = {}
    for s in pw:
        srcs.setdefault(strip(s.expr[2])[2].rsplit("::", 1)[-1], set()).add(F.key(s.expr[3]))
    reads_other = sorted({x[2] for s in pw for x in subexprs(s.expr[3]) if x[0] == "." and len(x) == 3 and x[1] == ["this"] and x[2] != "BlockFilter::m_block_hash"})
    ok = set(srcs) == {"m_siphash_k0", "m_siphash_k1", "m_P", "m_M"} and all(len(v) == 1 for v in srcs.values()) and not reads_other and \
        all("m_block_hash" in next(iter(srcs[k])) for k in ("m_siphash_k0", "m_siphash_k1")) and all(re.fullmatch(r"\d+", next(iter(srcs[k]))) for k in ("m_P", "m_M"))
    ctx.ob("blockfilter/build-params", "PROVENANCE", "BuildParams sets all four parameters, the SipHash key halves from m_block_hash only and P, M from constants (nothing depends "
           "on which constructor runs)", ok, bp.where, {k: sorted(v) for k, v in srcs.items()})
    # BasicFilterElements
    be = Prepared(ctx.used(P.fn("BasicFilterElements")), P, GKEEP)
    sub = be.subst
    rets = [e for e in exits(be.fn, P, {}) if e.kind in ("ret", "throw")]
    setname = rets[0].value[1] if len(rets) == 1 and rets[0].kind == "ret" and is_expr(rets[0].value) and rets[0].value[0] == "local" else None
    ctx.ob("elements/result", "LADDER", "BasicFilterElements has a single exit, returning the set it filled", setname is not None, be.orig.where)
    em = sites(be.fn, lambda e: e[0] == "mcall" and e[1].rsplit("::", 1)[-1] in ("emplace", "insert") and strip(e[2]) == ["local", setname], P) if setname else []
    found = {}
    outer = be.subst
    for s in em:
        sub = dict(outer)
        if s.loops:
            sub.update({k: v for k, v in naming(sub_function(be.fn, s.loops[-1]["b"], "iteration"), P).items() if not k.startswith("@")})
        a = [K(x, sub) for x in call_args(s.expr)]
        m = re.fullmatch(r"(.+)\.begin\(\)", a[0]) if len(a) == 2 else None
        scr = m.group(1) if m and a[1] == scr_end(m.group(1)) else None
        loops = [loop_range_key(l, sub) for l in s.loops]
        fm = reach(s, sub, [l.get("l") for l, k in zip(s.loops, loops) if l.get("k") == "for" and k.startswith("each(")])
        complete = all(not has_break(l["b"]) for l in s.loops)
        if scr is None:
            ctx.ob("elements/whole-script@L%s" % s.line, "VALUE-SHAPE", "the element inserted is a whole script (begin() .. end() of the same script)", False, s.where, {"args": a})
            continue
        kind = "output" if ".vout)" in scr and "#0.vtx" in scr else "spent" if "#1.vtxundo" in scr and ".vprevout)" in scr else None
        spec = {"output": "!EMPTY && !OPRET", "spent": "!EMPTY"}.get(kind)
        fb, mp, un = F.bind_atoms(fm, {"EMPTY": "%s.empty()" % scr, "OPRET": ["%s[0] == OP_RETURN" % scr, "%s[0] == 106" % scr]})
        okf = spec is not None and not un and F.equivalent(fb, F.parse(spec))
        want_loops = {"output": ["each(#0.vtx)", "each(each(#0.vtx).vout)"], "spent": ["each(#1.vtxundo)", "each(each(#1.vtxundo).vprevout)"]}.get(kind)
        found.setdefault(kind, []).append(s.line)
        ctx.ob("elements/%s@L%s" % (kind or "unknown", s.line), "LOOP", {"output": "every output script of every transaction of the block is inserted unless it is empty or starts with "
               "OP_RETURN (exactly that skip rule; complete loops)", "spent": "every script spent by the block (every prevout of every undo record) is inserted unless it is empty "
               "(complete loops)"}.get(kind, "an element source other than output scripts and spent scripts"), okf and loops == want_loops and complete, s.where,
               {"script": scr, "condition": F.fshow(fm), "loops": loops, "unbound": sorted(un)})
    ctx.ob("elements/sources", "LOOP", "BasicFilterElements has exactly one insertion for output scripts and one for spent scripts", {k: len(v) for k, v in found.items()} == {"output": 1, "spent": 1},
           be.orig.where, found)
    enc_ctor = [c for c in ctors if sites(c, call_to("BasicFilterElements"), P)]
    ok = len(enc_ctor) == 1
    if ok:
        pf = Prepared(enc_ctor[0], P, GKEEP)
        gc = sites(pf.fn, lambda e: e[0] == "ctor" and e[1] == "GCSFilter" and len(call_args(e)) == 2, P)
        ok = len(gc) == 1 and F.key(call_args(gc[0].expr)[1]) == "BasicFilterElements(#1, #2)"
    ctx.ob("elements/encoded", "PROVENANCE", "the block-building BlockFilter constructor encodes exactly BasicFilterElements(block, block_undo)", ok, enc_ctor[0].where if enc_ctor else None)


def scr_end(s):
    return "%s.end()" % s


# ======================================================================================================================
# (4) CPartialMerkleTree

PMT = "CPartialMerkleTree"
PKEEP = ("CPartialMerkleTree::", "std::", "Hash", "transaction_identifier::", "uint256", "base_blob")


def _post_inc_index(e, field):
    """e is <this.field>[counter++] (possibly converted): returns the counter expression."""
    for x in subexprs(e):
        if x[0] == "idx" and match([".", ["this"], field], x[1]) and is_expr(x[2]) and x[2][0] == "u" and x[2][1] == "post++":
            return x[2][2]
    return None


def pmt_events(pf, me, flagname):
    """Ordered traversal events of a tree walk: (kind, detail, site)."""
    def kind(e):
        if e[0] == "mcall" and e[1].rsplit("::", 1)[-1] in ("push_back", "emplace_back") and match([".", ["this"], PMT + "::vBits"], e[2]):
            return "BIT"
        if e[0] == "mcall" and e[1].rsplit("::", 1)[-1] in ("push_back", "emplace_back") and match([".", ["this"], PMT + "::vHash"], e[2]):
            return "HASH"
        if e[0] == "idx" and match([".", ["this"], PMT + "::vBits"], e[1]):
            return "BIT"
        if e[0] == "idx" and match([".", ["this"], PMT + "::vHash"], e[1]):
            return "HASH"
        if e[0] == "mcall" and e[1] == me and e[2] == ["this"]:
            return "REC"
        if e[0] == "mcall" and e[1].rsplit("::", 1)[-1] in ("push_back", "emplace_back") and is_expr(e[2]) and e[2][0] == "param":
            return "REPORT"
        return None
    return [(kind(s.expr), s) for s in sites(pf.fn, lambda e: kind(e) is not None, pf.P)]


def pmt(ctx, P):
    B = Prepared(ctx.used(P.fn(PMT + "::TraverseAndBuild")), P, PKEEP)
    E = Prepared(ctx.used(P.fn(PMT + "::TraverseAndExtract")), P, PKEEP)
    C = Prepared(ctx.used(P.fn(PMT + "::CalcHash")), P, PKEEP)
    # the flag local on each side
    bb = [s for s in sites(B.fn, lambda e: e[0] == "mcall" and e[1].rsplit("::", 1)[-1] in ("push_back", "emplace_back") and match([".", ["this"], PMT + "::vBits"], e[2]), P)]
    fb = strip(call_args(bb[0].expr)[0]) if len(bb) == 1 and len(call_args(bb[0].expr)) == 1 else None
    fe = [st for st in stmts(E.fn.body) if st.get("k") == "decl" and st.get("n") and is_expr(st.get("i")) and
          any(x[0] == "idx" and match([".", ["this"], PMT + "::vBits"], x[1]) for x in subexprs(st["i"]))]
    if not (is_expr(fb) and fb[0] == "local") or len(fe) != 1:
        raise AnalysisBroken("C51: CPartialMerkleTree: the parent-of-match flag local was not found (build: %s, extract: %d declarations) - unknown idiom" %
                             (show(fb) if is_expr(fb) else fb, len(fe)))
    B.rename_locals({fb[1]: "$flag"})
    E.rename_locals({fe[0]["n"]: "$flag"})
    counter_bits = _post_inc_index(fe[0]["i"], PMT + "::vBits")
    subs = {}
    for pf in (B, E, C):
        subs[id(pf)] = {k: v for k, v in pf.subst.items() if k != "$flag"}
    HEIGHT, FLAG = "#0", "$flag"
    evB, evE = pmt_events(B, PMT + "::TraverseAndBuild", "$flag"), pmt_events(E, PMT + "::TraverseAndExtract", "$flag")
    recB = [s for k, s in evB if k == "REC"]
    if len(recB) < 2:
        raise AnalysisBroken("C51: TraverseAndBuild: fewer than two recursive calls")
    rights = sorted({a for s in recB for a in F.atoms(reach(s, subs[id(B)])) if a not in (HEIGHT, FLAG) and re.search(r"#1\b", a)})
    if len(rights) != 1:
        raise AnalysisBroken("C51: TraverseAndBuild: cannot identify the right-child test (atoms: %s)" % rights)
    RIGHT = rights[0]
    keep = [HEIGHT, FLAG, RIGHT]

    def proj(pf, s, extra=None, keep_=None):
        f = reach(s, subs[id(pf)])
        if extra is not None:
            f = F.mk_and([f, extra])
        return sorted(project(f, keep_ or keep))

    def table(pf, ev):
        out = []
        for k, s in ev:
            d = None
            if k == "REC":
                d = [F.key(a) for a in call_args(s.expr)]
            out.append((k, d, proj(pf, s), s))
        return out
    tB, tE = table(B, evB), table(E, evE)
    foreign = {}
    for name, pf, ev in (("build", B, evB), ("extract", E, evE)):
        extra = sorted({a for k, s in ev for a in F.atoms(reach(s, subs[id(pf)])) if a not in keep and not (name == "extract" and re.search(r"#[23]\b", a))})
        if extra:
            foreign[name] = extra
    ctx.ob("pmt/conditions-closed", "SYMMETRY", "what the two walks store, consume and descend into depends only on `height == 0`, the flag bit and the right-child test (in "
           "TraverseAndExtract also on the two overflow checks of the bit and hash counters): no further condition on one side", not foreign, E.orig.where, foreign or None)
    show_t = lambda t: [(k, d[:2] if d else d, ["".join("1" if v else "0" for v in r) for r in pr], s.line) for k, d, pr, s in t]
    # one bit per node
    bitB, bitE = [x for x in tB if x[0] == "BIT"], [x for x in tE if x[0] == "BIT"]
    allv = sorted(itertools.product((False, True), repeat=3))
    ok = len(bitB) == 1 and len(bitE) == 1 and bitB[0][2] == allv and bitE[0][2] == allv and tB[0][0] == "BIT" and tE[0][0] == "BIT" and not bitB[0][3].loops and not bitE[0][3].loops and \
        is_expr(counter_bits) and counter_bits[0] == "param"
    ctx.ob("pmt/bit-per-node", "SYMMETRY", "TraverseAndBuild appends exactly one flag bit per visited node, before anything else is stored, and TraverseAndExtract consumes exactly one "
           "bit per visited node (index post-incremented through the shared counter parameter) before anything else is consumed (both independent of height, flag and position)",
           ok, E.orig.where, {"build": show_t(bitB), "extract": show_t(bitE)})
    # stop / hash
    hB, hE = [x for x in tB if x[0] == "HASH"], [x for x in tE if x[0] == "HASH"]
    ok = len(hB) == 1 and len(hE) == 1 and hB[0][2] == hE[0][2]
    ctx.ob("pmt/stop-condition", "SYMMETRY", "TraverseAndBuild stores a hash and TraverseAndExtract consumes one under the same condition over (height == 0, flag, right-child test)",
           ok, E.orig.where, {"build": show_t(hB), "extract": show_t(hE), "atoms": keep})
    if len(hB) == 1:
        a = call_args(hB[0][3].expr)
        ok = len(a) == 1 and F.key(a[0]) == PMT + "::CalcHash(#0, #1, #2)"
        ctx.ob("pmt/hash-stored", "VALUE-SHAPE", "the hash TraverseAndBuild stores for a node is CalcHash of that node's own height and position", ok, B.orig.where, [F.key(x) for x in a])
    if len(hE) == 1:
        cnt = _post_inc_index(hE[0][3].expr, PMT + "::vHash")
        hk = F.key(hE[0][3].expr)
        stop_rets = [e for e in exits(E.fn, P, subs[id(E)]) if e.kind == "ret" and strip_all(F.expand(e.value, subs[id(E)])) == strip_all(hE[0][3].expr)]
        pr = sorted(project(stop_rets[0].formula, keep)) if len(stop_rets) == 1 else None
        ok = is_expr(cnt) and cnt[0] == "param" and len(stop_rets) == 1 and pr == hE[0][2]
        ctx.ob("pmt/hash-returned", "VALUE-SHAPE", "TraverseAndExtract consumes the hash through the shared post-incremented counter parameter and returns that hash as the node's hash",
               ok, E.orig.where, {"consumed": hk, "returned_under": pr})
    # descend
    rB, rE = [x for x in tB if x[0] == "REC"], [x for x in tE if x[0] == "REC"]
    ok = len(rB) == len(rE) == 2 and [x[1][:2] for x in rB] == [x[1][:2] for x in rE] and [x[2] for x in rB] == [x[2] for x in rE]
    ctx.ob("pmt/descend", "SYMMETRY", "both walks recurse into (height-1, pos*2) and then (height-1, pos*2+1), in that order and under the same conditions (the right child under the same "
           "right-child test)", ok, E.orig.where, {"build": show_t(rB), "extract": show_t(rE), "atoms": keep})
    passes = all(x[1][2:] == ["#%d" % i for i in range(2, len(pf.orig.params))] for pf, rr in ((B, rB), (E, rE)) for x in rr)
    ctx.ob("pmt/shared-state", "PROVENANCE", "the recursive calls pass the remaining parameters (txid/match vectors, bit and hash counters, outputs) through unchanged", passes, E.orig.where)
    # stop xor descend, order
    if len(hB) == 1 and len(rB) == 2:
        A, D = set(map(tuple, hB[0][2])), set(map(tuple, rB[0][2]))
        ok = not (A & D) and (A | D) == set(allv) and set(map(tuple, rB[1][2])) <= D
        ctx.ob("pmt/stop-or-descend", "LADDER", "for every node TraverseAndBuild either stores a hash or descends, never both or neither", ok, B.orig.where)
    # reported matches
    rep = [x for x in tE if x[0] == "REPORT"]
    want = sorted(v for v in allv if not v[0] and v[1])
    det = show_t(rep)
    ok = len(rep) == 2 and all(x[2] == want for x in rep) and len(hE) == 1
    if ok:
        byp = {x[3].expr[2][1]: F.key(F.expand(call_args(x[3].expr)[0], subs[id(E)])) for x in rep}
        ok = sorted(byp) == ["#4", "#5"] and byp["#5"] == "#1" and F.key(hE[0][3].expr) in byp["#4"] and all(x[3].line > hE[0][3].line for x in rep)
        det = byp
    ctx.ob("pmt/report", "LADDER", "TraverseAndExtract reports a match exactly at height 0 with the flag set: the hash just consumed as txid and the node position as index",
           ok, E.orig.where, det)
    # combine: CalcHash and TraverseAndExtract build a parent hash alike; CalcHash uses the same right-child test
    def combine(pf, me, extra, keep2):
        sub = subs[id(pf)]
        rets = [e for e in exits(pf.fn, P, sub) if e.kind == "ret" and is_expr(e.value) and e.value[0] == "call" and e.value[1] == "Hash"]
        if len(rets) != 1 or len(call_args(rets[0].value)) != 2 or not all(is_expr(a) and a[0] == "local" for a in call_args(rets[0].value)):
            return None
        L, R = [a[1] for a in call_args(rets[0].value)]
        defs = {L: [], R: []}
        for st in stmts(pf.fn.body):
            if st.get("k") == "decl" and st.get("n") in defs and is_expr(st.get("i")) and not (st["i"][0] == "ctor" and len(st["i"]) == 2):
                ss = stmt_sites(pf.fn, lambda x: x is st, P)
                defs[st["n"]].append((st["i"], ss[0]))
        for s_ in sites(pf.fn, lambda e: e[0] == "b" and e[1] == "=" and is_expr(strip(e[2])) and strip(e[2])[0] == "local" and strip(e[2])[1] in defs, P):
            defs[strip(s_.expr[2])[1]].append((s_.expr[3], s_))

        def val(v):
            v = strip(v)
            if is_expr(v) and v[0] == "mcall" and v[1] == me:
                return "REC(%s)" % ", ".join(F.key(a) for a in call_args(v)[:2])
            if v == ["local", L]:
                return "LEFT"
            return F.key(v)
        out = {}
        for n, tag in ((L, "left"), (R, "right")):
            out[tag] = sorted((val(v), ["".join("1" if b else "0" for b in r) for r in sorted(project(F.mk_and([reach(s_, sub)] + ([extra] if extra is not None else [])), keep2))])
                              for v, s_ in defs[n])
        out["under"] = ["".join("1" if b else "0" for b in r) for r in sorted(project(F.mk_and([rets[0].formula] + ([extra] if extra is not None else [])), keep2))]
        return out
    cC = combine(C, PMT + "::CalcHash", None, [HEIGHT, RIGHT])
    cE = combine(E, PMT + "::TraverseAndExtract", F.atom(FLAG), [HEIGHT, RIGHT])
    ok = cC is not None and cC == cE and [v for v, _ in cC["left"]] == ["REC(#0 - 1, #1 * 2)"] and len(cC["right"]) == 2
    ctx.ob("pmt/combine", "SYMMETRY", "CalcHash (used when building) and TraverseAndExtract form an inner node's hash alike: Hash(left, right) with left from (height-1, pos*2) and right "
           "from (height-1, pos*2+1) under the same right-child test as TraverseAndBuild's descent, else a copy of left", ok, C.orig.where, {"CalcHash": cC, "extract": cE, "atoms": [HEIGHT, RIGHT]})
    leaf = [e for e in exits(C.fn, P, subs[id(C)]) if e.kind == "ret" and not (is_expr(e.value) and e.value[0] == "call" and e.value[1] == "Hash")]
    ok = len(leaf) == 1 and sorted(project(leaf[0].formula, [HEIGHT])) == [(False,)] and re.fullmatch(r"#2\[#1\](\.ToUint256\(\))?", K(leaf[0].value, subs[id(C)])) is not None
    ctx.ob("pmt/leaf", "VALUE-SHAPE", "CalcHash at height 0 is the txid at the node's position (so the hash reported for a matched leaf is that transaction's id)", ok, C.orig.where,
           [K(e.value, subs[id(C)]) for e in leaf])
    # roots
    roots = {}
    for q, callee_ in ((PMT + "::" + PMT, PMT + "::TraverseAndBuild"), (PMT + "::ExtractMatches", PMT + "::TraverseAndExtract")):
        for f in P.fns(q):
            if f.body is None:
                continue
            cs = sites(f, lambda e: e[0] == "mcall" and e[1] == callee_, P)
            if not cs:
                continue
            ctx.used(f)
            pf = Prepared(f, P, PKEEP)
            cs = sites(pf.fn, lambda e: e[0] == "mcall" and e[1] == callee_, P)
            d = None
            if len(cs) == 1:
                a = call_args(cs[0].expr)
                h = strip(a[0])
                if is_expr(h) and h[0] == "local" and match(["int", 0], strip(a[1])):
                    pf.rename_locals({h[1]: "$h"})
                    decl = [st for st in stmts(pf.fn.body) if st.get("k") == "decl" and st.get("n") == "$h"]
                    wl = [l for l in loops_of(pf.fn) if any(x == ["local", "$h"] for _, e in all_exprs(l) for x in subexprs(e))]
                    wr = sites(pf.fn, lambda e: ((e[0] == "b" and e[1] in ASSIGN_OPS) or (e[0] == "u" and e[1] in ("++", "--", "post++", "post--"))) and strip(e[2]) == ["local", "$h"], P)
                    if len(decl) == 1 and len(wl) == 1 and wl[0].get("k") == "while" and len(wr) == 1 and wr[0].loops == [wl[0]] and wl[0].get("l") < cs[0].line:
                        inc = wr[0].expr
                        step = 1 if inc[0] == "u" and "++" in inc[1] else (inc[3][1] if inc[1] == "+=" and match(["int", ANY], inc[3]) else None)
                        d = (F.key(strip(decl[0].get("i"))), F.fshow(F.to_formula(wl[0]["c"], None)), step, not has_break(wl[0]["b"]),
                             not [g for g in wr[0].guards if g.kind in ("if", "sc", "case")])
            roots[callee_.rsplit("::", 1)[-1]] = d
    ok = len(roots) == 2 and all(v is not None for v in roots.values()) and len(set(roots.values())) == 1
    ctx.ob("pmt/root", "SYMMETRY", "the constructor and ExtractMatches start the walk at position 0 of the same height (the same loop `while (CalcTreeWidth(h) > 1) h++` from 0)", ok,
           None, roots)


# ======================================================================================================================
def check(ctx):
    P = ctx.program(UNITS)
    bloom(ctx, P)
    rolling(ctx, P)
    gcs(ctx, P)
    blockfilter(ctx, P)
    pmt(ctx, P)
    pmt_limits(ctx, P)
    ctx.floor("C51 obligations", len(ctx.obs), 60)


# ------------------------------------------------------------------------------------------------ extraction limits
def pmt_limits(ctx, P):
    """ExtractMatches refuses a tree up front only for transaction counts no valid block can have: its upper limit on
    nTransactions admits every count up to MAX_BLOCK_WEIGHT / MIN_TRANSACTION_WEIGHT (the most transactions a block can hold) -
    a lower limit makes a correctly built tree of a large block extract a null root and no matches."""
    f = ctx.used(P.fn("CPartialMerkleTree::ExtractMatches"))
    most = P.const("MAX_BLOCK_WEIGHT") // P.const("MIN_TRANSACTION_WEIGHT")
    walk = sites(f, lambda e: e[0] in ("mcall", "vcall") and e[1] == "CPartialMerkleTree::TraverseAndExtract", P)
    first = min([s.line for s in walk] or [10 ** 9])
    lims = []
    for e in exits(f, P, naming(f, P)):
        if e.kind != "ret" or e.line >= first:
            continue
        for k in F.atoms(e.own_formula(None)):
            m = re.fullmatch(r"(?:.*\.)?nTransactions < (\d+)", k)
            if m:
                lims.append((e.line, int(m.group(1))))
    ctx.ob("pmt/extract-count-limit", "LADDER", "before walking the tree ExtractMatches rejects a transaction count only above MAX_BLOCK_WEIGHT / MIN_TRANSACTION_WEIGHT "
           "(= %d, the most transactions a valid block can hold)" % most, all(k - 1 >= most for _, k in lims), f.where, {"limits": lims, "needed": most})
    ctx.floor("ExtractMatches transaction-count limits", len(lims), 1)
