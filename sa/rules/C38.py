"""C38 Compact block reconstruction yields the announced block or fails (DESIGN §3 C38)."""
import re

from sa.engine.api import *
from sa.engine import callgraph

UNITS = ["blockencodings.cpp", "net_processing.cpp"]
EXPLANATION = ("LADDER/MPT + PROVENANCE rule. PartiallyDownloadedBlock::FillBlock returns READ_STATUS_OK only past: a non-null stored header, a complete "
               "loop over txn_available that rejects when a missing slot finds the supplied list exhausted, the supplied list being used up exactly, and "
               "the false edge of the mutation check, which is m_check_block_mutated_mock if set else IsBlockMutated, applied to the reconstructed block "
               "with the segwit flag; the block header is assigned from the stored header and every vtx slot from txn_available[i] or the next "
               "vtx_missing element. PartiallyDownloadedBlock::InitData returns READ_STATUS_OK only past its reject rungs (null header / empty, size "
               "bound MAX_BLOCK_WEIGHT / MIN_SERIALIZABLE_TRANSACTION_WEIGHT, object reuse, per prefilled transaction: null tx, index overflow, index "
               "beyond the id list; per short id: bucket size > 12; short-id collision by size mismatch) and stores the announced header. "
               "net_processing: a reconstructed block is handed to ProcessBlock only under a flag set solely when the latest FillBlock status on that very "
               "block object was OK (neither INVALID nor FAILED); INVALID leads to Misbehaving, FAILED to a full-block GETDATA.")
ASSUMPTIONS = ["IsBlockMutated(block, check_witness_root) detects any transaction list not matching the header's merkle root / witness commitment (C04)",
               "m_check_block_mutated_mock is only set by tests (checked: no writer in the production units)"]
CLAIM = dict(
    technique="static analysis: reject ladders (NECESSARY) with per-element loop rungs, guard implication, argument/assignment provenance, who-may-write",
    text="For every path of FillBlock, success implies that the block carries the stored (announced) header, that each slot was filled from the locally "
         "matched transaction or the next supplied one with the supplied list consumed exactly, and that the default IsBlockMutated check passed on "
         "that block - so a different transaction list can only end in FAILED/INVALID. InitData's classification rungs and the net_processing "
         "consequences (OK -> process that block object, INVALID -> Misbehaving, FAILED -> getdata of the full block) are pinned.",
    note="Not decided: short-id collision probabilities, that mempool/extra matches are the right transactions (a wrong match is caught by the merkle "
         "check, which is the obligation that matters), IsBlockMutated itself (C04). The `status` freshness check uses the textually latest assignment "
         "before the governing test inside the same function.",
    ref="DESIGN.md §3 C38")

PDB = "PartiallyDownloadedBlock::"


def peel(e):
    while is_expr(e) and ((e[0] == "ctor" and len(e) == 3) or e[0] == "cast" or e[0] == "defarg"):
        e = e[2] if e[0] != "defarg" else e[1]
    return e


def loop_var(fn, cond_match):
    """name of the induction variable of the `for` loop whose canonical condition matches"""
    for st in stmts(fn.body):
        if st.get("k") == "for" and is_expr(st.get("c")):
            m = cond_match(F.fshow(F.to_formula(st["c"], {})))
            if m:
                return m.group(1)
    return None


def status_is(e, name):
    return e.kind == "ret" and is_expr(e.value) and show(e.value).rsplit("::", 1)[-1] == name


def check(ctx):
    P = ctx.program(UNITS)
    cg = callgraph.load_all()
    fill_block(ctx, P, cg)
    init_data(ctx, P, cg)
    consequences(ctx, P)


# ------------------------------------------------------------------------------------------------
def fill_block(ctx, P, cg):
    f = ctx.used(P.fn(PDB + "FillBlock"))
    blk, miss, seg = f.params[0]["n"], f.params[1]["n"], f.params[2]["n"]
    subst = naming(f, P)
    # the mutation-check callable
    cm = set()
    for st in stmts(f.body):
        if st.get("k") == "decl" and is_expr(st.get("i")):
            v = peel(st["i"])
            if v[0] == "?:" and contains([".", ["this"], PDB + "m_check_block_mutated_mock"], v[1]) and match([".", ["this"], PDB + "m_check_block_mutated_mock"], peel(v[2])) \
                    and contains(["fn", "IsBlockMutated"], v[3]) and len(local_values(f, st["n"])) == 1:
                cm.add(st["n"])
    ctx.ob("FillBlock/mutation-checker", "PROVENANCE", "the mutation check used by FillBlock is m_check_block_mutated_mock when set, else IsBlockMutated", len(cm) == 1, f.where,
           {"locals": sorted(cm)})
    ws = sorted({w[0] for w in cg.writers(PDB + "m_check_block_mutated_mock")})
    ctors = P.fns(PDB + "PartiallyDownloadedBlock")
    empty = bool(ctors)
    for c in ctors:
        ii = [i for i in c.d.get("inits", []) or [] if i.get("f") == PDB + "m_check_block_mutated_mock"]
        empty = empty and all(match(["ctor", "std::function", ["null"]], i.get("i")) or match(["ctor", "std::function"], i.get("i")) and len(i["i"]) == 2 for i in ii)
    ctx.ob("who-writes/m_check_block_mutated_mock", "WHO-MAY-WRITE", "no production code installs a mock mutation check (the member is only default-initialised empty)",
           set(ws) <= {PDB + "PartiallyDownloadedBlock"} and empty, None, {"writers": ws})
    mut = re.compile(r"(%s)\(%s, %s\)" % ("|".join(sorted(cm)) or "?", blk, seg)) if cm else "?"
    if not cm and any(re.fullmatch(r"IsBlockMutated\(%s, %s\)" % (blk, seg), k) for e in exits(f, P, subst) for k in F.atoms(e.formula)):
        mut = "IsBlockMutated(%s, %s)" % (blk, seg)
    # names of the slot loop variable and of the consumed-counter are taken from the code, not frozen
    iv = loop_var(f, lambda c: re.fullmatch(r"(\w+) < txn_available\.size\(\)", c))
    offs = sorted({x[2][1] for st, e in all_exprs(f.body) for x in subexprs(e) if x[0] == "u" and x[1] in ("post++", "++") and x[2][0] == "local"
                   and any(match(["idx", ["param", miss], x], y) for y in subexprs(e))})
    if iv is None or len(offs) != 1:
        raise AnalysisBroken("FillBlock: slot loop / consumed-counter idiom not recognised (loop var %s, counters %s)" % (iv, offs))
    off = offs[0]
    loopkey = r"(for\(0; %s < txn_available\.size\(\)\)|each\(txn_available\))" % iv
    rungs = [
        Rung("stored-header-null", "HNULL", {"HNULL": "header.IsNull()"}),
        Rung("missing-exhausted", "!AVAIL && !MORE", {"AVAIL": ["txn_available[%s]" % iv, "each(txn_available)"], "MORE": "%s < %s.size()" % (off, miss)}, loop=loopkey),
        Rung("missing-not-used-up", "!EXACT", {"EXACT": "%s == %s.size()" % (off, miss)}),
        Rung("mutated", "MUTATED", {"MUTATED": mut}),
    ]
    ex = check_ladder(ctx, f, P, rungs, is_accept=lambda e: status_is(e, "READ_STATUS_OK"), is_reject=lambda e: e.kind == "ret" and not status_is(e, "READ_STATUS_OK"),
                      mode="NECESSARY", oid="FillBlock")
    ctx.floor("FillBlock exits", len(ex), 2)
    for e in ex:
        if e.kind == "ret" and not status_is(e, "READ_STATUS_OK"):
            fb, mp, un = F.bind_atoms(e.own_formula(set()), {"MUTATED": mut})
            if "MUTATED" in mp.values() and F.implies(fb, F.parse("MUTATED")):
                ctx.ob("FillBlock/mutated-is-FAILED@L%s" % e.line, "LADDER", "a reconstructed block that fails the mutation check is reported READ_STATUS_FAILED (fallback to a full download, "
                       "the announcing peer is not punished for a possible collision)", status_is(e, "READ_STATUS_FAILED"), "%s:%s" % (f.file, e.line), {"value": show(e.value)})
    # header and transactions of the output block
    hw = sites(f, lambda e: e[0] == "b" and e[1] == "=" and match(["param", blk], e[2]), P)
    ok = len(hw) == 1 and match([".", ["this"], PDB + "header"], peel(hw[0].expr[3])) and not hw[0].loops
    ctx.ob("FillBlock/header", "PROVENANCE", "the reconstructed block's header is assigned (once) from the stored announced header", ok, f.where, {"writes": [show(h.expr) for h in hw]})
    other_hdr = sites(f, lambda e: e[0] == "b" and e[1] in ASSIGN_OPS and e[2][0] == "." and match(["param", blk], e[2][1]), P)
    ctx.ob("FillBlock/header-fields-untouched", "PROVENANCE", "FillBlock does not overwrite individual header fields of the output block", not other_hdr, f.where,
           {"writes": [show(h.expr) for h in other_hdr]})
    # the stored header is wiped only after it was copied
    nul = sites(f, lambda e: e[0] in ("mcall", "vcall") and e[1].endswith("::SetNull") and match([".", ["this"], PDB + "header"], e[2]), P)
    ctx.ob("FillBlock/header-copied-before-wipe", "ORDER", "the stored header is copied into the block before it is wiped", bool(hw) and all(h.line < n.line for h in hw for n in nul), f.where)
    vw = sites(f, lambda e: e[0] == "b" and e[1] == "=" and match(["idx", [".", ["param", blk], "CBlock::vtx"]], e[2]), P)
    ctx.floor("FillBlock vtx slot assignments", len(vw), 2)
    kinds = set()
    for s in vw:
        idx, val = s.expr[2][2], peel(s.expr[3])
        if val[0] == "call" and val[1] == "std::move":
            val = peel(val[2])
        fb, mp, un = F.bind_atoms(s.formula(subst), {"AVAIL": ["txn_available[%s]" % iv, "each(txn_available)"]})
        kind = None
        if match(["idx", [".", ["this"], PDB + "txn_available"], idx], val) and F.implies(fb, F.parse("AVAIL")):
            kind = "local"
        elif match(["idx", ["param", miss], ["u", "post++", ["local", off]]], val) and F.implies(fb, F.parse("!AVAIL")):
            kind = "supplied"
        kinds.add(kind)
        ctx.ob("FillBlock/slot@L%s" % s.line, "PROVENANCE", "slot i of the block is the locally matched transaction i if available, otherwise the next unused supplied transaction",
               kind is not None and match(["local", ANY], idx), s.where, {"write": show(s.expr)})
    ctx.ob("FillBlock/slot-kinds", "PROVENANCE", "both fill sources (local match, supplied missing transaction) are present", kinds == {"local", "supplied"}, f.where)
    ow = [s for s in sites(f, lambda e: e[0] == "b" and e[1] in ASSIGN_OPS and match(["local", off], e[2]), P)]
    inc = [s for s in sites(f, lambda e: e[0] == "u" and e[1] in ("post++", "++", "--", "post--") and match(["local", off], e[2]), P)]
    ctx.ob("FillBlock/offset-counts-consumed", "PROVENANCE", "the consumed-counter starts at 0 and only advances when a supplied transaction is consumed", not ow and len(inc) == 1 and
           [v for _, v in local_values(f, off) if match(["int", 0], v)] != [], f.where)
    rs = sites(f, lambda e: e[0] in ("mcall", "vcall") and e[1].endswith("::resize") and match([".", ["param", blk], "CBlock::vtx"], e[2]), P)
    ok = len(rs) == 1 and match(["mcall", "std::vector::size", [".", ["this"], PDB + "txn_available"]], call_args(rs[0].expr)[0])
    ctx.ob("FillBlock/tx-count", "PROVENANCE", "the block gets exactly as many transaction slots as the compact block announced", ok, f.where)


# ------------------------------------------------------------------------------------------------
def init_data(ctx, P, cg):
    f = ctx.used(P.fn(PDB + "InitData"))
    cb = f.params[0]["n"]
    bound = P.const("MAX_BLOCK_WEIGHT") // P.const("MIN_SERIALIZABLE_TRANSACTION_WEIGHT")
    ctx.ob("const/compact-tx-bound", "CONST", "MAX_BLOCK_WEIGHT / MIN_SERIALIZABLE_TRANSACTION_WEIGHT == 4,000,000 / 40 == 100,000",
           P.const("MAX_BLOCK_WEIGHT") == 4000000 and P.const("MIN_SERIALIZABLE_TRANSACTION_WEIGHT") == 40, None, {"bound": bound})
    pv = loop_var(f, lambda c: re.fullmatch(r"(\w+) < %s\.prefilledtxn\.size\(\)" % cb, c))
    sv = loop_var(f, lambda c: re.fullmatch(r"(\w+) < %s\.shorttxids\.size\(\)" % cb, c))
    accs = sorted({x[2][1] for st, e in all_exprs(f.body) for x in subexprs(e) if x[0] == "b" and x[1] == "+=" and x[2][0] == "local" and contains([".", ANY, "PrefilledTransaction::index"], x[3])})
    if pv is None or sv is None or len(accs) != 1:
        raise AnalysisBroken("InitData: prefilled / short-id loop idiom not recognised")
    lpi = accs[0]
    pre = r"for\(0; %s < %s\.prefilledtxn\.size\(\)\)" % (pv, cb)
    sid = r"for\(0; %s < %s\.shorttxids\.size\(\)\)" % (sv, cb)
    total = "%s.prefilledtxn.size() + %s.shorttxids.size()" % (cb, cb)
    fsub = naming(f, P)
    inner_done = {"done(loop@%s)" % x.get("l") for st in stmts(f.body) if st.get("k") == "for" and re.fullmatch(sid, loop_range_key(st, fsub) or "")
                  for x in stmts(st.get("b")) if x.get("k") in ("while", "for", "do", "foreach")}
    rungs = [
        Rung("null-or-empty", "HNULL || (SEMPTY && PEMPTY)", {"HNULL": "%s.header.IsNull()" % cb, "SEMPTY": "%s.shorttxids.empty()" % cb, "PEMPTY": "%s.prefilledtxn.empty()" % cb}),
        Rung("too-many-transactions", "!FITS", {"FITS": "%s < %d" % (total, bound + 1)}),
        Rung("object-reused", "!FRESHH || !FRESHT", {"FRESHH": "header.IsNull()", "FRESHT": "txn_available.empty()"}),
        Rung("prefilled-null", "NULLTX", {"NULLTX": "%s.prefilledtxn[%s].tx.IsNull()" % (cb, pv)}, loop=pre),
        Rung("prefilled-index-overflow", "!IN16", {"IN16": "%s < 65536" % lpi}, loop=pre),
        Rung("prefilled-index-beyond-ids", "BEYOND", {"BEYOND": ["%s.shorttxids.size() + %s < %s" % (cb, pv, lpi), "%s.shorttxids.size() + %s < (uint32_t)%s" % (cb, pv, lpi)]}, loop=pre),
        # the slot-skipping inner while loop has completed when the bucket test runs (its exit facts are part of the in-loop condition)
        Rung("bucket-overfull", "!SMALL && SKIPPED && !TAKEN", {"SMALL": re.compile(r"\w+\.bucket_size\(\w+\.bucket\(%s\.shorttxids\[%s\]\)\) < 13" % (cb, sv)),
                                                                "SKIPPED": lambda k: k in inner_done, "TAKEN": re.compile(r"txn_available\[(%s \+ \w+|\w+ \+ %s)\]" % (sv, sv))}, loop=sid),
        Rung("short-id-collision", "!ALLDISTINCT", {"ALLDISTINCT": re.compile(r"%s\.shorttxids\.size\(\) == \w+\.size\(\)" % cb)}),
    ]
    ex = check_ladder(ctx, f, P, rungs, is_accept=lambda e: status_is(e, "READ_STATUS_OK"), is_reject=lambda e: e.kind == "ret" and not status_is(e, "READ_STATUS_OK"),
                      mode="NECESSARY", oid="InitData")
    ctx.floor("InitData exits", len(ex), 3)
    for e in ex:
        if e.kind == "ret" and not status_is(e, "READ_STATUS_OK"):
            own = e.own_formula(set())
            coll = any(re.fullmatch(r"%s\.shorttxids\.size\(\) == \w+\.size\(\)" % cb, k) or "bucket_size" in k for k in F.atoms(own))
            want = "READ_STATUS_FAILED" if coll else "READ_STATUS_INVALID"
            ctx.ob("InitData/classification@L%s" % e.line, "LADDER", "InitData reports possible short-id collisions as FAILED (fallback) and malformed announcements as INVALID",
                   status_is(e, want), "%s:%s" % (f.file, e.line), {"value": show(e.value), "expected": want})
    hw = sites(f, lambda e: match(["b", "=", [".", ["this"], PDB + "header"]], e), P)
    ok = len(hw) == 1 and match([".", ["param", cb], "CBlockHeaderAndShortTxIDs::header"], peel(hw[0].expr[3]))
    ctx.ob("InitData/stores-announced-header", "PROVENANCE", "InitData stores the announced compact block's header (the one FillBlock later copies)", ok, f.where,
           {"writes": [show(h.expr) for h in hw]})
    ws = sorted({w[0] for w in cg.writers(PDB + "header")})
    ctx.ob("who-writes/PartiallyDownloadedBlock::header", "WHO-MAY-WRITE", "the stored header is assigned only by InitData", set(ws) <= {f.q, PDB + "PartiallyDownloadedBlock"} and f.q in ws, None,
           {"writers": ws})
    acc = sites(f, lambda e: e[0] == "b" and e[1] in ASSIGN_OPS and match(["local", lpi], e[2]), P)
    ok = len(acc) == 1 and acc[0].expr[1] == "+=" and contains([".", ANY, "PrefilledTransaction::index"], acc[0].expr[3]) and contains(["int", 1], acc[0].expr[3]) \
        and [v for _, v in local_values(f, lpi) if match(["int", -1], v)] != []
    ctx.ob("InitData/prefilled-index-accumulator", "PROVENANCE", "the absolute prefilled index starts at -1 and advances by the differential index + 1 (single accumulation)", ok, f.where,
           {"writes": [show(a.expr) for a in acc]})


# ------------------------------------------------------------------------------------------------
def consequences(ctx, P):
    for q, region_msg in [("PeerManagerImpl::ProcessCompactBlockTxns", None), ("PeerManagerImpl::ProcessMessage", "CMPCTBLOCK")]:
        g = ctx.used(P.fn(q))
        subst = naming(g, P)
        lo, hi = 0, 10 ** 9
        if region_msg:
            reg = handler_region(g, region_msg)
            lo, hi = reg["l"], max(x.get("l") or 0 for x in stmts(reg["t"]))
        name = q.rsplit("::", 1)[-1] + ("/" + region_msg if region_msg else "")
        pbs = [s for s in sites(g, call_to("PeerManagerImpl::ProcessBlock"), P) if lo <= s.line <= hi]
        ctx.floor("%s ProcessBlock sites" % name, len(pbs), 1)
        for s in pbs:
            blockarg = peel(call_args(s.expr)[1])
            f0 = s.formula(subst)
            flags = []
            for st in stmts(g.body):
                if st.get("k") == "decl" and "bool" in (st.get("ty") or "") and match(["bool", False], st.get("i")) and F.implies(f0, F.atom(st["n"])):
                    flags.append(st["n"])
            ok_any = False
            detail = {"flags": flags}
            for fl in flags:
                sets = [t for t in sites(g, lambda e: match(["b", "=", ["local", fl], ["bool", True]], e), P)]
                vals = local_values(g, fl)
                if not sets or not all(match(["bool", ANY], v) for _, v in vals):
                    continue
                good = True
                for t in sets:
                    # only the enclosing branch conditions: facts established before a re-assignment of the status variable must not count
                    ft = F.mk_and([x.formula(subst) for x in t.guards if x.kind != "post"])
                    sv = {m.group(1) for k in F.atoms(ft) for m in [re.fullmatch(r"(\w+) == (?:ReadStatus::)?READ_STATUS_\w+", k)] if m}
                    if len(sv) != 1:
                        good = False
                        detail["why"] = "no status test dominates %s = true at line %s" % (fl, t.line)
                        continue
                    var = sv.pop()
                    fb, mp, un = F.bind_atoms(ft, {"OK": re.compile(r"%s == (ReadStatus::)?READ_STATUS_OK" % var), "INVALID": re.compile(r"%s == (ReadStatus::)?READ_STATUS_INVALID" % var),
                                                   "FAILED": re.compile(r"%s == (ReadStatus::)?READ_STATUS_FAILED" % var)})
                    if F.counterexample(fb, F.parse("OK || (!INVALID && !FAILED)")) is not None:
                        good = False
                        detail["why"] = "%s = true at line %s is reachable with a non-OK status" % (fl, t.line)
                    # freshest definition of the status variable before the set
                    defs = [(l, v) for l, v in local_values(g, var) if l is not None and l < t.line]
                    last = max(defs, key=lambda d: d[0]) if defs else None
                    fb_ok = last is not None and is_expr(last[1]) and is_call_to(PDB + "FillBlock", peel(last[1]))
                    if fb_ok:
                        a0 = peel(call_args(peel(last[1]))[0])
                        same = a0[0] == "u" and a0[1] == "*" and peel(a0[2]) == blockarg
                        if not same:
                            fb_ok = False
                            detail["why"] = "FillBlock fills %s but %s is processed" % (show(a0), show(blockarg))
                    else:
                        detail["why"] = "latest status before line %s is not a FillBlock result" % t.line
                    good = good and fb_ok
                ok_any = ok_any or good
            ctx.ob("%s/process-only-ok@L%s" % (name, s.line), "MPT", "a reconstructed compact block is handed to ProcessBlock only under a flag that is set solely when the latest "
                   "FillBlock status for that very block object is OK (not INVALID, not FAILED)", ok_any, s.where, detail)

    g = P.fn("PeerManagerImpl::ProcessCompactBlockTxns")
    subst = naming(g, P)
    inv = re.compile(r"\w+ == (ReadStatus::)?READ_STATUS_INVALID")
    fai = re.compile(r"\w+ == (ReadStatus::)?READ_STATUS_FAILED")

    def under(s, rx):
        own = F.mk_and([x.formula(subst) for x in s.guards if x.kind != "post"])
        ks = [k for k in F.atoms(own) if rx.fullmatch(k)]
        return bool(ks) and F.implies(own, F.atom(ks[0]))
    mis = [s for s in sites(g, call_to("PeerManagerImpl::Misbehaving"), P) if under(s, inv)]
    ctx.ob("ProcessCompactBlockTxns/INVALID-punished", "LADDER", "block transactions that make FillBlock report INVALID lead to Misbehaving", len(mis) >= 1, g.where)
    gd = [s for s in sites(g, lambda e: callee(e) == "PeerManagerImpl::MakeAndPushMessage" and peel(call_args(e)[1]) == ["global", "NetMsgType::GETDATA"], P) if under(s, fai)]
    okg = False
    for s in gd:
        lv = peel(call_args(s.expr)[2])
        if lv[0] == "local":
            adds = [x for st, e in all_exprs(g.body) for x in subexprs(e) if x[0] in ("mcall", "vcall") and x[1].endswith("emplace_back") and match(["local", lv[1]], x[2])]
            okg = okg or any(contains(["enum", "MSG_BLOCK"], a) or contains(["int", 2, "MSG_BLOCK"], a) or "MSG_BLOCK" in show(a) for a in adds) and \
                any(contains([".", ["param", ANY], "BlockTransactions::blockhash"], a) for a in adds)
    ctx.ob("ProcessCompactBlockTxns/FAILED-falls-back", "LADDER", "a FAILED reconstruction (possible short-id collision) falls back to a GETDATA for the full block with the announced hash",
           okg, g.where, {"getdata_sites": [s.line for s in gd]})
    pm = P.fn("PeerManagerImpl::ProcessMessage")
    psub = naming(pm, P)
    reg = handler_region(pm, "CMPCTBLOCK")
    lo, hi = reg["l"], max(x.get("l") or 0 for x in stmts(reg["t"]))
    subst = psub
    mis = [s for s in sites(pm, call_to("PeerManagerImpl::Misbehaving"), P) if lo <= s.line <= hi and under(s, inv)]
    ctx.ob("CMPCTBLOCK/INVALID-punished", "LADDER", "a compact block that makes InitData report INVALID leads to Misbehaving", len(mis) >= 1, "%s:%s" % (pm.file, lo))
    # after InitData on the in-flight partial block, further processing only when neither INVALID nor FAILED
    cont = [s for s in sites(pm, lambda e: callee(e) == "PeerManagerImpl::MakeAndPushMessage" and peel(call_args(e)[1]) == ["global", "NetMsgType::GETBLOCKTXN"], P) if lo <= s.line <= hi]
    ctx.floor("CMPCTBLOCK GETBLOCKTXN sites", len(cont), 1)
    for s in cont:
        fb, mp, un = F.bind_atoms(s.formula(psub), {"INVALID": inv, "FAILED": fai})
        cex = F.counterexample(fb, F.parse("!INVALID && !FAILED"))
        ctx.ob("CMPCTBLOCK/getblocktxn-only-ok@L%s" % s.line, "MPT", "missing transactions are requested only if InitData neither failed nor found the announcement invalid", cex is None, s.where,
               None if cex is None else {"counterexample": cex})
