"""C16 The node recovers a consistent chainstate after a crash at any point (DESIGN §3 C16: durability ordering)."""
from sa.engine.api import *
from sa.rules._helpers_B import (any_call_named, assign_to_field, const_key, fclose_ok_mark, mcall_named, must_before, ret_true)

UNITS = ["txdb.cpp", "validation.cpp", "node/blockstorage.cpp", "node/chainstate.cpp", "dbwrapper.cpp", "flatfile.cpp"]
EXPLANATION = ("TYPESTATE/ORDER rules on the durability protocol, decided for every path by must-/may-flow over the structured statement trees: "
               "(1) CCoinsViewDB::BatchWrite: every batch handed to WriteBatch is preceded or accompanied by Erase(DB_BEST_BLOCK)+Write(DB_HEAD_BLOCKS,"
               "{new,old}); the closing Erase(DB_HEAD_BLOCKS)+Write(DB_BEST_BLOCK, block_hash) are staged after every coin write, reach a WriteBatch "
               "before the function ends, Clear() only ever follows a WriteBatch directly, and the hashes written are the right ones; "
               "(2) Chainstate::FlushStateToDisk: block/undo files flushed before the block index is written, index written (with fSync=true, honoured "
               "by CDBWrapper::WriteBatch) before pruned files are unlinked and before the coins flush; m_last_flushed_block/ChainStateFlushed only "
               "after the coins flush; FlatFileSeq::Flush succeeds only past FileCommit; "
               "(3) WriteBlock/WriteBlockUndo publish a position only after the data was written and the file closed without error; AcceptBlock "
               "records the position only after WriteBlock; (4) start-up: LoadChainTip only past a successful ReplayBlocks, ReplayBlocks succeeds "
               "only for 0 or 2 head blocks and finishes with SetBestBlock(new head)+Flush, LoadChainTip's tip is the coins view's best block; "
               "(5) replay is idempotent: RollforwardBlock fails only when the block cannot be read, never leaves its loops early, re-adds outputs with "
               "overwrite checking on for every transaction, and the roll-back half of ReplayBlocks stops only on a read failure or DISCONNECT_FAILED "
               "(DISCONNECT_UNCLEAN is tolerated).")
ASSUMPTIONS = ["LevelDB applies one WriteBatch atomically and in order (library semantics)",
               "FileCommit / leveldb sync=true make preceding writes durable (OS semantics)",
               "CCoinsViewCache::Flush/Sync reach CCoinsViewDB::BatchWrite (virtual dispatch through the view stack)"]
CLAIM = dict(
    technique="static analysis: typestate / must-precede flow analysis over all paths (staged-vs-durable batch markers, flush ordering), "
              "argument provenance, guard implication",
    text="For every path of the coins-DB batch writer, the flush routine, the block/undo writers and the start-up sequence, the durability "
         "steps happen in the order crash recovery relies on (in-transition marker before any partial coin batch; consistent marker only with the "
         "last batch; files before index before coins; replay before loading the tip). A crash test samples crash points; this covers all paths "
         "of these functions.",
    note="Not decided: the crash-point quantifier itself (what the OS/LevelDB persist at a kill or power loss), RollforwardBlock/DisconnectBlock "
         "idempotence, the chainwork clause. DESIGN's 'UnlinkPrunedFiles before coins flush' is not required (an unlink after the coins flush would "
         "be harmless); 'unlink only after the index write' is checked instead.",
    ref="DESIGN.md §3 C16")

BW = "CCoinsViewDB::BatchWrite"


# --------------------------------------------------------------------------------------------- (1) coins DB batch protocol
def _batch_preds(f, P):
    ops = sites(f, lambda e: is_expr(e) and e[0] == "mcall" and e[1] in ("CDBBatch::Write", "CDBBatch::Erase", "CDBBatch::Clear"), P)
    objs = {show(call_obj(s.expr)) for s in ops}
    if len(objs) != 1:
        raise AnalysisBroken("%s: expected exactly one CDBBatch object, found %s" % (f.q, sorted(objs)))
    is_op = lambda e, q: is_expr(e) and e[0] == "mcall" and e[1] == q
    key = lambda e: call_args(e)[0] if call_args(e) else None
    pr = {
        "EB": lambda e: is_op(e, "CDBBatch::Erase") and const_key(key(e), "DB_BEST_BLOCK"),
        "WH": lambda e: is_op(e, "CDBBatch::Write") and const_key(key(e), "DB_HEAD_BLOCKS"),
        "EH": lambda e: is_op(e, "CDBBatch::Erase") and const_key(key(e), "DB_HEAD_BLOCKS"),
        "WB": lambda e: is_op(e, "CDBBatch::Write") and const_key(key(e), "DB_BEST_BLOCK"),
        "COIN": lambda e: (is_op(e, "CDBBatch::Write") or is_op(e, "CDBBatch::Erase")) and is_expr(key(e)) and key(e)[0] != "int",
        "CLEAR": lambda e: is_op(e, "CDBBatch::Clear"),
        "COMMIT": lambda e: is_expr(e) and e[0] in ("mcall", "vcall") and e[1] == "CDBWrapper::WriteBatch",
    }
    pr["STAGE"] = lambda e: is_op(e, "CDBBatch::Write") or is_op(e, "CDBBatch::Erase")
    return pr


class _BatchFlow(MustFlow):
    """Must-set over labels s<X> (operation X staged in the current batch), d<X> (X was in a batch passed to WriteBatch)
    and a<X> (one of the two: X is in the current batch or already written)."""
    MARKERS = ("EB", "WH", "EH", "WB")

    def __init__(self, fn, P, pr):
        super().__init__(fn, P)
        self.pr = pr
        self.commits = []

    def on_expr(self, state, e, stmt):
        pr = self.pr
        if pr["COMMIT"](e):
            self.commits.append((e, state, stmt))
            return state | {"d" + x[1:] for x in state if x[0] in "sa"}
        if pr["CLEAR"](e):
            # a<X> = "X is in effect" (staged in the current batch or already written); survives Clear only if written
            return frozenset(x for x in state if not x.startswith("s") and not (x.startswith("a") and ("d" + x[1:]) not in state))
        for m in self.MARKERS:
            if pr[m](e):
                state = state | {"s" + m, "a" + m}
        # an opposite operation on the same key supersedes the earlier staged one
        if pr["WB"](e):
            state = state - {"sEB", "aEB"}
        if pr["EB"](e):
            state = state - {"sWB", "aWB"}
        if pr["WH"](e):
            state = state - {"sEH", "aEH"}
        if pr["EH"](e):
            state = state - {"sWH", "aWH"}
        return state


def batch_write(ctx, P):
    f = ctx.used(P.fn(BW))
    pr = _batch_preds(f, P)
    bf = _BatchFlow(f, P, pr)
    bf.run()
    ctx.floor("BatchWrite WriteBatch sites", len(bf.commits), 2)
    final = 0
    for e, st, stmt in bf.commits:
        where = "%s:%s" % (f.file, stmt.get("l"))
        is_final = "sWB" in st
        final += is_final
        if is_final:
            # the batch that declares the database consistent again
            ok = "sEH" in st
            ctx.ob("BatchWrite/final-batch@L%s" % stmt.get("l"), "TYPESTATE",
                   "the batch that writes DB_BEST_BLOCK also erases DB_HEAD_BLOCKS (the database is declared consistent atomically)", ok, where,
                   None if ok else {"staged": sorted(st)})
        else:
            miss = [m for m in ("EB", "WH") if ("a" + m) not in st]
            ctx.ob("BatchWrite/marker-first@L%s" % stmt.get("l"), "TYPESTATE",
                   "every (partial) batch written to the coins DB is preceded or accompanied by the in-transition marker: Erase(DB_BEST_BLOCK) "
                   "and Write(DB_HEAD_BLOCKS, {new, old})", not miss, where, None if not miss else {"missing": miss, "state": sorted(st)})
    ctx.ob("BatchWrite/final-batch-exists", "TYPESTATE", "some WriteBatch call carries the staged Write(DB_BEST_BLOCK)", final >= 1, f.where)
    ctx.floor("BatchWrite exits", len(bf.exits), 1)
    for st, stmt in bf.exits:
        miss = [m for m in ("dEH", "dWB") if m not in st]
        ctx.ob("BatchWrite/exit@L%s" % stmt.get("l"), "TYPESTATE",
               "BatchWrite ends only after Erase(DB_HEAD_BLOCKS) and Write(DB_BEST_BLOCK) were handed to WriteBatch (no Clear in between)",
               not miss, "%s:%s" % (f.file, stmt.get("l")), None if not miss else {"missing": miss, "state": sorted(st)})
    # may-analysis: no coin is staged after the closing marker; Clear never discards unwritten operations; nothing is left unwritten
    mf = MayFlow(f, P, gens=[("FINAL", lambda e: pr["WB"](e) or pr["EH"](e)), ("PENDING", pr["STAGE"])], kills=[("PENDING", pr["COMMIT"])])
    mf.watch = lambda e: pr["COIN"](e) or pr["CLEAR"](e)
    mf.run()
    ncoin = 0
    for e, st, stmt in mf.events:
        where = "%s:%s" % (f.file, stmt.get("l"))
        if pr["COIN"](e):
            ncoin += 1
            ctx.ob("BatchWrite/coin-before-final@L%s" % stmt.get("l"), "TYPESTATE",
                   "no coin entry is staged after the closing marker (Erase(DB_HEAD_BLOCKS)/Write(DB_BEST_BLOCK)) was staged: the database is "
                   "declared consistent only by the last batch", "FINAL" not in st, where)
        else:
            ctx.ob("BatchWrite/clear-after-commit@L%s" % stmt.get("l"), "TYPESTATE",
                   "batch.Clear() is reached only directly after WriteBatch (no staged operation is discarded)", "PENDING" not in st, where)
    ctx.floor("BatchWrite coin staging sites", ncoin, 2)
    for st, stmt in mf.exits:
        ctx.ob("BatchWrite/all-written@L%s" % stmt.get("l"), "TYPESTATE", "no staged operation is left unwritten when BatchWrite ends",
               "PENDING" not in st, "%s:%s" % (f.file, stmt.get("l")))
    # provenance of the hashes
    for s in sites(f, pr["WB"], P):
        v = call_args(s.expr)[1]
        ok = match(["param", "block_hash"], v)
        ctx.ob("BatchWrite/best-value@L%s" % s.line, "PROVENANCE", "the value written under DB_BEST_BLOCK is the block_hash parameter (the new tip of the flushed view)",
               ok, s.where, None if ok else {"value": show(v)})
    for s in sites(f, pr["WH"], P):
        v = call_args(s.expr)[1]
        m = match(["call", "Vector", ["param", "block_hash"], ["local", V("old")]], v)
        ok = bool(m)
        detail = {"value": show(v)}
        if ok:
            old = v[3][1]
            vals = local_values(f, old)
            heads = [n for n, d in local_defs_of(f).items() if is_call_to(BW.rsplit("::", 1)[0] + "::GetHeadBlocks", d)]
            good = lambda x: (is_call_to("CCoinsViewDB::GetBestBlock", x)
                              or any(match(["idx", ["local", h], ["int", 1]], x) for h in heads))
            bad = [(l, show(x)) for l, x in vals if not good(x)]
            ok = bool(vals) and not bad
            detail["old_tip_values"] = [(l, show(x)) for l, x in vals]
        ctx.ob("BatchWrite/heads-value@L%s" % s.line, "PROVENANCE",
               "DB_HEAD_BLOCKS is written as {block_hash (new), old tip} where the old tip is GetBestBlock() or, while replaying, GetHeadBlocks()[1]",
               ok, s.where, None if ok else detail)
    # the readers use the same keys
    for q, k in (("CCoinsViewDB::GetBestBlock", "DB_BEST_BLOCK"), ("CCoinsViewDB::GetHeadBlocks", "DB_HEAD_BLOCKS")):
        g = ctx.used(P.fn(q))
        rs = sites(g, mcall_named("CDBWrapper::Read"), P)
        ok = len(rs) == 1 and const_key(call_args(rs[0].expr)[0], k)
        ctx.ob("%s/key" % q.rsplit("::", 1)[-1], "SYMMETRY", "%s reads the key %s that BatchWrite writes" % (q, k), ok, g.where)
    kb, kh, kc = P.const("DB_BEST_BLOCK"), P.const("DB_HEAD_BLOCKS"), P.const("DB_COIN")
    ctx.ob("const/coins-db-keys", "CONST", "DB_BEST_BLOCK, DB_HEAD_BLOCKS and DB_COIN are three distinct keys", len({kb, kh, kc}) == 3 and None not in (kb, kh, kc),
           None, {"values": [kb, kh, kc]})


def local_defs_of(f):
    out = {}
    for st in stmts(f.body):
        if st.get("k") == "decl" and is_expr(st.get("i")):
            out[st.get("n")] = st["i"]
    return out


# --------------------------------------------------------------------------------------------- (2) flush ordering
def flush_state(ctx, P):
    f = ctx.used(P.fn("Chainstate::FlushStateToDisk"))
    coins = mcall_named("CCoinsViewCache::Flush", "CCoinsViewCache::Sync")
    marks = [("FILES", mcall_named("node::BlockManager::FlushChainstateBlockFile")),
             ("INDEX", mcall_named("node::BlockManager::WriteBlockIndexDB")),
             ("COINS", coins)]
    # a local completion flag set only after the coins flush (currently `full_flush_completed`)
    probe = MustFlow(f, P, marks=marks)
    probe.watch = lambda e: is_expr(e) and e[0] == "b" and e[1] == "=" and is_expr(e[2]) and e[2][0] == "local" and match(["bool", True], e[3])
    probe.run()
    flags = set()
    for name in sorted({e[2][1] for e, _, _ in probe.events}):
        vals = local_values(f, name)
        if not all(match(["bool", ANY], v) for _, v in vals):
            continue
        true_lines = {l for l, v in vals if match(["bool", True], v)}
        after = {stmt.get("l") for e, st, stmt in probe.events if e[2][1] == name and "COINS" in st}
        before = {stmt.get("l") for e, st, stmt in probe.events if e[2][1] == name and "COINS" not in st}
        if true_lines and true_lines <= after - before:
            flags.add(name)
    bm = [("FLUSHED", (lambda a, n=n: match(["local", n], a)), True) for n in sorted(flags)]
    t_coins = "the coins view is flushed only after the block/undo files were flushed and the block index was written (the chainstate may refer to both)"
    checks = [
        ("index-after-files", mcall_named("node::BlockManager::WriteBlockIndexDB"), ["FILES"],
         "the block index is written only after the block and undo files were flushed (index entries refer to file positions)"),
        ("unlink-after-index", mcall_named("node::BlockManager::UnlinkPrunedFiles"), ["INDEX"],
         "pruned files are unlinked only after the block index recording the pruning was written"),
        ("coins-after-index", coins, ["FILES", "INDEX"], t_coins),
        ("last-flushed-after-coins", assign_to_field("Chainstate::m_last_flushed_block"), [("COINS", "FLUSHED")],
         "m_last_flushed_block is updated only after the coins flush"),
        ("signal-after-coins", mcall_named("ValidationSignals::ChainStateFlushed"), [("COINS", "FLUSHED")],
         "ChainStateFlushed is signalled only after the coins flush completed (indexes commit their position on this signal)"),
    ]
    must_before(ctx, f, P, marks, checks, "FlushStateToDisk", branch_marks=bm)
    # the object flushed is the chainstate's CoinsTip()
    for s in sites(f, coins, P):
        ok = is_call_to("Chainstate::CoinsTip", call_obj(s.expr))
        ctx.ob("FlushStateToDisk/coins-object@L%s" % s.line, "PROVENANCE", "the view flushed is this chainstate's CoinsTip()", ok, s.where)

    # the block index write is synchronous
    wi = ctx.used(P.fn("node::BlockManager::WriteBlockIndexDB"))
    ss = sites(wi, mcall_named("kernel::BlockTreeDB::WriteBatchSync"), P)
    ctx.ob("WriteBlockIndexDB/sync-write", "EFFECT", "WriteBlockIndexDB writes through BlockTreeDB::WriteBatchSync", len(ss) >= 1, wi.where)
    ws = ctx.used(P.fn("kernel::BlockTreeDB::WriteBatchSync"))
    ss = sites(ws, mcall_named("CDBWrapper::WriteBatch"), P)
    ctx.floor("WriteBatchSync -> WriteBatch", len(ss), 1)
    for s in ss:
        a = call_args(s.expr)
        ok = len(a) >= 2 and match(["bool", True], a[1])
        ctx.ob("WriteBatchSync/fSync@L%s" % s.line, "EFFECT", "BlockTreeDB::WriteBatchSync passes fSync=true to CDBWrapper::WriteBatch", ok, s.where,
               None if ok else {"args": [show(x) for x in a]})
    wb = ctx.used(P.fn("CDBWrapper::WriteBatch"))
    ss = sites(wb, lambda e: is_expr(e) and e[0] in ("mcall", "vcall") and e[1] == "leveldb::DB::Write", P)
    ctx.floor("CDBWrapper::WriteBatch -> leveldb Write", len(ss), 1)
    for s in ss:
        a = call_args(s.expr)
        ok = bool(a) and match(["?:", ["param", "fSync"], [".", ANY, "LevelDBContext::syncoptions"], [".", ANY, "LevelDBContext::writeoptions"]], a[0])
        ctx.ob("CDBWrapper::WriteBatch/options@L%s" % s.line, "EFFECT", "CDBWrapper::WriteBatch uses the sync write options exactly when fSync is set", ok, s.where,
               None if ok else {"options": show(a[0]) if a else None})
    must_before(ctx, wb, P, [("WRITE", lambda e: is_expr(e) and e[0] in ("mcall", "vcall") and e[1] == "leveldb::DB::Write")],
                [("status-checked", any_call_named("HandleError"), ["WRITE"], "the LevelDB status of the batch write is passed to HandleError (a failed write throws)")],
                "CDBWrapper::WriteBatch")
    sync_set = []
    for c in P.fns("CDBWrapper::CDBWrapper"):
        sync_set += sites(c, lambda e: match(["b", "=", [".", [".", ANY, "LevelDBContext::syncoptions"], "leveldb::WriteOptions::sync"], ["bool", True]], e), P)
        bad = sites(c, lambda e: match(["b", "=", [".", [".", ANY, "LevelDBContext::syncoptions"], "leveldb::WriteOptions::sync"], ["bool", False]], e), P)
        sync_set = [] if bad else sync_set
    ctx.ob("CDBWrapper/syncoptions", "EFFECT", "the CDBWrapper constructor sets syncoptions.sync = true", len(sync_set) >= 1, None)

    # block/undo file flush really commits
    ff = ctx.used(P.fn("FlatFileSeq::Flush"))
    commit_ok = lambda a: is_expr(a) and a[0] == "call" and a[1] == "FileCommit"
    must_before(ctx, ff, P, [], [], "FlatFileSeq::Flush", branch_marks=[("COMMIT", commit_ok, True)],
                exit_checks=[("success-after-commit", ret_true, ["COMMIT"], "FlatFileSeq::Flush reports success only if FileCommit succeeded")])
    fc = ctx.used(P.fn("node::BlockManager::FlushChainstateBlockFile"))
    fb = ctx.used(P.fn("node::BlockManager::FlushBlockFile"))
    fu = ctx.used(P.fn("node::BlockManager::FlushUndoFile"))
    chain = [(fc, "node::BlockManager::FlushBlockFile", None), (fb, "FlatFileSeq::Flush", "node::BlockManager::m_block_file_seq"),
             (fb, "node::BlockManager::FlushUndoFile", None), (fu, "FlatFileSeq::Flush", "node::BlockManager::m_undo_file_seq")]
    for g, q, obj in chain:
        ss = [s for s in sites(g, mcall_named(q), P) if obj is None or match([".", ANY, obj], call_obj(s.expr))]
        ctx.ob("%s/calls/%s%s" % (g.q.rsplit("::", 1)[-1], q.rsplit("::", 1)[-1], "(%s)" % obj.rsplit("::", 1)[-1] if obj else ""), "EFFECT",
               "%s calls %s%s" % (g.q, q, " on " + obj if obj else ""), len(ss) >= 1, g.where)


# --------------------------------------------------------------------------------------------- (3) data before position
def writers(ctx, P):
    wu = ctx.used(P.fn("node::BlockManager::WriteBlockUndo"))
    undo_written = lambda e: (is_expr(e) and e[0] == "b" and e[1] == "<<" and len(e) > 4 and "HashWriter" not in e[4]
                              and match(["param", "blockundo"], e[3]))
    t = "the undo position / BLOCK_HAVE_UNDO is recorded in the block index only after the undo data was written and the file closed without error"
    must_before(ctx, wu, P, [("DATA", undo_written)],
                [("nUndoPos", assign_to_field("CBlockIndex::nUndoPos"), ["DATA", "CLOSED"], t),
                 ("HAVE_UNDO", lambda e: assign_to_field("CBlockIndex::nStatus")(e) and contains(["enum", "BLOCK_HAVE_UNDO"], e[3]), ["DATA", "CLOSED"], t)],
                "WriteBlockUndo", branch_marks=fclose_ok_mark("CLOSED"))
    wb = ctx.used(P.fn("node::BlockManager::WriteBlock"))
    block_written = lambda e: (is_expr(e) and e[0] == "b" and e[1] == "<<" and len(e) > 4 and contains(["param", "block"], e[3]))
    nonnull = lambda st: st.get("k") == "ret" and not (is_expr(st.get("v")) and st["v"][0] == "ctor" and len(st["v"]) == 2)
    must_before(ctx, wb, P, [("DATA", block_written)], [], "WriteBlock", branch_marks=fclose_ok_mark("CLOSED"),
                exit_checks=[("position-after-data", nonnull, ["DATA", "CLOSED"],
                              "WriteBlock returns a non-null position only after the block was written and the file closed without error")])
    ab = ctx.used(P.fn("ChainstateManager::AcceptBlock"))
    stored = mcall_named("node::BlockManager::WriteBlock", "node::BlockManager::UpdateBlockInfo")
    must_before(ctx, ab, P, [("STORED", stored)],
                [("index-after-store", mcall_named("ChainstateManager::ReceivedBlockTransactions"), ["STORED"],
                  "AcceptBlock records the block position in the index (ReceivedBlockTransactions) only after WriteBlock / UpdateBlockInfo")], "AcceptBlock")
    for s in sites(ab, mcall_named("ChainstateManager::ReceivedBlockTransactions"), P):
        a = call_args(s.expr)
        ok = len(a) >= 3 and a[2][0] == "local"
        detail = None
        if ok:
            vals = local_values(ab, a[2][1])
            good = lambda x: (is_call_to("node::BlockManager::WriteBlock", x) or match(["u", "*", ["param", "dbp"]], x)
                              or (x[0] in ("ctor", "init") and len([y for y in x[2:] if is_expr(y)]) == 0))
            bad = [(l, show(x)) for l, x in vals if not good(x)]
            ok = not bad and any(is_call_to("node::BlockManager::WriteBlock", x) for _, x in vals)
            detail = {"values": [(l, show(x)) for l, x in vals]}
        ctx.ob("AcceptBlock/position-provenance@L%s" % s.line, "PROVENANCE",
               "the position recorded for the block is the one returned by WriteBlock (or the caller-supplied *dbp during reindex)", ok, s.where, None if ok else detail)
    posn = {show(call_args(s.expr)[2]) for s in sites(ab, mcall_named("ChainstateManager::ReceivedBlockTransactions"), P)}
    check_guard(ctx, ab, P, mcall_named("ChainstateManager::ReceivedBlockTransactions"), "DBP || !NULLPOS",
                {"DBP": "dbp", "NULLPOS": lambda k_: any(k_ == "%s.IsNull()" % n for n in posn)}, "AcceptBlock/nonnull-position",
                "the block is marked as stored only if WriteBlock returned a non-null position")


# --------------------------------------------------------------------------------------------- (4) start-up
def startup(ctx, P):
    ci = ctx.used(P.fn("node::CompleteChainstateInitialization"))
    replay_ok = lambda a: is_expr(a) and a[0] in ("mcall", "vcall") and a[1] == "Chainstate::ReplayBlocks"
    must_before(ctx, ci, P, [], [("LoadChainTip-after-replay", mcall_named("Chainstate::LoadChainTip"), ["REPLAYED"],
                                  "at start-up LoadChainTip is called only after ReplayBlocks returned true for that chainstate")],
                "CompleteChainstateInitialization", branch_marks=[("REPLAYED", replay_ok, True)])
    rb = ctx.used(P.fn("Chainstate::ReplayBlocks"))
    subst = naming(rb, P)
    heads = [n for n, d in local_defs_of(rb).items() if contains(["vcall", "CCoinsView::GetHeadBlocks"], d) or contains(["mcall", "CCoinsViewDB::GetHeadBlocks"], d)]
    if len(heads) != 1:
        raise AnalysisBroken("ReplayBlocks: head-blocks local not found")
    h = heads[0]
    atoms = {"EMPTY": "%s.empty()" % h, "TWO": "%s.size() == 2" % h}
    n = 0
    for e in exits(rb, P, subst):
        if is_true_ret(e):
            n += 1
            fb, mp, un = F.bind_atoms(e.formula, atoms)
            cex = F.counterexample(fb, F.parse("EMPTY || TWO"))
            ctx.ob("ReplayBlocks/heads-ladder@L%s" % e.line, "LADDER", "ReplayBlocks succeeds only if the coins DB has no head blocks or exactly two (new, old)",
                   cex is None, "%s:%s" % (rb.file, e.line), None if cex is None else {"counterexample": cex, "path": F.fshow(e.formula)[:800]})
    ctx.floor("ReplayBlocks successful exits", n, 2)
    is_empty = lambda a: is_expr(a) and a[0] == "mcall" and a[1].endswith("::empty") and match(["local", h], a[2])
    setbest = mcall_named("CCoinsViewCache::SetBestBlock")
    flush = mcall_named("CCoinsViewCache::Flush")
    must_before(ctx, rb, P, [("SETBEST", setbest), ("FLUSH", flush)],
                [("flush-after-setbest", flush, ["SETBEST"], "the replayed view is flushed only after its best block was set")], "ReplayBlocks",
                branch_marks=[("NOHEADS", is_empty, True)],
                exit_checks=[("replayed-is-flushed", ret_true, [("NOHEADS", "FLUSH")],
                              "ReplayBlocks reports success only if there was nothing to replay or the replayed view was flushed with its new best block")])
    # the new tip is heads[0] (the first element written by BatchWrite), the old one heads[1]
    for s in sites(rb, setbest, P):
        a = call_args(s.expr)[0]
        ok = match(["mcall", "CBlockIndex::GetBlockHash", ["local", V("p")]], a)
        detail = {"arg": show(a)}
        if ok:
            p = a[2][1]
            vals = [(l, v) for l, v in local_values(rb, p) if not match(["null"], v)]
            detail["values"] = [(l, show(v)) for l, v in vals]
            ok = bool(vals) and all(contains(["idx", ["local", h], ["int", 0]], v) for _, v in vals)
        ctx.ob("ReplayBlocks/new-tip@L%s" % s.line, "PROVENANCE",
               "after replay the best block is set to the block index entry of head block [0] (the 'new' hash BatchWrite writes first)", ok, s.where, None if ok else detail)
    # the roll-back starts at heads[1]
    rollback = sites(rb, mcall_named("Chainstate::DisconnectBlock"), P)
    ctx.floor("ReplayBlocks DisconnectBlock sites", len(rollback), 1)
    for s in rollback:
        a = call_args(s.expr)
        ok = len(a) >= 2 and a[1][0] == "local"
        detail = None
        if ok:
            vals = [(l, v) for l, v in local_values(rb, a[1][1]) if not match(["null"], v)]
            inits = [v for _, v in vals if not match([".", ["local", a[1][1]], "CBlockIndex::pprev"], v)]
            ok = bool(inits) and all(contains(["idx", ["local", h], ["int", 1]], v) for v in inits)
            detail = {"values": [(l, show(v)) for l, v in vals]}
        ctx.ob("ReplayBlocks/old-tip@L%s" % s.line, "PROVENANCE", "the roll-back walks pprev links starting from head block [1] (the 'old' hash)", ok, s.where,
               None if ok else detail)
    lt = ctx.used(P.fn("Chainstate::LoadChainTip"))
    ss = sites(lt, mcall_named("CChain::SetTip"), P)
    ctx.floor("LoadChainTip SetTip sites", len(ss), 1)
    for s in ss:
        a = call_args(s.expr)[0]
        tip = a
        seen = 0
        while seen < 4:
            seen += 1
            if tip[0] == "u" and tip[1] == "*":
                tip = tip[2]
            elif tip[0] == "local" and tip[1] in local_defs_of(lt) and len(local_values(lt, tip[1])) == 1:
                tip = local_defs_of(lt)[tip[1]]
            else:
                break
        ok = is_call_to("node::BlockManager::LookupBlockIndex", tip) and contains(["vcall", "CCoinsViewCache::GetBestBlock"], call_args(tip)[0])
        ctx.ob("LoadChainTip/tip-is-coins-best-block@L%s" % s.line, "PROVENANCE",
               "the chain tip loaded at start-up is the block index entry of the coins view's best block", ok, s.where, None if ok else {"tip": show(tip)})


# --------------------------------------------------------------------------------------------- (5) replay is idempotent
def replay_idempotent(ctx, P):
    """After a crash between the batches of one coins flush, the database holds a mixture of old and new coins: the replay must tolerate
    inputs that are already gone and outputs that already exist, and fail only when a block cannot be read."""
    import re
    rf = ctx.used(P.fn("Chainstate::RollforwardBlock"))
    sub = naming(rf, P)
    read = re.compile(r".*ReadBlock\(\w+, \*pindex\)")
    leaves = stmt_sites(rf, lambda st: st.get("k") in ("ret", "throw"), P)
    nfail = 0
    for s in leaves:
        if s.stmt.get("k") == "ret" and match(["bool", True], s.stmt.get("v")):
            continue
        nfail += 1
        fb, mp, un = F.bind_atoms(s.formula(sub), {"READ": read})
        cex = F.counterexample(fb, F.parse("!READ"))
        ctx.ob("RollforwardBlock/fails-only-on-read@L%s" % s.line, "LADDER",
               "RollforwardBlock fails only when the block cannot be read from disk: a coin that is already spent (or an output that already exists) "
               "after a partially written flush must not abort the replay", cex is None and "READ" in mp.values(), s.where,
               None if cex is None else {"path": F.fshow(s.formula(sub))[:600], "counterexample": cex})
    ctx.floor("RollforwardBlock failure exits", nfail, 1)
    loops = [st for st in stmts(rf.body) if st.get("k") in ("for", "foreach", "while", "do")]
    early = [st for l in loops for st in stmts(l.get("b")) if st.get("k") in ("break", "continue", "ret", "throw")]
    ctx.ob("RollforwardBlock/no-early-exit", "LADDER", "the replay loops of RollforwardBlock (transactions, inputs) are never left early: every transaction of the block is re-applied",
           bool(loops) and not early, rf.where, {"early_exits": [st.get("l") for st in early]})
    spend = sites(rf, mcall_named("CCoinsViewCache::SpendCoin"), P)
    ctx.floor("RollforwardBlock SpendCoin sites", len(spend), 1)
    adds = sites(rf, any_call_named("AddCoins"), P)
    ctx.floor("RollforwardBlock AddCoins sites", len(adds), 1)
    txloops = [st for st in loops if st.get("k") == "foreach" and match([".", ["local", ANY], "CBlock::vtx"], st.get("range"))]
    for s in adds:
        a = call_args(s.expr)
        ok = len(a) >= 4 and match(["bool", True], undefarg(a[3])) and match(["param", "inputs"], a[0]) and match([".", ["param", "pindex"], "CBlockIndex::nHeight"], a[2])
        ctx.ob("RollforwardBlock/AddCoins-overwrite@L%s" % s.line, "EFFECT", "RollforwardBlock re-adds outputs with check_for_overwrite = true (an output already present "
               "from a completed batch is tolerated), at the block's height, into the replay view", ok, s.where, {"args": [show(x) for x in a]})
        # once per transaction, unconditionally
        inl = [l for l in txloops if l.get("l") <= s.line <= max(x.get("l") or 0 for x in stmts(l))]
        uncond = False
        if len(inl) == 1:
            fm = F.mk_and([g.formula(sub) for g in s.guards if (g.line or 0) >= inl[0].get("l")])
            free = fm
            uncond = F.counterexample(F.T, _forget_done(free)) is None and not [g for g in s.guards if (g.line or 0) >= inl[0].get("l") and g.kind in ("if", "case", "loop")]
        ctx.ob("RollforwardBlock/AddCoins-every-tx@L%s" % s.line, "EFFECT", "AddCoins is reached for every transaction of the replayed block (not conditional on the result of spending its inputs)",
               uncond, s.where)
    # ---- the roll-back half of ReplayBlocks: UNCLEAN is tolerated
    rb = ctx.used(P.fn("Chainstate::ReplayBlocks"))
    sub = naming(rb, P)
    dis = sites(rb, mcall_named("Chainstate::DisconnectBlock"), P)
    if len(dis) != 1:
        raise AnalysisBroken("ReplayBlocks: DisconnectBlock site not unique")
    W = [st for st in stmts(rb.body) if st.get("k") in ("while", "for", "do") and st.get("l") <= dis[0].line <= max(x.get("l") or 0 for x in stmts(st))]
    if not W:
        raise AnalysisBroken("ReplayBlocks: roll-back loop not found")
    W = sorted(W, key=lambda st: st.get("l"))[-1]
    lo, hi = W.get("l"), max(x.get("l") or 0 for x in stmts(W))
    resn = [st["n"] for st in stmts(W) if st.get("k") == "decl" and st.get("i") is dis[0].expr]
    call = re.escape(show(dis[0].expr)).replace("pindexOld", r"pindexOld(#\d+)?")
    lhs = "(?:%s)" % "|".join([re.escape(n) for n in resn] + [".*DisconnectBlock\\(.*\\)"])
    atoms = {"READ": re.compile(r".*ReadBlock\(\w+, \*\w+\)"),
             "FAILED": re.compile(r"(%s == DISCONNECT_FAILED|DISCONNECT_FAILED == %s)" % (lhs, lhs))}
    n = 0
    for s in stmt_sites(rb, lambda st: st.get("k") in ("ret", "throw", "break"), P):
        if not (lo <= (s.line or 0) <= hi):
            continue
        n += 1
        fm = F.mk_and([g.formula(sub) for g in s.guards if (g.line or 0) >= lo and g.kind != "loop"])
        fb, mp, un = F.bind_atoms(fm, atoms)
        cex = F.counterexample(fb, F.parse("!READ || FAILED"))
        ctx.ob("ReplayBlocks/rollback-tolerates-unclean@L%s" % s.line, "LADDER",
               "the roll-back half of ReplayBlocks stops only if a block cannot be read or DisconnectBlock returned DISCONNECT_FAILED; DISCONNECT_UNCLEAN "
               "(a coin already restored/removed by a completed batch) is tolerated", cex is None, s.where,
               None if cex is None else {"guard": F.fshow(fm)[:500], "unbound": un[:6], "counterexample": cex})
    ctx.floor("ReplayBlocks roll-back failure exits", n, 2)


def _forget_done(f):
    """done(loop@..) atoms are facts about completed inner loops, not conditions: treat them as true."""
    return _subst_true(f, lambda k: k.startswith("done(loop@"))


def _subst_true(f, pred):
    t = f[0]
    if t == "atom":
        return F.T if pred(f[1]) else f
    if t == "not":
        return F.mk_not(_subst_true(f[1], pred))
    if t == "and":
        return F.mk_and([_subst_true(x, pred) for x in f[1]])
    if t == "or":
        return F.mk_or([_subst_true(x, pred) for x in f[1]])
    return f



def check(ctx):
    P = ctx.program(UNITS)
    batch_write(ctx, P)
    flush_state(ctx, P)
    writers(ctx, P)
    startup(ctx, P)
    replay_idempotent(ctx, P)
