"""C18 UTXO encoding preserves every coin (DESIGN §3 C18)."""
import copy
import re

from sa.engine.api import *
from sa.engine.paths import HARD_ASSERT_MACROS
from sa.rules._helpers_C import strip

UNITS = ["compressor.cpp", "txdb.cpp", "node/blockstorage.cpp"]
EXPLANATION = ("SYMMETRY (writer/reader agreement): for Coin::Serialize/Unserialize, TxInUndoFormatter::Ser/Unser and AmountCompression::Ser/Unser the "
               "ordered sequences of stream operations (wrapper used or not, object written/read, guarding condition) are extracted from both functions "
               "and compared with each other; the height/coinbase code is packed by the writer as (nHeight << K) | fCoinBase and unpacked by the reader "
               "with the same K and the complementary mask into the same fields; the legacy dummy slot of the undo format is written (constant 0) and "
               "skipped (dead local) under the same condition; every field of Coin / CTxOut is covered; TxOutCompression has one READWRITE body for "
               "both directions. ScriptCompression: the writer's size offset, the reader's threshold and its subtraction are the same constant "
               "(nSpecialScripts); TABLE agreement between CompressScript (tag byte -> bytes emitted), GetSpecialScriptSize (tag -> payload bytes the "
               "reader consumes) and DecompressScript (tag -> bytes copied; cases = all tags below nSpecialScripts); the reader consumes exactly the "
               "announced number of bytes on both the oversized and the normal path. Shape agreement: the per-tag script template DecompressScript writes "
               "(length, fixed opcode/push bytes, key header byte, payload offset) is extracted and every accepting path of IsToKeyID / IsToScriptID / "
               "IsToPubKey must imply it (0x04 header and IsFullyValid for rebuilt keys); CompressScript writes a tag only under the key header the "
               "decompressor regenerates for it.")
ASSUMPTIONS = ["VARINT encodes 0 as the single byte 0x00 (legacy dummy slot: writer emits one zero byte, reader reads one VARINT)",
               "VARINT of a value < 0x80 is one byte, so the first byte of a compressed special script doubles as the reader's nSize",
               "CPubKey::Decompress() turns a valid 0x02/0x03 key into the 65-byte key with header 0x04 (so a rebuilt uncompressed key always starts with 0x04)",
               "the wrappers at corresponding positions use the same formatter (template arguments of Using<F>() are not present in the extracted facts)"]
CLAIM = dict(
    technique="static analysis: writer/reader symmetry of extracted stream-operation sequences + table agreement between three routines",
    text="For all coins: what Coin::Serialize / TxInUndoFormatter::Ser / AmountCompression::Ser / ScriptCompression::Ser emit is consumed field by field, in the "
         "same order, under the same conditions and with inverse packing by the corresponding reader, and the special-script size table is consistent "
         "across compressor, size function and decompressor. Round-trip tests sample values; this compares the two code paths structurally.",
    note="Not decided: CompressAmount/DecompressAmount being numeric inverses, pubkey decompression, VARINT coding itself, the identity of the formatter inside "
         "Using<F>() (engine limitation: template arguments are not extracted; the byte width of the literal written into the legacy dummy slot is folded away too).",
    ref="DESIGN.md §3 C18")

INVERSE = {("CompressAmount", "DecompressAmount")}


# --------------------------------------------------------------------------------------------------
# stream-operation extraction

def canon_fn(fn):
    """Copy of fn with parameters renamed to #0, #1, ... (so writer and reader can be compared)."""
    names = {p["n"]: "#%d" % i for i, p in enumerate(fn.params) if p.get("n")}

    def ren(e):
        if not is_expr(e):
            return e
        if e[0] == "param" and e[1] in names:
            return ["param", names[e[1]]]
        if e[0] == "umem" and len(e) == 3:          # dependent member access -> same shape as a resolved one
            return [".", ren(e[2]), e[1]]
        if e[0] == "." and len(e) == 3 and isinstance(e[2], str):
            return [".", ren(e[1]), e[2].rsplit("::", 1)[-1]]
        return [e[0]] + [ren(x) for x in e[1:]]
    f2 = copy.copy(fn)
    f2.body = copy.deepcopy(fn.body)
    for st in stmts(f2.body):
        for k in ("c", "e", "v", "i", "range", "inc"):
            if is_expr(st.get(k)):
                st[k] = ren(st[k])
    f2.stream = names.get(fn.params[0]["n"]) if fn.params else None
    return f2


def cname(e):
    c = callee(e)
    return c.lstrip("?").rsplit("::", 1)[-1] if c else None


def classify(x):
    x0 = strip(x)
    if is_expr(x0) and x0[0] in ("call", "ucall") and cname(x0) == "Using" and len(call_args(x0)) == 1:
        return "wrapped", strip(call_args(x0)[0])
    if is_expr(x0) and x0[0] in ("ctor", "init") and "span" in str(x0[1]) and len(x0) == 3:
        return "span", strip(x0[2])
    return "raw", x0


def guard_formula(site):
    gs = []
    for g in site.guards:
        if g.kind == "assert":
            continue
        if g.kind == "post" and isinstance(g.vals, dict) and g.vals.get("k") == "expr" and g.vals.get("m") in HARD_ASSERT_MACROS | {"Assume"}:
            continue
        gs.append(g.formula(None))
    return F.mk_and(gs)


def stream_ops(fn, P):
    """Ordered [(dir, wrapper kind, object expr, guard formula, line)] of operations on the stream parameter."""
    S = ["param", fn.stream]
    ops = []
    for s in all_sites(fn, P):
        e = s.expr
        if e is None:
            continue
        d = None
        if e[0] in ("call", "ucall") and cname(e) in ("Serialize", "Unserialize") and len(call_args(e)) == 2 and call_args(e)[0] == S:
            d, x = ("w" if cname(e) == "Serialize" else "r"), call_args(e)[1]
        elif e[0] == "b" and e[1] in ("<<", ">>") and e[2] == S:
            d, x = ("w" if e[1] == "<<" else "r"), e[3]
        elif e[0] == "b" and e[1] in ("<<", ">>") and is_expr(e[2]) and e[2][0] == "b" and e[2][1] == e[1]:
            root = e
            while is_expr(root) and root[0] == "b" and root[1] == e[1]:
                root = root[2]
            if root == S:
                raise AnalysisBroken("%s: chained stream operators are not supported by this rule" % fn.q)
        elif e[0] in ("mcall", "umcall") and cname(e) == "ignore" and call_obj(e) == S:
            ops.append(("r", "ignore", strip(call_args(e)[0]), guard_formula(s), s.line))
            continue
        if d:
            kind, obj = classify(x)
            ops.append((d, kind, obj, guard_formula(s), s.line))
    return ops


def local_def(fn, name):
    d = [st for st in stmts(fn.body) if st.get("k") == "decl" and st.get("n") == name]
    return d[0] if len(d) == 1 else None


def uses(fn, name):
    """Uses of a local, looking through plain copies (`const T b{a};`): [(stmt, parent expr with the copy's name replaced by `name`, or None)]."""
    names = {name}
    copies = set()
    grew = True
    while grew:
        grew = False
        for st in stmts(fn.body):
            if st.get("k") == "decl" and st.get("n") and st["n"] not in names and is_expr(st.get("i")) and strip(st["i"])[0] == "local" and strip(st["i"])[1] in names:
                names.add(st["n"])
                copies.add(id(st))
                grew = True

    def ren(e):
        if not is_expr(e):
            return e
        if e[0] == "local" and e[1] in names:
            return ["local", name]
        return [e[0]] + [ren(x) for x in e[1:]]
    out = []
    for st, e in all_exprs(fn.body):
        if id(st) in copies:
            continue
        e = ren(e)
        for x in subexprs(e):
            if any(is_expr(y) and y == ["local", name] for y in x[1:]):
                out.append((st, x))
        if e == ["local", name]:
            out.append((st, None))
    return out


def unpack(e):
    """(field, K, flag) if e is (field << K) | flag."""
    e = strip(e)
    b = {}
    if match(["b", "|", ["b", "<<", V("h"), ["int", V("k")]], V("c")], e, b):
        return strip(b["h"]), b["k"], strip(b["c"])
    return None


def fields_of(P, rec):
    return {f["n"]: f["ty"] for f in P.record(rec)["fields"]}


def field_name(e):
    e = strip(e)
    return e[2] if is_expr(e) and e[0] == "." and len(e) == 3 else None


# --------------------------------------------------------------------------------------------------
def compare_pair(ctx, P, oid, wq, rq, record, obj_base, where_rec=None):
    """Generic writer/reader comparison; returns nothing, records obligations."""
    w0, r0 = ctx.used(P.fn(wq)), ctx.used(P.fn(rq))
    w, r = canon_fn(w0), canon_fn(r0)
    W, R = stream_ops(w, P), stream_ops(r, P)
    if not W or not R:
        raise AnalysisBroken("%s: no stream operations found in %s / %s" % (oid, wq, rq))
    bad_dir = [o for o in W if o[0] != "w"] + [o for o in R if o[0] != "r"]
    ctx.ob("%s/count" % oid, "SYMMETRY", "%s and %s perform the same number of stream operations, the writer only writes and the reader only reads" % (wq, rq),
           len(W) == len(R) and not bad_dir, w0.where, {"writer": [(o[1], show(o[2])) for o in W], "reader": [(o[1], show(o[2])) for o in R]})
    covered_w, covered_r = set(), set()
    for i, (a, b) in enumerate(zip(W, R)):
        where = "%s:%s" % (r0.file, b[4])
        detail = {"writer": (a[1], show(a[2]), F.fshow(a[3])), "reader": (b[1], show(b[2]), F.fshow(b[3]))}
        gok = F.equivalent(a[3], b[3])
        ctx.ob("%s/op%d/guard" % (oid, i), "SYMMETRY", "operation %d is written and read under the same condition" % i, gok, where, None if gok else detail)
        wl, rl = a[2][0] == "local", b[2][0] == "local"
        if not wl and not rl and a[2][0] != "int" and not (is_expr(a[2]) and a[2][0] in ("call", "ucall")):
            ok = a[1] == b[1] and a[2] == b[2]
            ctx.ob("%s/op%d/object" % (oid, i), "SYMMETRY", "operation %d writes and reads the same object through the same kind of wrapper" % i, ok, where, None if ok else detail)
            if field_name(a[2]):
                covered_w.add(field_name(a[2]))
            if field_name(b[2]):
                covered_r.add(field_name(b[2]))
            continue
        if wl and rl:
            # packed code word
            wd = local_def(w, a[2][1])
            pk = unpack(wd.get("i")) if wd is not None and is_expr(wd.get("i")) else None
            wuses = [u for u in uses(w, a[2][1])]
            ru = uses(r, b[2][1])
            shifts, masks, other = [], [], []
            for st, x in ru:
                if x is None:
                    other.append(st.get("l"))
                    continue
                par = [y for _, e in stmt_exprs(st) for y in subexprs(e) if y[0] == "b" and y[1] == "=" and is_expr(y[3]) and strip(y[3])[:2] == x[:2]
                       and len(strip(y[3])) == len(x) and strip(y[3])[3:] == x[3:]]
                if x[0] == "b" and x[1] == ">>" and x[2] == ["local", b[2][1]] and par:
                    shifts.append((strip(par[0][2]), x[3], st.get("l")))
                elif x[0] == "b" and x[1] == "&" and x[2] == ["local", b[2][1]] and par:
                    masks.append((strip(par[0][2]), x[3], st.get("l")))
                elif x[0] in ("call", "ucall") and cname(x) == "Using":
                    continue
                else:
                    other.append(st.get("l"))
            ok = a[1] == b[1] == "wrapped" and pk is not None and len(shifts) == 1 and len(masks) == 1 and not other and len(wuses) == 1
            if ok:
                h, k, c = pk
                ok = shifts[0][0] == h and match(["int", k], shifts[0][1]) and masks[0][0] == c and match(["int", (1 << k) - 1], masks[0][1])
                ok = ok and fields_of(P, record).get(field_name(c)) == "bool" and k == 1
                ok = ok and all(l > b[4] for _, _, l in shifts + masks)
                covered_w |= {field_name(h), field_name(c)}
                covered_r |= {field_name(shifts[0][0]), field_name(masks[0][0])}
            ctx.ob("%s/op%d/code" % (oid, i), "SYMMETRY", "operation %d: the writer packs (height << K) | coinbase-bit into one wrapped word and the reader, after "
                   "reading it, assigns word >> K and word & (2^K - 1) to the same two fields (coinbase is a bool, K = 1)" % i, ok, where,
                   None if ok else dict(detail, packed=show(wd.get("i")) if wd is not None and is_expr(wd.get("i")) else None,
                                        shifts=[(show(x), show(y)) for x, y, _ in shifts], masks=[(show(x), show(y)) for x, y, _ in masks], other_uses=other))
            continue
        if a[2][0] == "int" and rl:
            # legacy dummy slot
            dead = [x for st, x in uses(r, b[2][1]) if not (x is not None and x[0] in ("call", "ucall") and cname(x) == "Using")]
            ok = a[1] == "raw" and a[2][1] == 0 and b[1] == "wrapped" and not dead
            ctx.ob("%s/op%d/dummy" % (oid, i), "SYMMETRY", "operation %d is the legacy dummy slot: the writer emits the constant 0 and the reader reads one value into a "
                   "local that is never used" % i, ok, where, None if ok else detail)
            continue
        if is_expr(a[2]) and a[2][0] in ("call", "ucall") and rl:
            # value transformed by an inverse pair
            fa = call_args(a[2])
            asg = [(st, x) for st, x in uses(r, b[2][1]) if x is not None and x[0] in ("call", "ucall") and cname(x) != "Using"]
            ok = a[1] == b[1] and len(fa) == 1 and len(asg) == 1 and (cname(a[2]), cname(asg[0][1])) in INVERSE
            if ok:
                tgt = [y for _, e in stmt_exprs(asg[0][0]) for y in subexprs(e) if y[0] == "b" and y[1] == "=" and is_expr(strip(y[3])) and cname(strip(y[3])) == cname(asg[0][1])]
                ok = len(tgt) == 1 and strip(tgt[0][2]) == strip(fa[0]) and asg[0][0].get("l") > b[4]
            ctx.ob("%s/op%d/transform" % (oid, i), "SYMMETRY", "operation %d: the writer emits f(value) and the reader assigns g(word read) to the same value, (f, g) being "
                   "the declared inverse pair CompressAmount/DecompressAmount" % i, ok, where, None if ok else detail)
            continue
        ctx.ob("%s/op%d/object" % (oid, i), "SYMMETRY", "operation %d writes and reads corresponding objects" % i, False, where, detail)
    if record:
        want = set(fields_of(P, record))
        ok = covered_w == want and covered_r == want
        ctx.ob("%s/fields" % oid, "SYMMETRY", "every field of %s is written by %s and restored by %s" % (record, wq, rq), ok, w0.where,
               {"fields": sorted(want), "written": sorted(x for x in covered_w if x), "read": sorted(x for x in covered_r if x)})
    # reader conditions only look at fields that were already restored
    for d_, kind, obj, g, line in R:
        for at in F.atoms(g):
            m = re.match(r"^(?:!\()?(#\d+|this)\.(\w+)", at)
            if m:
                fld = m.group(2)
                asg = [st.get("l") for st, e in all_exprs(r.body) for y in subexprs(e) if y[0] == "b" and y[1] == "=" and field_name(y[2]) == fld]
                ok = bool(asg) and all(l < line for l in asg)
                ctx.ob("%s/reader-guard@L%s" % (oid, line), "ORDER", "the reader's condition on `%s` is evaluated after that field was restored from the stream" % fld, ok,
                       "%s:%s" % (r0.file, line))


# --------------------------------------------------------------------------------------------------
def txout_compression(ctx, P):
    ops_ = [f for f in P.fns("TxOutCompression::SerializationOps")]
    if not ops_:
        raise AnalysisBroken("TxOutCompression::SerializationOps not found")
    f = ctx.used(ops_[0])
    calls = [x for _, e in all_exprs(f.body) for x in subexprs(e) if callee(x) and cname(x) == "SerReadWriteMany"]
    flds, allwrapped = [], True
    for c in calls:
        args = [a for a in call_args(c)]
        for a in args:
            if is_expr(a) and a[0] == "param":
                continue
            kind, obj = classify(a)
            allwrapped = allwrapped and kind == "wrapped"
            flds.append(obj[1] if obj[0] == "umem" else (field_name(obj) or "?").rsplit("::", 1)[-1])
    want = sorted(fields_of(P, "CTxOut"))
    ok = len(calls) == 1 and sorted(flds) == want and allwrapped and flds == ["nValue", "scriptPubKey"]
    ctx.ob("TxOutCompression/body", "SYMMETRY", "TxOutCompression has a single READWRITE body (used for both directions) covering every field of CTxOut, each through a "
           "compression wrapper, value first", ok, f.where, {"fields": flds, "record": want})
    for q, act in (("TxOutCompression::Ser", "ActionSerialize"), ("TxOutCompression::Unser", "ActionUnserialize")):
        g = ctx.used(P.fns(q)[0])
        cs = [x for _, e in all_exprs(g.body) for x in subexprs(e) if callee(x) and cname(x) == "SerializationOps"]
        ok = len(cs) == 1 and len(list(stmts(g.body))) <= 2 and contains(["init", act], cs[0]) or (len(cs) == 1 and contains(["ctor", act], cs[0]))
        ctx.ob("TxOutCompression/%s" % q.rsplit("::", 1)[1], "SYMMETRY", "%s only delegates to the shared READWRITE body with %s" % (q, act), bool(ok), g.where)


# --------------------------------------------------------------------------------------------------
def script_compression(ctx, P):
    S = P.const("ScriptCompression::nSpecialScripts")
    w0, r0 = ctx.used(P.fns("ScriptCompression::Ser")[0]), ctx.used(P.fns("ScriptCompression::Unser")[0])
    w, r = canon_fn(w0), canon_fn(r0)
    W, R = stream_ops(w, P), stream_ops(r, P)
    # ---- writer: compressed form | VARINT(size + S) then the raw script
    comp = [o for o in W if o[1] == "span" and o[2][0] == "local"]
    size = [o for o in W if o[1] == "wrapped"]
    raw = [o for o in W if o[1] == "span" and o[2] == ["param", "#1"]]
    ok = len(W) == 3 and len(comp) == 1 and len(size) == 1 and len(raw) == 1
    off = None
    if ok:
        cl = comp[0][2][1]
        gate = "CompressScript(#1, %s)" % cl
        ok = F.equivalent(comp[0][3], F.atom(gate)) and F.equivalent(size[0][3], F.mk_not(F.atom(gate))) and F.equivalent(raw[0][3], F.mk_not(F.atom(gate))) \
            and size[0][4] < raw[0][4]
        d = local_def(w, size[0][2][1]) if size[0][2][0] == "local" else None
        b = {}
        if d is not None and match(["b", "+", ["mcall", "prevector::size", ["param", "#1"]], ["int", V("k")]], strip(d.get("i")), b):
            off = b["k"]
        ok = ok and off is not None and len(uses(w, size[0][2][1])) == 1
    ctx.ob("ScriptCompression/writer", "SYMMETRY", "ScriptCompression::Ser emits either the compressed special form (when CompressScript succeeds) or VARINT(script.size() + "
           "offset) followed by the raw script", ok, w0.where, {"ops": [(o[1], show(o[2]), F.fshow(o[3])) for o in W], "offset": off})
    # ---- reader
    rd = [o for o in R if o[1] == "wrapped"]
    ok = len(rd) == 1 and rd[0][2][0] == "local" and F.equivalent(rd[0][3], F.T) and rd[0][4] == min(o[4] for o in R)
    if not ok:
        ctx.ob("ScriptCompression/reader-size", "SYMMETRY", "ScriptCompression::Unser first reads one VARINT size word unconditionally", False, r0.where)
        return
    n = rd[0][2][1]
    thr = [a for o in R if o[1] == "span" and o[2][0] == "local" for a in F.atoms(o[3]) if re.fullmatch(r"%s < \d+" % re.escape(n), a)]
    thr_v = {int(a.rsplit(" ", 1)[1]) for a in thr}
    subs = [x for _, e in all_exprs(r.body) for x in subexprs(e) if x[0] == "b" and x[1] == "-=" and x[2] == ["local", n]]
    sub_v = {x[3][1] for x in subs if match(["int", ANY], x[3])}
    ok = off is not None and thr_v == {off} and sub_v == {off} and len(subs) == 1 and off == S
    ctx.ob("ScriptCompression/offset", "SYMMETRY", "the offset added by the writer, the reader's special-script threshold and the amount the reader subtracts are the same "
           "constant (ScriptCompression::nSpecialScripts)", ok, r0.where, {"writer_offset": off, "reader_threshold": sorted(thr_v), "reader_subtracts": sorted(sub_v), "nSpecialScripts": S})
    SPECIAL = F.atom("%s < %d" % (n, off if off is not None else S))
    sp = [o for o in R if o[1] == "span" and o[2][0] == "local"]
    ok = len(sp) == 1 and F.equivalent(sp[0][3], SPECIAL)
    if ok:
        buf = sp[0][2][1]
        d = local_def(r, buf)
        init = strip(d.get("i")) if d is not None else None
        ok = is_expr(init) and init[0] == "ctor" and len(init) >= 3 and is_call_to("GetSpecialScriptSize", strip(init[2])) and call_args(strip(init[2])) == [["local", n]]
        dec = sites(r, call_to("DecompressScript"), P)
        ok = ok and len(dec) == 1 and call_args(dec[0].expr) == [["param", "#1"], ["local", n], ["local", buf]] and F.equivalent(guard_formula(dec[0]), SPECIAL) \
            and dec[0].line > sp[0][4]
    ctx.ob("ScriptCompression/reader-special", "SYMMETRY", "for a size word below the threshold the reader consumes exactly GetSpecialScriptSize(word) payload bytes and "
           "passes the same word and buffer to DecompressScript", ok, r0.where)
    rest = [o for o in R if o is not rd[0] and not (o[1] == "span" and o[2][0] == "local")]
    ign = [o for o in rest if o[1] == "ignore"]
    raw = [o for o in rest if o[1] == "span" and o[2] == ["param", "#1"]]
    rs = sites(r, lambda e: is_call_to("prevector::resize", e) and e[2] == ["param", "#1"], P)
    # the not-special test is made on the size word BEFORE the offset is subtracted (an older version of the local):
    # the version tag is dropped here, the order test/subtract/consume is checked separately below
    unstale = F.unstale
    ok = len(rest) == 2 and len(ign) == 1 and len(raw) == 1 and ign[0][2] == ["local", n] and len(rs) == 1 and call_args(rs[0].expr)[:1] == [["local", n]] and \
        rs[0].line < raw[0][4] and F.equivalent(guard_formula(rs[0]), raw[0][3]) and \
        F.equivalent(unstale(F.mk_or([ign[0][3], raw[0][3]])), F.mk_not(SPECIAL)) and F.implies(F.mk_and([ign[0][3], raw[0][3]]), F.Fa)
    if ok and subs:
        sub_line = [st.get("l") for st, e in all_exprs(r.body) for x in subexprs(e) if x is subs[0]][0]
        ok = sub_line < min(ign[0][4], raw[0][4])
    ctx.ob("ScriptCompression/reader-plain", "SYMMETRY", "for other size words the reader subtracts the offset and then consumes exactly that many bytes: it either skips them "
           "(oversized script) or resizes the script to that length and reads it", ok, r0.where, {"ops": [(o[1], show(o[2]), F.fshow(o[3])) for o in R]})
    # ---- the oversize cut-off admits every script up to and including MAX_SCRIPT_SIZE
    if len(ign) == 1 and len(raw) == 1:
        maxs = P.const("MAX_SCRIPT_SIZE")
        within = F.atom("%s < %d" % (n, maxs + 1))          # canonical form of  nSize <= MAX_SCRIPT_SIZE
        c1 = F.counterexample(ign[0][3], F.mk_not(within))
        c2 = F.counterexample(F.mk_and([F.mk_not(unstale(SPECIAL)), within]), unstale(raw[0][3]))
        ok = c1 is None and c2 is None
        ctx.ob("ScriptCompression/oversize-cutoff", "LADDER", "the reader replaces a stored script by OP_RETURN (skipping its bytes) only if its length exceeds MAX_SCRIPT_SIZE "
               "(%d): every non-special script of length <= MAX_SCRIPT_SIZE - still spendable - is read back in full" % maxs, ok, "%s:%s" % (r0.file, ign[0][4]),
               None if ok else {"skip_condition": F.fshow(ign[0][3]), "read_condition": F.fshow(raw[0][3]), "MAX_SCRIPT_SIZE": maxs, "counterexample": c1 or c2})
    # ---- tables
    cs = ctx.used(P.fn("CompressScript"))
    out = cs.params[1]["n"]
    produced = {}      # tag -> bytes emitted
    for e in exits(cs, P, {}):
        if not is_true_ret(e):
            continue
        blk = None
        # innermost top-level branch containing the exit: collect resize / out[0] writes that precede it on its path
        path_lines = {g.line for g in e.guards}
        rz, tags = None, None
        for s in all_sites(cs, P):
            x = s.expr
            if x is None or s.line >= e.line:
                continue
            if not all(any(g2.line == g.line and g2.kind == g.kind and g2.pol == g.pol for g2 in e.guards) for g in s.guards if g.kind != "post"):
                continue
            if not any(g.kind == "if" for g in s.guards):
                continue
            first_if = [g for g in e.guards if g.kind == "if"][0]
            if not any(g.kind == "if" and g.line == first_if.line for g in s.guards):
                continue
            if is_call_to("prevector::resize", x) and x[2] == ["param", out] and match(["int", ANY], call_args(x)[0]):
                rz = call_args(x)[0][1]
            if x[0] == "b" and x[1] == "=" and match(["idx", ["param", out], ["int", 0]], x[2]):
                tags = tag_values(strip(x[3]), s.formula({}))
        if rz is None or not tags:
            raise AnalysisBroken("CompressScript: could not derive (tag, size) for the success exit at line %s" % e.line)
        for t in tags:
            produced.setdefault(t, set()).add(rz)
    gs = ctx.used(P.fn("GetSpecialScriptSize"))
    pn = gs.params[0]["n"]

    def special_size(t):
        vals = []
        for e in exits(gs, P, {}):
            env = {}
            for a in F.atoms(e.formula):
                m1 = re.fullmatch(r"%s == (\d+)" % pn, a)
                m2 = re.fullmatch(r"%s < (\d+)" % pn, a)
                if a == pn:
                    env[a] = t != 0
                elif m1:
                    env[a] = t == int(m1.group(1))
                elif m2:
                    env[a] = t < int(m2.group(1))
                else:
                    raise AnalysisBroken("GetSpecialScriptSize: unexpected condition %s" % a)
            if F.ev(e.formula, env):
                if not match(["int", ANY], e.value):
                    raise AnalysisBroken("GetSpecialScriptSize: non-constant result")
                vals.append(e.value[1])
        if len(vals) != 1:
            raise AnalysisBroken("GetSpecialScriptSize: %d results for %d" % (len(vals), t))
        return vals[0]
    ds = ctx.used(P.fn("DecompressScript"))
    inp = ds.params[2]["n"]
    copied = {}
    for s in sites(ds, call_to("memcpy"), P):
        a = call_args(s.expr)
        if len(a) == 3 and is_call_to("prevector::data", strip(a[1])) and strip(a[1])[2] == ["param", inp] and match(["int", ANY], a[2]):
            cg = [g for g in s.guards if g.kind == "case"]
            if len(cg) != 1:
                raise AnalysisBroken("DecompressScript: payload copy outside the switch")
            for v in cg[0].vals:
                if not match(["int", ANY], v):
                    raise AnalysisBroken("DecompressScript: non-constant / default case")
                copied.setdefault(v[1], set()).add(a[2][1])
    sw = [st for st in stmts(ds.body) if st.get("k") == "switch"]
    cases = sorted({it["v"][1] for st in sw for it in st.get("s", []) if it.get("k") == "case" and match(["int", ANY], it.get("v"))})
    ok = len(sw) == 1 and sw[0]["c"] == ["param", ds.params[1]["n"]]
    tags_all = list(range(S))
    ctx.ob("SpecialScripts/tags", "TABLE", "CompressScript produces only tags below nSpecialScripts, DecompressScript switches on its nSize argument and has a case for exactly "
           "the tags 0 .. nSpecialScripts-1, and every tag is produced by CompressScript", ok and cases == tags_all and sorted(produced) == tags_all, cs.where,
           {"produced": {k: sorted(v) for k, v in produced.items()}, "decompress_cases": cases, "nSpecialScripts": S})
    for t in sorted(set(produced) | set(cases)):
        sz = special_size(t)
        ok = produced.get(t) == {sz + 1}
        ctx.ob("SpecialScripts/size:%d" % t, "TABLE", "tag %d: CompressScript emits 1 + GetSpecialScriptSize(%d) bytes (tag byte + payload the reader consumes)" % (t, t), ok,
               cs.where, {"emitted": sorted(produced.get(t, [])), "GetSpecialScriptSize": sz})
        ok = copied.get(t) == {sz}
        ctx.ob("SpecialScripts/copy:%d" % t, "TABLE", "tag %d: DecompressScript copies exactly GetSpecialScriptSize(%d) payload bytes" % (t, t), ok, ds.where,
               {"copied": sorted(copied.get(t, [])), "GetSpecialScriptSize": sz})
    big = special_size(S)
    ctx.ob("SpecialScripts/size:none", "TABLE", "GetSpecialScriptSize(nSpecialScripts) == 0: no payload size is defined beyond the special tags", big == 0, gs.where)


def tag_values(v, formula):
    """Set of integer values an `out[0] = v` assignment can store, given the dominating condition."""
    if match(["int", ANY], v):
        return {v[1]}
    b = {}
    if match(["b", "|", ["int", V("a")], ["b", "&", ANY, ["int", 1]]], v, b):
        return {b["a"], b["a"] | 1}
    k = F.key(v)
    cands = {}
    for a in F.atoms(formula):
        m = re.fullmatch(re.escape(k) + r" == (\d+)", a)
        if m:
            cands[a] = int(m.group(1))
    if cands and F.implies(formula, F.mk_or([F.atom(a) for a in cands])):
        return set(cands.values())
    return None


# --------------------------------------------------------------------------------------------------
# special-script shapes: what the compress side accepts is exactly what the decompress side regenerates

def decompress_templates(P):
    """{tag: dict(size=N, fixed={pos: shown constant}, tagpos=pos|None, payload=(pos, len)|None, rebuilt=(pos, len)|None)} from DecompressScript."""
    ds = P.fn("DecompressScript")
    sp, tg, inp = ds.params[0]["n"], ds.params[1]["n"], ds.params[2]["n"]
    out = {}

    def tags_of(s):
        cg = [g for g in s.guards if g.kind == "case"]
        if len(cg) != 1 or not all(match(["int", ANY], v) for v in cg[0].vals):
            return None
        return [v[1] for v in cg[0].vals]
    for s in all_sites(ds, P):
        x = s.expr
        if x is None:
            continue
        ts = tags_of(s)
        if ts is None:
            continue
        for t in ts:
            d = out.setdefault(t, dict(size=set(), fixed={}, tagpos=None, payload=None, rebuilt=None, decompress_checked=False, vch0=None))
            if is_call_to("prevector::resize", x) and x[2] == ["param", sp] and match(["int", ANY], call_args(x)[0]):
                d["size"].add(call_args(x)[0][1])
            elif x[0] == "b" and x[1] == "=" and match(["idx", ["param", sp], ["int", ANY]], x[2]):
                pos, v = x[2][2][1], strip(x[3])
                if v == ["param", tg]:
                    d["tagpos"] = pos
                elif is_expr(v) and v[0] in ("int", "enum"):
                    d["fixed"][pos] = show(v)
                else:
                    raise AnalysisBroken("DecompressScript: unexpected byte written at position %s" % pos)
            elif is_call_to("memcpy", x) and match(["u", "&", ["idx", ["param", sp], ["int", ANY]]], call_args(x)[0]) and match(["int", ANY], call_args(x)[2]):
                pos, n, src = call_args(x)[0][2][2][1], call_args(x)[2][1], strip(call_args(x)[1])
                if is_call_to("prevector::data", src) and src[2] == ["param", inp]:
                    d["payload"] = (pos, n)
                elif is_call_to("CPubKey::begin", src):
                    d["rebuilt"] = (pos, n)
                else:
                    raise AnalysisBroken("DecompressScript: unexpected copy source")
            elif x[0] == "b" and x[1] == "=" and match(["idx", ["local", ANY], ["int", 0]], x[2]) and match(["b", "-", ["param", tg], ["int", ANY]], strip(x[3])):
                d["vch0"] = strip(x[3])[3][1]
    # a failing CPubKey::Decompress makes DecompressScript return false
    for e in exits(ds, P, {}):
        if is_true_ret(e):
            ts = None
            for g in e.guards:
                if g.kind == "case":
                    ts = [v[1] for v in g.vals if match(["int", ANY], v)]
            for t in ts or []:
                if out.get(t, {}).get("rebuilt"):
                    ats = [a for a in F.atoms(e.formula) if a.endswith(".Decompress()")]
                    out[t]["decompress_checked"] = len(ats) == 1 and F.implies(e.formula, F.atom(ats[0]))
    return out


def special_shapes(ctx, P):
    T = decompress_templates(P)
    ds, cs = P.fn("DecompressScript"), P.fn("CompressScript")
    outp = cs.params[1]["n"]
    csub = naming(cs, P)
    # rebuilt keys: compressed header = tag - 2 in {2, 3}, decompression must succeed, the 65-byte key is copied behind the push opcode
    for t, d in sorted(T.items()):
        if d["rebuilt"]:
            ok = d["vch0"] is not None and (t - d["vch0"]) in (2, 3) and d["decompress_checked"] and d["rebuilt"][1] == 65 and d["fixed"].get(d["rebuilt"][0] - 1) == "65" \
                and d["size"] == {d["rebuilt"][0] + 65 + 1}
            ctx.ob("SpecialScripts/rebuild:%d" % t, "TABLE", "tag %d: DecompressScript rebuilds the key from header (tag - %s) + 32 payload bytes, fails if CPubKey::Decompress fails, "
                   "and emits push-65 + the 65-byte (0x04-prefixed) key + OP_CHECKSIG" % (t, d["vch0"]), ok, ds.where, {"template": {k: (sorted(v) if isinstance(v, set) else v) for k, v in d.items()}})
    # gates of CompressScript
    sites_ = sites(cs, lambda e: e[0] == "b" and e[1] == "=" and match(["idx", ["param", outp], ["int", 0]], e[2]), P)
    gates = {}
    for s in sites_:
        fm = s.formula(csub)
        tags = tag_values(strip(s.expr[3]), fm)
        if not tags:
            raise AnalysisBroken("CompressScript: cannot derive the tag values at line %s" % s.line)
        g = [a for a in F.atoms(fm) if re.match(r"^IsTo\w+\(", a) and F.implies(fm, F.atom(a))]
        if len(g) != 1:
            raise AnalysisBroken("CompressScript: tag written outside exactly one IsTo*() gate at line %s" % s.line)
        m = re.match(r"^(IsTo\w+)\((\w+), (\w+)\)$", g[0])
        if not m:
            raise AnalysisBroken("CompressScript: unexpected gate %s" % g[0])
        gates.setdefault(m.group(1), dict(key=m.group(3), sites=[]))["sites"].append((s, tags, fm))
    for q, info in sorted(gates.items()):
        pf = ctx.used(P.fn(q))
        ps, po = pf.params[0]["n"], pf.params[1]["n"]
        psub = naming(pf, P)
        alltags = sorted({t for _, tags, _ in info["sites"] for t in tags})
        if any(t not in T for t in alltags):
            ctx.ob("SpecialScripts/shape:%s" % q, "SYMMETRY", "every tag written under %s has a DecompressScript case" % q, False, cs.where, {"tags": alltags})
            continue
        sizes = {}
        for t in alltags:
            if len(T[t]["size"]) != 1:
                raise AnalysisBroken("DecompressScript: tag %d has no unique script size" % t)
            sizes.setdefault(next(iter(T[t]["size"])), []).append(t)
        accepts = [e for e in exits(pf, P, psub) if e.kind == "ret" and not is_false_ret(e)]
        used_sizes = set()
        for e in accepts:
            A = F.mk_and([e.formula, F.to_formula(e.value, psub)]) if not is_true_ret(e) else e.formula
            where = "%s:%s" % (pf.file, e.line)
            N = [n for n in sizes if F.implies(A, F.atom("%s.size() == %d" % (ps, n)))]
            if len(N) != 1:
                ctx.ob("SpecialScripts/shape:%s@L%s" % (q, e.line), "SYMMETRY", "%s accepts only scripts of a length DecompressScript regenerates for the tags written under it" % q,
                       False, where, {"accept_condition": F.fshow(A)[:400], "sizes": {n: ts for n, ts in sizes.items()}})
                continue
            n = N[0]
            used_sizes.add(n)
            ts = sizes[n]
            tmpl = T[ts[0]]
            want = [F.atom("%s[%d] == %s" % (ps, pos, v)) for pos, v in sorted(tmpl["fixed"].items())]
            hdr = None
            if tmpl["tagpos"] is not None:
                hdr = tmpl["tagpos"]
                want.append(F.mk_or([F.atom("%s[%d] == %d" % (ps, hdr, t)) for t in ts]))
            if tmpl["rebuilt"]:
                hdr = tmpl["rebuilt"][0]
                want.append(F.atom("%s[%d] == 4" % (ps, hdr)))
                want.append(F.atom("%s.IsFullyValid()" % po))
            cex = F.counterexample(A, F.mk_and(want))
            ctx.ob("SpecialScripts/shape:%s@L%s" % (q, e.line), "SYMMETRY", "%s accepts (tags %s) only scripts that DecompressScript regenerates byte for byte: length %d, the "
                   "fixed opcode/push bytes at the same positions%s" % (q, ts, n, ", the key header byte equal to what the decompressor writes (the tag for compressed keys, 0x04 and a "
                                                                       "fully valid key for rebuilt uncompressed keys)" if hdr is not None else ""),
                   cex is None, where, None if cex is None else {"accept_condition": F.fshow(A)[:500], "required": F.fshow(F.mk_and(want)), "counterexample": cex})
            # what is copied out of the script is what the decompressor copies back in
            okc = True
            detail = {}
            guards_in = lambda s: F.implies(s.formula(psub), F.atom("%s.size() == %d" % (ps, n)))
            if hdr is None:
                cps = [s for s in sites(pf, call_to("memcpy"), P) if guards_in(s)]
                okc = len(cps) == 1 and match(["u", "&", ["idx", ["param", ps], ["int", ANY]]], call_args(cps[0].expr)[1]) and tmpl["payload"] is not None and \
                    (call_args(cps[0].expr)[1][2][2][1], call_args(cps[0].expr)[2][1] if match(["int", ANY], call_args(cps[0].expr)[2]) else None) == tmpl["payload"]
                detail = {"decompress_payload": tmpl["payload"]}
            else:
                sets = [s for s in sites(pf, call_to("CPubKey::Set"), P) if guards_in(s)]
                okc = len(sets) == 1 and match(["u", "&", ["idx", ["param", ps], ["int", hdr]]], call_args(sets[0].expr)[0]) and \
                    match(["u", "&", ["idx", ["param", ps], ["int", n - 1]]], call_args(sets[0].expr)[1]) and sets[0].expr[2] == ["param", po]
            ctx.ob("SpecialScripts/extract:%s@L%s" % (q, e.line), "SYMMETRY", "%s extracts exactly the bytes the decompressor puts back (same offset and length; the key starts at its "
                   "header byte)" % q, bool(okc), where, detail or None)
        ok = used_sizes == set(sizes)
        ctx.ob("SpecialScripts/shape:%s/coverage" % q, "SYMMETRY", "every script length regenerated for the tags written under %s has an accepting branch in %s" % (q, q), ok, pf.where,
               {"sizes": {n: ts for n, ts in sizes.items()}, "accepted": sorted(used_sizes)})
        # CompressScript: the tag written pins the key header the decompressor regenerates
        for s, tags, fm in info["sites"]:
            hdrs = set()
            for t in tags:
                if T[t]["tagpos"] is not None:
                    hdrs.add(t)
                elif T[t]["rebuilt"]:
                    hdrs.add(4)
            if not hdrs:
                continue
            K = info["key"]
            cex = F.counterexample(fm, F.mk_or([F.atom("%s[0] == %d" % (K, h)) for h in sorted(hdrs)]))
            ctx.ob("SpecialScripts/tag-header@L%s" % s.line, "SYMMETRY", "CompressScript writes tag(s) %s only for a key whose header byte is %s - the header DecompressScript regenerates "
                   "for those tags" % (sorted(tags), sorted(hdrs)), cex is None, s.where, None if cex is None else {"guard": F.fshow(fm)[:400], "counterexample": cex})
            # x coordinate: both sides use bytes 1..32 of the key
        xs = [x for _, e in all_exprs(cs.body) for x in subexprs(e) if is_call_to("memcpy", x) and match(["u", "&", ["idx", ["local", info["key"]], ["int", ANY]]], strip(call_args(x)[1]))]
        if xs:
            ok = all(match(["u", "&", ["idx", ["param", outp], ["int", 1]]], call_args(x)[0]) and strip(call_args(x)[1])[2][2][1] == 1 and match(["int", 32], call_args(x)[2]) for x in xs)
            ctx.ob("SpecialScripts/x-coordinate:%s" % q, "SYMMETRY", "CompressScript stores key bytes 1..32 (the x coordinate) behind the tag byte", ok, cs.where)


# --------------------------------------------------------------------------------------------------
def check(ctx):
    P = ctx.program(UNITS)
    compare_pair(ctx, P, "Coin", "Coin::Serialize", "Coin::Unserialize", "Coin", "this")
    compare_pair(ctx, P, "TxInUndo", "TxInUndoFormatter::Ser", "TxInUndoFormatter::Unser", "Coin", "#1")
    compare_pair(ctx, P, "Amount", "AmountCompression::Ser", "AmountCompression::Unser", None, "#1")
    txout_compression(ctx, P)
    script_compression(ctx, P)
    special_shapes(ctx, P)
    ctx.floor("C18 obligations", len(ctx.obs), 36)
