"""C26 Replacements only happen when they pay for themselves and improve the mempool (DESIGN §3 C26)."""
import re

from sa.engine.api import *
from sa.engine import callgraph
from sa.rules._helpers_D import *

UNITS = ["validation.cpp", "policy/rbf.cpp", "txmempool.cpp"]
EXPLANATION = ("LADDER (NECESSARY) + PROVENANCE + MPT on the replace-by-fee decision structure. ReplacementChecks / PackageRBFChecks return true only if "
               "GetEntriesForConflicts, PaysForRBF (called with the accumulated conflicting fees, the replacement's *modified* fees, its vsize and the "
               "incremental relay feerate) and ImprovesFeerateDiagram all reported no error; the conflicting-fee accumulator adds GetModifiedFee() of every "
               "element of exactly the set filled by GetEntriesForConflicts, before PaysForRBF is asked, and the same set is StageRemoval-ed before the "
               "diagram check; PaysForRBF / ImprovesFeerateDiagram / GetEntriesForConflicts / EntriesAndTxidsDisjoint are compared with their spec ladders "
               "(rule 3, rule 4, strict diagram improvement new-vs-old, at most 100 clusters, descendants of every direct conflict, ancestor/conflict "
               "disjointness); in AcceptSingleTransactionInternal / AcceptMultipleTransactionsInternal the commit (FinalizeSubpackage / SubmitPackage) and every "
               "VALID result are reached only past PreChecks, the replacement checks when m_rbf, and the spends-conflicting rung; PreChecks sets m_rbf from "
               "ws.m_conflicts on every accepting path, collects every GetConflictTx hit of every input, and adds an evicted TRUC sibling to both conflict sets.")
ASSUMPTIONS = ["CTxMemPool::CalculateDescendants(it, set) adds it and all of its in-mempool descendants to set (opaque atom)",
               "TxGraph::GetMainStagingDiagrams returns (main = old, staging = new) diagrams; CompareChunks orders diagrams (C30 not decided)",
               "CFeeRate::GetFee(vsize) is the fee at that feerate for that size (C30)"]
CLAIM = dict(
    technique="static analysis: reject-ladder conformance (truth tables over canonical guard atoms), argument/accumulator provenance, must-pass-through guards, who-may-call",
    text="For every path: a transaction or package with mempool conflicts reaches the mempool commit (or a VALID test-accept result) only if the number of "
         "conflicting clusters is <= 100, replacement modified fees >= sum of modified fees of all direct conflicts and their descendants, the surplus "
         ">= incremental relay fee for the replacement's vsize, the staged change strictly improves the feerate diagram, and the new transaction has no "
         "ancestor among its conflicts (package RBF: no mempool ancestors at all); the set charged for is the set staged for removal. Tests sample mempools.",
    note="Not decided: feerate/diagram arithmetic (C30), CalculateDescendants semantics, TRUC sibling selection beyond its insertion into m_conflicts / "
         "m_iters_conflicting. The too-large-cluster rung inside ReplacementChecks is redundant with CalculateChunksForRBF and is left to C27. "
         "Comparison flips that only make the rule stricter are tolerated where the constant is visible (cluster count), otherwise reported.",
    ref="DESIGN.md §3 C26")

CS = "CTxMemPool::ChangeSet::"
FEES = "SubPackageState::m_conflicting_fees"


def _gec_atom(third):
    return re.compile(r"GetEntriesForConflicts\(.+, m_pool, %s, \w+\)" % third)


DIAG = re.compile(r"ImprovesFeerateDiagram\(\*m_subpackage\.m_changeset\)")
INCR = r"m_pool\.m_opts\.incremental_relay_feerate"


def check(ctx):
    P = ctx.program(UNITS)
    k = P.const("MAX_REPLACEMENT_CANDIDATES")
    ctx.ob("const/MAX_REPLACEMENT_CANDIDATES", "CONST", "MAX_REPLACEMENT_CANDIDATES == 100", k == 100, None, {"value": k})
    _helpers(ctx, P)
    _replacement_checks(ctx, P)
    _package_rbf_checks(ctx, P)
    _accept_single(ctx, P)
    _accept_multiple(ctx, P)
    _prechecks(ctx, P)
    _who_calls(ctx)


# ------------------------------------------------------------------------------------------ policy/rbf.cpp

def _helpers(ctx, P):
    pays = ctx.used(P.fn("PaysForRBF"))
    check_ladder(ctx, pays, P, [
        Rung("rule3: replacement pays less than the conflicts", "LESS", {"LESS": "replacement_fees < original_fees"}),
        Rung("rule4: surplus below incremental relay fee for the replacement's size", "SURPLUS_LOW",
             {"SURPLUS_LOW": "replacement_fees - original_fees < relay_fee.GetFee(replacement_vsize)"}),
    ], is_accept=is_nullopt_ret, is_reject=is_error_ret)
    names = [p["n"] for p in pays.params]
    ctx.ob("PaysForRBF/params", "PROVENANCE", "PaysForRBF's parameters are (original_fees, replacement_fees, replacement_vsize, relay_fee, txid) in this order "
           "(call sites are checked positionally)", names[:4] == ["original_fees", "replacement_fees", "replacement_vsize", "relay_fee"], pays.where, {"params": names})

    imp = ctx.used(P.fn("ImprovesFeerateDiagram"))
    res = r"(?:const )?(?:util::Result(?:<.*?>)?\{)?changeset\.CalculateChunksForRBF\(\)\}?"
    accept_implies(ctx, imp, P, is_nullopt_ret, "CALC && STRICT",
                   {"CALC": re.compile(res + r"(?:\.has_value\(\))?"),
                    "STRICT": re.compile(r"std::is_gt\(CompareChunks\(std::span\{" + res + r"\.value\(\)\.second\}, std::span\{" + res + r"\.value\(\)\.first\}\)\)")},
                   "ImprovesFeerateDiagram/accept", "no error is returned only if the diagrams were computable and CompareChunks(new, old) is strictly greater")
    calc = ctx.used(P.fn(CS + "CalculateChunksForRBF"))
    vals = [e for e in exits(calc, P) if e.kind == "ret" and contains(["vcall", "TxGraph::GetMainStagingDiagrams"], e.value)
            or e.kind == "ret" and contains(["mcall", "TxGraph::GetMainStagingDiagrams"], e.value)]
    ctx.ob("CalculateChunksForRBF/pair", "PROVENANCE", "CalculateChunksForRBF's value is TxGraph::GetMainStagingDiagrams() = (old, new), so .second is the new diagram",
           len(vals) == 1, calc.where)
    for e in vals:
        implies_ob(ctx, "CalculateChunksForRBF/limits@L%s" % e.line, "LADDER", "diagrams are produced only when the staged change respects the cluster limits",
                   e.formula, "LIMITS", {"LIMITS": CS + "CheckMemPoolPolicyLimits()"}, "%s:%s" % (calc.file, e.line))

    gec = ctx.used(P.fn("GetEntriesForConflicts"))
    sub = naming(gec, P)

    def atmost(key):
        m = re.fullmatch(r"pool\.GetUniqueClusterCount\(iters_conflicting\) < (\d+)", key)
        return bool(m) and int(m.group(1)) <= 101

    accept_implies(ctx, gec, P, is_nullopt_ret, "ATMOST100", {"ATMOST100": atmost}, "GetEntriesForConflicts/rule5",
                   "no error only if the direct conflicts span at most 100 clusters")
    _elem_effect(ctx, gec, P, sub, r"each\(iters_conflicting\)",
                 lambda e, s: is_call_to("CTxMemPool::CalculateDescendants", e) and [xkey(a, s) for a in call_args(e)] == ["each(iters_conflicting)", "all_conflicts"],
                 "GetEntriesForConflicts/descendants", "every direct conflict's descendant set is added to all_conflicts (CalculateDescendants(it, all_conflicts) for each it, "
                 "unconditionally, loop not left early)", accept=is_nullopt_ret)

    dis = ctx.used(P.fn("EntriesAndTxidsDisjoint"))
    check_ladder(ctx, dis, P, [
        Rung("spends conflicting transaction", "HIT", {"HIT": "direct_conflicts.contains(each(ancestors).GetTx().GetHash())"}, loop=r"each\(ancestors\)"),
    ], is_accept=is_nullopt_ret, is_reject=is_error_ret)


def _elem_effect(ctx, fn, P, subst, range_re, pred, oid, text, accept=None, before=None):
    """Some total loop over range_re performs an effect matching pred(expr, subst) for every element, unconditionally;
    accepting exits (and the `before` sites) are reached only after that loop completed.  Returns the loop."""
    hits = []
    for lp in loops_over(fn, P, subst, range_re):
        for s in all_sites(fn, P):
            if s.expr is not None and lp in s.loops and s.loops[-1] is lp and pred(s.expr, site_subst(subst, s)) and not in_loop_guards(s, lp):
                hits.append((lp, s))
    ok = bool(hits) and loop_is_total(hits[0][0])
    ctx.ob(oid, "PROVENANCE", text, ok, hits[0][1].where if hits else fn.where,
           None if ok else {"loops_over_range": [l.get("l") for l in loops_over(fn, P, subst, range_re)]})
    if not hits:
        return None
    lp = hits[0][0]
    if accept is not None:
        for e in exits(fn, P, subst):
            if accept(e):
                okd = F.implies(e.formula, done_atom(lp))
                ctx.ob("%s/before-accept@L%s" % (oid, e.line), "ORDER", "the accepting exit of %s at line %s is reached only after the loop at line %s completed" %
                       (fn.q, e.line, lp.get("l")), okd, "%s:%s" % (fn.file, e.line))
    for label, ss in (before or []):
        for s in ss:
            okd = F.implies(s.formula(subst), done_atom(lp))
            ctx.ob("%s/before-%s@L%s" % (oid, label, s.line), "ORDER", "%s at line %s is evaluated only after the loop at line %s completed" % (label, s.line, lp.get("l")),
                   okd, s.where)
    return lp


def _conflict_set(ctx, f, P, sub, oid, iters_re):
    """The out-parameter set of the (single) GetEntriesForConflicts call, checked to be a fresh local used for nothing else."""
    gs = uniq_sites(sites(f, call_to("GetEntriesForConflicts"), P))
    if len(gs) != 1:
        raise AnalysisBroken("%s: expected one GetEntriesForConflicts call, found %d" % (f.q, len(gs)))
    a = call_args(gs[0].expr)
    if len(a) < 4 or a[3][0] != "local":
        raise AnalysisBroken("%s: GetEntriesForConflicts out-argument is not a local" % f.q)
    X = a[3][1]
    ok = re.fullmatch(iters_re, xkey(a[2], sub)) is not None
    ctx.ob("%s/direct-conflicts-arg" % oid, "PROVENANCE", "GetEntriesForConflicts is given the directly conflicting entries (%s)" % iters_re, ok, gs[0].where,
           {"arg": xkey(a[2], sub)})
    decl = [st for st in stmts(f.body) if st.get("k") == "decl" and st.get("n") == X]
    fresh = len(decl) == 1 and (decl[0].get("i") is None or (is_expr(decl[0]["i"]) and decl[0]["i"][0] == "ctor" and len(decl[0]["i"]) == 2))
    # every other use of X: a foreach range or a read-only query
    other = []
    for st in stmts(f.body):
        if st.get("k") == "foreach" and match(["local", X], st.get("range")):
            continue
        for kk, e in stmt_exprs(st):
            if st.get("k") == "foreach" and kk == "range":
                continue
            for x in subexprs(e):
                if callee(x) == "GetEntriesForConflicts":
                    continue
                if callee(x) is not None and any(match(["local", X], y) for y in x[1:] if is_expr(y)):
                    if callee(x).rsplit("::", 1)[-1] not in ("size", "empty", "count", "contains", "find", "begin", "end", "cbegin", "cend"):
                        other.append("%s@L%s" % (callee(x), st.get("l")))
    ctx.ob("%s/conflict-set-fresh" % oid, "PROVENANCE", "the evicted set `%s` starts empty and is filled only by GetEntriesForConflicts" % X, fresh and not other, gs[0].where,
           {"other_uses": other} if other else None)
    return X, gs[0]


def _fee_and_removal(ctx, f, P, sub, oid, X, pays_sites, diag_sites):
    rng = r"each\(%s\)" % re.escape(X)
    # all writes to m_conflicting_fees
    ws = field_writes(f, P, FEES)
    good = [s for s in ws if s.expr[1] == "+=" and xkey(s.expr[3], site_subst(sub, s)) == "each(%s).GetModifiedFee()" % X]
    ctx.ob("%s/fees-writes" % oid, "PROVENANCE", "m_conflicting_fees is only ever increased by GetModifiedFee() of an element of the evicted set `%s`" % X,
           len(ws) >= 1 and len(good) == len(ws), (ws[0].where if ws else f.where), {"writes": [show(s.expr) for s in ws]})
    _elem_effect(ctx, f, P, sub, rng,
                 lambda e, s: e[0] == "b" and e[1] == "+=" and is_expr(e[2]) and e[2][0] == "." and e[2][2].endswith(FEES) and xkey(e[3], s) == "each(%s).GetModifiedFee()" % X,
                 "%s/fees-accumulate" % oid, "the modified fee of every transaction in the evicted set is added to m_conflicting_fees (unconditionally, complete loop)",
                 accept=is_true_ret, before=[("PaysForRBF", pays_sites)])
    rem = sites(f, call_to(CS + "StageRemoval"), P)
    goodr = [s for s in rem if [xkey(a, site_subst(sub, s)) for a in call_args(s.expr)] == ["each(%s)" % X] and show(call_obj(s.expr)) == "m_subpackage.m_changeset"]
    ctx.ob("%s/removals" % oid, "PROVENANCE", "only elements of the evicted set `%s` are staged for removal from the mempool" % X, len(rem) >= 1 and len(goodr) == len(rem),
           (rem[0].where if rem else f.where), {"calls": [show(s.expr) for s in rem]})
    _elem_effect(ctx, f, P, sub, rng,
                 lambda e, s: is_call_to(CS + "StageRemoval", e) and [xkey(a, s) for a in call_args(e)] == ["each(%s)" % X],
                 "%s/removal-complete" % oid, "every transaction in the evicted set is staged for removal (unconditionally, complete loop)",
                 accept=is_true_ret, before=[("ImprovesFeerateDiagram", diag_sites)])


def _replacement_checks(ctx, P):
    f = inline_condvars(ctx.used(P.fn("MemPoolAccept::ReplacementChecks")))
    sub = naming(f, P)
    atoms = {"TOOMANY": _gec_atom(r"ws\.m_iters_conflicting"),
             "UNDERPAYS": re.compile(r"PaysForRBF\(m_subpackage\.m_conflicting_fees, ws\.m_modified_fees, ws\.m_vsize, " + INCR + r", .+\)"),
             "NOTBETTER": DIAG}
    accept_implies(ctx, f, P, is_true_ret, "!TOOMANY && !UNDERPAYS && !NOTBETTER", atoms, "ReplacementChecks/accept",
                   "ReplacementChecks succeeds only if GetEntriesForConflicts(direct conflicts), PaysForRBF(conflicting fees, replacement modified fees, "
                   "replacement vsize, incremental relay feerate) and ImprovesFeerateDiagram(changeset) all returned no error")
    X, _ = _conflict_set(ctx, f, P, sub, "ReplacementChecks", r"ws\.m_iters_conflicting")
    _fee_and_removal(ctx, f, P, sub, "ReplacementChecks", X, uniq_sites(sites(f, call_to("PaysForRBF"), P)), uniq_sites(sites(f, call_to("ImprovesFeerateDiagram"), P)))


def _package_rbf_checks(ctx, P):
    f = inline_condvars(ctx.used(P.fn("MemPoolAccept::PackageRBFChecks")))
    sub = naming(f, P)
    atoms = {"TOOMANY": _gec_atom(r"\w+"),
             "UNDERPAYS": re.compile(r"PaysForRBF\(m_subpackage\.m_conflicting_fees, m_subpackage\.m_total_modified_fees, m_subpackage\.m_total_vsize, " + INCR + r", .+\)"),
             "NOTBETTER": DIAG}
    accept_implies(ctx, f, P, is_true_ret, "!TOOMANY && !UNDERPAYS && !NOTBETTER", atoms, "PackageRBFChecks/accept",
                   "PackageRBFChecks succeeds only if GetEntriesForConflicts, PaysForRBF(conflicting fees, package total modified fees, package total vsize, "
                   "incremental relay feerate) and ImprovesFeerateDiagram(changeset) all returned no error")
    check_ladder(ctx, f, P, [
        Rung("package RBF failed: new transaction cannot have mempool ancestors", "HASPARENTS", {"HASPARENTS": ("each(workspaces).m_parents.empty()", False)},
             loop=r"each\(workspaces\)"),
    ], is_accept=is_true_ret, is_reject=lambda e: e.kind == "ret" and not is_true_ret(e))
    # the eviction-count limit bounds the package's total evictions: one evaluation, outside any loop, on the merged direct conflicts
    gsites = uniq_sites(sites(f, call_to("GetEntriesForConflicts"), P))
    once = len(gsites) == 1 and not gsites[0].loops
    ctx.ob("PackageRBFChecks/limit-once", "LADDER", "GetEntriesForConflicts (the 100-cluster replacement limit) is evaluated exactly once in PackageRBFChecks, outside any "
           "per-transaction loop, so that it bounds the evictions of the whole package", once, gsites[0].where if gsites else f.where,
           {"calls": [(s.line, [loop_range_key(l, sub) for l in s.loops]) for s in gsites]})
    if not once:
        return
    Yarg = strip_wrappers(call_args(gsites[0].expr)[2]) if len(call_args(gsites[0].expr)) > 2 else None
    if not (is_expr(Yarg) and Yarg[0] == "local"):
        txt = xkey(Yarg, sub) if is_expr(Yarg) else None
        if txt and "m_iters_conflicting" in txt:
            ctx.ob("PackageRBFChecks/direct-union", "PROVENANCE", "the direct conflicts given to GetEntriesForConflicts are the union of every package transaction's "
                   "m_iters_conflicting, not one workspace's set", False, gsites[0].where, {"arg": txt})
            return
        raise AnalysisBroken("PackageRBFChecks: direct conflict argument %s is neither a local set nor a workspace's conflict set" % txt)
    X, g = _conflict_set(ctx, f, P, sub, "PackageRBFChecks", r"\w+")
    Y = Yarg
    _direct_union(ctx, f, P, sub, Y[1], g)
    _fee_and_removal(ctx, f, P, sub, "PackageRBFChecks", X, uniq_sites(sites(f, call_to("PaysForRBF"), P)), uniq_sites(sites(f, call_to("ImprovesFeerateDiagram"), P)))


def _direct_union(ctx, f, P, sub, Y, gsite):
    """Y is filled from m_iters_conflicting of EVERY workspace (merge / insert(range) / insert(begin,end) / element-wise nested loop), completely and
    unconditionally, before GetEntriesForConflicts is asked; nothing else is put into Y."""
    adders = sites(f, lambda e: callee(e) and callee(e).rsplit("::", 1)[-1] in ("merge", "insert", "emplace", "insert_range", "emplace_hint") and
                   match(["local", Y], call_obj(e)), P)
    good, bad = [], []
    for s in adders:
        ss = site_subst(sub, s)
        args = [xkey(a, ss) for a in call_args(s.expr)]
        outer = s.loops[0] if s.loops else None
        shape = None
        if outer is not None and index_loop(outer, sub)[0] == "workspaces" and loop_is_total(outer):
            src = "each(workspaces).m_iters_conflicting"
            if len(s.loops) == 1 and (args == [src] or args == [src + ".begin()", src + ".end()"] or args == [src + ".cbegin()", src + ".cend()"]):
                shape = "whole-set"
            elif len(s.loops) == 2 and index_loop(s.loops[1], ss)[0] == src and loop_is_total(s.loops[1]) and args in (["each(%s)" % src], ["%s[%s]" % (src, index_loop(s.loops[1], ss)[1])]):
                shape = "element-wise"
            if shape and [g for g in in_loop_guards(s, outer) if g.kind != "post"]:
                shape = None
        (good if shape else bad).append((s, shape, args))
    ok = len(good) >= 1 and not bad
    ctx.ob("PackageRBFChecks/direct-union", "PROVENANCE", "the direct conflicts given to GetEntriesForConflicts are the union of every package transaction's "
           "m_iters_conflicting (complete loop over all workspaces, unconditional), and nothing else", ok, good[0][0].where if good else f.where,
           {"additions": [(s.line, sh, a) for s, sh, a in good + bad]})
    decl = [st for st in stmts(f.body) if st.get("k") == "decl" and st.get("n") == Y]
    fresh = len(decl) == 1 and (decl[0].get("i") is None or (is_expr(decl[0]["i"]) and decl[0]["i"][0] == "ctor" and len(decl[0]["i"]) == 2))
    ctx.ob("PackageRBFChecks/direct-union-fresh", "PROVENANCE", "the merged set starts empty", fresh, gsite.where)
    for s, _, _ in good:
        okd = F.implies(gsite.formula(sub), done_atom(s.loops[0]))
        ctx.ob("PackageRBFChecks/direct-union/before-GetEntriesForConflicts@L%s" % s.line, "ORDER", "GetEntriesForConflicts is asked only after the merge loop over all "
               "workspaces completed", okd, gsite.where)


# ------------------------------------------------------------------------------------------ callers

def _accept_single(ctx, P):
    f = inline_condvars(ctx.used(P.fn("MemPoolAccept::AcceptSingleTransactionInternal")))
    sub = naming(f, P)
    atoms = {"PRE": "MemPoolAccept::PreChecks(args, ws)", "RBF": "m_subpackage.m_rbf", "REPL": "MemPoolAccept::ReplacementChecks(ws)",
             "HASCONF": ["ws.m_conflicts.size()", ("ws.m_conflicts.empty()", False)],
             "SPENDSCONF": re.compile(r"EntriesAndTxidsDisjoint\(.+, ws\.m_conflicts, .+\)")}
    spec = "PRE && (!RBF || REPL) && (!HASCONF || !SPENDSCONF)"
    txt = "only past PreChecks, ReplacementChecks when the subpackage replaces anything, and the bad-txns-spends-conflicting-tx rung"
    fin = sites(f, call_to("MemPoolAccept::FinalizeSubpackage"), P)
    ctx.floor("AcceptSingleTransactionInternal FinalizeSubpackage sites", len(fin), 1)
    site_implies(ctx, fin, sub, spec, atoms, "AcceptSingle/commit", "the mempool commit (FinalizeSubpackage) is reached " + txt)
    accept_implies(ctx, f, P, lambda e: e.kind == "ret" and result_kind(e.value) == "VALID", spec, atoms, "AcceptSingle/valid",
                   "a VALID result is returned " + txt, min_accepts=2)
    # the ancestor set handed to EntriesAndTxidsDisjoint
    ds = uniq_sites(sites(f, call_to("EntriesAndTxidsDisjoint"), P))
    ctx.floor("EntriesAndTxidsDisjoint call", len(ds), 1)
    for s in ds:
        a = call_args(s.expr)
        src = strip_wrappers(a[0]) if a else None       # directly the call, or through single-definition locals
        seen = set()
        while is_expr(src) and src[0] == "local" and src[1] not in seen:
            seen.add(src[1])
            vals = local_values(f, src[1])
            src = strip_wrappers(vals[0][1]) if len(vals) == 1 and is_expr(vals[0][1]) else None
        ok = is_expr(src) and is_call_to(CS + "CalculateMemPoolAncestors", src) and show(call_obj(src)) == "m_subpackage.m_changeset" and \
            [xkey(x, sub) for x in call_args(src)] == ["ws.m_tx_handle"]
        ctx.ob("AcceptSingle/ancestors@L%s" % s.line, "PROVENANCE", "the set tested against the conflicts is the staged transaction's full ancestor set "
               "(m_changeset->CalculateMemPoolAncestors(ws.m_tx_handle))", ok, s.where, {"source": show(src) if is_expr(src) else None})


def _accept_multiple(ctx, P):
    f = inline_condvars(ctx.used(P.fn("MemPoolAccept::AcceptMultipleTransactionsInternal")))
    sub = naming(f, P)
    atoms = {"RBF": "m_subpackage.m_rbf",
             "PKGREPL": re.compile(r"MemPoolAccept::PackageRBFChecks\(txns, workspaces, m_subpackage\.m_total_vsize, package_state\)")}
    sp = sites(f, call_to("MemPoolAccept::SubmitPackage"), P)
    ctx.floor("AcceptMultipleTransactionsInternal SubmitPackage sites", len(sp), 1)
    site_implies(ctx, sp, sub, "!RBF || PKGREPL", atoms, "AcceptMultiple/commit", "SubmitPackage is reached with m_rbf only past PackageRBFChecks")
    ok_sites = [s for s in sites(f, call_to("MempoolAcceptResult::Success"), P)]
    ctx.floor("AcceptMultipleTransactionsInternal Success sites", len(ok_sites), 1)
    site_implies(ctx, ok_sites, sub, "!RBF || PKGREPL", atoms, "AcceptMultiple/valid", "a VALID (test-accept) result is produced with m_rbf only past PackageRBFChecks")
    # every PreChecks of the package ran first (m_rbf is final)
    pre = [lp for lp in loops_over(f, P, sub, r"each\(workspaces\)") if any(is_call_to("MemPoolAccept::PreChecks", x) for _, x in body_exprs(lp))]
    ctx.floor("PreChecks loop", len(pre), 1)
    rb = [s for s in sites(f, lambda e: match([".", ANY, "re:.*SubPackageState::m_rbf"], e), P)]
    ctx.floor("m_rbf reads", len(rb), 1)
    for s in rb:
        ok = F.implies(s.formula(sub), done_atom(pre[0]))
        ctx.ob("AcceptMultiple/rbf-final@L%s" % s.line, "ORDER", "m_rbf is consulted only after PreChecks ran for every package transaction", ok, s.where)


def _prechecks(ctx, P):
    f0 = ctx.used(P.fn("MemPoolAccept::PreChecks"))
    f = inline_condvars(f0)
    sub = naming(f, P)
    RBFW = "SubPackageState::m_rbf"

    def sets_rbf(e):
        if not (e[0] == "b" and e[1] in ("|=", "=") and is_expr(e[2]) and e[2][0] == "." and e[2][2].endswith(RBFW)):
            return False
        rhs = xkey(e[3], sub)
        return rhs in ("!ws.m_conflicts.empty()", "ws.m_conflicts.size()", "ws.m_conflicts.size() != 0") and (e[1] == "|=")

    def grows(e):
        return callee(e) in ("std::set::insert", "std::set::emplace") and is_expr(call_obj(e)) and show(call_obj(e)) == "ws.m_conflicts"

    mf = MustFlow(f, P, marks=[("RBFSET", sets_rbf)], kills=[("RBFSET", grows)])
    mf.run()
    trues = [(st, s) for st, s in mf.exits if s.get("k") == "ret" and match(["bool", True], s.get("v"))]
    ctx.floor("PreChecks accepting exits", len(trues), 1)
    for st, s in trues:
        ctx.ob("PreChecks/m_rbf@L%s" % s.get("l"), "ORDER", "PreChecks returns true only after `m_subpackage.m_rbf |= !ws.m_conflicts.empty()` with the final conflict set "
               "(so ReplacementChecks / PackageRBFChecks cannot be skipped for a conflicting transaction)", "RBFSET" in st, "%s:%s" % (f.file, s.get("l")))
    others = [s for s in field_writes(f, P, RBFW) if not sets_rbf(s.expr)]
    ctx.ob("PreChecks/m_rbf-only", "PROVENANCE", "PreChecks writes m_rbf in no other way", not others, f.where, {"writes": [show(s.expr) for s in others]} if others else None)

    # direct conflicts: every input's GetConflictTx hit is recorded or rejects
    ins = [s for s in sites(f, grows, P)]
    direct = [s for s in ins if re.fullmatch(r"m_pool\.GetConflictTx\(each\(\(?\*ws\.m_ptx\)?\.vin\)\.prevout\)\.GetHash\(\)", xkey(call_args(s.expr)[0], sub))]
    ok = False
    where = f.where
    if len(direct) == 1 and direct[0].loops:
        s = direct[0]
        lp = s.loops[-1]
        where = s.where
        conf = F.atom("m_pool.GetConflictTx(each((*ws.m_ptx).vin).prevout)")
        g_ins = F.mk_and([g.formula(sub) for g in in_loop_guards(s, lp)])
        rej = [F.mk_and([g.formula(sub) for g in in_loop_guards(r, lp)]) for r in returns(f, P) if lp in r.loops]
        keyre = re.compile(r"m_pool\.GetConflictTx\(each\(\(?\*ws\.m_ptx\)?\.vin\)\.prevout\)")
        cov, _, _ = F.bind_atoms(F.mk_or([g_ins] + rej), {"CONFLICT": keyre})
        ok = F.counterexample(F.parse("CONFLICT"), cov) is None and not has_break(lp.get("b")) and \
            not any(x.get("k") == "continue" for x in stmts(lp.get("b")))
        okd = all(F.implies(e.formula, done_atom(lp)) for e in exits(f, P, sub) if is_true_ret(e))
        ctx.ob("PreChecks/direct-conflicts-loop-complete", "ORDER", "PreChecks returns true only after the conflict scan over all inputs completed", okd, where)
        gi = [s2 for s2 in sites(f, lambda e: e[0] == "b" and e[1] == "=" and is_expr(e[2]) and e[2][0] == "." and e[2][2].endswith("Workspace::m_iters_conflicting"), P)]
        okg = len(gi) == 1 and xkey(gi[0].expr[3], sub) == "m_pool.GetIterSet(ws.m_conflicts)" and F.implies(gi[0].formula(sub), done_atom(lp))
        ctx.ob("PreChecks/iters-conflicting", "PROVENANCE", "ws.m_iters_conflicting = m_pool.GetIterSet(ws.m_conflicts), computed after the conflict scan", okg,
               gi[0].where if gi else f.where)
    ctx.ob("PreChecks/direct-conflicts", "LADDER", "for every input, a mempool transaction spending the same outpoint (GetConflictTx) is either recorded in ws.m_conflicts "
           "or the transaction is rejected", ok, where)

    # sibling eviction: the sibling joins both conflict sets
    sib = [s for s in sites(f, lambda e: match(["b", "=", [".", ANY, "re:.*Workspace::m_sibling_eviction"], ["bool", True]], e), P)]
    ctx.floor("sibling eviction sites", len(sib), 1)
    sre = re.compile(r".*SingleTRUCChecks\(.*\)\.second\.GetHash\(\).*")
    for s in sib:
        own = lambda z: F.mk_and([gg.formula(sub) for gg in z.guards if gg.kind != "post"])  # enclosing branch conditions
        g = own(s)
        c1 = [x for x in ins if sre.fullmatch(xkey(call_args(x.expr)[0], sub)) and F.equivalent(own(x), g)]
        c2 = [x for x in sites(f, lambda e: callee(e) in ("std::set::insert", "std::set::emplace") and show(call_obj(e)) == "ws.m_iters_conflicting", P)
              if sre.fullmatch(xkey(call_args(x.expr)[0], sub)) and "m_pool.GetIter(" in xkey(call_args(x.expr)[0], sub) and F.equivalent(own(x), g)]
        ctx.ob("PreChecks/sibling@L%s" % s.line, "PROVENANCE", "when a TRUC sibling is to be evicted, the sibling reported by SingleTRUCChecks is inserted into both "
               "ws.m_conflicts and ws.m_iters_conflicting (so it is charged for and removed like a direct conflict)", bool(c1) and bool(c2), s.where)


def _who_calls(ctx):
    cg = callgraph.load_all()
    allowed = {"CTxMemPool::ChangeSet::StageRemoval": {"MemPoolAccept::ReplacementChecks", "MemPoolAccept::PackageRBFChecks", "MemPoolAccept::SubmitPackage"},
               "MemPoolAccept::ReplacementChecks": {"MemPoolAccept::AcceptSingleTransactionInternal"},
               "MemPoolAccept::PackageRBFChecks": {"MemPoolAccept::AcceptMultipleTransactionsInternal"}}
    for q, al in allowed.items():
        if not cg.defined(q):
            raise AnalysisBroken("%s not found in the call graph" % q)
        cs = set(cg.callers(q))
        ctx.ob("who-calls/%s" % q.rsplit("::", 1)[-1], "WHO-MAY-CALL", "%s is called only from %s" % (q, sorted(al)), cs <= al and bool(cs), None, {"callers": sorted(cs)})

