"""C09 The UTXO set depends only on the active chain, not on the reorg history (DESIGN §3 C09: connect/undo symmetry)."""
import re

from sa.engine.api import *
from sa.rules._helpers_B import any_call_named, mcall_named, must_before

UNITS = ["validation.cpp"]
EXPLANATION = ("SYMMETRY between connecting and disconnecting a block, decided on the statement structure: UpdateCoins records exactly one undo Coin per input, in "
               "vin order, filled by SpendCoin for that input, for every non-coinbase transaction, and adds the outputs at the block height; ConnectBlock "
               "creates one CTxUndo per non-coinbase transaction in block order, writes the undo data before it moves the view's best block and returns success "
               "only with the best block moved; DisconnectBlock requires vtxundo.size()+1 == vtx.size() and vprevout.size() == vin.size(), walks transactions and "
               "inputs in reverse with matching indices (vtxundo[i-1] for vtx[i], vprevout[j] for vin[j]), spends exactly the spendable outputs and flags any "
               "mismatch of existence/txout/height/coinbase as UNCLEAN, restores through ApplyTxInUndo, propagates FAILED/UNCLEAN, and ends with "
               "SetBestBlock(pprev hash); ApplyTxInUndo re-adds the undo coin at the given outpoint, reporting an overwrite as UNCLEAN. MPT: DisconnectTip / "
               "ConnectTip flush the scratch view into the chainstate only for DISCONNECT_OK / a successful ConnectBlock, and move the tip only after the flush.")
ASSUMPTIONS = ["CCoinsViewCache::SpendCoin moves the spent coin into *moveout; AddCoin/AddCoins insert exactly the given coins (C15)",
               "Coin/TxInUndo serialization preserves height and coinbase flag (C18)"]
CLAIM = dict(
    technique="static analysis: structural symmetry of the connect and undo routines (loop shapes, index correspondence, guard equivalence by truth table), "
              "must-precede flow, guard implication",
    text="For every path: what ConnectBlock/UpdateCoins record as undo data is, entry for entry, what DisconnectBlock/ApplyTxInUndo consume in reverse order; "
         "size disagreements fail, content disagreements are reported UNCLEAN; the best-block pointer moves forward only after the undo data is written and "
         "backward to pprev when a block is undone; only clean results reach the chainstate's coins cache. coins_tests simulate one seed; this covers all paths.",
    note="Not decided: equality of UTXO sets across histories (history property); semantics inside CCoinsViewCache (C15) and the undo encoding (C18).",
    ref="DESIGN.md §3 C09")

CS = "Chainstate::"


def _loop_lines(st):
    return st.get("l"), max(x.get("l") or 0 for x in stmts(st))


def _within(site, st):
    lo, hi = _loop_lines(st)
    return lo <= (site.line or 0) <= hi


def _inner(site, line):
    return [g for g in site.guards if (g.line or 0) >= line]


def _no_early_exit(body):
    return not has_break(body) and not [s for s in stmts(body) if s.get("k") in ("ret", "throw", "continue", "break")]


def _index_loop(L, size_of):
    """Classify an index loop over a vector: 'asc' (0 .. size-1), 'desc' (size-1 .. 0, each index once) or None (shape not recognised)."""
    if L.get("k") != "for" or not isinstance(L.get("init"), dict) or not L["init"].get("n"):
        return None
    v = ["local", L["init"]["n"]]
    init, c, inc = L["init"].get("i"), L.get("c"), L.get("inc")
    size = ["mcall", "std::vector::size", size_of]
    body = L["b"].get("s", []) if L["b"].get("k") == "seq" else [L["b"]]
    muts = [x for st_, e in all_exprs(L.get("b")) for x in subexprs(e)
            if ((x[0] == "b" and x[1] in ASSIGN_OPS) or (x[0] == "u" and x[1] in ("++", "--", "post++", "post--"))) and x[2] == v]
    jumps = has_break(L["b"]) or [s for s in stmts(L["b"]) if s.get("k") == "continue"]
    up = is_expr(inc) and inc[0] == "u" and inc[1] in ("post++", "++") and inc[2] == v
    down = is_expr(inc) and inc[0] == "u" and inc[1] in ("post--", "--") and inc[2] == v
    if match(["int", 0], init) and match(["b", "<", v, size], c) and up and not muts:
        return "asc"
    if match(["b", "-", size, ["int", 1]], init) and match(["b", ">=", v, ["int", 0]], c) and down and not muts:
        return "desc"
    if match(size, init) and match(["b", ">", v, ["int", 0]], c) and not is_expr(inc) and body and body[0].get("k") == "expr" and \
            match(["u", "--", v], body[0].get("e")) and len(muts) == 1 and not jumps:
        return "desc"
    if match(size, init) and match(["b", ">", ["u", "post--", v], ["int", 0]], c) and not is_expr(inc) and len(muts) == 0 and not jumps:
        return "desc"      # for (j = n; j-- > 0;): the only write of j is the post-decrement in the condition (all_exprs of the body does not see it)
    if match(["b", "-", size, ["int", 1]], init) and up:
        return "other"
    if match(["int", 0], init) and down:
        return "other"
    return None


def _need_loop(L, size_of, what):
    k = _index_loop(L, size_of)
    if k is None:
        raise AnalysisBroken("loop shape not recognised: %s (line %s)" % (what, L.get("l")))
    return k


def _counter_direction(T, J, c, size_ofs, use_stmt_line, use_expr):
    """How a separately maintained position counter `c` walks relative to a range-for J: 'asc' (starts at 0, advanced by one per iteration
    after its use), 'desc' (starts at size(), decremented by one before its use), or None (cannot tell)."""
    d = [st for st in stmts(T["b"]) if st.get("k") == "decl" and st.get("n") == c]
    if len(d) != 1 or d[0]["l"] >= J.get("l"):
        return None
    init = d[0].get("i")
    body = J["b"].get("s", []) if J["b"].get("k") == "seq" else [J["b"]]
    muts = [(st_, x) for st_, e in all_exprs(T.get("b")) for x in subexprs(e)
            if ((x[0] == "b" and x[1] in ASSIGN_OPS) or (x[0] == "u" and x[1] in ("++", "--", "post++", "post--"))) and match(["local", c], x[2])]
    if len(muts) != 1 or muts[0][1][0] != "u":
        return None
    mst, m = muts[0]
    lo, hi = _loop_lines(J)
    if not (lo <= (mst.get("l") or 0) <= hi) or has_break(J["b"]) or [x for x in stmts(J["b"]) if x.get("k") == "continue"]:
        return None
    in_use = m is use_expr or any(x is m for x in subexprs(use_expr))
    top = any(mst is x for x in body)
    start0 = match(["int", 0], init)
    startn = any(match(["mcall", "std::vector::size", so], init) for so in size_ofs)
    if start0 and m[1] == "post++" and in_use:
        return "asc"                                         # vin[c++]
    if start0 and m[1] in ("++", "post++") and not in_use and top and (mst.get("l") or 0) > use_stmt_line:
        return "asc"                                         # use vin[c]; ...; ++c;
    if startn and m[1] == "--" and in_use:
        return "desc"                                        # vin[--c]
    if startn and m[1] in ("--", "post--") and not in_use and top and (mst.get("l") or 0) < use_stmt_line:
        return "desc"                                        # --c; use vin[c]
    return None


def _pairing(f, T, J, undo_arg, out_arg, vin, vprev, decls, ap):
    """Decide whether the undo record and the outpoint handed to ApplyTxInUndo belong to the same input position.
    Returns (ok, detail); raises AnalysisBroken only if the direction of a traversal cannot be determined."""
    m = is_expr(out_arg) and out_arg[0] == "." and out_arg[2] == "CTxIn::prevout"
    out_elem = out_arg[1] if m else None
    if J["k"] == "for":
        kinds = [k for k in (_index_loop(J, vin), _index_loop(J, vprev)) if k]
        if not kinds or kinds[0] not in ("asc", "desc"):
            raise AnalysisBroken("DisconnectBlock: direction of the input-restore index loop not recognised (line %s)" % J.get("l"))
        j = J["init"]["n"]
        ok = match(["idx", vprev, ["local", j]], undo_arg) and out_elem is not None and match(["idx", vin, ["local", j]], out_elem)
        rets_only = not has_break(J["b"]) and not [x for x in stmts(J["b"]) if x.get("k") == "continue"]
        return ok, {"traversal": "index loop (%s), both sides indexed by %s" % (kinds[0], j), "complete": rets_only}
    if J["k"] == "foreach":
        lv = ["local", J["var"]["n"]]
        rng = J.get("range")
        complete = not has_break(J["b"]) and not [x for x in stmts(J["b"]) if x.get("k") == "continue"]
        if match(vprev, rng) and undo_arg == lv:
            other, other_vec, what = out_elem, vin, "vin"
        elif match(vin, rng) and out_elem == lv:
            other, other_vec, what = undo_arg, vprev, "vprevout"
        else:
            raise AnalysisBroken("DisconnectBlock: range-for input-restore loop over an unrecognised range (line %s)" % J.get("l"))
        if not (is_expr(other) and other[0] == "idx" and match(other_vec, other[1])):
            return False, {"traversal": "range-for (ascending) on one side, %s not indexed on the other" % what, "complete": complete}
        ix = other[2]
        c = ix[1] if ix[0] == "local" else (ix[2][1] if ix[0] == "u" and is_expr(ix[2]) and ix[2][0] == "local" else None)
        if c is None:
            raise AnalysisBroken("DisconnectBlock: position expression %s not recognised" % show(ix))
        use_line = ap.line
        for st in stmts(J["b"]):
            if any(x is other for _, e in all_exprs(st) for x in subexprs(e)) and st.get("k") in ("decl", "expr"):
                use_line = st.get("l")
        d = _counter_direction(T, J, c, [vin, vprev], use_line, ix)
        if d is None:
            raise AnalysisBroken("DisconnectBlock: direction of the position counter %s cannot be determined (line %s)" % (c, J.get("l")))
        return d == "asc", {"traversal": "range-for (ascending) paired with counter %s walking %s over %s" % (c, "ascending" if d == "asc" else "DESCENDING", what), "complete": complete}
    raise AnalysisBroken("DisconnectBlock: input-restore loop kind %s not recognised" % J["k"])


def update_coins(ctx, P):
    f = ctx.used(P.fn("UpdateCoins"))
    sub = naming(f, P)
    vin = [".", ["param", "tx"], "CTransaction::vin"]
    loops = [st for st in stmts(f.body) if (st.get("k") == "foreach" and match(vin, st.get("range"))) or (st.get("k") == "for" and _index_loop(st, vin) is not None)]
    if len(loops) != 1:
        raise AnalysisBroken("UpdateCoins: loop over tx.vin not recognised")
    ok = (loops[0]["k"] == "foreach" or _index_loop(loops[0], vin) == "asc") and _no_early_exit(loops[0]["b"])
    ctx.ob("UpdateCoins/input-loop", "SYMMETRY", "UpdateCoins visits every input of the transaction in vin order (loop over tx.vin without early exit)", ok, f.where)
    if not ok:
        return
    L = loops[0]
    elem = ["local", L["var"]["n"]] if L["k"] == "foreach" else ["idx", vin, ["local", L["init"]["n"]]]
    vprev = [".", ["param", "txundo"], "CTxUndo::vprevout"]
    grow = lambda e: is_expr(e) and e[0] == "mcall" and e[1] in ("std::vector::emplace_back", "std::vector::push_back") and match(vprev, e[2])
    gs = sites(f, grow, P)
    top = [x for x in (L["b"].get("s", []) if L["b"].get("k") == "seq" else [L["b"]])]
    per_iter = [s for s in gs if _within(s, L) and any(s.stmt is x for x in top)]
    ctx.ob("UpdateCoins/one-undo-per-input", "SYMMETRY", "exactly one undo Coin is appended to txundo.vprevout per input (unconditionally inside the input loop, nowhere else)",
           len(gs) == 1 and len(per_iter) == 1, f.where, {"append_sites": [s.line for s in gs]})
    other = sites(f, lambda e: is_expr(e) and e[0] == "mcall" and e[1] in ("std::vector::clear", "std::vector::resize", "std::vector::pop_back", "std::vector::erase", "std::vector::insert")
                  and match(vprev, e[2]), P)
    ctx.ob("UpdateCoins/undo-not-reshaped", "SYMMETRY", "txundo.vprevout is not cleared/resized/reordered by UpdateCoins", not other, f.where)
    spend = mcall_named("CCoinsViewCache::SpendCoin")
    body = sub_function(f, L["b"], "input-loop")
    must_before(ctx, body, P, [("APPENDED", grow)], [("spend-after-append", spend, ["APPENDED"], "each input is spent into the undo slot appended for it in the same iteration")],
                "UpdateCoins")
    for s in sites(f, spend, P):
        a = call_args(s.expr)
        ok = (match(["param", "inputs"], call_obj(s.expr)) and match([".", elem, "CTxIn::prevout"], a[0]) and len(a) >= 2
              and match(["u", "&", ["mcall", "std::vector::back", vprev]], a[1]))
        ctx.ob("UpdateCoins/spend-target@L%s" % s.line, "SYMMETRY", "the coin spent is the current input's prevout and it is moved into the last (just appended) undo slot", ok, s.where,
               {"args": [show(x) for x in a]})
        fb, mp, un = F.bind_atoms(s.formula(sub), {"COINBASE": "tx.IsCoinBase()"})
        c1, c2 = F.counterexample(fb, F.parse("!COINBASE")), F.counterexample(F.parse("!COINBASE"), F.bind_atoms(F.mk_and([g.formula(sub) for g in s.guards if g.kind == "if"]), {"COINBASE": "tx.IsCoinBase()"})[0])
        ctx.ob("UpdateCoins/non-coinbase@L%s" % s.line, "SYMMETRY", "inputs are spent (and undo recorded) exactly for non-coinbase transactions", c1 is None and c2 is None, s.where)
    add = sites(f, any_call_named("AddCoins"), P)
    ok = len(add) == 1 and not [g for g in add[0].guards if g.kind not in ("post", "assert")] and not add[0].loops and \
        match(["param", "inputs"], call_args(add[0].expr)[0]) and match(["param", "tx"], call_args(add[0].expr)[1]) and match(["param", "nHeight"], call_args(add[0].expr)[2])
    ctx.ob("UpdateCoins/adds-outputs", "SYMMETRY", "UpdateCoins unconditionally adds the transaction's outputs to the same view at the given height", ok, f.where)


def connect_block(ctx, P):
    f = ctx.used(P.fn(CS + "ConnectBlock"))
    ucs = sites(f, any_call_named("UpdateCoins"), P)
    ok = len(ucs) == 1
    ctx.ob("ConnectBlock/UpdateCoins-site", "SYMMETRY", "ConnectBlock applies transactions through a single UpdateCoins call", ok, f.where)
    if not ok:
        return
    uc = ucs[0]
    loops = [st for st in stmts(f.body) if st.get("k") == "for" and _loop_lines(st)[0] <= uc.line <= _loop_lines(st)[1]]
    L = sorted(loops, key=lambda st: st.get("l"))[-1] if loops else None
    if L is None:
        raise AnalysisBroken("ConnectBlock: transaction loop not found")
    shape = _need_loop(L, [".", ["param", "block"], "CBlock::vtx"], "ConnectBlock transaction loop") == "asc"
    iv = L["init"]["n"]
    ctx.ob("ConnectBlock/tx-loop", "SYMMETRY", "ConnectBlock applies the transactions in block order (index 0 .. vtx.size()-1)", bool(shape), uc.where)
    if not shape:
        return
    a = call_args(uc.expr)
    # the transaction applied is block.vtx[i]
    txd = [st for st in stmts(L["b"]) if st.get("k") == "decl" and a[0][0] == "local" and st.get("n") == a[0][1]]
    ok = len(txd) == 1 and contains(["idx", [".", ["param", "block"], "CBlock::vtx"], ["local", iv]], txd[0].get("i"))
    ctx.ob("ConnectBlock/applies-vtx[i]", "SYMMETRY", "the transaction handed to UpdateCoins is block.vtx[i]", ok, uc.where)
    vtxundo = None
    m = is_expr(a[2]) and a[2][0] == "?:" and match(["b", "==", ["local", iv], ["int", 0]], a[2][1]) and match(["mcall", "std::vector::back", [".", ["local", ANY], "CBlockUndo::vtxundo"]], a[2][3])
    if m:
        vtxundo = a[2][3][2]
    ok = bool(m) and a[2][2][0] == "local" and match(["param", "view"], a[1]) and match([".", ["param", "pindex"], "CBlockIndex::nHeight"], a[3])
    ctx.ob("ConnectBlock/undo-slot", "SYMMETRY", "UpdateCoins records into a throw-away CTxUndo for the coinbase (i == 0) and into blockundo.vtxundo.back() otherwise, at the "
           "block's height, on the view being connected", ok, uc.where, {"args": [show(x) for x in a]})
    if vtxundo is None:
        return
    grow = lambda e: is_expr(e) and e[0] == "mcall" and e[1] in ("std::vector::emplace_back", "std::vector::push_back") and e[2] == vtxundo
    gs = sites(f, grow, P)
    top = L["b"].get("s", []) if L["b"].get("k") == "seq" else [L["b"]]
    okg = False
    if len(gs) == 1:
        g = gs[0]
        for i_, st in enumerate(top):
            if st.get("k") == "if" and st.get("e") is None and F.equivalent(F.to_formula(st.get("c")), F.parse("!LT1")) is False:
                pass
            if st.get("k") == "if" and st.get("e") is None and any(x is g.stmt for x in stmts(st.get("t"))):
                c = F.to_formula(st.get("c"))
                is_pos = F.fshow(c) in ("!(%s < 1)" % iv, "!((%s < 1))" % iv) or c == F.mk_not(F.atom("%s < 1" % iv))
                later = [x for x in top[i_ + 1:] if x is uc.stmt]
                direct = st.get("t") is g.stmt or (st["t"].get("k") == "seq" and any(x is g.stmt for x in st["t"].get("s", [])))
                okg = bool(is_pos and later and direct)
    ctx.ob("ConnectBlock/one-undo-per-tx", "SYMMETRY", "exactly one CTxUndo is appended to blockundo.vtxundo for every non-coinbase transaction (if (i > 0) directly in the "
           "transaction loop, before UpdateCoins; nowhere else): the undo vector has vtx.size()-1 entries in block order", okg, uc.where, {"append_sites": [s.line for s in gs]})
    other = sites(f, lambda e: is_expr(e) and e[0] == "mcall" and e[1] in ("std::vector::clear", "std::vector::resize", "std::vector::pop_back", "std::vector::erase", "std::vector::insert")
                  and e[2] == vtxundo, P)
    ctx.ob("ConnectBlock/undo-not-reshaped", "SYMMETRY", "blockundo.vtxundo is not cleared/resized/reordered by ConnectBlock", not other, f.where)
    # ---- order: undo written before the best block moves; success implies best block moved (or fJustCheck)
    wu = lambda a_: is_expr(a_) and a_[0] == "mcall" and a_[1] == "node::BlockManager::WriteBlockUndo"
    genesis = lambda a_: is_expr(a_) and a_[0] == "b" and a_[1] == "==" and contains([".", ANY, "Consensus::Params::hashGenesisBlock"], a_)
    setbest = mcall_named("CCoinsViewCache::SetBestBlock")
    just = lambda a_: match(["param", "fJustCheck"], a_)
    must_before(ctx, f, P, [("MOVED", setbest)],
                [("best-after-undo", setbest, [("UNDO", "GENESIS")], "ConnectBlock moves the view's best block only after WriteBlockUndo returned true (the genesis block has no undo data)")],
                "ConnectBlock", branch_marks=[("UNDO", wu, True), ("GENESIS", genesis, True), ("MOVED", just, True)],
                exit_checks=[("success-moves-best", lambda st: st.get("k") == "ret" and match(["bool", True], st.get("v")), ["MOVED"],
                              "ConnectBlock returns true only after SetBestBlock (or in fJustCheck mode)")])
    for s in sites(f, setbest, P):
        ok = match(["param", "view"], call_obj(s.expr)) and match(["mcall", "CBlockIndex::GetBlockHash", ["param", "pindex"]], call_args(s.expr)[0])
        ctx.ob("ConnectBlock/best-is-this-block@L%s" % s.line, "SYMMETRY", "the best block set by ConnectBlock is the connected block's hash", ok, s.where)
    for s in sites(f, mcall_named("node::BlockManager::WriteBlockUndo"), P):
        a2 = call_args(s.expr)
        ok = a2[0] == vtxundo[1] and match(["u", "*", ["param", "pindex"]], a2[2])
        ctx.ob("ConnectBlock/undo-written@L%s" % s.line, "SYMMETRY", "the undo data written is the one filled by the transaction loop, for this block's index", ok, s.where)


def apply_undo(ctx, P):
    f = ctx.used(P.fn("ApplyTxInUndo"))
    sub = naming(f, P)
    adds = sites(f, mcall_named("CCoinsViewCache::AddCoin"), P)
    ok = len(adds) == 1
    flag = None
    if ok:
        a = call_args(adds[0].expr)
        ok = match(["param", "view"], call_obj(adds[0].expr)) and match(["param", "out"], a[0]) and match(["param", "undo"], a[1]) and match(["u", "!", ["local", ANY]], a[2])
        flag = a[2][2][1] if ok else None
    ctx.ob("ApplyTxInUndo/re-adds", "SYMMETRY", "ApplyTxInUndo re-adds the undo coin at the given outpoint (possible_overwrite = !clean)", ok, f.where)
    if flag is None:
        return
    vals = local_values(f, flag)
    falses = sites(f, lambda e: is_expr(e) and e[0] == "b" and e[1] == "=" and match(["local", flag], e[2]) and match(["bool", False], e[3]), P)
    have = re.compile(r"view\.HaveCoin\(out\)")
    ok = all(match(["bool", ANY], v) for _, v in vals) and len(falses) == 1 and F.counterexample(F.parse("HAVE"), F.bind_atoms(falses[0].formula(sub), {"HAVE": have})[0]) is None \
        and falses[0].line < adds[0].line
    ctx.ob("ApplyTxInUndo/overwrite-unclean", "SYMMETRY", "restoring over an existing unspent coin clears the clean flag (before the coin is re-added)", ok, f.where)
    n = 0
    for e in exits(f, P, sub):
        v = e.value
        if is_expr(v) and v[0] == "?:":
            n += 1
            ok = match(["?:", ["local", flag], ["enum", "DISCONNECT_OK"], ["enum", "DISCONNECT_UNCLEAN"]], v)
            ctx.ob("ApplyTxInUndo/result@L%s" % e.line, "SYMMETRY", "ApplyTxInUndo returns DISCONNECT_OK iff the clean flag is still set, else DISCONNECT_UNCLEAN", ok, "%s:%s" % (f.file, e.line))
        elif not match(["enum", "DISCONNECT_FAILED"], v):
            ctx.ob("ApplyTxInUndo/result@L%s" % e.line, "SYMMETRY", "every other exit of ApplyTxInUndo reports DISCONNECT_FAILED", False, "%s:%s" % (f.file, e.line), {"value": show(v)})
    ctx.floor("ApplyTxInUndo clean/unclean exits", n, 1)
    must_before(ctx, f, P, [("ADDED", mcall_named("CCoinsViewCache::AddCoin"))], [], "ApplyTxInUndo", exit_checks=[
        ("non-failed-re-added", lambda st: st.get("k") == "ret" and not match(["enum", "DISCONNECT_FAILED"], st.get("v")), ["ADDED"],
         "ApplyTxInUndo reports OK/UNCLEAN only after the coin was re-added")])


def disconnect_block(ctx, P):
    f = ctx.used(P.fn(CS + "DisconnectBlock"))
    sub = naming(f, P)
    ap = sites(f, any_call_named("ApplyTxInUndo"), P)
    sp = sites(f, mcall_named("CCoinsViewCache::SpendCoin"), P)
    if len(ap) != 1 or len(sp) != 1:
        raise AnalysisBroken("DisconnectBlock: ApplyTxInUndo / SpendCoin sites not unique")
    fors = [st for st in stmts(f.body) if st.get("k") == "for"]
    enclosing = lambda s: sorted([st for st in fors if _loop_lines(st)[0] <= s.line <= _loop_lines(st)[1]], key=lambda st: st.get("l"))
    le = enclosing(ap[0])
    if not le:
        raise AnalysisBroken("DisconnectBlock: transaction loop not recognised")
    T = le[0]
    inner = sorted([st for st in stmts(T["b"]) if st.get("k") in ("for", "foreach", "while", "do") and _loop_lines(st)[0] <= ap[0].line <= _loop_lines(st)[1]],
                   key=lambda st: st.get("l"))
    if len(inner) != 1:
        raise AnalysisBroken("DisconnectBlock: input-restore loop not recognised")
    J = inner[0]
    ti = T["init"]["n"]
    vtx = [".", ["param", "block"], "CBlock::vtx"]
    ok = _need_loop(T, vtx, "DisconnectBlock transaction loop") == "desc"
    ctx.ob("DisconnectBlock/tx-loop-reverse", "SYMMETRY", "DisconnectBlock undoes the transactions in reverse block order (i = vtx.size()-1 down to 0)", bool(ok), "%s:%s" % (f.file, T.get("l")))
    # the transaction and its undo record
    decls = {st["n"]: st for st in stmts(T["b"]) if st.get("k") == "decl" and st.get("n")}
    txl = [n for n, d in decls.items() if contains(["idx", vtx, ["local", ti]], d.get("i") or [])]
    unl = [n for n, d in decls.items() if match(["idx", [".", ["local", ANY], "CBlockUndo::vtxundo"], ["b", "-", ["local", ti], ["int", 1]]], d.get("i") or [])]
    ok = len(txl) == 1 and len(unl) == 1
    ctx.ob("DisconnectBlock/index-correspondence", "SYMMETRY", "transaction vtx[i] is undone with undo record vtxundo[i-1] (the coinbase has none)", ok, "%s:%s" % (f.file, T.get("l")),
           {"tx": txl, "undo": unl})
    if not ok:
        return
    tx, un = txl[0], unl[0]
    vin = [".", ["local", tx], "CTransaction::vin"]
    vprev = [".", ["local", un], "CTxUndo::vprevout"]
    a = call_args(ap[0].expr)
    outv = a[2]
    if outv[0] == "local":
        od_ = [st for st in stmts(J["b"]) if st.get("k") == "decl" and st.get("n") == outv[1] and is_expr(st.get("i"))]
        asg = [x for st_, e in all_exprs(J["b"]) for x in subexprs(e) if x[0] == "b" and x[1] in ASSIGN_OPS and x[2] == outv]
        outv = od_[0]["i"] if len(od_) == 1 and not asg else outv
    okp, how = _pairing(f, T, J, a[0], outv, vin, vprev, decls, ap[0])
    ctx.ob("DisconnectBlock/input-loop-complete", "SYMMETRY", "every input position of the transaction is restored exactly once (complete traversal, no early continue/break)",
           how.get("complete", False), "%s:%s" % (f.file, J.get("l")), how)
    ctx.ob("DisconnectBlock/input-correspondence", "SYMMETRY", "ApplyTxInUndo is given the undo record vprevout[k] and the outpoint vin[k].prevout of the SAME position k, "
           "into the view being disconnected", okp and match(["param", "view"], a[1]), ap[0].where, dict(how, args=[show(a[0]), show(a[1]), show(outv)]))
    txk, unk = re.escape(F.key(F.expand(["local", tx], sub))), re.escape(F.key(F.expand(["local", un], sub)))
    bu = re.escape(show(decls[un]["i"][1][1]))      # the CBlockUndo object (name is free)
    atoms = {"READ": re.compile(r"m_blockman\.ReadBlockUndo\(%s, \*pindex\)" % bu),
             "BLOCKSIZES": re.compile(r"(1 \+ BU\.vtxundo\.size\(\) == block\.vtx\.size\(\)|block\.vtx\.size\(\) == 1 \+ BU\.vtxundo\.size\(\)|BU\.vtxundo\.size\(\) \+ 1 == block\.vtx\.size\(\)|"
                                      r"BU\.vtxundo\.size\(\) == block\.vtx\.size\(\) - 1|block\.vtx\.size\(\) - 1 == BU\.vtxundo\.size\(\))".replace("BU", bu)),
             "NONCOINBASE": (re.compile(r"%s < 1" % ti), False),
             "TXSIZES": re.compile(r"(%s\.vin\.size\(\) == %s\.vprevout\.size\(\)|%s\.vprevout\.size\(\) == %s\.vin\.size\(\))" % (txk, unk, unk, txk))}
    fb, mp, u_ = F.bind_atoms(ap[0].formula(sub), atoms)
    cex = F.counterexample(fb, F.parse("READ && BLOCKSIZES && NONCOINBASE && TXSIZES"))
    ctx.ob("DisconnectBlock/sizes-checked", "LADDER", "inputs are restored only if the undo record was read, has vtx.size()-1 transaction entries, the transaction is not the "
           "coinbase and its undo entry has exactly vin.size() coins", cex is None, ap[0].where, None if cex is None else {"path": F.fshow(ap[0].formula(sub))[:700], "counterexample": cex})
    # every non-coinbase transaction is restored: the guard of the input loop inside one tx iteration is exactly i > 0 (failures return)
    gi = [g for g in _inner(ap[0], T.get("l")) if g.kind == "if" and (g.line or 0) < J.get("l")]
    fb2, _, _ = F.bind_atoms(F.mk_and([g.formula(sub) for g in gi]), atoms)
    ctx.ob("DisconnectBlock/all-noncoinbase-restored", "SYMMETRY", "the input restoration is skipped only for the coinbase (i == 0)", F.counterexample(F.parse("NONCOINBASE"), fb2) is None,
           ap[0].where, {"guard": F.fshow(fb2)})
    # ---- outputs
    vout = [".", ["local", tx], "CTransaction::vout"]
    every = [st for st in stmts(T["b"]) if st.get("k") in ("for", "foreach") and _loop_lines(st)[0] <= sp[0].line <= _loop_lines(st)[1]]
    ok = len(every) == 1
    oi = None
    if ok:
        O = every[0]
        if O["k"] == "foreach":      # range-for over tx.vout with a separate position counter
            if not match(vout, O.get("range")):
                raise AnalysisBroken("DisconnectBlock: output loop range not recognised (line %s)" % O.get("l"))
            ok = _no_early_exit(O["b"])
        else:
            oi = O["init"]["n"]
            ok = _need_loop(O, vout, "DisconnectBlock output loop") in ("asc", "desc") and _no_early_exit(O["b"])
    ctx.ob("DisconnectBlock/output-loop", "SYMMETRY", "every output index of the transaction is examined (0 .. vout.size()-1, no early exit)", bool(ok), sp[0].where)
    if ok:
        a = call_args(sp[0].expr)
        od = [st for st in stmts(O["b"]) if st.get("k") == "decl" and a[0][0] == "local" and st.get("n") == a[0][1]]
        okp = len(od) == 1 and match(["ctor", "COutPoint", ["local", ANY], ["local", ANY]], od[0].get("i"))
        hashok = False
        if okp:
            hl, pl = od[0]["i"][2][1], od[0]["i"][3][1]
            hashok = hl in decls and match(["mcall", "CTransaction::GetHash", ["local", tx]], decls[hl].get("i"))
            if oi is not None:
                okp = pl == oi
            else:
                # the position counter: declared 0 in the transaction iteration, incremented exactly once per output, after the outpoint was formed
                body = O["b"].get("s", []) if O["b"].get("k") == "seq" else [O["b"]]
                muts = [(st_, x) for st_, e in all_exprs(T.get("b")) for x in subexprs(e)
                        if ((x[0] == "b" and x[1] in ASSIGN_OPS) or (x[0] == "u" and x[1] in ("++", "--", "post++", "post--"))) and match(["local", pl], x[2])]
                okp = (pl in decls and match(["int", 0], decls[pl].get("i")) and decls[pl]["l"] < O.get("l") and len(muts) == 1 and muts[0][1][0] == "u"
                       and muts[0][1][1] in ("++", "post++") and any(muts[0][0] is x for x in body) and (muts[0][0].get("l") or 0) > od[0]["l"])
                oi = pl
        oik = re.escape(oi or "?")
        elem = r"(?:%s\.vout\[%s\]|each\(%s\.vout\))" % (txk, oik, txk)
        fm = F.mk_and([g.formula(sub) for g in _inner(sp[0], O.get("l"))])
        unsp = re.compile(elem + r"\.scriptPubKey\.IsUnspendable\(\)")
        loopc = re.compile(r"%s < %s\.vout\.size\(\)" % (oik, txk))
        fb, mp, u_ = F.bind_atoms(fm, {"UNSPENDABLE": unsp, "INRANGE": loopc})
        c1, c2 = F.counterexample(fb, F.parse("!UNSPENDABLE")), F.counterexample(F.parse("!UNSPENDABLE && INRANGE"), fb)
        ctx.ob("DisconnectBlock/spends-spendable-outputs", "SYMMETRY", "exactly the outputs that are not provably unspendable (those AddCoins created) are removed from the view",
               c1 is None and c2 is None, sp[0].where, None if c1 is None and c2 is None else {"guard": F.fshow(fm), "unbound": u_})
        ctx.ob("DisconnectBlock/spent-outpoint", "SYMMETRY", "the outpoint removed is (tx.GetHash(), o) in the view being disconnected", bool(okp) and hashok and match(["param", "view"], call_obj(sp[0].expr)), sp[0].where)
        # mismatch -> unclean
        coin = a[1][2][1] if match(["u", "&", ["local", ANY]], a[1]) else None
        cl = [s for s in sites(f, lambda e: is_expr(e) and e[0] == "b" and e[1] == "=" and e[2][0] == "local" and match(["bool", False], e[3]), P) if _within(s, O)]
        okm = False
        detail = None
        if coin and len(cl) == 1:
            fm = F.mk_and([g.formula(sub) for g in _inner(cl[0], O.get("l"))])
            ck = re.escape(coin)
            txo = elem
            atoms2 = {"UNSPENDABLE": unsp, "INRANGE": loopc,
                      "SPENT": re.compile(r"view\.SpendCoin\(\w+, &%s\)" % ck),
                      "SAMEOUT": re.compile(r"(%s == %s\.out|%s\.out == %s)" % (txo, ck, ck, txo)),
                      "SAMEHEIGHT": re.compile(r"(%s\.nHeight == pindex\.nHeight|pindex\.nHeight == %s\.nHeight)" % (ck, ck)),
                      "SAMECB": re.compile(r"(%s\.IsCoinBase\(\) == %s\.IsCoinBase\(\)|%s\.IsCoinBase\(\) == %s\.IsCoinBase\(\))" % (txk, ck, ck, txk)),
                      "EXC_CB": re.compile(r"%s\.IsCoinBase\(\)" % txk)}
            fb, mp, u_ = F.bind_atoms(fm, atoms2)
            # any mismatch on a transaction that cannot be a BIP30 exception (non-coinbase) must clear the flag
            spec = F.parse("INRANGE && !UNSPENDABLE && (!SPENT || !SAMEOUT || !SAMEHEIGHT || !SAMECB) && !EXC_CB")
            c = F.counterexample(spec, fb)
            okm = c is None and {"SPENT", "SAMEOUT", "SAMEHEIGHT", "SAMECB"} <= set(mp.values())
            detail = None if okm else {"guard": F.fshow(fm)[:900], "bound": sorted(set(mp.values())), "counterexample": c}
            flag = cl[0].expr[2][1]
        ctx.ob("DisconnectBlock/mismatch-unclean", "LADDER", "a removed output that did not exist, or differs from the block's output in txout, height or coinbase flag, clears the "
               "clean flag (except for the two historic BIP30 coinbases)", okm, sp[0].where, detail)
        if okm:
            exc = [st for st in stmts(f.body) if st.get("k") == "decl" and contains(["int", 91722], st.get("i") or []) and contains(["int", 91812], st.get("i") or [])]
            ctx.ob("DisconnectBlock/bip30-exception-scope", "LADDER", "the mismatch exemption is limited to the coinbases of blocks 91722 and 91812", len(exc) == 1, f.where)
            result(ctx, P, f, sub, flag, ap[0])


def result(ctx, P, f, sub, flag, ap):
    vals = local_values(f, flag)
    ok = all(match(["bool", False], v) or (l == min(x for x, _ in vals) and match(["bool", True], v)) or match(["b", "&&", ["local", flag]], v) for l, v in vals)
    ctx.ob("DisconnectBlock/clean-flag-monotone", "LADDER", "the clean flag starts true and is only ever lowered (= false or = flag && ...)", ok, f.where, {"values": [(l, show(v)) for l, v in vals]})
    # ApplyTxInUndo's result: FAILED returns FAILED, UNCLEAN lowers the flag
    res = None
    for st in stmts(f.body):
        if st.get("k") == "decl" and st.get("i") is ap.expr:
            res = st["n"]
    okr = False
    if res:
        fails = [s for s in stmt_sites(f, lambda st: st.get("k") == "ret" and match(["enum", "DISCONNECT_FAILED"], st.get("v")), P)
                 if [g for g in s.guards if g.kind == "if" and g.pol and match(["b", "==", ["local", res], ["enum", "DISCONNECT_FAILED"]], g.expr)]]
        lower = [v for l, v in vals if match(["b", "&&", ["local", flag], ["b", "!=", ["local", res], ["enum", "DISCONNECT_UNCLEAN"]]], v)]
        okr = bool(fails) and bool(lower)
    ctx.ob("DisconnectBlock/undo-result-propagated", "LADDER", "a FAILED ApplyTxInUndo aborts with DISCONNECT_FAILED and an UNCLEAN one lowers the clean flag", okr, ap.where)
    setbest = mcall_named("CCoinsViewCache::SetBestBlock")
    must_before(ctx, f, P, [("MOVED", setbest)], [], "DisconnectBlock", exit_checks=[
        ("non-failed-moves-best", lambda st: st.get("k") == "ret" and not match(["enum", "DISCONNECT_FAILED"], st.get("v")), ["MOVED"],
         "DisconnectBlock reports OK/UNCLEAN only after the view's best block was moved")])
    for s in sites(f, setbest, P):
        ok = match(["param", "view"], call_obj(s.expr)) and match(["mcall", "CBlockIndex::GetBlockHash", [".", ["param", "pindex"], "CBlockIndex::pprev"]], call_args(s.expr)[0]) and not s.loops
        ctx.ob("DisconnectBlock/best-is-parent@L%s" % s.line, "SYMMETRY", "after undoing a block the view's best block is the parent's hash (set once, after the transaction loop)", ok, s.where)
    n = 0
    for e in exits(f, P, sub):
        if not match(["enum", "DISCONNECT_FAILED"], e.value):
            n += 1
            ok = match(["?:", ["local", flag], ["enum", "DISCONNECT_OK"], ["enum", "DISCONNECT_UNCLEAN"]], e.value)
            ctx.ob("DisconnectBlock/result@L%s" % e.line, "LADDER", "DisconnectBlock returns DISCONNECT_OK iff the clean flag is still set, else DISCONNECT_UNCLEAN", ok, "%s:%s" % (f.file, e.line))
    ctx.floor("DisconnectBlock non-failed exits", n, 1)


def tips(ctx, P):
    dt = ctx.used(P.fn(CS + "DisconnectTip"))
    sub = naming(dt, P)
    fl = sites(dt, lambda e: is_expr(e) and e[0] in ("mcall", "vcall") and e[1].endswith("::Flush") and e[2][0] == "local", P)
    db = sites(dt, mcall_named(CS + "DisconnectBlock"), P)
    ctx.floor("DisconnectTip flush/disconnect sites", min(len(fl), len(db)), 1)
    for s in fl:
        fb, mp, un = F.bind_atoms(s.formula(sub), {"OK": re.compile(r"(Chainstate::DisconnectBlock\(.*\) == DISCONNECT_OK|DISCONNECT_OK == Chainstate::DisconnectBlock\(.*\))")})
        same = all(call_args(d.expr)[2] == s.expr[2] for d in db)
        ctx.ob("DisconnectTip/flush-only-clean@L%s" % s.line, "MPT", "DisconnectTip flushes the scratch view into the chainstate's coins only if DisconnectBlock returned "
               "DISCONNECT_OK for that view", F.counterexample(fb, F.parse("OK")) is None and same, s.where, {"path": F.fshow(s.formula(sub))[:400]})
        d = [st for st in stmts(dt.body) if st.get("k") == "decl" and st.get("n") == s.expr[2][1]]
        ok = len(d) == 1 and contains(["mcall", CS + "CoinsTip"], d[0].get("i") or [])
        ctx.ob("DisconnectTip/scratch-on-tip@L%s" % s.line, "PROVENANCE", "the scratch view disconnected and flushed is layered on this chainstate's CoinsTip()", ok, s.where)
    for s in db:
        a = call_args(s.expr)
        ok = match(["local", "block"], a[0]) or a[0][0] in ("local", "u")
        tipd = [st for st in stmts(dt.body) if st.get("k") == "decl" and a[1][0] == "local" and st.get("n") == a[1][1]]
        ok = len(tipd) == 1 and match(["mcall", "CChain::Tip", [".", ["this"], CS + "m_chain"]], tipd[0].get("i"))
        ctx.ob("DisconnectTip/disconnects-tip@L%s" % s.line, "PROVENANCE", "the block disconnected is the current tip of the active chain", ok, s.where)
    is_flush = lambda e: is_expr(e) and e[0] in ("mcall", "vcall") and e[1].endswith("::Flush") and e[2][0] == "local"
    must_before(ctx, dt, P, [("FLUSHED", is_flush)], [("tip-after-flush", mcall_named("CChain::SetTip"), ["FLUSHED"], "DisconnectTip moves the active tip to the parent only after "
                                                       "the undone coins were flushed into the chainstate")], "DisconnectTip")
    for s in sites(dt, mcall_named("CChain::SetTip"), P):
        a = call_args(s.expr)[0]
        ok = match(["u", "*", [".", ["local", ANY], "CBlockIndex::pprev"]], a)
        ctx.ob("DisconnectTip/new-tip-is-parent@L%s" % s.line, "SYMMETRY", "the new tip after DisconnectTip is the disconnected block's parent", ok, s.where)
    ct = ctx.used(P.fn(CS + "ConnectTip"))
    connected = lambda a: is_expr(a) and a[0] == "mcall" and a[1] == CS + "ConnectBlock"
    must_before(ctx, ct, P, [("FLUSHED", is_flush)],
                [("flush-after-connect", is_flush, ["CONNECTED"], "ConnectTip flushes the block's coin changes into the chainstate only after ConnectBlock returned true"),
                 ("tip-after-flush", mcall_named("CChain::SetTip"), ["FLUSHED"], "ConnectTip moves the active tip only after the block's coin changes were flushed")],
                "ConnectTip", branch_marks=[("CONNECTED", connected, True)])
    cbs = sites(ct, mcall_named(CS + "ConnectBlock"), P)
    fls = sites(ct, is_flush, P)
    ok = len(cbs) == 1 and len(fls) == 1 and call_args(cbs[0].expr)[3] == fls[0].expr[2]
    ctx.ob("ConnectTip/flushes-connected-view", "PROVENANCE", "the view flushed by ConnectTip is the one ConnectBlock applied the block to", ok, ct.where)


def _check_structure(ctx):
    P = ctx.program(UNITS)
    update_coins(ctx, P)
    connect_block(ctx, P)
    apply_undo(ctx, P)
    disconnect_block(ctx, P)
    tips(ctx, P)


def check(ctx):
    _check_structure(ctx)
    # the undo record is read back through the compressed coin encoding: its writer/reader agreement (C18's TxInUndo, Coin and
    # script-compression obligations) is a necessary condition of "disconnecting restores exactly the spent coins"
    from sa.rules import C18
    P18 = ctx.program(C18.UNITS)
    C18.compare_pair(ctx, P18, "TxInUndo", "TxInUndoFormatter::Ser", "TxInUndoFormatter::Unser", "Coin", "#1")
    C18.script_compression(ctx, P18)
