"""C29 Package acceptance is well-formed and leaves no dangling children (DESIGN §3 C29)."""
import re

from sa.engine.api import *
from sa.engine import callgraph
from sa.rules._helpers_D import *

UNITS = ["policy/packages.cpp", "validation.cpp"]
EXPLANATION = ("LADDER (NECESSARY) on IsWellFormedPackage: it returns true only if count <= 25, (count == 1 or total weight <= 404000), the txid set has as many "
               "elements as the package (no duplicates), IsTopoSortedPackage and IsConsistentPackage hold; the weight is the sum of GetTransactionWeight over all "
               "transactions and the txid set is filled from every transaction's GetHash() before it is used. IsTopoSortedPackage / IsConsistentPackage: nested "
               "complete loops that reject when an input refers to a later txid / an outpoint already seen (or a transaction has no inputs), with every "
               "transaction's outpoints recorded. IsChildWithParents returns true only if size >= 2 and every transaction but the last has its txid among the "
               "last transaction's input txids. MPT: in AcceptPackage every AcceptSubPackage call (the only way a package transaction is evaluated) is past "
               "IsWellFormedPackage and, for size > 1, IsChildWithParents; AcceptMultipleTransactionsInternal evaluates (PreChecks) only past IsWellFormedPackage; "
               "non-test submission in ProcessNewPackage goes through AcceptPackage only (who-may-call). RESULT: after the final LimitMempoolSize a VALID "
               "result is reported only if the wtxid is still in the mempool, and an already-in-mempool result is replaced by a failure when the txid is gone.")
ASSUMPTIONS = ["std::accumulate / std::transform / std::all_of / std::inserter have their library semantics",
               "GetTransactionWeight is the BIP141 weight (C06)"]
CLAIM = dict(
    technique="static analysis: reject-ladder conformance (truth tables over canonical guard atoms), lambda/iterator-range provenance, must-pass-through guards, who-may-call",
    text="For every path: a submitted package's transactions are evaluated only if the package passed IsWellFormedPackage (<= 25 transactions, <= 404000 WU when "
         "more than one, no duplicate txids, parents before children, no two transactions spending the same outpoint) and, with more than one transaction, "
         "IsChildWithParents (every transaction except the last is spent by the last); reported VALID / in-mempool results are re-checked against the mempool "
         "after the final trim. Tests check specific packages.",
    note="Not decided: the 'no dangling children' post-condition and full result/mempool agreement (history dependent; only the re-check after LimitMempoolSize "
         "is decided). The test-accept path (testmempoolaccept) deliberately accepts packages that are not child-with-parents and is outside the property.",
    ref="DESIGN.md §3 C29")


def lam_ret(P, e, fn=None):
    """Text of the single `return <expr>` of a lambda expression (or of a named lambda held by a single-definition local), or None."""
    if fn is not None:
        e = resolve_lambda(fn, e)
    if not (is_expr(e) and e[0] == "lambda"):
        return None
    fs = P.fns(e[1])
    if len(fs) != 1 or fs[0].body is None:
        return None
    rets = [st for st in stmts(fs[0].body) if st.get("k") == "ret"]
    others = [st for st in stmts(fs[0].body) if st.get("k") not in ("ret", "seq")]
    if len(rets) != 1 or others:
        return None
    return show(rets[0].get("v")), [p["n"] for p in fs[0].params]


def _le(prefix_re, kmax, kmin=None):
    def m(key):
        mm = re.fullmatch(prefix_re + r" < (\d+)", key)
        return bool(mm) and int(mm.group(1)) <= kmax and (kmin is None or int(mm.group(1)) > kmin)
    return m


def check(ctx):
    P = ctx.program(UNITS)
    c, w = P.const("MAX_PACKAGE_COUNT"), P.const("MAX_PACKAGE_WEIGHT")
    ctx.ob("const/MAX_PACKAGE_COUNT", "CONST", "MAX_PACKAGE_COUNT == 25", c == 25, None, {"value": c})
    ctx.ob("const/MAX_PACKAGE_WEIGHT", "CONST", "MAX_PACKAGE_WEIGHT == 404000", w == 404000, None, {"value": w})
    _wellformed(ctx, P)
    _topo(ctx, P)
    _consistent(ctx, P)
    _child_with_parents(ctx, P)
    _accept_package(ctx, P)
    _entry_points(ctx, P)


# ------------------------------------------------------------------------------------------ policy/packages.cpp

def _wellformed(ctx, P):
    f = ctx.used(P.fn("IsWellFormedPackage"))
    sub = naming(f, P)
    acc_re = r"std::accumulate\(txns\.cbegin\(\), txns\.cend\(\), 0, \[lambda [^\]]*\]\)"
    atoms = {"ONE": "txns.size() < 2",
             "COUNT_OK": _le(r"txns\.size\(\)", 26, 2),
             "WEIGHT_OK": _le(acc_re, 404001),
             "NODUP": re.compile(r"\w+\.size\(\) == txns\.size\(\)"),
             "SORTED": re.compile(r"IsTopoSortedPackage\(txns(, \w+)?\)"),
             "CONSISTENT": "IsConsistentPackage(txns)"}
    accept_implies(ctx, f, P, is_true_ret, "COUNT_OK && (ONE || WEIGHT_OK) && NODUP && SORTED && CONSISTENT", atoms, "IsWellFormedPackage/accept",
                   "a package is well-formed only if it has at most 25 transactions, at most 404000 WU when it has more than one, no duplicate txids, is "
                   "topologically sorted and conflict-free")
    # weight = sum of GetTransactionWeight over the whole package
    accs = sites(f, call_to("std::accumulate"), P)
    okw = False
    for s in accs:
        a = call_args(s.expr)
        lr = lam_ret(P, a[3], f) if len(a) >= 4 else None
        if lr and [show(a[0]), show(a[1])] == ["txns.cbegin()", "txns.cend()"] and match(["int", 0], a[2]):
            body, ps = lr
            okw = len(ps) == 2 and body in ("%s + GetTransactionWeight(*%s)" % (ps[0], ps[1]), "GetTransactionWeight(*%s) + %s" % (ps[1], ps[0]))
    ctx.ob("IsWellFormedPackage/weight-sum", "PROVENANCE", "the weight compared with MAX_PACKAGE_WEIGHT is std::accumulate over the whole package of "
           "sum + GetTransactionWeight(*tx), starting at 0", okw, accs[0].where if accs else f.where)
    # the txid set
    S = None
    for x in sites(f, call_to("std::transform"), P):
        a = call_args(x.expr)
        if len(a) >= 4 and [show(a[0]), show(a[1])] == ["txns.cbegin()", "txns.cend()"] and is_call_to("std::inserter", a[2]) and call_args(a[2])[0][0] == "local":
            S = call_args(a[2])[0][1]
    if S is None:
        ctx.ob("IsWellFormedPackage/txid-set", "PROVENANCE", "a set is filled with the txid of every package transaction (std::transform over the whole package)", False, f.where)
        return
    dup = sites(f, lambda e: e[0] == "mcall" and e[1].endswith("::size") and match(["local", S], e[2]), P)
    ctx.floor("uses of the txid set's size", len(dup), 1)

    def fills(e):
        if not is_call_to("std::transform", e):
            return False
        a = call_args(e)
        lr = lam_ret(P, a[3], f) if len(a) >= 4 else None
        return bool(lr) and [show(a[0]), show(a[1])] == ["txns.cbegin()", "txns.cend()"] and is_call_to("std::inserter", a[2]) and \
            match(["local", S], call_args(a[2])[0]) and lr[0] == "%s.GetHash()" % lr[1][0]

    decl = [st for st in stmts(f.body) if st.get("k") == "decl" and st.get("n") == S]
    fresh = len(decl) == 1 and (decl[0].get("i") is None or (is_expr(decl[0]["i"]) and decl[0]["i"][0] == "ctor" and len(decl[0]["i"]) == 2))
    mf = MustFlow(f, P, marks=[("FILLED", fills)])
    mf.watch = lambda e: (e[0] == "mcall" and e[1].endswith("::size") and match(["local", S], e[2])) or \
        (is_call_to("IsTopoSortedPackage", e) and any(match(["local", S], a) for a in call_args(e)))
    mf.run()
    ok = fresh and len(mf.events) >= 2 and all("FILLED" in st for _, st, _ in mf.events)
    ctx.ob("IsWellFormedPackage/txid-set", "PROVENANCE", "the set used for the duplicate test and handed to IsTopoSortedPackage starts empty and has been filled with "
           "GetHash() (txid) of every package transaction", ok, dup[0].where, {"uses": len(mf.events)})
    other = [s for s in sites(f, lambda e: callee(e) and any(match(["local", S], a) for a in e[1:] if is_expr(a)) and not is_call_to("IsTopoSortedPackage", e)
                              and callee(e).rsplit("::", 1)[-1] not in ("size", "end", "inserter", "empty"), P)]
    ctx.ob("IsWellFormedPackage/txid-set-untouched", "PROVENANCE", "nothing else modifies the txid set before it is used", not other, f.where,
           {"uses": [show(s.expr) for s in other]} if other else None)


def _nested_reject(ctx, f, P, outer_re, inner_re, hit_atoms, oid, text):
    """`for x in OUTER { for y in INNER(x) { if (HIT) return false; } }`: the false exit inside both loops fires whenever HIT holds,
    neither loop can be left early otherwise, the accepting exit is past the outer loop."""
    sub = naming(f, P)
    ex = exits(f, P, sub)
    rej = [e for e in ex if is_false_ret(e) and len(e.loops) == 2]
    cand = []
    for e in rej:
        ssub = site_subst(sub, e.site)
        ko, ki = loop_range_key(e.loops[0], ssub), loop_range_key(e.loops[1], site_subst(sub, e.site))
        if re.fullmatch(outer_re, ko) and re.fullmatch(inner_re, ki):
            cand.append((e, ssub))
    if not cand:
        ctx.ob(oid + "/elem", "LADDER", text, False, f.where, {"nested_rejects": [(e.line, [loop_range_key(l, sub) for l in e.loops]) for e in rej]})
        return None
    e, ssub = cand[0]
    outer, inner = e.loops
    g = F.mk_and([x.formula(ssub) for x in in_loop_guards(e.site, inner)])
    gb, mapping, un = F.bind_atoms(g, hit_atoms)
    cex = F.counterexample(F.parse("HIT"), gb)
    ctx.ob(oid + "/elem", "LADDER", text, cex is None, "%s:%s" % (f.file, e.line), None if cex is None else {"guard": F.fshow(g), "unbound": un})
    leaves = [st for lp in (outer, inner) for st in stmts(lp.get("b")) if st.get("k") in ("break", "continue", "goto")]
    ctx.ob(oid + "/complete", "LADDER", "neither the loop over %s nor the loop over %s in %s is left early except by rejecting" % (outer_re, inner_re, f.q), not leaves,
           "%s:%s" % (f.file, outer.get("l")))
    for a in ex:
        if is_true_ret(a):
            ctx.ob(oid + "/before-accept@L%s" % a.line, "ORDER", "%s returns true only after the loop over the whole package completed" % f.q,
                   F.implies(a.formula, done_atom(outer)) and not a.loops, "%s:%s" % (f.file, a.line))
    for a in ex:
        if a.kind == "ret" and not is_true_ret(a) and not is_false_ret(a):
            raise AnalysisBroken("%s: unexpected return value %s" % (f.q, show(a.value)))
    return outer, inner


def _topo(ctx, P):
    f = ctx.used(P.fn("IsTopoSortedPackage", nparams=2))
    names = [p["n"] for p in f.params]
    hit = {"HIT": re.compile(re.escape(names[1]) + r"\.contains\(each\(each\(txns\)\.vin\)\.prevout\.hash\)")}
    _nested_reject(ctx, f, P, r"each\(txns\)", r"each\(each\(txns\)\.vin\)", hit, "IsTopoSortedPackage",
                   "IsTopoSortedPackage rejects when any input of any transaction refers to a txid in the later-txids set")


def _consistent(ctx, P):
    f = ctx.used(P.fn("IsConsistentPackage"))
    sub = naming(f, P)
    seen = [st for st in stmts(f.body) if st.get("k") == "decl" and "unordered_set<COutPoint" in (st.get("ty") or "")]
    if len(seen) != 1:
        raise AnalysisBroken("IsConsistentPackage: the seen-outpoints set was not found")
    S = seen[0]["n"]
    r = _nested_reject(ctx, f, P, r"each\(txns\)", r"each\(each\(txns\)\.vin\)", {"HIT": re.compile(re.escape(S) + r"\.contains\(each\(each\(txns\)\.vin\)\.prevout\)")},
                       "IsConsistentPackage", "IsConsistentPackage rejects when any input's outpoint is already in the seen set")
    if r is None:
        return
    outer, _ = r

    def records(e):
        if not is_call_to("std::transform", e):
            return False
        a = call_args(e)
        lr = lam_ret(P, a[3], f) if len(a) >= 4 else None
        return bool(lr) and is_call_to("std::inserter", a[2]) and match(["local", S], call_args(a[2])[0]) and lr[0] == "%s.prevout" % lr[1][0]

    rec = [s for s in sites(f, records, P) if s.loops and s.loops[-1] is outer]
    ok = False
    for s in rec:
        ssub = site_subst(sub, s)
        a = call_args(s.expr)
        rng = [xkey(a[0], ssub), xkey(a[1], ssub)]
        ok = rng == ["each(txns).vin.cbegin()", "each(txns).vin.cend()"] and all(g.kind == "post" for g in in_loop_guards(s, outer))
    ctx.ob("IsConsistentPackage/record", "PROVENANCE", "every outpoint spent by every non-rejected transaction is recorded in the seen set (std::transform over the "
           "whole vin with `input.prevout`, unconditionally in the package loop)", ok, rec[0].where if rec else f.where)
    # empty-vin transactions are rejected (they cannot be checked for conflicts)
    emp = [e for e in exits(f, P, sub) if is_false_ret(e) and len(e.loops) == 1 and e.loops[0] is outer]
    ok = any(F.implies(F.atom("each(txns).vin.empty()"), F.mk_and([g.formula(site_subst(sub, e.site)) for g in in_loop_guards(e.site, outer)])) for e in emp)
    ctx.ob("IsConsistentPackage/empty-vin", "LADDER", "a transaction without inputs makes the package inconsistent", ok, emp[0].site.where if emp else f.where)


def _child_with_parents(ctx, P):
    f = ctx.used(P.fn("IsChildWithParents"))
    sub = naming(f, P)
    parts = []
    for e in exits(f, P, sub):
        if e.kind != "ret" or not is_expr(e.value):
            raise AnalysisBroken("IsChildWithParents: unexpected exit")
        parts.append(F.mk_and([e.formula, F.to_formula(e.value, sub)]))
    code = F.mk_or(parts)
    allre = re.compile(r"std::all_of\(package\.cbegin\(\), package\.cend\(\) - 1, \[lambda [^\]]*\]\)")
    g, mapping, un = F.bind_atoms(code, {"SMALL": "package.size() < 2", "ALLPARENTS": allre})
    cex = F.counterexample(g, F.parse("!SMALL && ALLPARENTS"))
    ctx.ob("IsChildWithParents/returns", "TWIN", "IsChildWithParents returns true only if the package has at least 2 transactions and std::all_of over all but the last "
           "transaction holds", cex is None, f.where, None if cex is None else {"code": F.fshow(code), "unbound": un, "counterexample": cex})
    # the predicate and the set it consults
    alls = [s for s in sites(f, call_to("std::all_of"), P) if allre.fullmatch(xkey(s.expr, sub))]
    okp, S = False, None
    for s in alls:
        lr = lam_ret(P, call_args(s.expr)[2], f)
        if lr:
            m = re.fullmatch(r"(\w+)\.contains\(%s\.GetHash\(\)\)" % re.escape(lr[1][0]), lr[0])
            if m:
                okp, S = True, m.group(1)
    ctx.ob("IsChildWithParents/predicate", "PROVENANCE", "the per-transaction predicate is `<input txids>.contains(ptx->GetHash())`", okp, alls[0].where if alls else f.where)
    if not okp:
        return

    def fills(e):
        if not is_call_to("std::transform", e):
            return False
        a = call_args(e)
        lr = lam_ret(P, a[3], f) if len(a) >= 4 else None
        return bool(lr) and [xkey(a[0], sub), xkey(a[1], sub)] == ["package.back().vin.cbegin()", "package.back().vin.cend()"] and \
            is_call_to("std::inserter", a[2]) and match(["local", S], call_args(a[2])[0]) and lr[0] == "%s.prevout.hash" % lr[1][0]

    mf = MustFlow(f, P, marks=[("FILLED", fills)])
    mf.watch = lambda e: is_call_to("std::all_of", e) and allre.fullmatch(xkey(e, sub)) is not None
    mf.run()
    ok = bool(mf.events) and all("FILLED" in st for _, st, _ in mf.events)
    ctx.ob("IsChildWithParents/input-txids", "PROVENANCE", "the consulted set holds `input.prevout.hash` of every input of the last transaction (package.back()), filled "
           "before the predicate runs", ok, f.where)


# ------------------------------------------------------------------------------------------ validation.cpp

def _accept_package(ctx, P):
    f = inline_condvars(ctx.used(P.fn("MemPoolAccept::AcceptPackage")))
    sub = naming(f, P)
    atoms = {"WELLFORMED": re.compile(r"IsWellFormedPackage\(package, \w+\)"), "SINGLE": "package.size() < 2", "CWP": "IsChildWithParents(package)"}
    spec = "WELLFORMED && (SINGLE || CWP)"
    ev = sites(f, lambda e: callee(e) in ("MemPoolAccept::AcceptSubPackage", "MemPoolAccept::AcceptSingleTransactionInternal",
                                          "MemPoolAccept::AcceptMultipleTransactionsInternal", "MemPoolAccept::PreChecks"), P)
    ctx.floor("AcceptPackage evaluation call sites", len(ev), 2)
    site_implies(ctx, ev, sub, spec, atoms, "AcceptPackage/evaluate", "a package transaction is evaluated only past IsWellFormedPackage and, for more than one "
                 "transaction, IsChildWithParents")
    # the lock / mempool lookups are also past the context-free checks (fail fast), and so is the trim
    site_implies(ctx, sites(f, call_to("LimitMempoolSize"), P), sub, spec, atoms, "AcceptPackage/trim", "the final LimitMempoolSize is past the context-free checks")
    # what is evaluated: single transactions of the package, or the not-yet-accepted subsequence in package order
    for s in sites(f, call_to("MemPoolAccept::AcceptSubPackage"), P):
        a0 = call_args(s.expr)[0]
        k = xkey(a0, site_subst(sub, s))
        if a0[0] == "local":
            pushes = [x for x in sites(f, lambda e: callee(e) in ("std::vector::push_back", "std::vector::emplace_back") and match(["local", a0[1]], call_obj(e)), P)]
            ok = bool(pushes) and all(xkey(call_args(x.expr)[0], site_subst(sub, x)) == "each(package)" for x in pushes)
            what = "the vector handed to package evaluation only ever receives transactions of the submitted package, in package order"
        else:
            ok = re.fullmatch(r"std::vector\{.*\{each\(package\)\}\}", k) is not None
            what = "individual evaluation is given one transaction of the submitted package"
        ctx.ob("AcceptPackage/subpackage-arg@L%s" % s.line, "PROVENANCE", what, ok, s.where, {"arg": k})

    # result / mempool agreement after the final trim
    VALID = re.compile(r".*\.m_result_type == MempoolAcceptResult::ResultType::VALID")
    mf = MustFlow(f, P, marks=[("TRIMMED", call_to("LimitMempoolSize"))], kills=[("TRIMMED", call_to("MemPoolAccept::AcceptSubPackage"))])
    rf = lambda e: callee(e) in ("std::map::emplace", "std::map::insert", "std::map::try_emplace") and show(call_obj(e)) == "results_final"
    mf.watch = rf
    mf.run()
    trimmed_lines = {st.get("l") for e, state, st in mf.events if "TRIMMED" in state}
    # branch conditions inside the per-transaction loop that enclose the site
    own = lambda s: F.mk_and([g.formula(site_subst(sub, s)) for g in (in_loop_guards(s, s.loops[-1]) if s.loops else s.guards) if g.kind != "post"])
    n = 0
    for s in sites(f, rf, P):
        a = call_args(s.expr)
        val = xkey(a[1], site_subst(sub, s)) if len(a) > 1 else ""
        if val.startswith("multi_submission_result.m_tx_results.at(") or val == "txresult":
            n += 1
            g, _, un = F.bind_atoms(own(s), {"VALID": VALID, "STILLIN": re.compile(r"m_pool\.exists\((wtxid|each\(package\)\.GetWitnessHash\(\))\)")})
            ok = F.counterexample(g, F.parse("!VALID || STILLIN")) is None and s.line in trimmed_lines
            ctx.ob("AcceptPackage/result-valid@L%s" % s.line, "MPT", "after the final LimitMempoolSize a VALID package-evaluation result is reported only if its wtxid is "
                   "still in the mempool", ok, s.where, None if ok else {"guard": F.fshow(own(s))[:600], "unbound": un[:8]})
    ctx.floor("package-evaluation results copied to the final map", n, 1)
    er = sites(f, lambda e: callee(e) == "std::map::erase" and show(call_obj(e)) == "results_final", P)
    ctx.floor("results_final.erase sites", len(er), 1)
    for s in er:
        g, _, un = F.bind_atoms(own(s), {"INMULTI": re.compile(r"multi_submission_result\.m_tx_results\.contains\(.*\)"),
                                          "NOTFOUND": re.compile(r"(it == results_final\.end\(\)|results_final\.end\(\) == it)"),
                                          "TXIDIN": re.compile(r"m_pool\.exists\(each\(package\)\.GetHash\(\)\)")})
        ok = F.counterexample(F.parse("!INMULTI && !NOTFOUND && !TXIDIN"), g) is None
        ctx.ob("AcceptPackage/result-entry@L%s" % s.line, "MPT", "an already-in-mempool result whose txid is no longer in the mempool after the final trim is "
               "replaced (queried by txid, so a different-witness twin counts)", ok, s.where, None if ok else {"guard": F.fshow(own(s))[:600], "unbound": un[:8]})
        nxt = [x for x in sites(f, rf, P) if F.equivalent(own(x), own(s)) and "MempoolAcceptResult::Failure" in xkey(call_args(x.expr)[1], sub)]
        ctx.ob("AcceptPackage/result-entry-failure@L%s" % s.line, "MPT", "the replacement result is a failure", bool(nxt), s.where)


def _entry_points(ctx, P):
    am = inline_condvars(ctx.used(P.fn("MemPoolAccept::AcceptMultipleTransactionsInternal")))
    sub = naming(am, P)
    atoms = {"WELLFORMED": re.compile(r"IsWellFormedPackage\(txns, \w+\)")}
    ev = sites(am, lambda e: callee(e) in ("MemPoolAccept::PreChecks", "MemPoolAccept::PolicyScriptChecks", "MemPoolAccept::SubmitPackage",
                                           "MemPoolAccept::PackageRBFChecks", "CCoinsViewMemPool::PackageAddTransaction"), P)
    ctx.floor("AcceptMultipleTransactionsInternal evaluation sites", len(ev), 4)
    site_implies(ctx, ev, sub, "WELLFORMED", atoms, "AcceptMultiple/evaluate", "multi-transaction evaluation starts only past IsWellFormedPackage")
    cg = callgraph.load_all()
    allowed = {"MemPoolAccept::AcceptMultipleTransactionsInternal": {"MemPoolAccept::AcceptMultipleTransactionsAndCleanup", "MemPoolAccept::AcceptSubPackage"},
               "MemPoolAccept::AcceptSubPackage": {"MemPoolAccept::AcceptPackage"},
               "MemPoolAccept::AcceptPackage": {"ProcessNewPackage"},
               "MemPoolAccept::AcceptMultipleTransactionsAndCleanup": {"ProcessNewPackage"},
               "MemPoolAccept::SubmitPackage": {"MemPoolAccept::AcceptMultipleTransactionsInternal"}}
    for q, al in allowed.items():
        if not cg.defined(q):
            raise AnalysisBroken("%s not found in the call graph" % q)
        cs = {_outer(c) for c in cg.callers(q)}
        ctx.ob("who-calls/%s" % q.rsplit("::", 1)[-1], "WHO-MAY-CALL", "%s is called only from %s" % (q, sorted(al)), bool(cs) and cs <= al, None, {"callers": sorted(cs)})
    pn = ctx.used(P.fn("ProcessNewPackage"))
    psub = naming(pn, P)
    ss = sites(pn, call_to("MemPoolAccept::AcceptMultipleTransactionsAndCleanup"), P)   # walks into the immediately invoked lambda
    ctx.floor("ProcessNewPackage direct multi-transaction evaluation", len(ss), 1)
    for s in ss:
        ok = F.implies(s.formula(psub), F.atom("test_accept"))
        ctx.ob("ProcessNewPackage/direct-multi@L%s" % s.line, "MPT", "ProcessNewPackage bypasses AcceptPackage (and with it the child-with-parents requirement) only for "
               "test_accept", ok, s.where)


def _outer(q):
    """lambdas are attributed to the function that creates them"""
    return q.split("::lambda@", 1)[0]

