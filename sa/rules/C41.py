"""C41 Wallet-created transactions are correct, sufficiently funded and not overpaying - structural clauses only
(originally listed N/A; partial claim).

Decided is what is visible in the shape of the code: which coins can become automatic candidates (reject ladder of
AvailableCoins, including its per-transaction verdict cache), where the inputs / outputs / change script of the
transaction built by CreateTransactionInternal come from, and which outputs may have their amount changed afterwards.
Amounts, fees and sizes as numbers are not decided."""
import re

from sa.engine.api import *
from sa.rules._helpers_J import (safe_naming, own_guard, site_formula, inline_preds, origins, unwrap, in_loop, assign_lhs, assign_rhs, counterexample, implies, equivalent)

UNITS = ["wallet/spend.cpp", "wallet/coincontrol.cpp"]
EXPLANATION = ("Taken whole (fee >= feerate * size, fee <= maximum, mempool acceptance) the property is numeric; decided are three clauses as shapes of the code. "
               "(1) inputs: AvailableCoins is a reject ladder - a wallet TXO reaches result.Add (directly or through the deferred TRUC list) only if it is not "
               "spent, not locked while params.skip_locked, not one of the caller's preselected coins, and its transaction is not an immature coinbase (unless "
               "params.include_immature_coinbase), not conflicted (depth >= 0) and, at depth 0, in the mempool; the per-transaction tests may be answered by the "
               "verdict cache only because every store of a possibly-true verdict lies past all of them and uses the same key; the COutput added is built from the "
               "tested outpoint; the defaults of CoinFilterParams skip locked coins and exclude immature coinbases; CreateTransactionInternal takes its inputs only "
               "from SelectCoins(wallet, AvailableCoins(wallet, &coin_control, .., default filter), FetchSelectedInputs(wallet, coin_control, ..)), SelectCoins hands "
               "AutomaticCoinSelection its candidate parameter and adds only the preset set, FetchSelectedInputs builds coins only from coin_control.ListSelected(), "
               "and automatic candidates are used only if coin_control.m_allow_other_inputs; CCoinControl::IsSelected / HasSelected equal their definitions. "
               "(2) outputs: exactly one output per recipient, CTxOut(recipient.nAmount, GetScriptForDestination(recipient.dest)), in an unconditional loop over "
               "vecSend; afterwards an output's nValue is written only for the change output (vout.at(*change_pos)) or, inside a loop over vecSend, under that "
               "recipient's fSubtractFeeFromAmount; the divisor of the share is a counter incremented exactly once per flagged recipient. "
               "(3) change: the only other output inserted is CTxOut(.., <script local>) whose script is only ever GetScriptForDestination(coin_control.destChange) "
               "or GetScriptForDestination of a destination reserved from this wallet (ReserveDestination(&wallet, ..).GetReservedDestination), and success is "
               "returned only if not (script empty && change position set).")
ASSUMPTIONS = ["wallet.IsSpent / IsLockedCoin / IsTxImmatureCoinBase / GetTxDepthInMainChain / InMempool compute what their names say (opaque atoms; IsSpent's formula is C44's)",
               "the key of a wallet TXO (outpoint.hash) is the txid of the transaction returned by txo.GetWalletTx(), so a per-txid verdict is a verdict about that transaction",
               "the keys of wallet.GetTXOs() and of CCoinControl::m_selected are distinct (map semantics); the selection algorithms return a subset of the candidates "
               "they are given (C40, not decided)",
               "callees that receive the transaction by reference (DiscourageFeeSniping, SignTransaction) do not add or change outputs",
               "a change destination set by the caller in coin_control.destChange is the caller's explicit choice (it need not belong to the wallet)"]
CLAIM = dict(
    technique="static analysis: LADDER (effect implies no reject condition, with a must-pass obligation on the verdict-cache stores) on AvailableCoins + argument "
              "PROVENANCE of inputs, outputs and change script in CreateTransactionInternal / SelectCoins / FetchSelectedInputs + who-may-write of output amounts + predicate twins",
    text="PARTIAL. Decided for all paths, of the sentence 'spends distinct inputs that are either explicitly supplied by the caller or spendable wallet coins "
         "(mature, unspent, not locked), pays every recipient the requested amount (reduced, for recipients that subtract the fee ...), sends any change to the "
         "wallet': automatic candidates pass the not-spent / not-locked / not-preselected / mature / not-conflicted / in-mempool ladder of AvailableCoins (the "
         "verdict cache cannot shortcut it); inputs come only from those candidates and from the caller's preselection; each recipient gets one output with "
         "its nAmount and destination; later amount writes touch only the change output or, under the recipient's subtract-fee flag, outputs in the recipient "
         "loop; the only extra output carries a script from coin_control.destChange or from a destination reserved from this wallet.",
    note="NOT decided (numeric / dynamic): fee >= feerate * final size, fee <= maximum fee, the value of each share and of the change, that the running index of the "
         "fee-subtraction loop pairs output i with recipient i (it skips the change position), coin-selection quality and that the algorithms return a subset of "
         "their candidates, signing, mempool test-accept; min/max depth, 'safe' and TRUC filters of AvailableCoins are not part of the statement and not checked; "
         "that the verified txout of a candidate is the TXO's own (only the outpoint is traced). This is a weak, structural claim.",
    ref="DESIGN.md §3 C41 (listed N/A at design time; structural clauses claimed partially, like C54/C56)")

AC = "wallet::AvailableCoins"
CTI = "wallet::CreateTransactionInternal"
SC = "wallet::SelectCoins"
FSI = "wallet::FetchSelectedInputs"
ACS = "wallet::AutomaticCoinSelection"
INSERTERS = ("emplace_back", "push_back", "insert", "emplace")
DESTRUCTIVE = ("erase", "clear", "resize", "assign", "pop_back", "swap", "operator=")
MAP_MUTATORS = ("emplace", "try_emplace", "insert", "insert_or_assign", "erase", "clear", "swap", "merge", "extract", "operator=")


def meth(e):
    return e[1].rsplit("::", 1)[-1] if is_expr(e) and e[0] in ("mcall", "vcall") and isinstance(e[1], str) else None


def K(e, sub=None):
    return F.key(F.expand(e, sub) if sub else e)


def check(ctx):
    P = ctx.program(["wallet/spend.cpp"])
    available_coins(ctx, P)
    filter_defaults(ctx, P)
    fetch_selected(ctx, P)
    sc_guard = select_coins(ctx, P)
    create_tx(ctx, P, sc_guard)
    twins(ctx)
    aps_change_reuse(ctx, P)
    # "unspent" is the wallet's own notion (IsSpent over live spenders): it depends on the mempool-conflict marks being cleared when a
    # block connects - the obligation is C44's, imported here because a stale mark makes spent coins selectable again
    from sa.rules.C44 import block_connected
    block_connected(ctx, ctx.program(["wallet/wallet.cpp"]))


# ================================================================================================ (1) AvailableCoins
def available_coins(ctx, P):
    f = ctx.used(P.fn(AC))
    if len(f.params) != 4:
        raise AnalysisBroken("AvailableCoins: expected (wallet, coinControl, feerate, params)")
    W, CC, _, PR = (p["n"] for p in f.params)
    sub = safe_naming(f, P)
    loops = [st for st in stmts(f.body) if st.get("k") == "foreach" and K(st.get("range"), sub) == "%s.GetTXOs()" % W]
    if len(loops) != 1:
        raise AnalysisBroken("AvailableCoins: expected exactly one range-for over %s.GetTXOs(), found %d" % (W, len(loops)))
    loop = loops[0]
    EL = "each(%s.GetTXOs())" % W
    OP, TXO = EL + ".first", EL + ".second"
    WTX = TXO + ".GetWalletTx()"
    D = "%s.GetTxDepthInMainChain(%s)" % (W, WTX)
    atoms = {
        "SPENT": "%s.IsSpent(%s)" % (W, OP),
        "LOCKED": "%s.IsLockedCoin(%s)" % (W, OP), "SKIP": "%s.skip_locked" % PR,
        "CC": CC, "HASSEL": "%s.HasSelected()" % CC, "ISSEL": "%s.IsSelected(%s)" % (CC, OP),
        "IMM": "%s.IsTxImmatureCoinBase(%s)" % (W, WTX), "INCL": "%s.include_immature_coinbase" % PR,
        "NEG": D + " < 0", "DEPTH0": [(D, False), D + " < 1"], "INMP": WTX + ".InMempool()",
    }
    coin_rungs = [("spent", "SPENT", "it is spent (wallet.IsSpent(outpoint))"),
                  ("locked", "LOCKED && SKIP", "it is locked and params.skip_locked"),
                  ("preselected", "CC && HASSEL && ISSEL", "it is one of the caller's preselected coins (coinControl->IsSelected(outpoint)): automatic and preset inputs stay distinct")]
    tx_rungs = [("immature-coinbase", "IMM && !INCL", "its transaction is an immature coinbase and params.include_immature_coinbase is not set"),
                ("conflicted", "NEG", "its transaction has negative depth (conflicted)"),
                ("unconfirmed-not-in-mempool", "DEPTH0 && !INMP", "its transaction is unconfirmed and not in the mempool")]

    # ---- effect sites: result.Add in the TXO loop, or inserts into a local list whose elements are added later
    adds = sites(f, lambda e: e[0] == "mcall" and e[1] == "wallet::CoinsResult::Add", P)
    effects = []
    results = set()
    for s in adds:
        results.add(K(call_obj(s.expr)))
        arg = call_args(s.expr)[-1] if call_args(s.expr) else None
        if in_loop(s, loop):
            effects.append((s, arg, "result.Add"))
            continue
        # deferred: the element of an enclosing range-for over a local list
        ok, lst = False, None
        if is_expr(arg) and arg[0] == "local":
            for l in reversed(s.loops):
                v = l.get("var") if l.get("k") == "foreach" else None
                if isinstance(v, dict) and (v.get("n") == arg[1] or arg[1] in (v.get("binds") or [])) and is_expr(l.get("range")) and l["range"][0] == "local":
                    lst = l["range"][1]
                    break
        ins = []
        if lst:
            ins = sites(f, lambda e: e[0] == "mcall" and e[2] == ["local", lst] and meth(e) in INSERTERS, P)
            ok = bool(ins) and all(in_loop(i, loop) for i in ins) and not [1 for l_, v in local_values(f, lst) if is_expr(v) and v[0] not in ("ctor", "init")]
            for i in ins:
                if in_loop(i, loop):
                    effects.append((i, call_args(i.expr)[-1], "%s.%s" % (lst, meth(i.expr))))
        ctx.ob("AvailableCoins/deferred-source@L%s" % s.line, "PROVENANCE", "a coin added to the result outside the loop over the wallet's TXOs comes from a local list that is "
               "filled only inside that loop (where the ladder applies)", ok, s.where, {"list": lst, "inserts": [i.line for i in ins]})
    ctx.floor("AvailableCoins sites adding a candidate coin", len(effects), 1)

    used_cache = {}
    for s, arg, what in effects:
        fm = site_formula(s, f, P, sub)
        fb, mapping, unmatched = F.bind_atoms(fm, atoms)
        for label, spec, text in coin_rungs:
            cex = counterexample(fb, F.mk_not(F.parse(spec)))
            ctx.ob("AvailableCoins/rung:%s/%s@L%s" % (label, what, s.line), "LADDER", "a wallet TXO becomes a candidate (%s at line %s) only if NOT: %s" % (what, s.line, text),
                   cex is None, s.where, None if cex is None else {"path_condition": F.fshow(fm)[:1500], "unbound_code_atoms": unmatched[:14], "counterexample": cex})
        caches = cache_atoms(fm)
        for label, spec, text in tx_rungs:
            cex = counterexample(fb, F.mk_not(F.parse(spec)))
            via = None
            for c in (caches if cex is not None else []):
                # on every path on which the reject condition is not excluded directly, the cached verdict read for this coin is true
                if counterexample(fb, F.mk_or([F.atom(c[0]), F.mk_not(F.parse(spec))])) is None:
                    via = c
                    used_cache[(via[1], via[2])] = via
                    break
            ctx.ob("AvailableCoins/rung:%s/%s@L%s" % (label, what, s.line), "LADDER", "a wallet TXO becomes a candidate (%s at line %s) only if NOT: %s - tested on this "
                   "path or answered by a cached per-transaction verdict that is true" % (what, s.line, text), cex is None or via is not None, s.where,
                   None if cex is None or via is not None else {"path_condition": F.fshow(fm)[:1500], "unbound_code_atoms": unmatched[:14], "counterexample": cex})
        # the coin added is the one that was tested
        leaves = origins(f, arg, line=s.line) if is_expr(arg) else []
        okp = bool(leaves) and all(is_expr(x) and x[0] in ("ctor", "init") and x[1] == "wallet::COutput" and call_args(x) and K(call_args(x)[0], sub) == OP for x in leaves)
        ctx.ob("AvailableCoins/coin-is-the-tested-one/%s@L%s" % (what, s.line), "PROVENANCE", "the COutput added is built from the outpoint the ladder tested (the loop's TXO key)",
               okp, s.where, {"value": [show(x)[:160] for x in leaves if is_expr(x)]})

    # ---- the per-transaction verdict cache
    n_true = 0
    for (cache, key), via in sorted(used_cache.items()):
        ctx.ob("AvailableCoins/cache-key/%s" % cache, "PROVENANCE", "the cached verdict consulted for a coin is the one stored under that coin's txid (outpoint.hash)",
               key == OP + ".hash", f.where, {"key": key})
        for s, k, first in cache_writes(f, P, cache):
            if is_expr(first) and first[0] == "bool" and first[1] is False:
                continue
            n_true += 1
            fm = site_formula(s, f, P, sub)
            fb, mapping, unmatched = F.bind_atoms(fm, atoms)
            okk = in_loop(s, loop) and is_expr(k) and K(k, sub) == key
            ctx.ob("AvailableCoins/cache-store-key@L%s" % s.line, "PROVENANCE", "a verdict that may be true is stored, inside the TXO loop, under the txid it was computed for", okk, s.where,
                   {"key": K(k, sub) if is_expr(k) else None})
            for label, spec, text in tx_rungs:
                cex = counterexample(fb, F.mk_not(F.parse(spec)))
                ctx.ob("AvailableCoins/cache-store-past:%s@L%s" % (label, s.line), "MPT", "the per-transaction verdict cache stores a possibly-true verdict (line %s) only past the "
                       "test that rejects a coin when: %s (a later coin of the same transaction is accepted on the cached verdict alone)" % (s.line, text), cex is None, s.where,
                       None if cex is None else {"path_condition": F.fshow(fm)[:1500], "unbound_code_atoms": unmatched[:14], "counterexample": cex})
    if used_cache:
        ctx.floor("AvailableCoins stores of a possibly-true cached verdict", n_true, 1)

    # ---- what is returned is what was filled
    rets = [e for e in exits(f, P, sub) if e.kind == "ret"]
    okr = bool(rets) and len(results) == 1 and all(is_expr(e.value) and K(unwrap(e.value)) in results for e in rets)
    ctx.ob("AvailableCoins/returns-the-filled-result", "PROVENANCE", "AvailableCoins returns the CoinsResult it filled through the ladder", okr, f.where,
           {"returns": [show(e.value)[:80] for e in rets if is_expr(e.value)], "filled": sorted(results)})


_CACHE_ATOM = re.compile(r"^(\w+)(?:\.at\((.+)\)|\[(.+)\]|\.find\((.+)\)\.second)\.first$")


def cache_atoms(fm):
    """Atoms `<local>.at(<key>).first` (also [] / find) of the path condition: a cached verdict read for this coin."""
    out = []
    for k in sorted(F.atoms(fm)):
        m = _CACHE_ATOM.match(k)
        if m:
            out.append((k, m.group(1), m.group(2) or m.group(3) or m.group(4)))
    return out


def cache_writes(f, P, cache):
    """(site, key expr, value of .first) for every write into the local map `cache`; an unknown way of writing is exit 2."""
    C = ["local", cache]
    out = []

    def elem_key(x):
        if is_expr(x) and x[0] == "idx" and x[1] == C:
            return x[2]
        if is_expr(x) and x[0] in ("mcall",) and x[2] == C and meth(x) == "at":
            return call_args(x)[0]
        return None

    for s in sites(f, lambda e: (assign_lhs(e) is not None and contains(C, assign_lhs(e))) or (e[0] == "mcall" and e[2] == C and meth(e) in MAP_MUTATORS) or
                   (e[0] == "u" and e[1] in ("&", "++", "--", "post++", "post--") and contains(C, e)), P):
        e = s.expr
        lhs = assign_lhs(e)
        if lhs is not None:
            rhs = assign_rhs(e)
            if elem_key(lhs) is not None:
                v = unwrap(rhs)
                if is_expr(v) and v[0] in ("ctor", "init") and len(call_args(v)) == 2:
                    out.append((s, elem_key(lhs), call_args(v)[0]))
                    continue
            elif lhs[0] == "." and elem_key(lhs[1]) is not None and lhs[2] == "std::pair::first":
                out.append((s, elem_key(lhs[1]), rhs))
                continue
            elif lhs[0] == "." and elem_key(lhs[1]) is not None and lhs[2] == "std::pair::second":
                continue
        elif e[0] == "mcall" and meth(e) in ("emplace", "try_emplace", "insert_or_assign"):
            a = call_args(e)
            if len(a) == 3:
                out.append((s, a[0], a[1]))
                continue
            if len(a) == 2 and is_expr(unwrap(a[1])) and unwrap(a[1])[0] in ("ctor", "init") and len(call_args(unwrap(a[1]))) == 2:
                out.append((s, a[0], call_args(unwrap(a[1]))[0]))
                continue
        raise AnalysisBroken("AvailableCoins: unrecognised write to the verdict cache `%s` at line %s: %s" % (cache, s.line, show(e)[:120]))
    return out


def filter_defaults(ctx, P):
    rec = P.record("wallet::CoinFilterParams")
    fields = {x["n"]: x.get("i") for x in (rec or {}).get("fields", [])}
    if "skip_locked" not in fields or "include_immature_coinbase" not in fields:
        raise AnalysisBroken("CoinFilterParams: fields skip_locked / include_immature_coinbase not found")
    ctx.ob("CoinFilterParams/defaults", "CONST", "by default AvailableCoins skips locked coins (skip_locked = true) and excludes immature coinbases (include_immature_coinbase = false)",
           match(["bool", True], fields["skip_locked"]) and match(["bool", False], fields["include_immature_coinbase"]), None,
           {"skip_locked": fields["skip_locked"], "include_immature_coinbase": fields["include_immature_coinbase"]})


def default_filter(P, f, arg):
    """The CoinFilterParams argument keeps the two defaults the property needs (defaulted argument, or an object whose two fields are not overridden)."""
    rec = P.record("wallet::CoinFilterParams")
    names = [x["n"] for x in rec["fields"]]
    if is_expr(arg) and arg[0] == "defarg":
        return True
    a = unwrap(arg)
    vals = [a]
    if is_expr(a) and a[0] == "local":
        n = a[1]
        vals = [v for _, v in local_values(f, n)]
        if sites(f, lambda e: assign_lhs(e) is not None and match([".", ["local", n], lambda x: x in ("wallet::CoinFilterParams::skip_locked", "wallet::CoinFilterParams::include_immature_coinbase")],
                                                                 assign_lhs(e)), P):
            return False
    for v in vals:
        if not (is_expr(v) and v[0] in ("ctor", "init") and "CoinFilterParams" in str(v[1])):
            return False
        xs = call_args(v)
        if xs and (len(xs) != len(names) or not match(["bool", True], xs[names.index("skip_locked")]) or not match(["bool", False], xs[names.index("include_immature_coinbase")])):
            return False
    return True


# ================================================================================================ preset inputs
def fetch_selected(ctx, P):
    f = ctx.used(P.fn(FSI))
    sub = safe_naming(f, P)
    CCn = f.params[1]["n"]
    adds = sites(f, lambda e: e[0] == "mcall" and e[1] == "wallet::CoinsResult::Add", P)
    for s in adds:
        leaves = origins(f, call_args(s.expr)[-1], line=s.line)
        ok = bool(leaves) and all(is_expr(x) and x[0] in ("ctor", "init") and x[1] == "wallet::COutput" and call_args(x) and
                                  K(call_args(x)[0], sub) == "each(%s.ListSelected())" % CCn for x in leaves)
        ctx.ob("FetchSelectedInputs/preset-from-coin-control@L%s" % s.line, "PROVENANCE", "a preset input is built only from an outpoint of coin_control.ListSelected() (explicitly "
               "supplied by the caller)", ok, s.where, {"value": [show(x)[:160] for x in leaves if is_expr(x)]})
    ctx.floor("FetchSelectedInputs sites adding a preset coin", len(adds), 1)


# ================================================================================================ SelectCoins
def select_coins(ctx, P):
    f = ctx.used(P.fn(SC))
    if len(f.params) != 6:
        raise AnalysisBroken("SelectCoins: expected 6 parameters")
    W, AV, PS, _, CCn, _ = (p["n"] for p in f.params)
    sub = safe_naming(f, P)
    autos = sites(f, call_to(ACS), P)
    for s in autos:
        a = call_args(s.expr)
        ok = len(a) >= 2 and a[0] == ["param", W] and a[1] == ["param", AV]
        ctx.ob("SelectCoins/automatic-from-candidates@L%s" % s.line, "PROVENANCE", "automatic coin selection runs on the caller's wallet and on the candidate set it was given "
               "(parameter %s)" % AV, ok, s.where, {"args": [K(x) for x in a[:2]]})
    ctx.floor("SelectCoins calls of AutomaticCoinSelection", len(autos), 1)
    guarded = bool(autos) and all(implies(site_formula(s, f, P, sub), F.atom("%s.m_allow_other_inputs" % CCn)) for s in autos)
    # inputs added by hand are the preset ones
    addi = sites(f, lambda e: e[0] == "mcall" and meth(e) in ("AddInputs", "AddInput", "InsertInputs") and str(e[1]).startswith("wallet::SelectionResult::"), P)
    for s in addi:
        a0 = unwrap(call_args(s.expr)[0]) if call_args(s.expr) else None
        ok, ins = False, []
        if is_expr(a0) and a0[0] == "local":
            ins = sites(f, lambda e: e[0] == "mcall" and e[2] == a0 and meth(e) in INSERTERS, P)
            ok = bool(ins)
            for i in ins:
                v = call_args(i.expr)[-1]
                src = call_args(v)[0] if is_expr(v) and v[0] == "call" and v[1] == "std::make_shared" and call_args(v) else v
                if not (is_expr(src) and K(src, sub) == "each(%s.All())" % PS):
                    ok = False
            if [1 for _, v in local_values(f, a0[1]) if not (is_expr(v) and v[0] in ("ctor", "init") and not call_args(v))]:
                ok = False
        ctx.ob("SelectCoins/manual-inputs-are-preset@L%s" % s.line, "PROVENANCE", "inputs that SelectCoins adds itself come from a local set filled only from %s.All() (the preset "
               "inputs)" % PS, ok, s.where, {"set": show(a0) if is_expr(a0) else None, "inserts": [show(i.expr)[:120] for i in ins]})
    ctx.floor("SelectCoins manual AddInputs sites", len(addi), 1)
    # results: an error, a locally built (manual) result, or the automatic selection's result
    bad = []
    for e in exits(f, P, sub):
        if e.kind != "ret" or not is_expr(e.value):
            continue
        for x in origins(f, e.value, line=e.line):
            good = is_expr(x) and ((x[0] in ("ctor", "init") and x[1] in ("util::Error", "wallet::SelectionResult", "util::Result") and not [1 for y in subexprs(x) if y[0] in ("local", "param") and y[1] in (AV, PS)])
                                   or is_call_to(ACS, x))
            if not good:
                bad.append((e.line, show(x)[:100]))
    ctx.ob("SelectCoins/result-source", "PROVENANCE", "SelectCoins returns an error, a result it built from the preset set, or the result of AutomaticCoinSelection (possibly merged with the preset set)",
           not bad, f.where, bad or None)
    return guarded


# ================================================================================================ CreateTransactionInternal
def create_tx(ctx, P, sc_guard):
    f = ctx.used(P.fn(CTI))
    if len(f.params) < 4:
        raise AnalysisBroken("CreateTransactionInternal: unexpected signature")
    W, VS, CP, CCn = (p["n"] for p in f.params[:4])
    sub = safe_naming(f, P)
    txs = [st["n"] for st in stmts(f.body) if st.get("k") == "decl" and st.get("ty") == "CMutableTransaction" and st.get("n")]
    if len(txs) != 1:
        raise AnalysisBroken("CreateTransactionInternal: expected one local CMutableTransaction, found %s" % txs)
    VIN = [".", ["local", txs[0]], "CMutableTransaction::vin"]
    VOUT = [".", ["local", txs[0]], "CMutableTransaction::vout"]
    EV = "each(%s)" % VS
    FLAG = EV + ".fSubtractFeeFromAmount"

    def in_recipient_loop(s):
        return [l for l in s.loops if loop_range_key(l, sub) == EV]

    # ---------------------------------------------------------------- inputs
    vin_w = sites(f, lambda e: (e[0] == "mcall" and e[2] == VIN and (meth(e) in INSERTERS or meth(e) in DESTRUCTIVE)) or (assign_lhs(e) == VIN), P)
    n_in = 0
    for s in vin_w:
        e = s.expr
        okc, why = False, "not an emplace_back/push_back of a selected coin's outpoint"
        sel_calls = []
        if e[0] == "mcall" and meth(e) in ("emplace_back", "push_back") and call_args(e):
            a = call_args(e)[0]
            if is_expr(a) and a[0] == "ctor" and a[1] == "CTxIn" and call_args(a):
                a = call_args(a)[0]
            a = F.expand(a, {k: v for k, v in sub.items() if k != "@idx"}) if is_expr(a) else a
            if is_expr(a) and a[0] == "." and a[2] == "wallet::COutput::outpoint" and is_expr(unwrap(a[1])) and unwrap(a[1])[0] == "each":
                rng = unwrap(a[1])[1]
                okc = True
                for x in origins(f, rng, line=s.line):
                    if is_expr(x) and x[0] == "mcall" and meth(x) in ("GetShuffledInputVector", "GetInputSet") and str(x[1]).startswith("wallet::SelectionResult::"):
                        for y in origins(f, x[2], line=s.line):
                            if is_call_to(SC, y):
                                sel_calls.append(y)
                            else:
                                okc, why = False, "selection result from %s" % show(y)[:100]
                    else:
                        okc, why = False, "input list from %s" % show(x)[:100]
                okc = okc and bool(sel_calls)
        n_in += 1 if okc else 0
        ctx.ob("CreateTransactionInternal/inputs-from-selection@L%s" % s.line, "PROVENANCE", "the inputs of the new transaction are exactly the outpoints of the coins in the "
               "SelectCoins result (nothing else writes vin)", okc, s.where, None if okc else {"why": why, "expr": show(e)[:160]})
        for y in sel_calls:
            a = call_args(y)
            okw = len(a) >= 5 and a[0] == ["param", W] and a[4] == ["param", CCn]
            av = origins(f, a[1], line=s.line) if len(a) > 2 else []
            ps = origins(f, a[2], line=s.line) if len(a) > 2 else []
            empty = lambda x: is_expr(x) and x[0] in ("ctor", "init") and x[1] == "wallet::CoinsResult" and not call_args(x)
            calls_av = [x for x in av if is_call_to(AC, x)]
            ok_av = okw and bool(calls_av) and all(empty(x) or is_call_to(AC, x) for x in av) and \
                all(len(call_args(x)) >= 2 and call_args(x)[0] == ["param", W] and call_args(x)[1] == ["u", "&", ["param", CCn]] for x in calls_av)
            ctx.ob("CreateTransactionInternal/candidates-from-AvailableCoins", "PROVENANCE", "the automatic candidates handed to SelectCoins are only AvailableCoins(wallet, &coin_control, ..): "
                   "this wallet's spendable coins, with the caller's preselected coins excluded", ok_av, f.where, {"candidates": [show(x)[:120] for x in av]})
            full = [x for x in calls_av if len(x) >= 2]
            ok_df = bool(calls_av) and all(len([z for z in x[2:] if not (is_expr(z) and z[0] == "targs")]) == 4 and default_filter(P, f, [z for z in x[2:] if not (is_expr(z) and z[0] == "targs")][3]) for x in full)
            ctx.ob("CreateTransactionInternal/default-coin-filter", "PROVENANCE", "AvailableCoins is called with the default filter as far as locked coins and immature coinbases are "
                   "concerned (skip_locked, !include_immature_coinbase)", ok_df, f.where)
            calls_ps = [x for x in ps if is_call_to(FSI, x)]
            ok_ps = bool(calls_ps) and all(empty(x) or is_call_to(FSI, x) for x in ps) and \
                all(len(call_args(x)) >= 2 and call_args(x)[0] == ["param", W] and call_args(x)[1] == ["param", CCn] for x in calls_ps)
            ctx.ob("CreateTransactionInternal/preset-from-FetchSelectedInputs", "PROVENANCE", "the preset inputs handed to SelectCoins are only FetchSelectedInputs(wallet, coin_control, ..)",
                   ok_ps, f.where, {"preset": [show(x)[:120] for x in ps]})
    ctx.ob("CreateTransactionInternal/fills-inputs", "PROVENANCE", "CreateTransactionInternal fills vin from the selected coins", n_in >= 1, f.where)
    # automatic candidates only if other inputs are allowed (either guard suffices)
    acs = sites(f, call_to(AC), P)
    cti_guard = bool(acs) and all(implies(site_formula(s, f, P, sub), F.atom("%s.m_allow_other_inputs" % CCn)) for s in acs)
    ctx.ob("allow-other-inputs", "MPT", "wallet coins are used as automatic candidates only if coin_control.m_allow_other_inputs: the AvailableCoins call in CreateTransactionInternal "
           "or the AutomaticCoinSelection call in SelectCoins is reached only under that flag", cti_guard or sc_guard, f.where,
           {"guard_in_CreateTransactionInternal": cti_guard, "guard_in_SelectCoins": sc_guard})

    # ---------------------------------------------------------------- outputs
    vout_w = sites(f, lambda e: (e[0] == "mcall" and e[2] == VOUT and (meth(e) in INSERTERS or meth(e) in DESTRUCTIVE)) or (assign_lhs(e) == VOUT), P)
    n_rec, change_sites = 0, []
    for s in vout_w:
        e = s.expr
        rl = in_recipient_loop(s)
        if e[0] == "mcall" and meth(e) in ("emplace_back", "push_back") and rl:
            a = call_args(e)
            if len(a) == 1:
                x = [y for y in origins(f, a[0], line=s.line)]
                a = call_args(x[0]) if len(x) == 1 and is_expr(x[0]) and x[0][0] in ("ctor", "init") and x[0][1] == "CTxOut" else []
            okv = len(a) == 2 and K(a[0], sub) == EV + ".nAmount" and K(a[1], sub) == "GetScriptForDestination(%s.dest)" % EV
            l = rl[-1]
            inner = [g for g in s.guards if g.kind in ("if", "sc", "case") and g.line >= l.get("l")]
            skips = [st for st in stmts(l.get("b")) if st.get("k") in ("continue", "break", "ret", "throw")]
            oku = not inner and not skips
            n_rec += 1
            ctx.ob("CreateTransactionInternal/recipient-output@L%s" % s.line, "VALUE-SHAPE", "each recipient's output is CTxOut(recipient.nAmount, GetScriptForDestination(recipient.dest))",
                   okv, s.where, {"args": [K(x, sub) for x in a]})
            ctx.ob("CreateTransactionInternal/every-recipient@L%s" % s.line, "LOOP", "the loop over the recipients creates an output for every recipient (no condition, no early exit)",
                   oku, s.where)
        elif e[0] == "mcall" and meth(e) in ("insert", "emplace") and not rl:
            change_sites.append(s)
        else:
            ctx.ob("CreateTransactionInternal/other-output-write@L%s" % s.line, "WHO-MAY-WRITE", "the output list is only appended to per recipient and extended by the change output",
                   False, s.where, {"expr": show(e)[:160]})
    ctx.ob("CreateTransactionInternal/creates-recipient-outputs", "VALUE-SHAPE", "CreateTransactionInternal creates the recipients' outputs in a loop over vecSend", n_rec >= 1, f.where)
    ctx.floor("CreateTransactionInternal change-output insertions", len(change_sites), 1)

    # ---------------------------------------------------------------- change
    scripts = set()
    for s in change_sites:
        v = call_args(s.expr)[-1]
        leaves = origins(f, v, line=s.line)
        okc = bool(leaves)
        for x in leaves:
            if is_expr(x) and x[0] in ("ctor", "init") and x[1] == "CTxOut" and len(call_args(x)) == 2 and is_expr(unwrap(call_args(x)[1])) and unwrap(call_args(x)[1])[0] == "local":
                scripts.add(unwrap(call_args(x)[1])[1])
            else:
                okc = False
        ctx.ob("CreateTransactionInternal/extra-output-is-change@L%s" % s.line, "VALUE-SHAPE", "the only output that is not a recipient's is CTxOut(<amount>, <the change script local>)",
               okc, s.where, {"value": [show(x)[:120] for x in leaves if is_expr(x)]})
    for scr in sorted(scripts):
        n_src = 0
        for line, v in local_values(f, scr):
            if is_expr(v) and v[0] in ("ctor", "init") and not call_args(v):
                continue            # empty script (refused at the end if change is needed)
            okp, how = False, show(v)[:140] if is_expr(v) else str(v)
            if is_call_to("GetScriptForDestination", v) and len(call_args(v)) == 1:
                d = unwrap(call_args(v)[0])
                if d == [".", ["param", CCn], "wallet::CCoinControl::destChange"]:
                    okp, how = True, "coin_control.destChange"
                else:
                    ds = origins(f, d, line=line)
                    okp = bool(ds) and any(is_expr(x) and x[0] == "mcall" for x in ds)
                    for x in ds:
                        if is_expr(x) and x[0] in ("ctor", "init") and not call_args(x):
                            continue            # CNoDestination
                        if is_expr(x) and x[0] == "mcall" and x[1] == "wallet::ReserveDestination::GetReservedDestination" and reserved_from_wallet(f, x[2], W, line):
                            how = "reserved from the wallet"
                            continue
                        okp, how = False, show(x)[:140] if is_expr(x) else str(x)
            n_src += 1
            ctx.ob("CreateTransactionInternal/change-script-source@L%s" % line, "PROVENANCE", "the change script `%s` is only ever GetScriptForDestination of coin_control.destChange or of a "
                   "destination reserved from this wallet (ReserveDestination(&wallet, ..).GetReservedDestination())" % scr, okp, "%s:%s" % (f.file, line), {"source": how})
        ctx.ob("CreateTransactionInternal/change-script-assigned/%s" % scr, "PROVENANCE", "the change script is given a destination somewhere", n_src >= 1, f.where)
        # success never carries a change output with an empty script
        succ = [e for e in exits(f, P, sub) if e.kind == "ret" and is_expr(e.value) and contains(["ctor", "wallet::CreatedTransactionResult"], e.value)]
        for e in succ:
            fm = inline_preds(e.formula, f, P, sub)
            fb, mapping, unmatched = F.bind_atoms(fm, {"EMPTY": "%s.empty()" % scr, "CHPOS": CP})
            cex = counterexample(fb, F.parse("!(EMPTY && CHPOS)"))
            ctx.ob("CreateTransactionInternal/no-empty-change-script@L%s" % e.line, "LADDER", "a transaction is returned only if NOT (change script empty && a change position is set): change never "
                   "goes to an empty script when no wallet destination could be reserved", cex is None, "%s:%s" % (f.file, e.line),
                   None if cex is None else {"counterexample": cex, "unbound_code_atoms": unmatched[:12]})
        ctx.floor("CreateTransactionInternal success returns", len(succ), 1)

    # ---------------------------------------------------------------- who may change an output's amount
    def vout_elem(b, line):
        """index expression if b denotes an element of the transaction's output list (directly or through a reference local)"""
        for x in ([unwrap(b)] if not (is_expr(unwrap(b)) and unwrap(b)[0] == "local") else origins(f, b, line=line)):
            if is_expr(x) and x[0] == "idx" and x[1] == VOUT:
                return x[2]
            if is_expr(x) and x[0] == "mcall" and x[2] == VOUT and meth(x) in ("at",):
                return call_args(x)[0]
            if is_expr(x) and x[0] == "mcall" and x[2] == VOUT and meth(x) in ("back", "front"):
                return x
        return None

    nv = sites(f, lambda e: (assign_lhs(e) is not None and match([".", ANY, "CTxOut::nValue"], assign_lhs(e))) or
               (e[0] == "u" and e[1] in ("++", "--", "post++", "post--") and match([".", ANY, "CTxOut::nValue"], e[2])), P)
    n_sffo = 0
    for s in nv:
        lhs = assign_lhs(s.expr) if assign_lhs(s.expr) is not None else s.expr[2]
        idx = vout_elem(lhs[1], s.line)
        if idx is None:
            continue            # a CTxOut object of its own (e.g. the prototype of the change output), not an element of vout
        if K(idx, sub) == "*%s" % CP:
            ctx.ob("CreateTransactionInternal/amount-write:change@L%s" % s.line, "WHO-MAY-WRITE", "the output at *change_pos is adjusted only where a change position is set (it is the "
                   "change output, not a recipient's)", implies(site_formula(s, f, P, sub), F.atom(CP)), s.where)
            continue
        rl = in_recipient_loop(s)
        fm = site_formula(s, f, P, sub)
        oks = bool(rl) and implies(fm, F.atom(FLAG))
        n_sffo += 1
        ctx.ob("CreateTransactionInternal/amount-write:subtract-fee@L%s" % s.line, "WHO-MAY-WRITE", "after creation an output's amount is modified only for the change output or, in a loop "
               "over the recipients, under that recipient's fSubtractFeeFromAmount flag", oks, s.where, {"guard": F.fshow(own_guard(s, sub))[:300], "index": K(idx, sub)})
        # the share's divisor counts the flagged recipients
        rhs = assign_rhs(s.expr)
        for x in (subexprs(rhs) if is_expr(rhs) else []):
            if x[0] == "b" and x[1] in ("/", "%") and is_expr(x[3]) and x[3][0] == "local":
                cnt = x[3][1]
                okd = True
                incs = sites(f, lambda e: (e[0] == "u" and e[1] in ("++", "post++") and e[2] == ["local", cnt]) or
                             (assign_lhs(e) == ["local", cnt]), P)
                for i in incs:
                    irl = in_recipient_loop(i)
                    unit = i.expr[0] == "u" or (i.expr[1] == "+=" and match(["int", 1], i.expr[3]))
                    g = F.mk_and([gg.formula(sub) for gg in i.guards if gg.kind in ("if", "sc", "case") and irl and gg.line >= irl[-1].get("l")])
                    if not (irl and unit and equivalent(g, F.atom(FLAG))):
                        okd = False
                decl0 = [st for st in stmts(f.body) if st.get("k") == "decl" and st.get("n") == cnt]
                okd = okd and bool(incs) and len(decl0) == 1 and match(["int", 0], decl0[0].get("i"))
                ctx.ob("CreateTransactionInternal/share-divisor/%s@L%s" % (cnt, s.line), "VALUE-SHAPE", "the divisor `%s` of a recipient's fee share starts at 0 and is incremented by one exactly "
                       "for the recipients with fSubtractFeeFromAmount (in a loop over vecSend)" % cnt, okd, s.where, {"increments": [i.line for i in incs]})
    ctx.floor("CreateTransactionInternal fee-subtraction writes to recipient outputs", n_sffo, 1)


def reserved_from_wallet(f, obj, W, line):
    """obj is a local ReserveDestination constructed from &wallet"""
    o = unwrap(obj)
    if not (is_expr(o) and o[0] == "local"):
        return False
    ds = [st for st in stmts(f.body) if st.get("k") == "decl" and st.get("n") == o[1]]
    return len(ds) == 1 and is_expr(ds[0].get("i")) and ds[0]["i"][0] in ("ctor", "init") and ds[0]["i"][1] == "wallet::ReserveDestination" and \
        call_args(ds[0]["i"])[:1] == [["u", "&", ["param", W]]]


# ================================================================================================ predicate twins
def twins(ctx):
    PC = ctx.program(["wallet/coincontrol.cpp"])
    f = ctx.used(PC.fn("wallet::CCoinControl::IsSelected"))
    p = f.params[0]["n"]
    check_return_formula(ctx, f, PC, "IN", {"IN": ["m_selected.contains(%s)" % p, re.compile(r"m_selected\.count\(%s\)" % re.escape(p)),
                                                    ("m_selected.find(%s) == m_selected.end()" % p, False), ("m_selected.end() == m_selected.find(%s)" % p, False)]})
    f = ctx.used(PC.fn("wallet::CCoinControl::HasSelected"))
    check_return_formula(ctx, f, PC, "!EMPTY", {"EMPTY": "m_selected.empty()"})


# ------------------------------------------------------------------------------------------------
def aps_change_reuse(ctx, P):
    """CreateTransaction's avoid-partial-spends retry reuses the change destination of the first attempt: the destination it
    writes into the retry's coin control must be extracted from the first attempt's OWN change output (`vout[*R.change_pos]` of
    the same result R, under `R.change_pos`) - any other index can be a recipient's output, and the change would be paid to it."""
    f = ctx.used(P.fn("wallet::CreateTransaction"))
    sub = naming(f, P)
    DC = "wallet::CCoinControl::destChange"
    ws = sites(f, lambda e: any(is_expr(x) and x[0] == "." and len(x) == 3 and x[2] == DC and x[1][0] == "local" for x in subexprs(e)) and
               (callee(e) is not None or (e[0] in ("b", "opcall") and e[1] in ASSIGN_OPS)) and
               not any(callee(y) is not None and y is not e for y in subexprs(e) if any(is_expr(x) and x[0] == "." and len(x) == 3 and x[2] == DC for x in subexprs(y))), P)
    ctx.floor("CreateTransaction writes of a coin control's destChange", len(ws), 1)
    for s in ws:
        okp, detail = False, {"expr": show(s.expr)[:200]}
        if is_call_to("ExtractDestination", s.expr):
            src = F.expand(call_args(s.expr)[0], sub)
            m = [x for x in subexprs(src) if x[0] == "idx"]
            if len(m) == 1 and match([".", ANY, "CTxOut::scriptPubKey"], src):
                vec, ix = m[0][1], m[0][2]
                while is_expr(ix) and ix[0] in ("paren", "cast") and len(ix) > 1:
                    ix = ix[-1] if ix[0] == "paren" else ix[2]
                res_v = [x for x in subexprs(vec) if x[0] == "local"]
                res_i = [x for x in subexprs(ix) if x[0] == "local"]
                pos = [x for x in subexprs(ix) if x[0] == "." and len(x) == 3 and x[2] == "wallet::CreatedTransactionResult::change_pos"]
                guard_ok = False
                if len(pos) == 1:
                    fb, mp, un = F.bind_atoms(s.formula(sub), {"HASCHANGE": re.compile(r"\*?%s(\.has_value\(\))?" % re.escape(show(pos[0])))})
                    guard_ok = "HASCHANGE" in mp.values() and F.implies(fb, F.parse("HASCHANGE"))
                okp = len(res_v) == 1 and len(res_i) == 1 and res_v[0] == res_i[0] and len(pos) == 1 and match(["u", "*", ANY], ix) and guard_ok and \
                    contains([".", ANY, "wallet::CreatedTransactionResult::tx"], vec)
                detail.update({"output_of": show(vec), "index": show(ix), "guarded": guard_ok})
        ctx.ob("CreateTransaction/reused-change-is-own-change@L%s" % s.line, "PROVENANCE", "the change destination reused for the avoid-partial-spends retry is extracted from the first attempt's "
               "own change output (vout[*R.change_pos] of that same result, only if it has one)", okp, s.where, detail)
