"""C37 The address manager stays internally consistent and bounded - structural clauses only (listed N/A at design time: invariant over operation sequences)."""
import re

from sa.engine.api import *
from sa.engine import callgraph

UNITS = ["addrman.cpp"]
EXPLANATION = ("Taken whole (CheckAddrman passing after every sequence of operations) the property is dynamic; decided are the inductive-step conditions visible in the code shape. "
               "(1) new-table references: the functions that write AddrInfo::nRefCount are exactly the frozen set; the field starts at 0; every increment is dominated by a "
               "condition that excludes nRefCount == ADDRMAN_NEW_BUCKETS_PER_ADDRESS (or implies < it) on the same object, or acts on an entry just made by Create(); plain "
               "assignments store a constant within [0, 8]. (2) tables: the writers of vvNew/vvTried are the frozen sets; every store uses a bucket index that is "
               "GetNewBucket/GetTriedBucket of an entry, `x % ADDRMAN_NEW_BUCKET_COUNT`, a ClearNew parameter fed only such values, or (Unserialize) a deserialised bucket number used "
               "only when the stored bucket count equals ADDRMAN_NEW_BUCKET_COUNT and produced by a loop bounded by that count, and a position that is GetBucketPosition(key, "
               "<right table flag>, <that bucket>); the three bucket functions return `hash % <the table's constant>`; an id is stored only into a slot known to be -1 (tested/"
               "asserted on the path) or just emptied by ClearNew with the same indices; fInTried becomes true only in MakeTried with nRefCount == 0 established on the path, or in "
               "Unserialize on a default-constructed entry; Unserialize rejects nNew/nTried outside [0, buckets*size] before using them. (3) pairing inside one block: "
               "refcount++/=1 <-> id stored into vvNew, refcount-- <-> -1 stored into vvNew, vvTried id store <-> nTried++ and fInTried=true (Unserialize: lost entries counted in the "
               "else branch and subtracted from nTried), vvTried -1 store <-> nTried-- and fInTried=false, nNew++ <-> entry creation or re-entry of an evicted entry, nNew-- <-> "
               "mapInfo.erase or the move to tried; the writers of nNew/nTried are the frozen sets. Per-network counters: every ++/-- of m_network_counts[..].n_new/.n_tried has its "
               "nNew/nTried twin in the same block (and vice versa) and is on the element indexed by GetNetwork() of the SAME entry whose fInTried / nRefCount / creation / erasure "
               "change it accompanies (reference aliases of the map element and of the entry are followed); their writers are the frozen sets.")
ASSUMPTIONS = ["every AddrInfo reachable through mapInfo satisfies 0 <= nRefCount <= 8 before the step considered (induction hypothesis; CheckAddrman states it)",
               "std::unordered_map / vector semantics; the constructor fills both tables with -1 (writes through references, not inspected)"]
CLAIM = dict(
    technique="static analysis: who-may-write sets from the whole-program call graph, guard implication by truth tables on every refcount increment and table store, index "
              "provenance with reaching definitions, same-block pairing of counter updates with table updates",
    text="PARTIAL, structural claim: the inductive-step conditions behind `at most 8 new-table slots or one tried slot per address` and `tables within capacity`: only the listed "
         "functions touch the reference count, the tried flag, the tables and the counters; every increment of the reference count is guarded against the maximum; every table "
         "store is in range by construction and never overwrites an occupied slot; the tried flag is set only for an entry without new-table references; each counter update is "
         "paired with the matching table update and with the per-network counter of the same entry.",
    note="NOT decided: CheckAddrman passing over all operation sequences (the induction itself, collisions, vRandom/mapAddr bookkeeping), serialization round-trip "
         "equality, selection statistics, that the ids stored are those of the entry whose count is changed (aliasing), decrement safety (nRefCount > 0).",
    ref="DESIGN.md §3 C37 (claimed partially after the design)")

REFCOUNT_WRITERS = {"AddrManImpl::AddSingle", "AddrManImpl::Unserialize", "AddrManImpl::ClearNew", "AddrManImpl::MakeTried"}
INTRIED_WRITERS = {"AddrManImpl::MakeTried", "AddrManImpl::Unserialize"}
VVNEW_WRITERS = {"AddrManImpl::AddSingle", "AddrManImpl::Unserialize", "AddrManImpl::ClearNew", "AddrManImpl::MakeTried"}
VVTRIED_WRITERS = {"AddrManImpl::MakeTried", "AddrManImpl::Unserialize"}
NNEW_WRITERS = {"AddrManImpl::Create", "AddrManImpl::Delete", "AddrManImpl::MakeTried"}          # + Unserialize reads it from the stream (operator>>, not a field write)
NTRIED_WRITERS = {"AddrManImpl::MakeTried", "AddrManImpl::Unserialize"}
TABLES = {"AddrManImpl::vvNew": dict(name="vvNew", bucket_fn="AddrInfo::GetNewBucket", count="ADDRMAN_NEW_BUCKET_COUNT", is_new=True),
          "AddrManImpl::vvTried": dict(name="vvTried", bucket_fn="AddrInfo::GetTriedBucket", count="ADDRMAN_TRIED_BUCKET_COUNT", is_new=False)}
RC = "AddrInfo::nRefCount"
TR = "AddrInfo::fInTried"
# effect -> alternatives of companion sets, one of which must occur in the same innermost block
PAIRS = {
    "nRefCount++": [{"vvNew=id"}],
    "nRefCount--": [{"vvNew=-1"}],
    "nRefCount=1": [{"vvNew=id", "nNew++", "fInTried=false"}],
    "vvNew=id": [{"nRefCount++"}, {"nRefCount=1"}],
    "vvNew=-1": [{"nRefCount--"}],
    "vvTried=id": [{"nTried++", "fInTried=true"}, {"fInTried=true", "<lost-counted>"}],
    "vvTried=-1": [{"nTried--", "fInTried=false"}],
    "fInTried=true": [{"vvTried=id"}],
    "fInTried=false": [{"vvTried=-1"}],
    "nTried++": [{"vvTried=id", "net:n_tried++"}],
    "nTried--": [{"vvTried=-1", "net:n_tried--"}],
    "nNew++": [{"mapInfo[]=new", "net:n_new++"}, {"nRefCount=1", "vvNew=id", "net:n_new++"}],
    "nNew--": [{"mapInfo.erase", "net:n_new--"}, {"fInTried=true", "vvTried=id", "nTried++", "vvNew=-1", "nRefCount--", "net:n_new--"}],
    # per-network twins of the two counters (m_network_counts[net].n_new / .n_tried)
    "net:n_new++": [{"nNew++"}, {"<loop-bounded-by-nNew>"}],
    "net:n_new--": [{"nNew--"}],
    "net:n_tried++": [{"nTried++"}, {"<lost-counted>"}],
    "net:n_tried--": [{"nTried--"}],
}
NET_FIELDS = {"AddrManImpl::NewTriedCount::n_new": "n_new", "AddrManImpl::NewTriedCount::n_tried": "n_tried"}
NET_WRITERS = {"n_new": {"AddrManImpl::Create", "AddrManImpl::Delete", "AddrManImpl::MakeTried", "AddrManImpl::Unserialize", "AddrManImpl::CheckAddrman"},
               "n_tried": {"AddrManImpl::MakeTried", "AddrManImpl::Unserialize", "AddrManImpl::CheckAddrman"}}      # CheckAddrman: a local tally map of the same record type (verified)
# which entry-level change identifies the entry a per-network counter update belongs to (kinds looked up in the same block)
NET_ANCHORS = {"net:n_tried++": ("fInTried=true",), "net:n_tried--": ("fInTried=false",), "net:n_new++": ("nRefCount=1", "mapInfo[]=new", "loaded"),
               "net:n_new--": ("nRefCount--", "mapAddr.erase")}


def short_name(q):
    return q.rsplit("::", 1)[-1]


def is_field(e, q):
    return is_expr(e) and e[0] == "." and len(e) == 3 and e[2] == q


def table_slot(e):
    """(table q, bucket expr, position expr) if e is vvNew[a][b] / vvTried[a][b]."""
    if is_expr(e) and e[0] == "idx" and is_expr(e[1]) and e[1][0] == "idx" and is_expr(e[1][1]) and e[1][1][0] == "." and e[1][1][1] == ["this"] and e[1][1][2] in TABLES:
        return e[1][1][2], e[1][2], e[2]
    return None


def effects_of_expr(x):
    """effect labels of one expression node"""
    t = x[0]
    out = []
    if t == "b" and x[1] in ASSIGN_OPS:
        lhs, rhs = x[2], x[3]
        sl = table_slot(lhs)
        if sl:
            nm = TABLES[sl[0]]["name"]
            if x[1] != "=":
                out.append("%s=?" % nm)
            else:
                out.append("%s=-1" % nm if match(["int", -1], rhs) else "%s=id" % nm)
        elif is_field(lhs, RC):
            if x[1] == "=" and is_expr(rhs) and rhs[0] == "int":
                out.append("nRefCount=%d" % rhs[1])
            elif x[1] == "+=" and match(["int", 1], rhs):
                out.append("nRefCount++")
            elif x[1] == "-=" and match(["int", 1], rhs):
                out.append("nRefCount--")
            else:
                out.append("nRefCount=?")
        elif is_expr(lhs) and lhs[0] == "." and len(lhs) == 3 and lhs[2] in NET_FIELDS:
            if x[1] in ("+=", "-=") and match(["int", 1], rhs):
                out.append("net:%s%s" % (NET_FIELDS[lhs[2]], "++" if x[1] == "+=" else "--"))
            else:
                out.append("net:%s=?" % NET_FIELDS[lhs[2]])
        elif is_field(lhs, TR):
            out.append("fInTried=%s" % ("true" if match(["bool", True], rhs) else "false" if match(["bool", False], rhs) else "?"))
        elif lhs in ([".", ["this"], "AddrManImpl::nNew"], [".", ["this"], "AddrManImpl::nTried"]):
            nm = short_name(lhs[2])
            if x[1] == "+=" and match(["int", 1], rhs):
                out.append(nm + "++")
            elif x[1] == "-=" and match(["int", 1], rhs):
                out.append(nm + "--")
            elif x[1] == "-=" and is_expr(rhs) and rhs[0] == "local":
                out.append("%s-=local:%s" % (nm, rhs[1]))
            else:
                out.append(nm + "=?")
        elif is_expr(lhs) and lhs[0] == "idx" and lhs[1] == [".", ["this"], "AddrManImpl::mapInfo"] and x[1] == "=" and is_expr(rhs) and rhs[0] == "ctor" and rhs[1] == "AddrInfo":
            out.append("mapInfo[]=new")
    elif t == "u" and x[1] in ("++", "post++", "--", "post--") and is_expr(x[2]):
        op = "++" if "++" in x[1] else "--"
        if x[2][0] == "." and len(x[2]) == 3 and x[2][2] in NET_FIELDS:
            out.append("net:%s%s" % (NET_FIELDS[x[2][2]], op))
        elif is_field(x[2], RC):
            out.append("nRefCount" + op)
        elif x[2] in ([".", ["this"], "AddrManImpl::nNew"], [".", ["this"], "AddrManImpl::nTried"]):
            out.append(short_name(x[2][2]) + op)
        elif table_slot(x[2]):
            out.append("%s=?" % TABLES[table_slot(x[2])[0]]["name"])
        elif x[2][0] == "local":
            out.append("local%s:%s" % (op, x[2][1]))
    elif t == "mcall" and short_name(x[1]) == "erase" and len(x) >= 3 and x[2] == [".", ["this"], "AddrManImpl::mapInfo"]:
        out.append("mapInfo.erase")
    elif t == "mcall" and x[1] == "AddrManImpl::ClearNew":
        out.append("ClearNew")
    return out


def effects_in(node):
    out = set()
    for _, e in all_exprs(node):
        for x in subexprs(e):
            out.update(effects_of_expr(x))
    return out


def parents(fn):
    """id(stmt) -> list of (items, index) from the function body down to the innermost sequence holding stmt"""
    out = {}

    def walk(items, chain):
        for i, st in enumerate(items):
            if not isinstance(st, dict):
                continue
            ch = chain + [(items, i)]
            out[id(st)] = ch
            k = st.get("k")
            if k == "seq":
                walk(st.get("s", []), ch)
            elif k == "switch":
                walk([x for x in st.get("s", []) if isinstance(x, dict) and x.get("k") not in ("case", "default")], ch)
            else:
                for kk in ("init", "t", "e", "b"):
                    sub = st.get(kk)
                    if isinstance(sub, dict):
                        walk(sub.get("s", []) if sub.get("k") == "seq" else [sub], ch)
                for h in st.get("h", []) or []:
                    if isinstance(h.get("b"), dict):
                        walk(h["b"].get("s", []) if h["b"].get("k") == "seq" else [h["b"]], ch)
    walk(fn.body.get("s", []) if fn.body.get("k") == "seq" else [fn.body], [])
    return out


def writes_local(node, name):
    for st in stmts(node):
        if st.get("k") == "decl" and st.get("n") == name:
            return True
        v = st.get("var")
        if isinstance(v, dict) and (v.get("n") == name or name in (v.get("binds") or [])):
            return True
        for _, e in stmt_exprs(st):
            for x in subexprs(e):
                if x[0] == "b" and x[1] in ASSIGN_OPS and x[2] == ["local", name]:
                    return True
                if x[0] == "u" and x[1] in ("++", "post++", "--", "post--", "&") and x[2] == ["local", name]:
                    return True
    return False


AMBIG = ("ambiguous",)


def reaching_def(fn, par, stmt, name):
    """The unique definition of local `name` that reaches statement stmt: the nearest earlier sibling (walking outwards) that assigns or declares it; AMBIG if a
    compound statement or a loop iteration could have written it in between."""
    chain = par.get(id(stmt))
    if chain is None:
        return AMBIG
    for depth in range(len(chain) - 1, -1, -1):
        items, idx = chain[depth]
        for j in range(idx - 1, -1, -1):
            st = items[j]
            if not isinstance(st, dict):
                continue
            if st.get("k") == "decl" and st.get("n") == name:
                return st.get("i") if is_expr(st.get("i")) else None
            if st.get("k") == "expr" and is_expr(st.get("e")) and st["e"][0] == "b" and st["e"][1] == "=" and st["e"][2] == ["local", name]:
                return st["e"][3]
            if writes_local(st, name):
                return AMBIG
        # leaving a loop body: a write later in the body reaches through the back edge unless the variable is declared inside the body (found above)
        owner = items[idx] if depth < len(chain) else None
        if depth > 0:
            up_items, up_idx = chain[depth - 1]
            up = up_items[up_idx]
            if up.get("k") in ("for", "while", "do", "foreach") and writes_local(up.get("b"), name):
                return AMBIG
            v = up.get("var")
            if up.get("k") == "foreach" and isinstance(v, dict) and (v.get("n") == name or name in (v.get("binds") or [])):
                return ["each", up.get("range")]
            if up.get("k") == "for" and isinstance(up.get("init"), dict) and up["init"].get("k") == "decl" and up["init"].get("n") == name:
                return ("loopvar", up)
    return AMBIG


class Resolver:
    def __init__(self, fn, P):
        self.fn, self.P = fn, P
        self.par = parents(fn)

    def def_stmt(self, stmt, name):
        chain = self.par.get(id(stmt)) or []
        for depth in range(len(chain) - 1, -1, -1):
            items, idx = chain[depth]
            for j in range(idx - 1, -1, -1):
                st = items[j]
                if isinstance(st, dict) and ((st.get("k") == "decl" and st.get("n") == name) or
                                             (st.get("k") == "expr" and is_expr(st.get("e")) and st["e"][0] == "b" and st["e"][1] == "=" and st["e"][2] == ["local", name])):
                    return st
        return None

    def resolve(self, e, stmt):
        """Follow an index expression that is a plain local back through its unique reaching definitions (only the local itself, never its sub-expressions).
        Returns (expression, statement at which that expression is evaluated)."""
        for _ in range(6):
            if not (is_expr(e) and e[0] == "local"):
                break
            d = reaching_def(self.fn, self.par, stmt, e[1])
            if d is AMBIG or d is None or (isinstance(d, tuple) and d and d[0] == "loopvar") or (is_expr(d) and d[0] == "each"):
                break
            ds = self.def_stmt(stmt, e[1])
            if ds is None:
                break
            e, stmt = d, ds
        return e, stmt


# ------------------------------------------------------------------------------------------------
def check(ctx):
    P = ctx.program(UNITS)
    cg = callgraph.load_all()
    K = {n: P.const(n) for n in ("ADDRMAN_NEW_BUCKETS_PER_ADDRESS", "ADDRMAN_NEW_BUCKET_COUNT", "ADDRMAN_TRIED_BUCKET_COUNT", "ADDRMAN_BUCKET_SIZE")}
    ctx.ob("const/ADDRMAN_NEW_BUCKETS_PER_ADDRESS", "CONST", "ADDRMAN_NEW_BUCKETS_PER_ADDRESS == 8", K["ADDRMAN_NEW_BUCKETS_PER_ADDRESS"] == 8, None, {"value": K["ADDRMAN_NEW_BUCKETS_PER_ADDRESS"]})
    MAXREF = K["ADDRMAN_NEW_BUCKETS_PER_ADDRESS"]
    if not isinstance(MAXREF, int):
        raise AnalysisBroken("ADDRMAN_NEW_BUCKETS_PER_ADDRESS is not an integral constant")
    for nm in ("vvNew", "vvTried"):
        ty = P.field("AddrManImpl", nm).get("ty", "")
        cnt = K["ADDRMAN_NEW_BUCKET_COUNT"] if nm == "vvNew" else K["ADDRMAN_TRIED_BUCKET_COUNT"]
        ok = re.sub(r"\s", "", ty).endswith("[%s][%s]" % (cnt, K["ADDRMAN_BUCKET_SIZE"]))
        ctx.ob("const/%s-dimensions" % nm, "CONST", "%s is declared [%s][ADDRMAN_BUCKET_SIZE]" % (nm, "ADDRMAN_NEW_BUCKET_COUNT" if nm == "vvNew" else "ADDRMAN_TRIED_BUCKET_COUNT"), ok,
               None, {"type": ty})

    def writers(q):
        return {f for f, _, _ in cg.writers(q) if short_name(f) != f.rsplit("::", 2)[-2] if "::" in f}
    for q, want, what in ((RC, REFCOUNT_WRITERS, "the new-table reference count of an entry"), (TR, INTRIED_WRITERS, "the tried flag of an entry"),
                          ("AddrManImpl::vvNew", VVNEW_WRITERS, "the new table"), ("AddrManImpl::vvTried", VVTRIED_WRITERS, "the tried table"),
                          ("AddrManImpl::nNew", NNEW_WRITERS, "the new-entry counter"), ("AddrManImpl::nTried", NTRIED_WRITERS, "the tried-entry counter")):
        got = writers(q)
        ctx.ob("who-writes/%s" % short_name(q), "WHO-MAY-WRITE", "%s (%s) is written only by %s (constructors aside)" % (what, q, ", ".join(sorted(short_name(x) for x in want))),
               got == want, None, {"writers": sorted(got)})
    for fq, nm in NET_FIELDS.items():
        got = writers(fq)
        ctx.ob("who-writes/%s" % nm, "WHO-MAY-WRITE", "the per-network counter %s is written only by %s" % (nm, ", ".join(sorted(short_name(x) for x in NET_WRITERS[nm]))),
               got == NET_WRITERS[nm], None, {"writers": sorted(got)})
    ca = ctx.used(P.fn("AddrManImpl::CheckAddrman"))
    tally = [x for _, e in all_exprs(ca.body) for x in subexprs(e) if any(ef.startswith("net:") for ef in effects_of_expr(x))]

    def root_of(e):
        while is_expr(e) and e[0] in (".", "idx"):
            e = e[1]
        return e
    ctx.ob("CheckAddrman/local-tally", "WHO-MAY-WRITE", "CheckAddrman changes per-network counters only in a local tally map, never in m_network_counts",
           bool(tally) and all(is_expr(root_of(x[2])) and root_of(x[2])[0] == "local" for x in tally), ca.where)
    for fld, init in (("nRefCount", ["int", 0]), ("fInTried", ["bool", False])):
        d = P.field("AddrInfo", fld)
        ctx.ob("init/%s" % fld, "CONST", "a newly constructed AddrInfo has %s == %s" % (fld, show(init)), match(init, d.get("i")), None, {"initialiser": d.get("i")})

    fns = {q: ctx.used(P.fn(q)) for q in sorted(REFCOUNT_WRITERS | VVNEW_WRITERS | VVTRIED_WRITERS | NNEW_WRITERS | NTRIED_WRITERS | INTRIED_WRITERS)}
    refcount_bound(ctx, P, fns, MAXREF)
    stores(ctx, P, cg, fns, K)
    tried_flag(ctx, P, fns)
    capacity(ctx, P, fns["AddrManImpl::Unserialize"], K)
    pairing(ctx, P, fns)
    no_phantom_entries(ctx, P)
    ctx.floor("C37 obligations", len(ctx.obs), 60)


# ------------------------------------------------------------------------------------------------ (0)
# `mapInfo[k]` inserts a default AddrInfo (refcount 0, not tried, in no bucket, not in mapAddr / vRandom) when k is absent: CheckAddrman() fails with -4 from then
# on.  Every subscript of mapInfo must therefore (a) be the documented creation of an entry, (b) use a key read from a bucket slot (buckets hold only present ids -
# shape invariant stated by CheckAddrman), or (c) be reached only where `mapInfo.contains(k)` is known.  A key of any other provenance is an undecided idiom (exit 2);
# a key from the pending-collision set (whose entries may have been deleted meanwhile) or a checked-only-afterwards key without (c) is a violation.
MAPINFO = [".", ["this"], "AddrManImpl::mapInfo"]
CREATORS = {"AddrManImpl::Create": "allocates a fresh id (nIdCount++) and assigns a constructed AddrInfo first",
            "AddrManImpl::Unserialize": "builds the table from disk: ids 0..nNew-1 / nIdCount are created here, bucket_entries are range-checked against nNew"}


def no_phantom_entries(ctx, P):
    n = 0
    for q, fs in sorted(P.funcs.items()):
        if not q.startswith("AddrManImpl::"):
            continue
        for f in fs:
            nm = dict(naming(f, P))
            for k, v in local_defs(f, P, extra_ok=tuple(st["n"] for st in stmts(f.body) if st.get("k") == "decl" and st.get("n") and st.get("ty") in ("nid_type", "const nid_type"))).items():
                nm.setdefault(k, v)      # id-typed single-definition locals (nid_type is not one of the engine's "simple" types)
            for s in sites(f, lambda e: e[0] == "idx" and e[1] == MAPINFO, P):
                n += 1
                if q in CREATORS:
                    continue
                ctx.used(f)
                key = F.expand(s.expr[2], nm)
                ktxt = F.key(key)
                form = s.formula(nm)
                slot = is_expr(key) and key[0] == "idx" and is_expr(key[1]) and key[1][0] == "idx" and key[1][1] in ([".", ["this"], "AddrManImpl::vvNew"], [".", ["this"], "AddrManImpl::vvTried"])
                known = any(re.fullmatch(r"(this->)?mapInfo\.(contains|count)\(%s\)" % re.escape(ktxt), a) and F.implies(form, F.atom(a)) for a in F.atoms(form))
                if not known:
                    known = any(re.fullmatch(r"(this->)?mapInfo\.find\(%s\) == (this->)?mapInfo\.end\(\)" % re.escape(ktxt), a) and F.implies(form, F.mk_not(F.atom(a))) for a in F.atoms(form))
                if slot or known:
                    ctx.ob("no-phantom/%s@L%s" % (short_name(q), s.line), "GUARD", "mapInfo[%s] in %s cannot insert: the key is %s" % (
                        show(s.expr[2]), short_name(q), "read from a bucket slot" if slot else "known to be present (mapInfo.contains on the path)"), True, s.where)
                    continue
                from_collisions = "m_tried_collisions" in ktxt or any("m_tried_collisions" in a for a in F.atoms(form))
                if from_collisions:
                    ctx.ob("no-phantom/%s@L%s" % (short_name(q), s.line), "GUARD", "mapInfo[%s] in %s is reached only where mapInfo.contains(%s) is known: an id queued in "
                           "m_tried_collisions may have been deleted meanwhile, and operator[] would insert a phantom entry (refcount 0, in no table) that fails "
                           "CheckAddrman" % (show(s.expr[2]), short_name(q), show(s.expr[2])), False, s.where, {"key": ktxt, "path_condition": F.fshow(form)})
                    continue
                raise AnalysisBroken("C37: mapInfo[%s] at %s: key provenance not recognised (neither a bucket slot nor guarded by mapInfo.contains)" % (show(s.expr[2]), s.where))
    ctx.floor("mapInfo subscript sites", n, 12)


# ------------------------------------------------------------------------------------------------ (1)
def name_re(k):
    """regex for a rendered term that tolerates a version tag on its root variable"""
    m = re.match(r"^(\w+)(.*)$", k)
    return (re.escape(m.group(1)) + r"([#@]\w+)?" + re.escape(m.group(2))) if m else re.escape(k)


def refcount_bound(ctx, P, fns, MAXREF):
    n_inc = 0
    for q, f in fns.items():
        sub = naming(f, P)
        for s in all_sites(f, P):
            e = s.expr
            if e is None:
                continue
            effs = [x for x in effects_of_expr(e) if x.startswith("nRefCount")]
            for ef in effs:
                obj = e[2][1]
                where = s.where
                if ef == "nRefCount++":
                    n_inc += 1
                    k = F.key(F.expand([".", obj, RC], sub))
                    root = F.key(F.expand(obj, sub))
                    atoms = {"EQ": re.compile(r"^%s == %d$" % (name_re(k), MAXREF)), "LT": re.compile(r"^%s < %d$" % (name_re(k), MAXREF))}
                    fresh = fresh_object(ctx, P, f, obj, s)
                    if fresh:
                        atoms["HAD"] = re.compile(r"^%s$" % name_re(root))
                    fm = s.formula(sub)
                    bf, _, un = F.bind_atoms(fm, atoms)
                    spec = "LT || !EQ" + (" || !HAD" if fresh else "")
                    cex = F.counterexample(bf, F.parse(spec))
                    ctx.ob("%s/refcount-guard@L%s" % (short_name(q), s.line), "MPT", "the increment of %s is reached only if a dominating condition excludes %s == "
                           "ADDRMAN_NEW_BUCKETS_PER_ADDRESS (or implies < it)%s" % (k, k, ", or the entry was just made by Create() (count 0)" if fresh else ""), cex is None, where,
                           None if cex is None else {"path": F.fshow(fm)[:500], "counterexample": cex})
                elif ef.startswith("nRefCount=") and ef != "nRefCount=?":
                    v = int(ef.split("=")[1])
                    ctx.ob("%s/refcount-assign@L%s" % (short_name(q), s.line), "MPT", "a plain assignment to nRefCount stores a constant within [0, ADDRMAN_NEW_BUCKETS_PER_ADDRESS]",
                           0 <= v <= MAXREF, where, {"value": v})
                elif ef == "nRefCount=?":
                    ctx.ob("%s/refcount-update@L%s" % (short_name(q), s.line), "MPT", "nRefCount changes only by ++, --, or assignment of a constant", False, where, {"expr": show(e)})
    ctx.floor("nRefCount increments", n_inc, 3)


def fresh_object(ctx, P, f, obj, site):
    """True if obj is a local pointer that, on the path where it was null, is assigned the result of AddrManImpl::Create before the site (checked structurally:
    `if (p) {...} else { p = Create(...); }` earlier in an enclosing block, p not otherwise assigned in the then-branch), and Create() stores a freshly
    constructed AddrInfo and returns its address."""
    if not (is_expr(obj) and obj[0] == "local"):
        return False
    name = obj[1]
    par = parents(f)
    chain = par.get(id(site.stmt)) or []
    found = None
    for items, idx in chain:
        for st in items[:idx]:
            if isinstance(st, dict) and st.get("k") == "if" and st.get("e") is not None and F.fshow(F.to_formula(st.get("c"), None)) == name:
                found = st
    if found is None:
        return False
    asg = [x for _, e in all_exprs(found["e"]) for x in subexprs(e) if x[0] == "b" and x[1] == "=" and x[2] == ["local", name]]
    ok = len(asg) == 1 and is_expr(asg[0][3]) and asg[0][3][0] == "mcall" and asg[0][3][1] == "AddrManImpl::Create" and not writes_local(found["t"], name)
    # later statements before the site must not reassign the pointer
    cr = ctx.used(P.fn("AddrManImpl::Create"))
    made = "mapInfo[]=new" in effects_in(cr.body)
    rets = [e for e in exits(cr, P, {}) if e.kind == "ret"]
    addr = bool(rets) and all(match(["u", "&", ["idx", [".", ["this"], "AddrManImpl::mapInfo"], ANY]], e.value) for e in rets)
    good = bool(ok and made and addr)
    ctx.ob("%s/fresh-entry@L%s" % (short_name(f.q), found.get("l")), "PROVENANCE", "when Find() returned no entry, `%s` is assigned AddrManImpl::Create(...), which stores a newly "
           "constructed AddrInfo (nRefCount 0) in mapInfo and returns its address" % name, good, "%s:%s" % (f.file, found.get("l")))
    return good


# ------------------------------------------------------------------------------------------------ (2)
def bucket_functions(ctx, P, K):
    for q, np, cname in (("AddrInfo::GetNewBucket", 3, "ADDRMAN_NEW_BUCKET_COUNT"), ("AddrInfo::GetTriedBucket", 2, "ADDRMAN_TRIED_BUCKET_COUNT"), ("AddrInfo::GetBucketPosition", 3, "ADDRMAN_BUCKET_SIZE")):
        f = ctx.used(P.fn(q, nparams=np))
        rets = [e for e in exits(f, P, {}) if e.kind == "ret"]
        ok = bool(rets) and all(match(["b", "%", ANY, ["int", K[cname]]], e.value) for e in rets) and len(rets) == len(exits(f, P, {}))
        ctx.ob("range/%s" % short_name(q), "VALUE-SHAPE", "%s returns `hash %% %s` on every path (so the index is within the table dimension)" % (q, cname), ok, f.where,
               {"returns": [show(e.value) for e in rets]})
    g = ctx.used(P.fn("AddrInfo::GetNewBucket", nparams=2))
    rets = exits(g, P, {})
    ok = len(rets) == 1 and rets[0].kind == "ret" and is_expr(rets[0].value) and rets[0].value[0] == "mcall" and rets[0].value[1] == "AddrInfo::GetNewBucket" and len(call_args(rets[0].value)) == 3
    ctx.ob("range/GetNewBucket-default-source", "VALUE-SHAPE", "the two-argument GetNewBucket forwards to the three-argument one", ok, g.where)


def index_ok(ctx, P, cg, f, R, stmt, a, b, T, formula_at, sub, depth=0):
    """(ok, detail) for bucket index a / position b of table T at statement stmt of function f"""
    (A, sa), (B, sb) = R.resolve(a, stmt), R.resolve(b, stmt)
    cnt = T["count_value"]
    why = {"bucket": show(A), "position": show(B)}
    bucket_ok = False
    if is_expr(A) and A[0] == "mcall" and A[1] == T["bucket_fn"]:
        bucket_ok = True
    elif match(["b", "%", ANY, ["int", cnt]], A):
        bucket_ok = True
    elif is_expr(A) and A[0] == "param" and depth == 0:
        # parameter: every call site must pass an acceptable pair
        pi = [i for i, p_ in enumerate(f.params) if p_.get("n") == A[1]]
        qi = [i for i, p_ in enumerate(f.params) if is_expr(B) and B[0] == "param" and p_.get("n") == B[1]]
        if len(pi) == 1 and len(qi) == 1:
            calls = 0
            allok = True
            det = []
            for cq in sorted({c for c in cg.callers(f.q)}):
                for g in P.fns(cq):
                    if g.body is None:
                        continue
                    R2 = Resolver(g, P)
                    for s in sites(g, lambda e: e[0] == "mcall" and e[1] == f.q, P):
                        calls += 1
                        args = call_args(s.expr)
                        ok2, d2 = index_ok(ctx, P, cg, g, R2, s.stmt, args[pi[0]], args[qi[0]], T, None, None, depth=1)
                        allok = allok and ok2
                        det.append(dict(d2, caller="%s:%s" % (cq, s.line), ok=ok2))
            why["call_sites"] = det
            return (calls > 0 and allok), why
        return False, why
    elif is_expr(A) and A[0] == "." and A[2] == "std::pair::first" and is_expr(A[1]) and A[1][0] == "local" and formula_at is not None:
        # deserialised bucket number (Unserialize): only usable when the stored bucket count equals the table's, and every recorded pair comes from a loop below that count
        lp_ = [st for st in stmts(f.body) if st.get("k") == "foreach" and isinstance(st.get("var"), dict) and st["var"].get("n") == A[1][1] and any(sa is x for x in stmts(st.get("b")))]
        rng = lp_[0].get("range") if len(lp_) == 1 else None
        lim = None
        good = is_expr(rng) and rng[0] == "local"
        if good:
            pushes = sites(f, lambda e: e[0] == "mcall" and short_name(e[1]) in ("emplace_back", "push_back") and e[2] == rng, P)
            good = bool(pushes)
            for s in pushes:
                arg0 = call_args(s.expr)[0] if call_args(s.expr) else None
                lp = [l for l in s.loops if l.get("k") == "for" and isinstance(l.get("init"), dict) and is_expr(arg0) and arg0[0] == "local" and l["init"].get("n") == arg0[1]]
                if len(lp) != 1 or not match(["int", 0], lp[0]["init"].get("i")) or writes_local(lp[0].get("b"), arg0[1]) or \
                        not match(["b", "<", arg0, ["local", ANY]], lp[0].get("c")):
                    good = False
                    continue
                lim = lp[0]["c"][3]
            others = [x for _, e in all_exprs(f.body) for x in subexprs(e) if x[0] == "mcall" and x[2] == rng and short_name(x[1]) not in ("emplace_back", "push_back", "begin", "end", "size", "empty")]
            good = good and not others
        if good and lim is not None:
            eq = F.to_formula(["b", "==", lim, ["int", cnt]], sub)
            good = F.implies(formula_at, eq)
            why["needs"] = F.fshow(eq)
        bucket_ok = bool(good and lim is not None)
    pos_ok = False
    if is_expr(B) and B[0] == "mcall" and B[1] == "AddrInfo::GetBucketPosition":
        args = call_args(B)
        if len(args) == 3:
            barg, _ = R.resolve(args[2], sb)
            pos_ok = match(["bool", T["is_new"]], args[1]) and F.key(barg) == F.key(A)
            why["position_bucket_argument"] = show(barg)
        if is_expr(A) and A[0] == "mcall" and A[1] == T["bucket_fn"]:
            pos_ok = pos_ok and F.key(call_obj(A)) == F.key(call_obj(B))     # bucket and position of the same entry
    return bool(bucket_ok and pos_ok), why


def stores(ctx, P, cg, fns, K):
    bucket_functions(ctx, P, K)
    n = 0
    for q, f in fns.items():
        sub = naming(f, P)
        R = Resolver(f, P)
        par = R.par
        for s in all_sites(f, P):
            e = s.expr
            if e is None or not (e[0] == "b" and e[1] in ASSIGN_OPS and table_slot(e[2])):
                if e is not None and e[0] == "u" and e[1] in ("++", "post++", "--", "post--") and table_slot(e[2]):
                    ctx.ob("%s/store-form@L%s" % (short_name(q), s.line), "VALUE-SHAPE", "table slots are only assigned (id or -1)", False, s.where)
                continue
            n += 1
            tq, a, b = table_slot(e[2])
            T = dict(TABLES[tq], count_value=K[TABLES[tq]["count"]])
            fm = s.formula(sub)
            ok, why = index_ok(ctx, P, cg, f, R, s.stmt, a, b, T, fm, sub)
            ctx.ob("%s/index@L%s" % (short_name(q), s.line), "PROVENANCE", "the store into %s[bucket][pos] uses bucket = %s(..) of an entry / `x %% %s` / a checked deserialised bucket "
                   "number / a ClearNew parameter fed such values, and pos = GetBucketPosition(key, %s, that bucket)" % (T["name"], short_name(T["bucket_fn"]), T["count"],
                                                                                                                     "true" if T["is_new"] else "false"), ok, s.where, why)
            if e[1] != "=":
                ctx.ob("%s/store-form@L%s" % (short_name(q), s.line), "VALUE-SHAPE", "table slots are only assigned (id or -1)", False, s.where)
                continue
            if match(["int", -1], e[3]):
                continue
            # an id goes only into an empty slot
            empty = F.to_formula(["b", "==", e[2], ["int", -1]], sub)
            ok1 = F.implies(fm, empty)
            ok2 = False
            chain = par.get(id(s.stmt)) or []
            if chain:
                items, idx = chain[-1]
                for st in reversed(items[:idx]):
                    effs = effects_in(st)
                    if st.get("k") == "expr" and is_expr(st.get("e")) and st["e"][0] == "mcall" and st["e"][1] == "AddrManImpl::ClearNew":
                        ca = call_args(st["e"])
                        ok2 = len(ca) == 2 and F.key(F.expand(ca[0], sub)) == F.key(F.expand(a, sub)) and F.key(F.expand(ca[1], sub)) == F.key(F.expand(b, sub))
                        break
                    if any(x.startswith(T["name"] + "=") for x in effs):
                        break
            ctx.ob("%s/empty-slot@L%s" % (short_name(q), s.line), "MPT", "an id is stored into %s[a][b] only if that slot is -1 on the path (tested or asserted) or was just emptied by "
                   "ClearNew(a, b)" % T["name"], ok1 or ok2, s.where, None if ok1 or ok2 else {"path": F.fshow(fm)[:500], "needs": F.fshow(empty)})
    ctx.floor("table stores", n, 9)
    # ClearNew really empties the slot it is given
    cn = fns["AddrManImpl::ClearNew"]
    st_ = [s for s in all_sites(cn, P) if s.expr is not None and "vvNew=-1" in effects_of_expr(s.expr)]
    ok = len(st_) == 1 and [F.key(x) for x in table_slot(st_[0].expr[2])[1:]] == [p_["n"] for p_ in cn.params] and \
        F.equivalent(F.mk_and([g.formula({}) for g in st_[0].guards if g.kind in ("if", "sc")]), F.mk_not(F.to_formula(["b", "==", st_[0].expr[2], ["int", -1]], {})))
    ctx.ob("ClearNew/empties", "VALUE-SHAPE", "ClearNew(a, b) stores -1 into vvNew[a][b] whenever the slot is occupied (so the slot is empty afterwards)", ok, cn.where)


def tried_flag(ctx, P, fns):
    n = 0
    for q, f in fns.items():
        sub = naming(f, P)
        par = parents(f)
        for s in all_sites(f, P):
            e = s.expr
            if e is None or "fInTried=true" not in effects_of_expr(e):
                if e is not None and "fInTried=?" in effects_of_expr(e):
                    ctx.ob("%s/tried-flag-form@L%s" % (short_name(q), s.line), "VALUE-SHAPE", "fInTried is only assigned the constants true/false", False, s.where)
                continue
            n += 1
            obj = e[2][1]
            zero = F.to_formula(["b", "==", [".", obj, RC], ["int", 0]], sub)
            fm = s.formula(sub)
            ok = F.implies(fm, zero)
            how = "nRefCount == 0 holds on the path"
            if not ok and is_expr(obj) and obj[0] == "local" and s.loops:
                # an entry default-constructed in the same loop iteration
                R = Resolver(f, P)
                d = R.def_stmt(s.stmt, obj[1])
                body = s.loops[-1].get("b")
                in_loop = d is not None and any(d is x for x in stmts(body))
                fresh = d is not None and d.get("k") == "decl" and d.get("ty") == "AddrInfo" and (d.get("i") is None or (match(["ctor", "AddrInfo"], d.get("i")) and len(d["i"]) == 2))
                nowrite = not any("nRefCount" in x for x in effects_in(body))
                ok = bool(in_loop and fresh and nowrite)
                how = "the entry is default-constructed in the same loop iteration (nRefCount 0) and its count is not changed there"
            ctx.ob("%s/tried-flag@L%s" % (short_name(q), s.line), "MPT", "fInTried is set to true only for an entry without new-table references (%s)" % how, ok, s.where,
                   None if ok else {"path": F.fshow(fm)[:500], "needs": F.fshow(zero)})
    ctx.floor("fInTried=true sites", n, 2)


def blk_items(b):
    if not isinstance(b, dict):
        return []
    return b.get("s", []) if b.get("k") == "seq" else [b]


def capacity(ctx, P, f, K):
    sub = naming(f, P)
    for fld, cname in (("nNew", "ADDRMAN_NEW_BUCKET_COUNT"), ("nTried", "ADDRMAN_TRIED_BUCKET_COUNT")):
        cap = K[cname] * K["ADDRMAN_BUCKET_SIZE"]
        term = [".", ["this"], "AddrManImpl::" + fld]
        spec = F.mk_and([F.to_formula(["b", "<=", term, ["int", cap]], sub), F.to_formula(["b", ">=", term, ["int", 0]], sub)])
        # every use of the counter after it was read from the stream (loop bounds, comparisons) is reached only within the capacity
        reads = [s for s in all_sites(f, P) if s.expr is not None and s.expr[0] == "b" and s.expr[1] == ">>" and s.expr[3] == term]
        if len(reads) != 1:
            raise AnalysisBroken("Unserialize: expected one stream read of %s" % fld)
        uses = [s for s in all_sites(f, P) if s.expr is not None and s.expr == term and s.line > reads[0].line and s.stmt.get("k") in ("for", "while") and s.stmt.get("c") is not None
                and any(x == term for x in subexprs(s.stmt["c"]))]
        ctx.floor("Unserialize loops bounded by %s" % fld, len(uses), 1)
        for s in uses:
            ok = F.implies(s.formula(sub), spec)
            ctx.ob("Unserialize/capacity-%s@L%s" % (fld, s.line), "MPT", "the loop bounded by %s (read from the stream) is reached only if 0 <= %s <= %s * ADDRMAN_BUCKET_SIZE "
                   "(otherwise Unserialize throws)" % (fld, fld, cname), ok, s.where, None if ok else {"path": F.fshow(s.formula(sub))[:400], "needs": F.fshow(spec)})
    # entry indices taken from the stream are range-checked before they are recorded
    pushes = sites(f, lambda e: e[0] == "mcall" and short_name(e[1]) in ("emplace_back", "push_back") and is_expr(e[2]) and e[2][0] == "local" and len(call_args(e)) == 2, P)
    ctx.floor("Unserialize recorded bucket entries", len(pushes), 1)
    for s in pushes:
        ix = call_args(s.expr)[1]
        spec = F.mk_and([F.to_formula(["b", ">=", ix, ["int", 0]], sub), F.to_formula(["b", "<", ix, [".", ["this"], "AddrManImpl::nNew"]], sub)])
        ok = F.implies(s.formula(sub), spec)
        ctx.ob("Unserialize/entry-index@L%s" % s.line, "MPT", "a (bucket, entry index) pair read from the stream is recorded only if 0 <= index < nNew", ok, s.where,
               None if ok else {"path": F.fshow(s.formula(sub))[:400], "needs": F.fshow(spec)})


# ------------------------------------------------------------------------------------------------ (3)
def anchor_objects(node):
    """{kind: [entry expressions]} of the entry-level changes inside a statement tree"""
    out = {}
    for _, e in all_exprs(node):
        for x in subexprs(e):
            for ef in effects_of_expr(x):
                if ef in ("fInTried=true", "fInTried=false", "nRefCount=1"):
                    out.setdefault(ef, []).append(x[2][1])
                elif ef == "nRefCount--":
                    out.setdefault(ef, []).append(x[2][1] if x[0] == "u" else x[2][1])
                elif ef == "mapInfo[]=new" and len(x[3]) >= 3:
                    out.setdefault(ef, []).append(x[3][2])
            if x[0] == "mcall" and short_name(x[1]) == "erase" and len(x) >= 4 and x[2] == [".", ["this"], "AddrManImpl::mapAddr"]:
                out.setdefault("mapAddr.erase", []).append(x[3])
            if x[0] == "b" and x[1] == ">>" and is_expr(x[3]) and x[3][0] == "local":
                out.setdefault("loaded", []).append(x[3])
    return out


def entity_key(R, e, stmt):
    """canonical text of an entry expression: reference aliases (`AddrInfo& x = <expr>`) are followed, value locals keep their name"""
    for _ in range(4):
        if not (is_expr(e) and e[0] == "local"):
            break
        ds = R.def_stmt(stmt, e[1])
        if ds is None or ds.get("k") != "decl" or not str(ds.get("ty", "")).rstrip().endswith("&") or not is_expr(ds.get("i")):
            break
        if reaching_def(R.fn, R.par, stmt, e[1]) is AMBIG:
            break
        e, stmt = ds["i"], ds
    return F.key(e)


def net_entity(R, site):
    """The entry E of a per-network counter update `m_network_counts[E.GetNetwork()].n_x++` (reference aliases of the map element and locals holding the network are followed)."""
    obj = site.expr[2][1]
    el, st = R.resolve(obj, site.stmt)
    if not (is_expr(el) and el[0] == "idx" and el[1] == [".", ["this"], "AddrManImpl::m_network_counts"]):
        return None, show(el)
    key, st2 = R.resolve(el[2], st)
    if is_expr(key) and key[0] in ("mcall", "vcall") and short_name(key[1]) == "GetNetwork" and len(key) == 3:
        return key[2], show(el)
    return None, show(el)


def pairing(ctx, P, fns):
    counts = {}
    for q, f in fns.items():
        par = parents(f)
        for s in all_sites(f, P):
            e = s.expr
            if e is None:
                continue
            for ef in effects_of_expr(e):
                if ef.endswith("=?"):
                    ctx.ob("%s/update-form@L%s" % (short_name(q), s.line), "PAIRING", "counters, flags and table slots change only by the recognised forms (++/--/constant/-= lost)", False,
                           s.where, {"expr": show(e)})
                    continue
                key = ef
                if ef.startswith("nTried-=local:"):
                    # Unserialize: nTried was read from the stream; the entries that found no slot are subtracted
                    lost = ef.split(":", 1)[1]
                    incs = [x for x in all_sites(f, P) if x.expr is not None and "local++:%s" % lost in effects_of_expr(x.expr)]
                    ok = bool(incs)
                    for x in incs:
                        ch = par.get(id(x.stmt)) or []
                        # the increment is the else-branch of the `if` whose then-branch fills a tried slot
                        holder = None
                        for items, idx in reversed(ch):
                            st = items[idx]
                            if st.get("k") == "if" and st.get("e") is not None:
                                holder = st
                                break
                        ok = ok and holder is not None and any(x.stmt is y for y in stmts(holder["e"])) and "vvTried=id" in effects_in(holder["t"]) and \
                            not (effects_in(holder["e"]) - {"local++:%s" % lost})
                    zero = [st for st in stmts(f.body) if st.get("k") == "decl" and st.get("n") == lost and match(["int", 0], st.get("i"))]
                    others = [x for x in all_sites(f, P) if x.expr is not None and x.expr[0] == "b" and x.expr[1] in ASSIGN_OPS and x.expr[2] == ["local", lost]]
                    ctx.ob("%s/lost-tried@L%s" % (short_name(q), s.line), "PAIRING", "nTried (read from the stream) is reduced by a local that starts at 0 and is incremented exactly in the "
                           "else-branch of the test whose then-branch places the entry into vvTried", ok and len(zero) == 1 and not others, s.where)
                    counts["nTried-=lost"] = counts.get("nTried-=lost", 0) + 1
                    continue
                if key not in PAIRS:
                    continue
                counts[key] = counts.get(key, 0) + 1
                ch = par.get(id(s.stmt)) or []
                if not ch:
                    raise AnalysisBroken("%s: statement at line %s not located" % (q, s.line))
                items, _ = ch[-1]
                have = set()
                for st in items:
                    if isinstance(st, dict):
                        have |= effects_in(st)
                if "vvTried=id" in have and short_name(q) == "Unserialize":
                    # the enclosing if/else counts the lost entries (checked by lost-tried)
                    for items2, idx2 in reversed(ch):
                        st = items2[idx2]
                        if st.get("k") == "if" and st.get("e") is not None and any(x.startswith("local++:") for x in effects_in(st["e"])):
                            have.add("<lost-counted>")
                            break
                if key == "net:n_new++" and s.loops and s.loops[-1].get("k") == "for" and match(["b", "<", ["local", ANY], [".", ["this"], "AddrManImpl::nNew"]], s.loops[-1].get("c")) \
                        and any(s.stmt is x for x in items):
                    have.add("<loop-bounded-by-nNew>")      # Unserialize: one new entry per iteration of `for (n = 0; n < nNew; n++)`
                if key.startswith("net:"):
                    R = Resolver(f, P)
                    E, shown = net_entity(R, s)
                    if E is None:
                        raise AnalysisBroken("%s: per-network counter update at line %s is not on m_network_counts[<entry>.GetNetwork()] (%s)" % (q, s.line, shown))
                    anchors = {}
                    for st in items:
                        if isinstance(st, dict):
                            for k2, objs in anchor_objects(st).items():
                                if k2 in NET_ANCHORS[key]:
                                    anchors.setdefault(k2, []).extend(objs)
                    ek = entity_key(R, E, s.stmt)
                    objs = sorted({entity_key(R, o, s.stmt) for os_ in anchors.values() for o in os_})
                    # no entry-level change found in the block: unknown idiom -> undecided (exit 2) unless another obligation is violated
                    oke = (objs == [ek]) if anchors else None
                    ctx.ob("%s/net-entity/%s@L%s" % (short_name(q), key[4:], s.line), "PAIRING", "the per-network counter changed here is the one of the network of the SAME entry whose "
                           "state change (%s) it accompanies in this block" % "/".join(NET_ANCHORS[key]), oke, s.where, {"counter_of": ek, "entry_changed": objs, "element": shown})
                ok = any(alt <= have for alt in PAIRS[key])
                ctx.ob("%s/pair/%s@L%s" % (short_name(q), key, s.line), "PAIRING", "`%s` happens together (same block) with %s" % (key, " or ".join("{" + ", ".join(sorted(a)) + "}" for a in PAIRS[key])),
                       ok, s.where, None if ok else {"block_effects": sorted(have)})
    # floors only on the anchors (table stores and refcount increments): a dropped counter update is a violation of the pairing rule above, not a vanished anchor
    for k, m in (("nRefCount++", 3), ("vvNew=id", 4), ("vvNew=-1", 2), ("vvTried=id", 2), ("vvTried=-1", 1)):
        ctx.floor("sites of %s" % k, counts.get(k, 0), m)
