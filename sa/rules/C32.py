"""C32 Peer transports deliver exactly the messages sent, or detect tampering (DESIGN §3 C32)."""
import re

from sa.engine.api import *
from sa.engine import callgraph

UNITS = ["net.cpp"]
EXPLANATION = ("Guard/LADDER + PROVENANCE + SYMMETRY rule on the two transports of net.cpp. V1: GetReceivedMessage sets reject_message = true exactly "
               "under memcmp(GetMessageHash(), hdr.pchChecksum, CHECKSUM_SIZE) != 0 (and never clears it afterwards); the hash is the finalisation of "
               "the hasher that readData feeds with exactly the bytes it copies into the payload buffer; CNode::ReceiveMsgBytes queues a message only "
               "if the reject flag it passed to GetReceivedMessage is false; readHeader switches to payload mode only past the magic and size rungs "
               "(MAX_SIZE, MAX_PROTOCOL_MESSAGE_LENGTH). V2: ProcessReceivedPacketBytes reaches the state changes to APP / APP_READY, the clearing of "
               "the expected AAD and a true return with a complete ciphertext only on the true edge of m_cipher.Decrypt(receive buffer past the length, "
               "aad, ignore, decode buffer); the length rung bounds m_recv_len; APP_READY is set nowhere else; the decode buffer is filled nowhere else; "
               "GetReceivedMessage delivers (reject=false) only when GetMessageType produced a type. SYMMETRY: GetMessageType and V2MessageMap (used by "
               "SetMessageToSend) index the same table V2_MESSAGE_IDS with the same bound, id 0 reserved, map entry i -> table[i].")
ASSUMPTIONS = ["BIP324Cipher::Decrypt returns false for any altered ciphertext/AAD (AEAD property; cipher correctness is not decided here)",
               "CHash256 is a collision-resistant checksum over the bytes written", "memcmp(a, b, n) != 0 iff the first n bytes differ"]
CLAIM = dict(
    technique="static analysis: guard implication by truth tables, out-parameter provenance, who-may-write/call, table symmetry between sender and receiver",
    text="For all paths: a v1 message whose payload hash differs from the header checksum is marked rejected and such a message is never queued for "
         "processing; a v2 packet is consumed (state change, contents exposed) only if AEAD decryption of exactly the received bytes succeeded, else the "
         "transport reports failure (disconnect); both directions of the v2 short-id encoding use one table with one bound.",
    note="Not decided (N/A parts of the property): independence from fragmentation, equality of sent and received sequences, session-id agreement, cipher "
         "and hash correctness, decoy handling (the `ignore` out-parameter is invisible to the path conditions of the engine).",
    ref="DESIGN.md §3 C32")


def peel(e):
    while is_expr(e) and ((e[0] == "ctor" and len(e) == 3) or e[0] == "cast" or e[0] == "defarg"):
        e = e[2] if e[0] != "defarg" else e[1]
    return e


def own(s, subst):
    return F.mk_and([g.formula(subst) for g in s.guards if g.kind != "post"])


def check(ctx):
    P = ctx.program(UNITS)
    cg = callgraph.load_all()
    v1(ctx, P, cg)
    v2(ctx, P, cg)
    short_ids(ctx, P)
    refused_send_has_no_effect(ctx, P)


# ------------------------------------------------------------------------------------------------
def v1(ctx, P, cg):
    g = ctx.used(P.fn("V1Transport::GetReceivedMessage"))
    subst = naming(g, P)
    rp = [p["n"] for p in g.params if p["ty"].replace(" ", "") == "bool&"]
    if len(rp) != 1:
        raise AnalysisBroken("V1Transport::GetReceivedMessage: reject out-parameter not found")
    rj = rp[0]
    k = P.const("CMessageHeader::CHECKSUM_SIZE")
    ctx.ob("const/CHECKSUM_SIZE", "CONST", "CMessageHeader::CHECKSUM_SIZE == 4", k == 4, None, {"value": k})
    # the checksum-mismatch atom: memcmp(<hash>.begin(), hdr.pchChecksum, CHECKSUM_SIZE) with <hash> = GetMessageHash()
    def mismatch(key):
        m = re.fullmatch(r"memcmp\((\w+)\.begin\(\), hdr\.pchChecksum, %d\)" % k, key)
        if not m:
            return False
        vals = local_values(g, m.group(1))
        return len(vals) == 1 and is_call_to("V1Transport::GetMessageHash", peel(vals[0][1]))
    sets = sites(g, lambda e: match(["b", "=", ["param", rj], ["bool", True]], e), P)
    clears = sites(g, lambda e: e[0] == "b" and e[1] in ASSIGN_OPS and match(["param", rj], e[2]) and not match(["bool", True], e[3]), P)
    hit = []
    for s in sets:
        fb, mp, un = F.bind_atoms(own(s, subst), {"MISMATCH": mismatch})
        if "MISMATCH" in mp.values() and F.equivalent(fb, F.parse("MISMATCH")):
            hit.append(s)
    ctx.ob("V1/GetReceivedMessage/checksum-rejects", "LADDER", "V1Transport::GetReceivedMessage sets reject_message = true exactly under "
           "memcmp(GetMessageHash(), hdr.pchChecksum, CHECKSUM_SIZE) != 0", len(hit) >= 1, g.where, {"reject_sites": [(s.line, F.fshow(own(s, subst))[:200]) for s in sets]})
    okc = all(not [x for x in c.guards if x.kind != "post"] and not c.loops and all(c.line < s.line for s in sets) and match(["bool", False], c.expr[3]) and c.expr[1] == "=" for c in clears)
    ctx.ob("V1/GetReceivedMessage/no-late-clear", "ORDER", "reject_message is only initialised to false before the checks and never cleared afterwards", okc, g.where,
           {"clears": [c.line for c in clears]})
    gh = ctx.used(P.fn("V1Transport::GetMessageHash"))
    fin = sites(gh, lambda e: e[0] in ("mcall", "vcall") and e[1].endswith("::Finalize") and match([".", ["this"], "V1Transport::hasher"], e[2]), P)
    rets = [e for e in exits(gh, P) if e.kind == "ret"]
    ok = len(fin) == 1 and contains([".", ["this"], "V1Transport::data_hash"], fin[0].expr) and all(match([".", ["this"], "V1Transport::data_hash"], peel(e.value)) for e in rets)
    ctx.ob("V1/GetMessageHash", "PROVENANCE", "GetMessageHash returns data_hash, the finalisation of the running payload hasher", ok, gh.where)
    rd = ctx.used(P.fn("V1Transport::readData"))
    wr = sites(rd, lambda e: e[0] in ("mcall", "vcall") and e[1].endswith("::Write") and match([".", ["this"], "V1Transport::hasher"], e[2]), P)
    cp = sites(rd, lambda e: e[0] == "call" and e[1] == "memcpy" and contains([".", ["this"], "V1Transport::vRecv"], e[2]), P)
    ok = False
    detail = {"hash_writes": [show(w.expr) for w in wr], "copies": [show(c.expr) for c in cp]}
    if len(wr) == 1 and len(cp) == 1:
        wa, ca = call_args(wr[0].expr)[0], call_args(cp[0].expr)
        bp = rd.params[0]["n"]
        ok = match(["mcall", "std::span::first", ["param", bp], V("n")], peel(wa)) and match(["mcall", "std::span::data", ["param", bp]], peel(ca[1])) \
            and peel(wa)[3] == peel(ca[2]) and not [x for x in wr[0].guards if x.kind != "post"] and not [x for x in cp[0].guards if x.kind != "post"]
    ctx.ob("V1/readData/hash-what-is-stored", "SYMMETRY", "readData hashes exactly the bytes (same source span, same count) that it appends to the payload buffer, unconditionally", ok, rd.where, detail)
    ws = sorted({w[0] for w in cg.field_calls("V1Transport::hasher", "Write")})
    ctx.ob("who-writes/V1Transport::hasher", "WHO-MAY-WRITE", "the payload hasher is fed only by readData", ws == [rd.q], None, {"functions": ws})

    # delivery
    rm = ctx.used(P.fn("CNode::ReceiveMsgBytes"))
    gets = sites(rm, lambda e: e[0] in ("mcall", "vcall") and e[1] == "Transport::GetReceivedMessage", P)
    ctx.floor("ReceiveMsgBytes GetReceivedMessage calls", len(gets), 1)
    pushes = sites(rm, lambda e: e[0] in ("mcall", "vcall") and re.search(r"::(push_back|emplace_back)$", e[1]) and match([".", ["this"], "CNode::vRecvMsg"], e[2]), P)
    ctx.floor("ReceiveMsgBytes queue insertions", len(pushes), 1)
    flag = peel(call_args(gets[0].expr)[1])
    msgdecl = [st for st in stmts(rm.body) if st.get("k") == "decl" and is_expr(st.get("i")) and any(x is gets[0].expr for x in subexprs(st["i"]))]
    subst = {k_: v for k_, v in naming(rm, P).items() if not (flag[0] == "local" and k_ == flag[1])}
    for s in pushes:
        a = peel(call_args(s.expr)[0])
        if a[0] == "call" and a[1] == "std::move":
            a = peel(a[2])
        okm = len(msgdecl) == 1 and match(["local", msgdecl[0]["n"]], a)
        f0 = s.formula(subst)
        okf = flag[0] == "local" and F.implies(f0, F.mk_not(F.atom(flag[1])))
        ctx.ob("ReceiveMsgBytes/queue-only-unrejected@L%s" % s.line, "MPT", "CNode::ReceiveMsgBytes queues the message returned by GetReceivedMessage only if the reject flag passed to "
               "that call is false (a v1 message with a wrong checksum is never delivered)", bool(okm and okf), s.where, {"flag": show(flag), "pushed": show(a)})
    who = sorted({c[0] for m_ in ("push_back", "emplace_back", "insert", "splice") for c in cg.field_calls("CNode::vRecvMsg", m_)})
    ctx.ob("who-fills/vRecvMsg", "WHO-MAY-WRITE", "received messages are queued only in CNode::ReceiveMsgBytes", who == [rm.q], None, {"functions": who})

    # header rungs
    rh = ctx.used(P.fn("V1Transport::readHeader"))
    mx, ms = P.const("MAX_PROTOCOL_MESSAGE_LENGTH"), P.const("MAX_SIZE")
    ctx.ob("const/MAX_PROTOCOL_MESSAGE_LENGTH", "CONST", "MAX_PROTOCOL_MESSAGE_LENGTH == 4,000,000 and MAX_SIZE == 0x02000000", mx == 4000000 and ms == 0x02000000, None, {"values": [mx, ms]})
    check_guard(ctx, rh, P, lambda e: match(["b", "=", [".", ["this"], "V1Transport::in_data"], ["bool", True]], e), "MAGIC && FITS1 && FITS2",
                {"MAGIC": "hdr.pchMessageStart == m_magic_bytes", "FITS1": "hdr.nMessageSize < %d" % (ms + 1), "FITS2": "hdr.nMessageSize < %d" % (mx + 1)},
                "V1/readHeader/payload-mode", "the v1 transport starts reading a payload only for a header with the network magic and a size within MAX_SIZE and MAX_PROTOCOL_MESSAGE_LENGTH")
    for e in exits(rh, P):
        if e.kind == "ret" and is_expr(e.value) and not (e.value[0] == "int" and e.value[1] < 0) and not (e.value[0] == "u" and e.value[1] == "-"):
            fb, mp, un = F.bind_atoms(e.formula, {"PARTIAL": re.compile(r"nHdrPos < \d+"), "MAGIC": "hdr.pchMessageStart == m_magic_bytes", "FITS1": "hdr.nMessageSize < %d" % (ms + 1),
                                                   "FITS2": "hdr.nMessageSize < %d" % (mx + 1)})
            cex = F.counterexample(fb, F.parse("PARTIAL || (MAGIC && FITS1 && FITS2)"))
            ctx.ob("V1/readHeader/ok-exit@L%s" % e.line, "LADDER", "readHeader reports progress (non-negative) only for an incomplete header or one with the right magic and a permitted size",
                   cex is None, "%s:%s" % (rh.file, e.line), None if cex is None else {"counterexample": cex})
    ws = sorted({w[0] for w in cg.writers("V1Transport::in_data")})
    ctx.ob("who-writes/V1Transport::in_data", "WHO-MAY-WRITE", "payload mode is entered only by readHeader (and left by Reset)", set(ws) <= {rh.q, "V1Transport::Reset", "V1Transport::V1Transport"}, None,
           {"writers": ws})


# ------------------------------------------------------------------------------------------------
def v2(ctx, P, cg):
    f = ctx.used(P.fn("V2Transport::ProcessReceivedPacketBytes"))
    subst = naming(f, P)
    decs = sites(f, lambda e: e[0] in ("mcall", "vcall") and e[1] == "BIP324Cipher::Decrypt", P)
    ctx.floor("ProcessReceivedPacketBytes Decrypt calls", len(decs), 1)
    ll = P.const("BIP324Cipher::LENGTH_LEN")
    for s in decs:
        a = call_args(s.expr)
        ok = len(a) == 4 and contains([".", ["this"], "V2Transport::m_recv_buffer"], a[0]) and contains(["mcall", "std::span::subspan", ANY, ["int", ll]], a[0]) \
            and contains([".", ["this"], "V2Transport::m_recv_aad"], a[1]) and contains([".", ["this"], "V2Transport::m_recv_decode_buffer"], a[3]) \
            and match([".", ["this"], "V2Transport::m_cipher"], s.expr[2])
        ctx.ob("V2/Decrypt-arguments@L%s" % s.line, "PROVENANCE", "the packet is decrypted from the receive buffer past the length descriptor, with the expected AAD, into the decode buffer",
               bool(ok), s.where, {"args": [show(x)[:80] for x in a]})
    DEC = re.compile(r"m_cipher\.Decrypt\(MakeByteSpan\(m_recv_buffer\)\.subspan\(%d\), .*" % ll)
    atoms = {"DECRYPT_OK": DEC, "LEN3": "m_recv_buffer.size() == %d" % ll, "SHORT": "m_recv_buffer.size() < %d" % (ll + 1),
             "COMPLETE": re.compile(r"(\d+ \+ m_recv_len|m_recv_len \+ \d+) == m_recv_buffer\.size\(\)"), "LENOK": re.compile(r"m_recv_len < \d+")}
    n = 0
    n += len(check_guard(ctx, f, P, lambda e: callee(e) == "V2Transport::SetReceiveState", "DECRYPT_OK", atoms, "V2/state-change",
                         "the receive state advances (VERSION->APP, APP->APP_READY) only if the packet decrypted and authenticated correctly"))
    n += len(check_guard(ctx, f, P, lambda e: e[0] == "call" and e[1].startswith("ClearShrink") and contains([".", ["this"], "V2Transport::m_recv_aad"], e), "DECRYPT_OK", atoms, "V2/aad-cleared",
                         "the expected AAD (garbage) is discarded only after a packet authenticated it"))
    ctx.floor("V2 guarded effects", n, 3)
    for e in exits(f, P, subst):
        if is_true_ret(e):
            fb, mp, un = F.bind_atoms(e.formula, atoms)
            cex = F.counterexample(fb, F.parse("(LEN3 && LENOK) || (!LEN3 && (SHORT || !COMPLETE || DECRYPT_OK))"))
            ctx.ob("V2/ProcessReceivedPacketBytes/true@L%s" % e.line, "LADDER", "ProcessReceivedPacketBytes reports success only if the length is within the limit and, once the whole "
                   "ciphertext is present, Decrypt succeeded (otherwise it returns false and the peer is disconnected)", cex is None, "%s:%s" % (f.file, e.line),
                   None if cex is None else {"counterexample": cex, "path_condition": F.fshow(e.formula)[:600]})
    lim = 1 + P.const("CMessageHeader::MESSAGE_TYPE_SIZE") + min(P.const("MAX_SIZE"), P.const("MAX_PROTOCOL_MESSAGE_LENGTH"))
    lens = {int(m.group(1)) for e in exits(f, P, subst) for k in F.atoms(e.formula) for m in [re.fullmatch(r"m_recv_len < (\d+)", k)] if m}
    ctx.ob("V2/length-limit", "CONST", "the v2 contents length limit is 1 + MESSAGE_TYPE_SIZE + min(MAX_SIZE, MAX_PROTOCOL_MESSAGE_LENGTH)", lens == {lim + 1}, f.where, {"limits": sorted(lens), "expected": lim})
    ws = sites(f, lambda e: match(["b", "=", [".", ["this"], "V2Transport::m_recv_len"]], e), P)
    ok = len(ws) == 1 and is_call_to("BIP324Cipher::DecryptLength", peel(ws[0].expr[3])) and contains([".", ["this"], "V2Transport::m_recv_buffer"], ws[0].expr[3])
    ctx.ob("V2/length-source", "PROVENANCE", "m_recv_len is the decrypted length descriptor of the receive buffer", ok, f.where)
    wl = sorted({w[0] for w in cg.writers("V2Transport::m_recv_len")})
    ctx.ob("who-writes/m_recv_len", "WHO-MAY-WRITE", "m_recv_len is written only by ProcessReceivedPacketBytes (and the constructor)", set(wl) <= {f.q, "V2Transport::V2Transport"}, None, {"writers": wl})
    # APP_READY nowhere else
    others = []
    for q, fl in P.funcs.items():
        for g in fl:
            if g.body is None or not g.file.endswith("/net.cpp") or g.q == f.q:
                continue
            g.simp()
            for st, e in all_exprs(g.body):
                for x in subexprs(e):
                    if callee(x) == "V2Transport::SetReceiveState" and contains(["enum", "V2Transport::RecvState::APP_READY"], x):
                        others.append("%s:%s" % (g.q, st.get("l")))
                    if match(["b", "=", [".", ANY, "V2Transport::m_recv_state"]], x) and g.q != "V2Transport::SetReceiveState" and not g.q.endswith("::V2Transport"):
                        others.append("%s:%s (direct write)" % (g.q, st.get("l")))
    ctx.ob("who-sets/APP_READY", "WHO-MAY-WRITE", "the APP_READY receive state (a message may be extracted) is entered only by ProcessReceivedPacketBytes", not others, f.where, {"others": others})
    rc = ctx.used(P.fn("V2Transport::ReceivedMessageComplete"))
    oks = []
    for e in exits(rc, P):
        if e.kind == "ret" and is_expr(e.value):
            v = e.value
            oks.append(match(["b", "==", [".", ["this"], "V2Transport::m_recv_state"], ["enum", "V2Transport::RecvState::APP_READY"]], v) or
                       (contains([".", ["this"], "V2Transport::m_v1_fallback"], v) and F.implies(e.formula, F.atom("m_recv_state == V2Transport::RecvState::V1"))))
    ctx.ob("V2/ReceivedMessageComplete", "TWIN", "a v2 message is complete exactly in state APP_READY (or per the v1 fallback in state V1)", bool(oks) and all(oks), rc.where)
    fill = sorted({c[0] for m_ in ("resize", "assign", "insert", "push_back") for c in cg.field_calls("V2Transport::m_recv_decode_buffer", m_)})
    ctx.ob("who-fills/m_recv_decode_buffer", "WHO-MAY-WRITE", "the decode buffer is sized/filled only by ProcessReceivedPacketBytes (as Decrypt output)", fill == [f.q], None, {"functions": fill})
    gm = ctx.used(P.fn("V2Transport::GetReceivedMessage"))
    gsub = naming(gm, P)
    rp = [p["n"] for p in gm.params if p["ty"].replace(" ", "") == "bool&"]
    mt = {st["n"] for st in stmts(gm.body) if st.get("k") == "decl" and is_expr(st.get("i")) and is_call_to("V2Transport::GetMessageType", peel(st["i"]))}
    acc = sites(gm, lambda e: match(["b", "=", ["param", rp[0]], ["bool", False]], e), P)
    ctx.floor("V2 GetReceivedMessage accept sites", len(acc), 1)
    for s in acc:
        fb, mp, un = F.bind_atoms(s.formula(gsub), {"TYPE": lambda k: k in mt})
        ctx.ob("V2/GetReceivedMessage/accept@L%s" % s.line, "MPT", "a v2 message is delivered (reject_message = false) only if GetMessageType decoded a message type", F.implies(fb, F.parse("TYPE")), s.where)
    src = [st for st in stmts(gm.body) if st.get("k") == "decl" and "span" in (st.get("ty") or "") and contains([".", ["this"], "V2Transport::m_recv_decode_buffer"], st.get("i") or [])]
    cps = sites(gm, lambda e: e[0] == "call" and e[1] == "std::copy", P)
    ok = len(src) == 1 and len(cps) >= 1 and all(contains(["local", src[0]["n"]], call_args(c.expr)[0]) and contains(["local", src[0]["n"]], call_args(c.expr)[1]) for c in cps)
    ctx.ob("V2/GetReceivedMessage/payload", "PROVENANCE", "the delivered payload is copied from the decrypted contents (after the message-type prefix)", ok, gm.where)


# ------------------------------------------------------------------------------------------------
def short_ids(ctx, P):
    TBL = ["global", "V2_MESSAGE_IDS"]
    mc = ctx.used(P.fn("V2MessageMap::V2MessageMap"))
    loops = [st for st in stmts(mc.body) if st.get("k") == "for"]
    ok, bound_map = False, None
    if len(loops) == 1:
        lp = loops[0]
        iv = lp["init"].get("n") if isinstance(lp.get("init"), dict) else None
        em = [x for st, e in all_exprs(lp["b"]) for x in subexprs(e) if x[0] in ("mcall", "vcall") and x[1].endswith("::emplace")]
        ok = iv is not None and match(["int", 1], lp["init"].get("i")) and match(["b", "<", ["local", iv], ["int", V("n")]], lp.get("c")) and match(["u", ANY, ["local", iv]], lp.get("inc")) \
            and len(em) == 1 and match(["idx", TBL, ["local", iv]], call_args(em[0])[0]) and match(["local", iv], peel(call_args(em[0])[1])) and not has_break(lp["b"])
        bound_map = lp["c"][3][1] if ok else None
    ctx.ob("short-ids/map-construction", "SYMMETRY", "V2MessageMap maps V2_MESSAGE_IDS[i] -> i for every i from 1 (0 is the long-encoding marker) below the table size", bool(ok), mc.where)
    op = [g for g in P.fns("V2MessageMap::operator()")]
    okop = False
    if len(op) == 1:
        rets = [e for e in exits(op[0], P) if e.kind == "ret" and is_expr(e.value)]
        vals = [peel(e.value) for e in rets]
        found = [v for v in vals if match([".", ["local", ANY], "std::pair::second"], v)]
        okop = len(found) == 1 and all(v in found or match(["global", "std::nullopt"], v) for v in vals)
        if okop:
            it = local_values(op[0], found[0][1][1])
            okop = len(it) == 1 and match(["mcall", "std::unordered_map::find", [".", ["this"], "V2MessageMap::m_map"], ["param", ANY]], peel(it[0][1]))
    ctx.ob("short-ids/map-lookup", "SYMMETRY", "V2MessageMap::operator() returns the id stored for the message name, or nothing", okop, op[0].where if op else None)
    gt = ctx.used(P.fn("V2Transport::GetMessageType"))
    gsub = naming(gt, P)
    hits = [e for e in exits(gt, P, gsub) if e.kind == "ret" and is_expr(e.value) and contains(["idx", TBL], e.value)]
    ok, bound_get = False, None
    if len(hits) == 1:
        idx = [x for x in subexprs(hits[0].value) if x[0] == "idx" and x[1] == TBL][0][2]
        key = F.key(F.expand(idx, gsub))
        bnd = [m for k in F.atoms(hits[0].formula) for m in [re.fullmatch(re.escape(key) + r" < (\d+)", k)] if m]
        if len(bnd) == 1:
            bound_get = int(bnd[0].group(1))
            fb, mp, un = F.bind_atoms(hits[0].formula, {"NONZERO": key, "INRANGE": "%s < %d" % (key, bound_get)})
            first = key
            if idx[0] == "local" and idx[1] not in gsub:
                # `b = contents[0]; contents = contents.subspan(1);`: b keeps its own name (contents is overwritten later);
                # it is the first byte if it is initialised from element 0 before the buffer is first overwritten
                dinit = local_defs(gt, P, allow_overwritten=True).get(idx[1])
                dl = [st.get("l") for st in stmts(gt.body) if st.get("k") == "decl" and st.get("n") == idx[1]]
                if is_expr(dinit) and len(dl) == 1 and peel(dinit)[0] == "idx" and peel(dinit)[1][0] in ("param", "local"):
                    buf = peel(dinit)[1]
                    kl = [st.get("l") for st, e in all_exprs(gt.body) for x in subexprs(e)
                          if (x[0] == "b" and x[1] in ASSIGN_OPS and x[2] == buf) or (x[0] == "opcall" and x[1] in ASSIGN_OPS and len(x) > 3 and x[3] == buf)]
                    if all(l_ > dl[0] for l_ in kl):
                        first = F.key(dinit)
            ok = F.implies(fb, F.parse("NONZERO && INRANGE")) and re.fullmatch(r"\w+\[0\]", first) is not None
    ctx.ob("short-ids/receive-lookup", "SYMMETRY", "GetMessageType decodes a non-zero first byte b as V2_MESSAGE_IDS[b], only for b below the table size", ok, gt.where,
           {"bound": bound_get})
    ctx.ob("short-ids/same-bound", "SYMMETRY", "sender map and receiver lookup use the same table bound (std::size(V2_MESSAGE_IDS))", bound_map is not None and bound_map == bound_get, None,
           {"map_bound": bound_map, "receive_bound": bound_get})
    sm = ctx.used(P.fn("V2Transport::SetMessageToSend"))
    ssub = naming(sm, P)
    ids = {st["n"] for st in stmts(sm.body) if st.get("k") == "decl" and is_expr(st.get("i")) and peel(st["i"])[0] == "opcall" and contains(["global", "V2_MESSAGE_MAP"], st["i"])
           and contains([".", ["param", ANY], "CSerializedNetMsg::m_type"], st["i"])}
    w0 = sites(sm, lambda e: match(["b", "=", ["idx", ["local", ANY], ["int", 0]]], e), P)
    ok = len(ids) == 1 and len(w0) == 1 and match(["u", "*", ["local", sorted(ids)[0]]], peel(w0[0].expr[3])) and F.implies(w0[0].formula(ssub), F.atom(sorted(ids)[0]))
    ctx.ob("short-ids/send-encoding", "SYMMETRY", "SetMessageToSend writes as first content byte the id V2_MESSAGE_MAP(msg.m_type) when one exists", bool(ok), sm.where)
    # long encoding: zero-initialised 1 + 12 byte prefix, type at offset 1, payload at offset 13
    mts = P.const("CMessageHeader::MESSAGE_TYPE_SIZE")
    cps = [s for s in sites(sm, lambda e: e[0] == "call" and e[1] == "std::copy", P) if ids and F.implies(s.formula(ssub), F.mk_not(F.atom(sorted(ids)[0])))]
    tcp = [s for s in cps if contains([".", ["param", ANY], "CSerializedNetMsg::m_type"], call_args(s.expr)[0])]
    dcp = [s for s in cps if contains([".", ["param", ANY], "CSerializedNetMsg::data"], call_args(s.expr)[0])]
    def offs(e):
        tot, ok_ = 0, True
        e = peel(e)
        while is_expr(e) and e[0] == "b" and e[1] == "+":
            if is_expr(e[3]) and e[3][0] == "int":
                tot += e[3][1]
                e = peel(e[2])
            else:
                ok_ = False
                break
        return tot if ok_ else None
    okl = len(tcp) == 1 and len(dcp) == 1 and offs(call_args(tcp[0].expr)[2]) == 1 and offs(call_args(dcp[0].expr)[2]) == 1 + mts
    ctx.ob("short-ids/long-encoding", "SYMMETRY", "without a short id the contents are 0x00, the message type at offset 1 (12 bytes, zero padded) and the payload at offset 13 - "
           "the layout GetMessageType parses", okl, sm.where, {"type_copy": [show(s.expr)[:100] for s in tcp], "data_copy": [show(s.expr)[:100] for s in dcp]})
    lg = [e for e in exits(gt, P, gsub) if e.kind == "ret" and is_expr(e.value) and e.line not in {h.line for h in hits} and contains(["local", ANY], e.value)]
    okg = len(lg) == 1 and any(re.fullmatch(r"\w+\.size\(\) < %d" % mts, F.strip_stale(k)) for k in F.atoms(lg[0].formula))
    ctx.ob("short-ids/long-decoding", "SYMMETRY", "the long encoding is accepted only with at least MESSAGE_TYPE_SIZE (12) type bytes present", okg, gt.where)


# ------------------------------------------------------------------------------------------------
def refused_send_has_no_effect(ctx, P):
    """SetMessageToSend may be called while the previous message is still being sent and then answers false: on that path it
    must not have touched the send state (header/payload buffers, counters, cipher), or the bytes still to go out change under the
    sender (the receiver then sees a message that was never sent)."""
    MUT = ("clear", "resize", "push_back", "emplace_back", "assign", "insert", "erase", "swap", "pop_back", "Encrypt", "reserve", "shrink_to_fit")
    for q in ("V1Transport::SetMessageToSend", "V2Transport::SetMessageToSend"):
        f = ctx.used(P.fn(q))
        cls = q.split("::")[0]

        def member(e, cls=cls):
            return is_expr(e) and any(x[0] == "." and len(x) == 3 and x[1] == ["this"] and isinstance(x[2], str) and x[2].startswith(cls + "::m_") and
                                      not x[2].endswith("mutex") for x in subexprs(e))

        def writes(e, member=member):
            t = e[0]
            if t in ("b",) and e[1] in ASSIGN_OPS and member(e[2]):
                return True
            if t == "opcall" and e[1] in ASSIGN_OPS and len(e) > 3 and member(e[3]):
                return True
            if t in ("mcall", "vcall") and str(e[1]).rsplit("::", 1)[-1] in MUT and member(e[2]):
                return True
            if t == "ctor" and str(e[1]).endswith("VectorWriter") and len(e) > 2 and member(e[2]):
                return True
            if t == "u" and e[1] in ("++", "--", "post++", "post--") and member(e[2]):
                return True
            return False

        mf = MayFlow(f, P, gens=[("touched", writes)])
        mf.run()
        fe = [(state, st) for state, st in mf.exits if st.get("k") == "ret" and is_expr(st.get("v")) and match(["bool", False], st["v"])]
        nw = len(sites(f, writes, P))
        ctx.floor("%s send-state writes" % q, nw, 2)
        ctx.floor("%s refusing exits" % q, len(fe), 1)
        bad = sorted(st.get("l") for state, st in fe if "touched" in state)
        ctx.ob("%s/refused-send-no-effect" % q, "ORDER", "%s answers false (busy) only on paths on which it has not yet modified any send-state member" % q, not bad,
               f.where, {"refusing_exits_after_a_write": bad} if bad else None)
