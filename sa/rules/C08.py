"""C08 The active chain is always a most-work chain free of invalid blocks (DESIGN §3 C08)."""
import re

from sa.engine.api import *
from sa.engine import callgraph
from sa.rules._helpers_B import alias_naming, any_call_named, assign_to_field, assign_to_local, mcall_named, must_before, zero_test_marks

UNITS = ["validation.cpp", "node/blockstorage.cpp"]
EXPLANATION = ("TWIN: CBlockIndexWorkComparator orders by chain work, then reverse sequence id, then reverse pointer (truth-table equivalence). "
               "TYPESTATE on Chainstate::FindMostWorkChain: the ancestor walk starts at the candidate, follows pprev until the active chain, advances only "
               "past ancestors that are not BLOCK_FAILED_VALID and have BLOCK_HAVE_DATA, leaves early only with the invalid-ancestor flag set, and a "
               "candidate is returned only with the walk finished and the flag clear. LADDER on AcceptBlockHeader: known failed header -> "
               "(BLOCK_CACHED_INVALID, duplicate-invalid), failed parent -> (BLOCK_INVALID_PREV, bad-prevblk), AddToBlockIndex only past both. "
               "CALLGRAPH (whole program): who may call CChain::SetTip on the active chain, ConnectTip, ActivateBestChainStep, who may insert into "
               "setBlockIndexCandidates, who may set BLOCK_FAILED_VALID. MPT/ORDER: InvalidBlockFound marks exactly the non-mutated failures and hands them "
               "to InvalidChainFound, which always marks all descendants (SetBlockFailureFlags visits the whole index, descendant test by GetAncestor); "
               "ConnectTip moves the tip only after ConnectBlock succeeded and reports invalid blocks; ActivateBestChainStep connects the next block only "
               "after the previous ConnectTip succeeded, stops for good after a failure, calls InvalidChainFound only for non-mutated consensus failures; "
               "ActivateBestChain activates only FindMostWorkChain's result and re-selects after an invalid block; InvalidateBlock marks a block failed "
               "only after DisconnectTip moved the tip off it and finishes with InvalidChainFound; ResetBlockFailureFlags clears the flag on the block, "
               "its ancestors and descendants and re-offers them as candidates.")
ASSUMPTIONS = ["arith_uint256 comparison operators order by numeric value", "CBlockIndex::GetAncestor(h) returns the ancestor at height h (C54)",
               "std::set with CBlockIndexWorkComparator: rbegin() is the greatest element"]
CLAIM = dict(
    technique="static analysis: predicate twin (truth table), typestate/must-flow over loop bodies, reject-ladder implication, whole-program "
              "who-may-call/who-may-write, guard implication",
    text="For every path of the chain-selection code: the candidate chosen has the greatest (work, -sequence, -address) key; it is returned only if no "
         "ancestor outside the active chain is marked failed or lacks data; headers on failed blocks never enter the index; only ConnectTip/DisconnectTip "
         "(plus start-up/snapshot loading) move the active tip, ConnectTip only after ConnectBlock succeeded; a consensus failure marks the block and all "
         "its descendants and stops the connect loop; mutated blocks are not marked; invalidateblock marks only disconnected blocks. Tests build specific "
         "fork scenarios; these obligations hold for all paths.",
    note="Not decided: the global 'greatest chainwork among ...' over delivery orders (history property; CheckBlockIndex is its runtime guard). DESIGN's "
         "'every BLOCK_FAILED_VALID write is paired with removal from the candidate set' is dropped: it is not a necessary condition (FindMostWorkChain "
         "discards failed candidates itself) and the unchanged tree does not pair the descendant marking in SetBlockFailureFlags/InvalidateBlock.",
    ref="DESIGN.md §3 C08")

CS = "Chainstate::"
FAILED = ["enum", "BLOCK_FAILED_VALID"]


def _fail_write(e):
    """`<x>.nStatus |= BLOCK_FAILED_VALID` (also plain `=` with the flag or'ed in)."""
    return assign_to_field("CBlockIndex::nStatus")(e) and e[1] in ("|=", "=") and contains(FAILED, e[3]) and not contains(["u", "~"], e[3])


def _status_atom(flag):
    return lambda a: (is_expr(a) and a[0] == "b" and a[1] == "&" and any(match(["enum", flag], x) for x in a[2:4])
                      and any(match([".", ANY, "CBlockIndex::nStatus"], x) for x in a[2:4]))


def _lines(st):
    return [x.get("l") or 0 for x in stmts(st)]


def _inner(site, line):
    return [g for g in site.guards if (g.line or 0) >= line]


# ------------------------------------------------------------------------------------------------- comparator
def comparator(ctx, P):
    f = ctx.used(P.fn("node::CBlockIndexWorkComparator::operator()"))
    atoms = {"LTW": "pa.nChainWork < pb.nChainWork", "GTW": "pb.nChainWork < pa.nChainWork",
             "LTS": "pa.nSequenceId < pb.nSequenceId", "GTS": "pb.nSequenceId < pa.nSequenceId",
             "LTP": "pa < pb", "GTP": "pb < pa"}
    check_return_formula(ctx, f, P, "!GTW && (LTW || (!LTS && (GTS || (!LTP && GTP))))", atoms, oid="CBlockIndexWorkComparator")


# ------------------------------------------------------------------------------------------------- FindMostWorkChain
def find_most_work(ctx, P):
    f = ctx.used(P.fn(CS + "FindMostWorkChain"))
    sub = naming(f, P)
    # the candidate: *setBlockIndexCandidates.rbegin()
    rets = [st for st in stmts(f.body) if st.get("k") == "ret" and is_expr(st.get("v")) and not match(["null"], st["v"])]
    ctx.floor("FindMostWorkChain non-null returns", len(rets), 1)
    cands = {show(r["v"]) for r in rets}
    if len(cands) != 1 or rets[0]["v"][0] != "local":
        raise AnalysisBroken("FindMostWorkChain: returned candidate is not a single local")
    cand = rets[0]["v"][1]
    vals = [(l, v) for l, v in local_values(f, cand) if not match(["null"], v)]
    ok = bool(vals) and all(match(["u", "*", ANY], v) and contains(["mcall", "std::set::rbegin", [".", ["this"], CS + "setBlockIndexCandidates"]], F.expand(v, sub))
                            for _, v in vals)
    ctx.ob("FindMostWorkChain/candidate", "PROVENANCE", "the candidate examined and returned is the greatest element (rbegin) of setBlockIndexCandidates", ok, f.where,
           {"values": [(l, show(F.expand(v, sub))) for l, v in vals]})
    # the ancestor walk
    walks = [st for st in stmts(f.body) if st.get("k") == "for" and isinstance(st.get("init"), dict) and match(["local", cand], st["init"].get("i"))
             and contains(["mcall", "CChain::Contains"], st.get("c") or [])]
    if len(walks) != 1:
        raise AnalysisBroken("FindMostWorkChain: ancestor walk not recognised")
    W = walks[0]
    it = W["init"]["n"]
    ok = (match(["b", "&&", ["local", it], ["u", "!", ["mcall", "CChain::Contains", [".", ["this"], CS + "m_chain"], ["u", "*", ["local", it]]]]], W.get("c"))
          and match(["b", "=", ["local", it], [".", ["local", it], "CBlockIndex::pprev"]], W.get("inc")))
    ctx.ob("FindMostWorkChain/walk-shape", "LADDER", "the ancestor walk starts at the candidate, follows pprev, and ends only at a block of the active chain (or past genesis)",
           ok, "%s:%s" % (f.file, W.get("l")), {"cond": show(W.get("c")), "inc": show(W.get("inc"))})
    wr = [x for st_, e in all_exprs(W.get("b")) for x in subexprs(e) if x[0] == "b" and x[1] in ASSIGN_OPS and match(["local", it], x[2])]
    ctx.ob("FindMostWorkChain/walk-variable", "LADDER", "the walk variable is not modified inside the loop body", not wr, "%s:%s" % (f.file, W.get("l")))
    flags = [st for st in stmts(f.body) if st.get("k") == "decl" and match(["bool", False], st.get("i")) and st.get("ty") == "bool"]
    body = sub_function(f, W["b"], "ancestor-walk")
    on_it = lambda a: contains(["local", it], a)
    marks = [("FLAG:" + d["n"], assign_to_local(d["n"], ["bool", True])) for d in flags]
    marks.append(("ERASED", lambda e: is_expr(e) and e[0] == "mcall" and e[1] == "std::set::erase" and match([".", ["this"], CS + "setBlockIndexCandidates"], e[2])))
    mf = MustFlow(body, P, marks=marks, branch_marks=zero_test_marks("NOTFAILED", lambda a: _status_atom("BLOCK_FAILED_VALID")(a) and on_it(a), False) +
                  zero_test_marks("HASDATA", lambda a: _status_atom("BLOCK_HAVE_DATA")(a) and on_it(a), True))
    out = mf.run()
    where = "%s:%s" % (f.file, W.get("l"))
    for kind in ("normal", "continue"):
        st = out.get(kind)
        if st is None:
            continue
        miss = [x for x in ("NOTFAILED", "HASDATA") if x not in st]
        ctx.ob("FindMostWorkChain/advance(%s)" % kind, "TYPESTATE",
               "the walk advances to the next ancestor only if the current one is not BLOCK_FAILED_VALID and has BLOCK_HAVE_DATA", not miss, where,
               None if not miss else {"not_established": miss})
    ctx.ob("FindMostWorkChain/advance-exists", "TYPESTATE", "the walk body can complete normally", out.get("normal") is not None, where)
    ctx.ob("FindMostWorkChain/no-return-in-walk", "TYPESTATE", "the walk body does not return", not [x for x in mf.exits if x[1].get("k") in ("ret", "throw")], where)
    bst = out.get("break")
    flagged = sorted(x[5:] for x in (bst or ()) if x.startswith("FLAG:"))
    ctx.ob("FindMostWorkChain/early-exit-flagged", "TYPESTATE", "the walk is left early (break) only after the invalid-ancestor flag was set",
           bst is None or bool(flagged), where)
    ctx.ob("FindMostWorkChain/early-exit-shrinks-set", "TYPESTATE", "before retrying, the unusable chain's entry is erased from setBlockIndexCandidates (the search makes progress)",
           bst is None or "ERASED" in bst, where)
    # the return: walk done and flag clear; the flag is false-initialised before the walk in the same retry iteration and only ever set to true
    lo = W.get("l")
    for r in stmt_sites(f, lambda st: st.get("k") == "ret" and is_expr(st.get("v")) and not match(["null"], st["v"]), P):
        fm = r.formula(sub)
        names = [n for n in flagged if F.implies(fm, F.mk_not(F.atom(n)))]
        done = any(a.startswith("done(loop@%s" % lo) and F.implies(fm, F.atom(a)) for a in F.atoms(fm))
        okflag = False
        for n in names:
            d = [x for x in flags if x["n"] == n][0]
            vs = local_values(f, n)
            okflag = okflag or (all(match(["bool", ANY], v) for _, v in vs) and d["l"] < lo and all(l >= lo for l, v in vs if match(["bool", True], v))
                                and _same_block(f, d, W))
        ctx.ob("FindMostWorkChain/return-guard@L%s" % r.line, "LADDER",
               "a candidate is returned only after the ancestor walk ran to its end with the invalid-ancestor flag (reset for this candidate) still false",
               done and okflag, r.where, {"path": F.fshow(fm)[:500], "flags": flagged})


def _same_block(f, a, b):
    for st in stmts(f.body):
        if st.get("k") == "seq" and any(x is a for x in st.get("s", [])) and any(x is b for x in st.get("s", [])):
            return True
    return False


# ------------------------------------------------------------------------------------------------- AcceptBlockHeader
def accept_header(ctx, P):
    f = ctx.used(P.fn("ChainstateManager::AcceptBlockHeader"))
    # single-definition locals of this function (hash, the two map iterators); names declared twice keep their name
    decls = {}
    for st in stmts(f.body):
        if st.get("k") == "decl" and st.get("n"):
            decls.setdefault(st["n"], []).append(st)
    sub = {n: d[0]["i"] for n, d in decls.items() if len(d) == 1 and is_expr(d[0].get("i")) and len(local_values(f, n)) == 1}
    idx = r"m_blockman\.m_block_index"
    self_find = r"%s\.find\(block\.GetHash\(\)\)" % idx
    prev_find = r"%s\.find\(block\.hashPrevBlock\)" % idx
    end = r"%s\.end\(\)" % idx
    # the locals holding the two block-index entries, found by what they are computed from (names are free)
    entry = lambda find: re.compile(r"&\(?\*?%s\)?\.second" % find)
    selfs = sorted([d for n, ds in decls.items() for d in ds if is_expr(d.get("i")) and entry(self_find).fullmatch(F.key(F.expand(d["i"], sub)))], key=lambda d: d["l"])
    prevs = sorted({n for n in decls for l, v in local_values(f, n) if is_expr(v) and not match(["null"], v) and entry(prev_find).fullmatch(F.key(F.expand(v, sub)))})
    if not selfs or len(prevs) != 1:
        raise AnalysisBroken("AcceptBlockHeader: block index entry locals (own hash / hashPrevBlock) not recognised")
    self_n, prev_n = selfs[0]["n"], prevs[0]
    atoms = {"GENESIS": re.compile(r"(block\.GetHash\(\) == .*hashGenesisBlock|.*hashGenesisBlock == block\.GetHash\(\))"),
             "KNOWN": (re.compile(r"(%s == %s|%s == %s)" % (self_find, end, end, self_find)), False),
             "SELF_FAILED": "BLOCK_FAILED_VALID & %s.nStatus" % self_n,
             "PREV_MISSING": re.compile(r"(%s == %s|%s == %s)" % (prev_find, end, end, prev_find)),
             "PREV_FAILED": "BLOCK_FAILED_VALID & %s.nStatus" % prev_n}
    want = {"duplicate-invalid": ("BlockValidationResult::BLOCK_CACHED_INVALID", "!GENESIS && KNOWN && SELF_FAILED"),
            "bad-prevblk": ("BlockValidationResult::BLOCK_INVALID_PREV", "!GENESIS && !KNOWN && !PREV_MISSING && PREV_FAILED")}
    seen = set()
    nacc = 0
    for e in exits(f, P, sub):
        fb, mp, un = F.bind_atoms(e.formula, atoms)
        where = "%s:%s" % (f.file, e.line)
        inv = invalid_call(e.value) if e.kind == "ret" else None
        if inv and inv[1] in want:
            res, spec = want[inv[1]]
            seen.add(inv[1])
            cex = F.counterexample(fb, F.parse(spec))
            ctx.ob("AcceptBlockHeader/%s@L%s" % (inv[1], e.line), "LADDER", "AcceptBlockHeader rejects with (%s, %s) only under (%s)" % (res.rsplit("::", 1)[-1], inv[1], spec),
                   cex is None and inv[0] == res, where, None if cex is None else {"path": F.fshow(e.formula)[:600], "counterexample": cex, "unbound": un[:6]})
        elif is_true_ret(e):
            nacc += 1
            cex = F.counterexample(fb, F.parse("GENESIS || (KNOWN && !SELF_FAILED) || (!KNOWN && !PREV_MISSING && !PREV_FAILED)"))
            ctx.ob("AcceptBlockHeader/accept@L%s" % e.line, "LADDER",
                   "AcceptBlockHeader accepts a non-genesis header only if it is known and not marked failed, or new with a known parent that is not marked failed",
                   cex is None, where, None if cex is None else {"path": F.fshow(e.formula)[:700], "counterexample": cex, "unbound": un[:6]})
    ctx.ob("AcceptBlockHeader/rungs-present", "LADDER", "the duplicate-invalid and bad-prevblk rejections exist", seen == set(want), f.where, {"found": sorted(seen)})
    ctx.floor("AcceptBlockHeader accepting exits", nacc, 2)
    check_guard(ctx, f, P, mcall_named("node::BlockManager::AddToBlockIndex"), "GENESIS || (!KNOWN && !PREV_MISSING && !PREV_FAILED)", atoms,
                "AcceptBlockHeader/AddToBlockIndex", "a header enters the block index only if it is new and its parent is known and not marked failed", subst=sub)
    # the entries examined: pindexPrev is the entry of block.hashPrevBlock, the known header's pindex the entry of the header's own hash
    vals = [(l, v) for l, v in local_values(f, prev_n) if not match(["null"], v)]
    ok = bool(vals) and all(re.fullmatch(r"&\(?\*?%s\)?\.second" % prev_find, F.key(F.expand(v, sub))) for _, v in vals)
    ctx.ob("AcceptBlockHeader/parent-provenance", "PROVENANCE", "the parent whose failure flag is tested is the block index entry of block.hashPrevBlock", ok, f.where,
           {"values": [(l, F.key(F.expand(v, sub))) for l, v in vals]})
    first = sorted(decls.get(self_n, []), key=lambda d: d["l"])[:1]
    ok = bool(first) and re.fullmatch(r"&\(?\*?%s\)?\.second" % self_find, F.key(F.expand(first[0].get("i"), sub))) is not None
    ctx.ob("AcceptBlockHeader/self-provenance", "PROVENANCE", "the known header whose failure flag is tested is the block index entry of the header's own hash", ok, f.where)


# ------------------------------------------------------------------------------------------------- call graph
def ownership(ctx, P):
    cg = callgraph.load_all()
    ctx.note("call graph: %d functions from %d units" % (len(cg.funcs), cg.nunits))

    def who(oid, found, allowed, text, required=()):
        found = sorted(found)
        ok = bool(found) and set(found) <= set(allowed) and set(required) <= set(found)
        ctx.ob(oid, "WHO-MAY-CALL", text, ok, None, {"found": found, "allowed": sorted(allowed)})
    tips = {c[0] for c in cg.call_sites("CChain::SetTip")}
    who("who-calls/CChain::SetTip", tips, [CS + "ConnectTip", CS + "DisconnectTip", CS + "LoadChainTip", "ChainstateManager::PopulateAndValidateSnapshot",
                                           "ChainstateManager::CheckBlockIndex"],
        "CChain::SetTip is called only by ConnectTip, DisconnectTip, LoadChainTip, PopulateAndValidateSnapshot (and CheckBlockIndex on a local chain)",
        required=[CS + "ConnectTip", CS + "DisconnectTip"])
    cbi = P.fn("ChainstateManager::CheckBlockIndex")
    bad = [s for s in sites(cbi, mcall_named("CChain::SetTip"), P) if contains([".", ANY, CS + "m_chain"], call_obj(s.expr))]
    ctx.ob("CheckBlockIndex/local-chain-only", "WHO-MAY-WRITE", "CheckBlockIndex never calls SetTip on a chainstate's m_chain", not bad, cbi.where)
    who("who-calls/ConnectTip", {c[0] for c in cg.call_sites(CS + "ConnectTip")}, [CS + "ActivateBestChainStep"], "ConnectTip is called only by ActivateBestChainStep")
    who("who-calls/DisconnectTip", {c[0] for c in cg.call_sites(CS + "DisconnectTip")}, [CS + "ActivateBestChainStep", CS + "InvalidateBlock"],
        "DisconnectTip is called only by ActivateBestChainStep and InvalidateBlock")
    who("who-calls/ActivateBestChainStep", {c[0] for c in cg.call_sites(CS + "ActivateBestChainStep")}, [CS + "ActivateBestChain"],
        "ActivateBestChainStep is called only by ActivateBestChain")
    ins = {c[0] for m in ("insert", "emplace", "emplace_hint", "merge", "swap") for c in cg.field_calls(CS + "setBlockIndexCandidates", m)}
    who("who-inserts/setBlockIndexCandidates", ins, [CS + "TryAddBlockIndexCandidate", CS + "ResetBlockFailureFlags", CS + "InvalidateBlock", CS + "PreciousBlock"],
        "setBlockIndexCandidates gains elements only in TryAddBlockIndexCandidate, ResetBlockFailureFlags, InvalidateBlock and PreciousBlock")
    ws = {w[0] for w in cg.writers(CS + "setBlockIndexCandidates")} | {w[0] for w in cg.writers(CS + "m_chain")}
    ctx.ob("who-writes/m_chain", "WHO-MAY-WRITE", "m_chain and setBlockIndexCandidates are never assigned as a whole outside the constructor", ws <= {CS + "Chainstate"}, None,
           {"writers": sorted(ws)})
    # BLOCK_FAILED_VALID setters
    stat = {w[0] for w in cg.writers("CBlockIndex::nStatus")}
    setters = set()
    for g in _all_fns(P):
        if getattr(g, "body", None) is not None and g.q in stat and sites(g, _fail_write, P):
            setters.add(g.q)
    outside = sorted(q for q in stat if not any(q == g.q for g in _all_fns(P)))
    who("who-sets/BLOCK_FAILED_VALID", setters, [CS + "InvalidBlockFound", CS + "SetBlockFailureFlags", CS + "InvalidateBlock", "node::BlockManager::LoadBlockIndex"],
        "within validation/blockstorage BLOCK_FAILED_VALID is set only by InvalidBlockFound, SetBlockFailureFlags, InvalidateBlock (and propagated at load time by LoadBlockIndex)",
        required=[CS + "InvalidBlockFound", CS + "SetBlockFailureFlags"])
    ctx.ob("who-writes/nStatus-elsewhere", "WHO-MAY-WRITE", "outside validation.cpp/blockstorage.cpp CBlockIndex::nStatus is written only by CBlockIndex itself and the block index loader",
           set(outside) <= {"CBlockIndex::CBlockIndex", "CBlockIndex::RaiseValidity", "kernel::BlockTreeDB::LoadBlockIndexGuts"}, None, {"writers": outside})
    who("who-calls/InvalidBlockFound", {c[0] for c in cg.call_sites(CS + "InvalidBlockFound")}, [CS + "ConnectTip", "ChainstateManager::AcceptBlock"],
        "InvalidBlockFound is called only by ConnectTip and AcceptBlock")
    who("who-calls/ResetBlockFailureFlags", {c[0] for c in cg.call_sites(CS + "ResetBlockFailureFlags")}, ["ReconsiderBlock"],
        "failure flags are cleared only on behalf of the reconsiderblock RPC")


def _all_fns(P):
    out = []
    for fn in P.funcs.values() if isinstance(P.funcs, dict) else P.funcs:
        out += fn if isinstance(fn, list) else [fn]
    return out


# ------------------------------------------------------------------------------------------------- marking
def marking(ctx, P):
    ibf = ctx.used(P.fn(CS + "InvalidBlockFound"))
    sub = naming(ibf, P)
    mut = re.compile(r"state\.GetResult\(\) == BlockValidationResult::BLOCK_MUTATED")
    for pred, oid, text in ((_fail_write, "mark", "sets BLOCK_FAILED_VALID"), (mcall_named(CS + "InvalidChainFound"), "propagate", "calls InvalidChainFound")):
        ss = sites(ibf, pred, P)
        ctx.floor("InvalidBlockFound %s sites" % oid, len(ss), 1)
        for s in ss:
            fb, mp, un = F.bind_atoms(s.formula(sub), {"MUTATED": mut})
            c1, c2 = F.counterexample(fb, F.parse("!MUTATED")), F.counterexample(F.parse("!MUTATED"), fb)
            ctx.ob("InvalidBlockFound/%s@L%s" % (oid, s.line), "MPT", "InvalidBlockFound %s exactly when the failure is not BLOCK_MUTATED (a mutated copy must not "
                   "condemn the block; every other consensus failure must)" % text, c1 is None and c2 is None, s.where,
                   None if c1 is None and c2 is None else {"guard": F.fshow(s.formula(sub)), "counterexample": c1 or c2})
            tgt = s.expr[2][1] if pred is _fail_write else call_args(s.expr)[0]
            ctx.ob("InvalidBlockFound/%s-target@L%s" % (oid, s.line), "PROVENANCE", "the block marked / propagated is the pindex parameter", match(["param", "pindex"], tgt), s.where)
    icf = ctx.used(P.fn(CS + "InvalidChainFound"))
    ss = sites(icf, mcall_named(CS + "SetBlockFailureFlags"), P)
    ok = len(ss) == 1 and not [g for g in ss[0].guards if g.kind not in ("post", "assert")] and match(["param", "pindexNew"], call_args(ss[0].expr)[0]) and \
        F.implies(F.T, ss[0].formula(naming(icf, P)))
    ctx.ob("InvalidChainFound/marks-descendants", "MPT", "InvalidChainFound unconditionally calls SetBlockFailureFlags on the invalid block", ok, icf.where)
    sbf = ctx.used(P.fn(CS + "SetBlockFailureFlags"))
    loops = [st for st in stmts(sbf.body) if st.get("k") == "foreach" and match([".", ANY, "node::BlockManager::m_block_index"], st.get("range"))]
    ok = len(loops) == 1 and not has_break(loops[0]["b"]) and not [st for st in stmts(loops[0]["b"]) if st.get("k") in ("ret", "throw")] and \
        any(x is loops[0] for x in sbf.body.get("s", []))
    ctx.ob("SetBlockFailureFlags/complete-scan", "LADDER", "SetBlockFailureFlags visits every entry of the block index (no early exit)", ok, sbf.where)
    sub = alias_naming(sbf, P)
    ws = sites(sbf, _fail_write, P)
    ctx.floor("SetBlockFailureFlags writes", len(ws), 1)
    el = r"(?:bind1\(each\(m_blockman\.m_block_index\)\)|each\(m_blockman\.m_block_index\)\.second)"
    atoms = {"SELF": re.compile(r"(&%s == invalid_block|invalid_block == &%s)" % (el, el)),
             "DESC": re.compile(r"(%s\.GetAncestor\(invalid_block\.nHeight\) == invalid_block|invalid_block == %s\.GetAncestor\(invalid_block\.nHeight\))" % (el, el))}
    for s in ws:
        fb, mp, un = F.bind_atoms(s.formula(sub), atoms)
        c = F.counterexample(F.parse("!SELF && DESC"), fb)
        tgt_ok = re.fullmatch(el, F.key(F.expand(s.expr[2][1], sub))) is not None
        ctx.ob("SetBlockFailureFlags/descendants@L%s" % s.line, "LADDER", "every block index entry other than the invalid block whose ancestor at the invalid block's "
               "height is the invalid block gets BLOCK_FAILED_VALID", c is None and tgt_ok, s.where, None if c is None else {"guard": F.fshow(s.formula(sub)), "unbound": un})
    # ResetBlockFailureFlags
    rbf = ctx.used(P.fn(CS + "ResetBlockFailureFlags"))
    sub = alias_naming(rbf, P)
    fv = dict((v[0], v[1]) for v in P.enum("BlockStatus")["values"]).get("BLOCK_FAILED_VALID")
    if not isinstance(fv, int) or fv == 0:
        raise AnalysisBroken("BlockStatus::BLOCK_FAILED_VALID value not found")
    clr = sites(rbf, lambda e: assign_to_field("CBlockIndex::nStatus")(e) and e[1] == "&=" and
                (contains(["u", "~", FAILED], e[3]) or (e[3][0] == "int" and (e[3][1] & fv) == 0 and (e[3][1] | fv) & 0xffffffff == 0xffffffff)), P)
    ctx.floor("ResetBlockFailureFlags clears", len(clr), 1)
    atoms = {"FAILED": re.compile(r"BLOCK_FAILED_VALID & %s\.nStatus" % el),
             "DESC": re.compile(r"(%s\.GetAncestor\(pindex\.nHeight\) == pindex|pindex == %s\.GetAncestor\(pindex\.nHeight\))" % (el, el)),
             "ANC": re.compile(r"(pindex\.GetAncestor\(%s\.nHeight\) == &%s|&%s == pindex\.GetAncestor\(%s\.nHeight\))" % (el, el, el, el))}
    atoms.update({"VALIDTX": re.compile(r"%s\.IsValid\(BLOCK_VALID_TRANSACTIONS\)" % el),
                  "HAVETX": re.compile(r"%s\.HaveNumChainTxs\(\)" % el),
                  "BETTER": re.compile(r"(setBlockIndexCandidates\.value_comp\(\)|(node::)?CBlockIndexWorkComparator\{\})\(m_chain\.Tip\(\), &%s\)" % el),
                  "ISBEST": re.compile(r"(&%s == m_chainman\.m_best_invalid|m_chainman\.m_best_invalid == &%s)" % (el, el))})
    CLEARED = "FAILED && (DESC || ANC)"

    def exact(site, spec, oid, text):
        fb, mp, un = F.bind_atoms(site.formula(sub), atoms)
        un = [u for u in un if not u.startswith("done(loop@")]
        c1, c2 = F.counterexample(F.parse(spec), fb), F.counterexample(fb, F.parse(spec))
        ok = c1 is None and c2 is None and not un
        ctx.ob("ResetBlockFailureFlags/%s@L%s" % (oid, site.line), "TWIN", text, ok, site.where,
               None if ok else {"guard": F.fshow(site.formula(sub))[:900], "spec": spec, "unbound": un[:6], "counterexample": c1 or c2})
    for s in clr:
        tgt_ok = re.fullmatch(el, F.key(F.expand(s.expr[2][1], sub))) is not None
        ctx.ob("ResetBlockFailureFlags/clears-visited-entry@L%s" % s.line, "PROVENANCE", "the flag is cleared on the block index entry being visited", tgt_ok, s.where)
        exact(s, CLEARED, "scope", "reconsidering a block clears BLOCK_FAILED_VALID exactly on the failed entries that are the block itself, one of its descendants or one of "
              "its ancestors")
    is_el_addr = lambda x: re.fullmatch("&" + el, F.key(F.expand(x, sub))) is not None
    ins = [s for s in sites(rbf, lambda e: is_expr(e) and e[0] == "mcall" and e[1] == "std::set::insert" and match([".", ["this"], CS + "setBlockIndexCandidates"], e[2]), P)]
    ctx.ob("ResetBlockFailureFlags/re-offers", "LADDER", "reconsidered blocks are offered to setBlockIndexCandidates again (the most-work choice can be restored)",
           len(ins) >= 1 and all(s.line > clr[0].line for s in ins), rbf.where)
    for s in ins:
        ctx.ob("ResetBlockFailureFlags/re-offers-visited-entry@L%s" % s.line, "PROVENANCE", "the entry offered as a candidate is the one whose flag was cleared",
               is_el_addr(call_args(s.expr)[0]), s.where)
        exact(s, CLEARED + " && VALIDTX && HAVETX && BETTER", "candidate-criterion",
              "every entry whose failure flag is cleared is re-offered to setBlockIndexCandidates exactly when it meets the candidate criterion itself "
              "(IsValid(BLOCK_VALID_TRANSACTIONS) && HaveNumChainTxs() && more work than the tip) - no further filter such as 'descendants only'")
    dirty = sites(rbf, lambda e: is_expr(e) and e[0] == "mcall" and e[1] == "std::set::insert" and match([".", ANY, "node::BlockManager::m_dirty_blockindex"], e[2]), P)
    ctx.ob("ResetBlockFailureFlags/dirty-exists", "EFFECT", "ResetBlockFailureFlags records the changed entries in m_dirty_blockindex", len(dirty) >= 1, rbf.where)
    for s in dirty:
        if is_el_addr(call_args(s.expr)[0]):
            exact(s, CLEARED, "marks-dirty", "an entry is marked dirty (to be written to the block index database) exactly when its failure flag is cleared")
    rst = sites(rbf, lambda e: is_expr(e) and e[0] == "b" and e[1] == "=" and match([".", ANY, "ChainstateManager::m_best_invalid"], e[2]) and match(["null"], e[3]), P)
    ctx.ob("ResetBlockFailureFlags/best-invalid-reset-exists", "EFFECT", "ResetBlockFailureFlags can reset m_best_invalid", len(rst) >= 1, rbf.where)
    for s in rst:
        exact(s, CLEARED + " && ISBEST", "best-invalid-reset", "m_best_invalid is reset exactly when the entry it points to has its failure flag cleared")
    loops = [st for st in stmts(rbf.body) if st.get("k") == "foreach" and match([".", ANY, "node::BlockManager::m_block_index"], st.get("range"))]
    ok = len(loops) == 1 and not has_break(loops[0]["b"]) and not [st for st in stmts(loops[0]["b"]) if st.get("k") in ("ret", "throw")]
    ctx.ob("ResetBlockFailureFlags/complete-scan", "LADDER", "ResetBlockFailureFlags visits every entry of the block index", ok, rbf.where)


# ------------------------------------------------------------------------------------------------- connecting
def connecting(ctx, P):
    ct = ctx.used(P.fn(CS + "ConnectTip"))
    connected = lambda a: is_expr(a) and a[0] == "mcall" and a[1] == CS + "ConnectBlock"
    must_before(ctx, ct, P, [], [("tip-after-connect", mcall_named("CChain::SetTip"), ["CONNECTED"], "ConnectTip moves the active tip only after ConnectBlock returned true")],
                "ConnectTip", branch_marks=[("CONNECTED", connected, True)], exit_checks=[
                    ("success-after-connect", lambda st: st.get("k") == "ret" and match(["bool", True], st.get("v")), ["CONNECTED"], "ConnectTip returns true only after ConnectBlock returned true")])
    for s in sites(ct, mcall_named("CChain::SetTip"), P):
        ok = match([".", ["this"], CS + "m_chain"], call_obj(s.expr)) and match(["u", "*", ["param", "pindexNew"]], call_args(s.expr)[0])
        ctx.ob("ConnectTip/new-tip@L%s" % s.line, "PROVENANCE", "the new tip set by ConnectTip is the block index it was asked to connect", ok, s.where)
    for s in sites(ct, mcall_named(CS + "ConnectBlock"), P):
        ok = match(["param", "pindexNew"], call_args(s.expr)[2])
        ctx.ob("ConnectTip/validated-index@L%s" % s.line, "PROVENANCE", "ConnectBlock validates against the block index that becomes the tip", ok, s.where)
    ext = sites(ct, lambda e: is_expr(e) and e[0] == "asserted" and contains([".", ["param", "pindexNew"], "CBlockIndex::pprev"], e) and contains(["mcall", "CChain::Tip"], e), P)
    ctx.ob("ConnectTip/extends-tip", "MPT", "ConnectTip asserts that the block extends the current tip (pindexNew->pprev == m_chain.Tip())", len(ext) >= 1, ct.where)
    sub = naming(ct, P)
    ss = sites(ct, mcall_named(CS + "InvalidBlockFound"), P)
    ctx.ob("ConnectTip/reports-invalid-exists", "MPT", "ConnectTip calls InvalidBlockFound for a block that failed ConnectBlock", len(ss) >= 1, ct.where)
    atoms = {"OK": re.compile(r"Chainstate::ConnectBlock\(.*"), "INVALID": "state.IsInvalid()"}
    for s in ss:
        fb, mp, un = F.bind_atoms(s.formula(sub), atoms)
        c1 = F.counterexample(fb, F.parse("!OK && INVALID"))
        # converse: every invalid failure is reported (modulo earlier unrelated conditions that are already part of the path)
        inner = F.mk_and([g.formula(sub) for g in s.guards if g.kind == "if"][-2:])
        ib, _, _ = F.bind_atoms(inner, atoms)
        c2 = F.counterexample(F.parse("!OK && INVALID"), ib)
        ok = c1 is None and c2 is None and match(["param", "pindexNew"], call_args(s.expr)[0]) and match(["param", "state"], call_args(s.expr)[1])
        ctx.ob("ConnectTip/reports-invalid@L%s" % s.line, "MPT", "ConnectTip hands the block to InvalidBlockFound exactly when ConnectBlock failed with an invalid state",
               ok, s.where, None if ok else {"guard": F.fshow(s.formula(sub))[:600], "counterexample": c1 or c2})
    # ---- ActivateBestChainStep
    st_ = ctx.used(P.fn(CS + "ActivateBestChainStep"))
    sub = naming(st_, P)
    cts = sites(st_, mcall_named(CS + "ConnectTip"), P)
    ctx.floor("ActivateBestChainStep ConnectTip sites", len(cts), 1)
    loops = [l for l in stmts(st_.body) if l.get("k") == "foreach" and l.get("l") <= cts[0].line <= max(_lines(l))]
    if len(cts) != 1 or len(loops) != 1:
        raise AnalysisBroken("ActivateBestChainStep: connect loop not recognised")
    L = loops[0]
    lv = L["var"]["n"]
    ok = match(["local", lv], call_args(cts[0].expr)[1])
    vec = [x for x in subexprs(L.get("range")) if x[0] == "local"]
    ctx.ob("ActivateBestChainStep/connects-loop-element", "PROVENANCE", "each ConnectTip call connects the current element of the to-connect list", ok and len(vec) == 1, cts[0].where)
    # the list: ancestors of index_most_work obtained by GetAncestor and pprev, walked in reverse (ascending height)
    if len(vec) == 1:
        v = vec[0][1]
        pb = sites(st_, lambda e: is_expr(e) and e[0] == "mcall" and e[1] == "std::vector::push_back" and match(["local", v], e[2]), P)
        okp = bool(pb)
        for s in pb:
            a = call_args(s.expr)[0]
            vs = local_values(st_, a[1]) if a[0] == "local" else []
            okp = okp and bool(vs) and all(match(["mcall", "CBlockIndex::GetAncestor", ["param", "index_most_work"]], x) or match([".", ["local", a[1]], "CBlockIndex::pprev"], x) for _, x in vs)
        rev = is_expr(L.get("range")) and L["range"][0] == "call" and "reverse" in L["range"][1]
        ctx.ob("ActivateBestChainStep/to-connect-list", "PROVENANCE", "the blocks to connect are ancestors of the chosen most-work block (GetAncestor, then pprev links), connected "
               "in reverse (ascending height) order", okp and rev, "%s:%s" % (st_.file, L.get("l")), {"range": show(L.get("range"))})
    conts = [d["n"] for d in stmts(st_.body) if d.get("k") == "decl" and d.get("ty") == "bool" and match(["bool", True], d.get("i"))]
    outer = [w for w in stmts(st_.body) if w.get("k") == "while" and w.get("l") < L.get("l") <= max(_lines(w)) and any(contains(["local", c], w.get("c")) for c in conts)]
    body = sub_function(st_, L["b"], "connect-loop")
    mf = MustFlow(body, P, marks=[("STOP:" + c, assign_to_local(c, ["bool", False])) for c in conts],
                  branch_marks=[("CONNECTED", lambda a: is_expr(a) and a[0] == "mcall" and a[1] == CS + "ConnectTip", True)])
    out = mf.run()
    where = "%s:%s" % (st_.file, L.get("l"))
    for kind in ("normal", "continue"):
        s_ = out.get(kind)
        if s_ is not None:
            ctx.ob("ActivateBestChainStep/next-after-success(%s)" % kind, "TYPESTATE", "the connect loop proceeds to the next block only if ConnectTip succeeded for the current one",
                   "CONNECTED" in s_, where)
    b_ = out.get("break")
    stops = sorted(x[5:] for x in (b_ or ()) if x.startswith("STOP:"))
    okstop = False
    for c in stops:
        vs = local_values(st_, c)
        for w in outer:
            cond = w.get("c")
            conj = []
            stack = [cond]
            while stack:
                x = stack.pop()
                if is_expr(x) and x[0] == "b" and x[1] == "&&":
                    stack += [x[2], x[3]]
                else:
                    conj.append(x)
            if any(match(["local", c], x) for x in conj) and all(match(["bool", ANY], v) for _, v in vs) and \
                    [l for l, v in vs if match(["bool", True], v)] == [d["l"] for d in stmts(st_.body) if d.get("k") == "decl" and d.get("n") == c]:
                okstop = True
    ctx.ob("ActivateBestChainStep/stop-after-break", "TYPESTATE", "leaving the connect loop early (failed or good-enough ConnectTip) clears the continue flag that guards the "
           "enclosing batch loop, so no further block is connected in this step", b_ is not None and okstop, where, {"stop_flags": stops})
    for kind, rs in (("return", mf.exits),):
        for s_, stmt in rs:
            if stmt.get("k") != "ret":
                continue
            ok = match(["bool", False], stmt.get("v")) and "CONNECTED" not in s_ or "CONNECTED" in s_
            ctx.ob("ActivateBestChainStep/loop-return@L%s" % stmt.get("l"), "TYPESTATE", "a return from inside the connect loop after a failed ConnectTip reports failure",
                   bool(ok), "%s:%s" % (st_.file, stmt.get("l")))
    atoms = {"OK": re.compile(r"Chainstate::ConnectTip\(.*"), "INVALID": "state.IsInvalid()",
             "MUTATED": re.compile(r"state\.GetResult\(\) == BlockValidationResult::BLOCK_MUTATED")}
    ics = sites(st_, mcall_named(CS + "InvalidChainFound"), P)
    ctx.floor("ActivateBestChainStep InvalidChainFound sites", len(ics), 1)
    for s in ics:
        fm = F.mk_and([g.formula(sub) for g in _inner(s, L.get("l"))])
        fb, mp, un = F.bind_atoms(fm, atoms)
        c1, c2 = F.counterexample(fb, F.parse("!OK && INVALID && !MUTATED")), F.counterexample(F.parse("!OK && INVALID && !MUTATED"), fb)
        ctx.ob("ActivateBestChainStep/InvalidChainFound@L%s" % s.line, "MPT", "in the connect loop InvalidChainFound is called exactly when ConnectTip failed with an invalid, "
               "non-mutated state", c1 is None and c2 is None, s.where, None if c1 is None and c2 is None else {"guard": F.fshow(fm)[:500], "counterexample": c1 or c2})
    inv = sites(st_, lambda e: is_expr(e) and e[0] == "b" and e[1] == "=" and match(["param", "fInvalidFound"], e[2]) and match(["bool", True], e[3]), P)
    ctx.floor("ActivateBestChainStep fInvalidFound sites", len(inv), 1)
    for s in inv:
        fm = F.mk_and([g.formula(sub) for g in _inner(s, L.get("l"))])
        fb, mp, un = F.bind_atoms(fm, atoms)
        c1, c2 = F.counterexample(fb, F.parse("!OK && INVALID")), F.counterexample(F.parse("!OK && INVALID"), fb)
        ctx.ob("ActivateBestChainStep/fInvalidFound@L%s" % s.line, "MPT", "fInvalidFound is reported exactly when ConnectTip failed with an invalid state (the caller then "
               "re-selects the most-work chain)", c1 is None and c2 is None, s.where, None if c1 is None and c2 is None else {"guard": F.fshow(fm)[:500]})
    # ---- ActivateBestChain
    abc = ctx.used(P.fn(CS + "ActivateBestChain"))
    ss = sites(abc, mcall_named(CS + "ActivateBestChainStep"), P)
    ctx.floor("ActivateBestChain step sites", len(ss), 1)
    for s in ss:
        a = call_args(s.expr)
        ok = match(["u", "*", ["local", V("m")]], a[1])
        detail = {"arg": show(a[1])}
        if ok:
            m = a[1][2][1]
            vs = local_values(abc, m)
            bad = [(l, show(v)) for l, v in vs if not (match(["null"], v) or is_call_to(CS + "FindMostWorkChain", v))]
            ok = not bad and any(is_call_to(CS + "FindMostWorkChain", v) for _, v in vs)
            detail["values"] = [(l, show(v)) for l, v in vs]
            inval = a[3][1] if a[3][0] == "local" else None
            resets = [x for x in sites(abc, lambda e: is_expr(e) and e[0] == "b" and e[1] == "=" and match(["local", m], e[2]) and match(["null"], e[3]), P)
                      if inval and [g for g in x.guards if g.kind == "if" and g.pol and match(["local", inval], g.expr)]]
            ctx.ob("ActivateBestChain/reselect-after-invalid@L%s" % s.line, "MPT", "after a step that found an invalid block the most-work choice is discarded "
                   "(recomputed by FindMostWorkChain)", bool(resets), s.where)
        ctx.ob("ActivateBestChain/target-provenance@L%s" % s.line, "PROVENANCE", "the chain ActivateBestChain activates is the result of FindMostWorkChain()", ok, s.where, detail)
        # the retry loop around the step ends (by its condition) only when the new tip IS the most-work candidate
        if match(["u", "*", ["local", V("m")]], a[1]):
            m = a[1][2][1]
            loops = [l for l in s.loops if l.get("k") == "do"]
            ctx.floor("ActivateBestChain retry loop", len(loops), 1)
            outer = loops[0]
            cond = F.to_formula(outer.get("c"), {})
            eqs = [k for k in F.atoms(cond) if re.fullmatch(r"(\w+ == %s|%s == \w+)" % (m, m), k)]
            ok2 = len(eqs) == 1 and F.implies(F.mk_not(cond), F.atom(eqs[0]))
            ctx.ob("ActivateBestChain/loop-until-most-work@L%s" % outer.get("l"), "LOOP", "ActivateBestChain keeps selecting and stepping until the new tip equals the "
                   "most-work candidate (the loop condition is false only then); in particular a candidate wiped after an invalid block forces another round",
                   ok2, "%s:%s" % (abc.file, outer.get("l")), {"condition": F.fshow(cond)})


# ------------------------------------------------------------------------------------------------- invalidateblock
def invalidate(ctx, P):
    f = ctx.used(P.fn(CS + "InvalidateBlock"))
    sub = naming(f, P)
    ws = sites(f, _fail_write, P)
    ctx.floor("InvalidateBlock failure writes", len(ws), 2)
    disc = sites(f, mcall_named(CS + "DisconnectTip"), P)
    if len(disc) != 1:
        raise AnalysisBroken("InvalidateBlock: DisconnectTip site not unique")
    loops = [w for w in stmts(f.body) if w.get("k") == "while" and w.get("l") <= disc[0].line <= max(_lines(w))]
    W = sorted(loops, key=lambda w: w.get("l"))[0]
    body = sub_function(f, W["b"], "disconnect-loop")
    tipdecl = [d for d in stmts(W["b"]) if d.get("k") == "decl" and match(["mcall", "CChain::Tip", [".", ["this"], CS + "m_chain"]], d.get("i")) and d["l"] < disc[0].line]
    if not tipdecl:
        raise AnalysisBroken("InvalidateBlock: disconnected tip local not found")
    tip = tipdecl[-1]["n"]
    is_tip_write = lambda e: _fail_write(e) and match(["local", tip], e[2][1])
    disconnected = lambda a: is_expr(a) and a[0] == "mcall" and a[1] == CS + "DisconnectTip"
    in_chain = lambda a: is_expr(a) and a[0] == "mcall" and a[1] == "CChain::Contains" and match(["u", "*", ["param", "pindex"]], call_args(a)[0])
    must_before(ctx, body, P, [], [("tip-marked-after-disconnect", is_tip_write, ["DISCONNECTED", "INCHAIN"],
                                    "InvalidateBlock marks the former tip failed only after DisconnectTip moved the active chain off it, and only while the block to "
                                    "invalidate is still in the active chain")],
                "InvalidateBlock", branch_marks=[("DISCONNECTED", disconnected, True), ("INCHAIN", in_chain, True)])
    # descendants found through the side map: marked only if they descend from the disconnected block
    lo, hi = W.get("l"), max(_lines(W))
    for s in ws:
        tgt = s.expr[2][1]
        if lo <= s.line <= hi and not match(["local", tip], tgt):
            fm = F.mk_and([g.formula(sub) for g in s.guards if g.kind == "if"][-1:])
            key = F.key(F.expand(tgt, sub))
            t = re.escape(F.key(F.expand(["local", tip], sub)))
            k = re.escape(key)
            fb, mp, un = F.bind_atoms(fm, {"DESC": re.compile(r"(%s\.GetAncestor\(%s\.nHeight\) == %s|%s == %s\.GetAncestor\(%s\.nHeight\))" % (k, t, t, t, k, t))})
            ok = F.counterexample(fb, F.parse("DESC")) is None
            ctx.ob("InvalidateBlock/descendant-marked@L%s" % s.line, "MPT", "an out-of-chain block is marked failed by InvalidateBlock only if it descends from the "
                   "block just disconnected", ok, s.where, None if ok else {"guard": F.fshow(fm), "unbound": un})
        elif s.line > hi:
            # the "was in the active chain" flag: a bool initialised false before the disconnect loop and set true only inside it
            wasin = [d["n"] for d in stmts(f.body) if d.get("k") == "decl" and d.get("ty") == "bool" and match(["bool", False], d.get("i")) and d["l"] < lo
                     and [1 for l, v in local_values(f, d["n"]) if match(["bool", True], v)] and all(lo <= l <= hi for l, v in local_values(f, d["n"]) if match(["bool", True], v))]
            fb, mp, un = F.bind_atoms(s.formula(sub), {"WASIN": lambda k_: k_ in wasin})
            ok = match(["param", "pindex"], tgt) and F.counterexample(fb, F.parse("!WASIN")) is None
            ctx.ob("InvalidateBlock/never-in-chain-marked@L%s" % s.line, "MPT", "after the loop only the requested block itself is marked, and only if it never was in the "
                   "active chain", ok, s.where)
    # sibling agreement with ResetBlockFailureFlags: blocks (other than the new tip itself) re-offered as candidates meet the same validity criterion
    asub = alias_naming(f, P)
    for s in sites(f, lambda e: is_expr(e) and e[0] == "mcall" and e[1] == "std::set::insert" and match([".", ["this"], CS + "setBlockIndexCandidates"], e[2]), P):
        arg = call_args(s.expr)[0]
        if arg[0] == "local" and any(match(["mcall", "CChain::Tip", [".", ["this"], CS + "m_chain"]], v) for _, v in local_values(f, arg[1])):
            continue      # the new tip after a successful DisconnectTip
        k = F.key(F.expand(arg, asub))
        k = re.escape(k[1:] if k.startswith("&") else k)
        fb, mp, un = F.bind_atoms(s.formula(asub), {"VALIDTX": re.compile(r"%s\.IsValid\(BLOCK_VALID_TRANSACTIONS\)" % k), "HAVETX": re.compile(r"%s\.HaveNumChainTxs\(\)" % k)})
        ok = F.counterexample(fb, F.parse("VALIDTX && HAVETX")) is None
        ctx.ob("InvalidateBlock/candidate-criterion@L%s" % s.line, "SYMMETRY", "a block InvalidateBlock offers as a candidate (other than the new tip) satisfies "
               "IsValid(BLOCK_VALID_TRANSACTIONS) && HaveNumChainTxs(), the criterion ResetBlockFailureFlags uses", ok, s.where,
               None if ok else {"guard": F.fshow(s.formula(asub))[:500], "entry": k})
    # all successful exits pass InvalidChainFound(last disconnected / requested block)
    icf = mcall_named(CS + "InvalidChainFound")
    must_before(ctx, f, P, [("PROPAGATED", icf)], [], "InvalidateBlock", exit_checks=[
        ("success-propagates", lambda st: st.get("k") == "ret" and match(["bool", True], st.get("v")), ["PROPAGATED"],
         "InvalidateBlock reports success only after InvalidChainFound marked the descendants of the invalidated block")])
    for s in sites(f, icf, P):
        a = call_args(s.expr)[0]
        vs = local_values(f, a[1]) if a[0] == "local" else []
        ok = bool(vs) and all(match(["param", "pindex"], v) or match(["local", tip], v) for _, v in vs)
        ctx.ob("InvalidateBlock/propagation-target@L%s" % s.line, "PROVENANCE", "InvalidChainFound is applied to the requested block or the last block disconnected", ok, s.where,
               {"values": [(l, show(v)) for l, v in vs]})
    ok = all(F.counterexample(F.bind_atoms(s.formula(sub), {"INCHAIN": re.compile(r"m_chain\.Contains\(\*%s\)" % re.escape(show(call_args(s.expr)[0])))})[0], F.parse("!INCHAIN")) is None
             for s in sites(f, icf, P))
    ctx.ob("InvalidateBlock/not-in-chain-when-propagating", "MPT", "InvalidChainFound runs only if the block to mark is no longer in the active chain", ok, f.where)


def check(ctx):
    P = ctx.program(UNITS)
    comparator(ctx, P)
    find_most_work(ctx, P)
    accept_header(ctx, P)
    ownership(ctx, P)
    marking(ctx, P)
    connecting(ctx, P)
    invalidate(ctx, P)
