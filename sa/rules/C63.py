"""C63 Validation notifications describe exactly what happened, in order (DESIGN §3 C63)."""
import re

from sa.engine.api import *
from sa.engine import callgraph, tsa
from sa.engine.ctx import load_known

UNITS = ["validationinterface.cpp", "scheduler.cpp", "validation.cpp", "txmempool.cpp"]
EXPLANATION = ("(1) Every ordered event of ValidationSignals (UpdatedBlockTip, TransactionAddedToMempool, TransactionRemovedFromMempool, BlockConnected, "
               "MempoolTransactionsRemovedForBlock, BlockDisconnected, ChainStateFlushed) never reaches ValidationSignalsImpl::Iterate synchronously: the function "
               "hands exactly one closure to m_task_runner->insert unconditionally, that closure invokes one captured callable, and the single event lambda of the "
               "function calls Iterate with a lambda that forwards the function's own parameters, in order, to the same-named CValidationInterface callback; only "
               "the three documented synchronous events call Iterate outside such a closure. (2) SerialTaskRunner: whole-program container-op rule on "
               "m_callbacks_pending (insert only emplace_back/push_back, remove only pop_front, read front/empty/size), ProcessQueue takes front() then "
               "pop_front() only when !m_are_callbacks_running && !empty, sets the running flag first and executes exactly the taken callback; the flag is "
               "cleared only by the RAII destructor; clang -Wthread-safety + GUARDED_BY presence. (3) Emission sites by whole-program who-may-call and "
               "must-precede dataflow: BlockDisconnected only in DisconnectTip after m_chain.SetTip(*pindexDelete->pprev) with the block read for pindexDelete "
               "= old tip; BlockConnected only in ActivateBestChain inside LOCK(cs_main), in a complete range-for over connected_blocks which ConnectTip only "
               "appends to at the back after SetTip(*pindexNew); UpdatedBlockTip only in ActivateBestChain under cs_main; TransactionAddedToMempool only in "
               "MemPoolAccept after FinalizeSubpackage, never for test_accept, with the info of the submitted workspace; TransactionRemovedFromMempool only in "
               "CTxMemPool::removeUnchecked (the only eraser of mapTx), for exactly reason != BLOCK, before the entry is erased, with the entry's own tx.")
ASSUMPTIONS = ["the scheduler runs SerialTaskRunner::ProcessQueue closures; a std::function runs the closure it was constructed from",
               "the macro ENQUEUE_AND_LOG_EVENT init-captures `event` as the callable invoked by the queued closure (lambda captures are not part of the fact format)",
               "range-for iterates front to back"]
CLAIM = dict(
    technique="static analysis: closure structure + parameter-forwarding provenance for each signal, whole-program who-may-call / container-operation rules, must-precede "
              "and may-reach dataflow at the emission sites, lock-scope checks, clang thread-safety analysis + annotation presence",
    text="Decides for all paths that ordered notifications are only ever delivered through the single serial FIFO queue with their own arguments, that the queue cannot "
         "reorder or overlap callbacks, and that each emission site fires after the state change it reports, for the object that changed, under the lock that orders "
         "state changes. Tests check one multi-threaded scenario.",
    note="Not decided: replay-equals-history as a behavioural fact; the uses of connected_blocks inside ActivateBestChainStep (degraded function: its connect loop is dropped "
         "by the front end); the capture link local_event = event inside ENQUEUE_AND_LOG_EVENT (captures are not extracted; the macro is shared by all seven events). "
         "FINDING CANDIDATE (reported in evidence notes, not a violation unless registered in known_findings.json): in MemPoolAccept::AcceptSingleTransactionInternal "
         "LimitMempoolSize runs between FinalizeSubpackage and TransactionAddedToMempool, so a transaction evicted immediately is reported removed (SIZELIMIT) "
         "without ever being reported added.",
    ref="DESIGN.md §3 C63")

VS = "ValidationSignals::"
ORDERED = ["UpdatedBlockTip", "TransactionAddedToMempool", "TransactionRemovedFromMempool", "BlockConnected", "MempoolTransactionsRemovedForBlock",
           "BlockDisconnected", "ChainStateFlushed"]
SYNC_BY_DESIGN = {VS + "ActiveTipChange", VS + "BlockChecked", VS + "NewPoWValidBlock"}
ITER = "ValidationSignalsImpl::Iterate"
FINDING_KEY = "C63/added-before-removed/AcceptSingleTransactionInternal"


class MayFlow(MustFlow):
    def join(self, a, b):
        return a | b


def _strip(e):
    while is_expr(e) and ((e[0] in ("ctor", "cast") and len(e) == 3) or e[0] == "asserted" or e[0] == "defarg"):
        e = e[2] if e[0] in ("ctor", "cast") else e[1]
    return e


def in_lock_scope(fn, lock_pred, target_stmt):
    for st in stmts(fn.body):
        if st.get("k") != "seq":
            continue
        items = st.get("s", [])
        for i, d in enumerate(items):
            if d.get("k") == "decl" and d.get("m") in ("LOCK", "LOCK2", "WAIT_LOCK") and is_expr(d.get("i")) and lock_pred(d["i"]):
                if any(x is target_stmt for later in items[i + 1:] for x in stmts(later)):
                    return True
    return False


def single_defs(fn):
    """{local: initialiser} for locals declared once with an initialiser and never assigned afterwards."""
    out, cnt = {}, {}
    for st in stmts(fn.body):
        if st.get("k") == "decl" and st.get("n"):
            cnt[st["n"]] = cnt.get(st["n"], 0) + 1
            if is_expr(st.get("i")):
                out[st["n"]] = st["i"]
    return {k: v for k, v in out.items() if cnt[k] == 1 and len(local_values(fn, k)) == 1}


def expand_local(fn, e, only=None):
    """e with a single-definition local (pointer / shared_ptr / bool named for readability) replaced by its initialiser."""
    sd = single_defs(fn)
    e = _strip(e)
    seen = set()
    while match(["local", ANY], e) and e[1] in sd and e[1] not in seen and (only is None or only(sd[e[1]])):
        seen.add(e[1])
        e = _strip(sd[e[1]])
    return e


def _cond_guards(s):
    return [g for g in s.guards if g.kind in ("if", "sc", "case", "loop")]


def check(ctx):
    P = ctx.program(UNITS)
    cg = callgraph.load_all()
    signals(ctx, P, cg)
    serial_queue(ctx, P, cg)
    block_events(ctx, P, cg)
    mempool_events(ctx, P, cg)
    tsa.check_units(ctx, UNITS)
    tsa.guarded_by(ctx, P, "SerialTaskRunner", "m_callbacks_pending", "m_callbacks_mutex")
    tsa.guarded_by(ctx, P, "SerialTaskRunner", "m_are_callbacks_running", "m_callbacks_mutex")
    tsa.guarded_by(ctx, P, "ValidationSignalsImpl", "m_list", "m_mutex")
    tsa.fn_requires(ctx, P.fn("Chainstate::DisconnectTip"), r"requires_capability\(.*cs_main")
    tsa.fn_requires(ctx, P.fn("Chainstate::ConnectTip"), r"requires_capability\(.*cs_main")
    tsa.fn_requires(ctx, P.fn("CTxMemPool::removeUnchecked"), r"requires_capability\(.*cs\)")


# ------------------------------------------------------------------------------------------------ (1)
def signals(ctx, P, cg):
    is_iter = lambda e: e[0] in ("mcall", "vcall") and e[1] == ITER
    is_insert = lambda e: e[0] in ("mcall", "vcall") and e[1].endswith("TaskRunnerInterface::insert") and \
        match([".", [".", ["this"], VS + "m_internals"], "ValidationSignalsImpl::m_task_runner"], e[2])
    for ev in ORDERED:
        f = ctx.used(P.fn(VS + ev))
        pnames = [p["n"] for p in f.params]
        lam_locals = {st["n"]: st["i"][1] for st in stmts(f.body) if st.get("k") == "decl" and match(["lambda", ANY], st.get("i"))}
        direct = sites(f, is_iter, P, "invoked")
        called = [s for s in sites(f, lambda e: e[0] == "opcall" and len(e) > 3 and (match(["local", lambda n: n in lam_locals], e[3]) or match(["lambda", ANY], e[3])), P, "none")]
        ctx.ob("%s/not-synchronous" % ev, "CALLGRAPH", "ValidationSignals::%s neither calls Iterate nor invokes its event lambda synchronously (subscribers are only reached through "
               "the queue)" % ev, not direct and not called, f.where, {"direct_iterate": [s.line for s in direct], "direct_invocations": [s.line for s in called]})
        ins = sites(f, is_insert, P, "none")
        ok = len(ins) == 1 and not [g for g in ins[0].guards if g.kind in ("if", "sc", "case")]
        q1 = None
        if ok:
            a = _strip(call_args(ins[0].expr)[0])
            ok = match(["lambda", ANY], a)
            q1 = a[1] if ok else None
        ctx.ob("%s/enqueued-once" % ev, "ORDER", "ValidationSignals::%s hands exactly one closure to m_internals->m_task_runner->insert, unconditionally" % ev, bool(ok),
               ins[0].where if ins else f.where, {"insert_calls": len(ins)})
        if q1:
            l1 = P.fn(q1)
            inv = [s for s in sites(l1, lambda e: e[0] == "opcall" and len(e) > 3 and match(["local", ANY], e[3]), P, "none")]
            ok = len(inv) == 1 and not [g for g in inv[0].guards if g.kind in ("if", "sc", "case")] and not inv[0].loops or \
                (len(inv) == 1 and not [g for g in inv[0].guards if g.kind in ("if", "sc", "case")] and all(lp.get("k") == "do" and match(["int", 0], lp.get("c")) for lp in inv[0].loops))
            it_in_l1 = sites(l1, is_iter, P, "invoked")
            ctx.ob("%s/closure-runs-event" % ev, "PROVENANCE", "the queued closure invokes exactly one captured callable, unconditionally", bool(ok) or (not inv and len(it_in_l1) == 1), l1.where)
        ctx.ob("%s/one-event-lambda" % ev, "PROVENANCE", "ValidationSignals::%s defines exactly one event lambda" % ev, len(lam_locals) == 1, f.where, {"lambdas": sorted(lam_locals)})
        for name, q in lam_locals.items():
            el = P.fn(q)
            its = sites(el, is_iter, P, "none")
            ok = len(its) == 1 and not _cond_guards(its[0]) and match([".", ["this"], VS + "m_internals"], call_obj(its[0].expr))
            inner = _strip(call_args(its[0].expr)[0]) if len(its) == 1 else None
            fwd_ok = False
            detail = {}
            if ok and match(["lambda", ANY], inner):
                il = P.fn(inner[1])
                cb = il.params[0]["n"] if il.params else None
                calls = [s for s in sites(il, lambda e: e[0] in ("vcall", "mcall") and e[1].startswith("CValidationInterface::"), P, "none")]
                if len(calls) == 1 and not _cond_guards(calls[0]):
                    c = calls[0].expr
                    args = [_strip(a) for a in call_args(c)]
                    names = [a[1] if is_expr(a) and a[0] in ("param", "local") else show(a) for a in args]
                    detail = {"callback": c[1], "forwarded": names, "parameters": pnames}
                    fwd_ok = c[1] == "CValidationInterface::" + ev and match(["param", cb], call_obj(c)) and names == pnames
                else:
                    detail = {"callback_calls": len(calls)}
            ctx.ob("%s/forwards-own-arguments" % ev, "PROVENANCE", "the event lambda of ValidationSignals::%s calls Iterate once, unconditionally, with a lambda that calls "
                   "CValidationInterface::%s(%s) - its own parameters, in order" % (ev, ev, ", ".join(pnames)), bool(ok and fwd_ok), el.where, detail)
    # who reaches Iterate outside a queued closure
    callers = {c[0] for c in cg.call_sites(ITER)}
    outside = sorted(c for c in callers if "::lambda@" not in c)
    ctx.ob("Iterate/synchronous-callers", "WHO-MAY-CALL", "outside event closures Iterate is called only by the three events that are synchronous by design (ActiveTipChange, "
           "BlockChecked, NewPoWValidBlock)", set(outside) <= SYNC_BY_DESIGN, None, {"callers": outside})
    inside = sorted(c for c in callers if "::lambda@" in c)
    bad = [c for c in inside if c.split("::lambda@")[0] not in {VS + e for e in ORDERED}]
    ctx.ob("Iterate/closure-callers", "WHO-MAY-CALL", "every lambda calling Iterate belongs to one of the seven ordered events checked above", not bad, None, {"unexpected": bad})
    ins_callers = sorted({c[0] for c in cg.call_sites("util::TaskRunnerInterface::insert")} | {c[0] for c in cg.call_sites("SerialTaskRunner::insert")})
    ctx.extra["task_runner_insert_callers"] = ins_callers


# ------------------------------------------------------------------------------------------------ (2)
def serial_queue(ctx, P, cg):
    fc = cg.field_calls("SerialTaskRunner::m_callbacks_pending")
    ctx.floor("m_callbacks_pending member calls", len(fc), 5)
    allowed = {"emplace_back", "push_back", "pop_front", "front", "empty", "size"}
    bad = [(c[0], c[2], c[3]) for c in fc if c[2].rsplit("::", 1)[-1] not in allowed]
    ctx.ob("SerialTaskRunner/fifo-ops", "CONTAINER-OPS", "in the whole program m_callbacks_pending is only appended at the back (emplace_back/push_back), removed from the front "
           "(pop_front) and read (front/empty/size)", not bad, None, {"other_operations": bad} if bad else None)
    ops = {c[2].rsplit("::", 1)[-1] for c in fc}
    ctx.ob("SerialTaskRunner/has-both-ends", "CONTAINER-OPS", "the queue has a back-insertion and a front-removal", bool(ops & {"emplace_back", "push_back"}) and "pop_front" in ops, None)
    ws = cg.writers("SerialTaskRunner::m_are_callbacks_running")
    wq = sorted({w[0] for w in ws})
    ok = set(wq) <= {"SerialTaskRunner::ProcessQueue", "SerialTaskRunner::ProcessQueue::RAIICallbacksRunning::~RAIICallbacksRunning", "SerialTaskRunner::SerialTaskRunner"}
    ctx.ob("SerialTaskRunner/running-flag-writers", "WHO-MAY-WRITE", "m_are_callbacks_running is written only by ProcessQueue and its RAII guard's destructor", ok, None, {"writers": wq})
    pq = ctx.used(P.fn("SerialTaskRunner::ProcessQueue"))
    Q = [".", ["this"], "SerialTaskRunner::m_callbacks_pending"]
    RUN = [".", ["this"], "SerialTaskRunner::m_are_callbacks_running"]
    is_front = lambda e: e[0] == "mcall" and e[1].endswith("::front") and match(Q, e[2])
    is_pop = lambda e: e[0] == "mcall" and e[1].endswith("::pop_front") and match(Q, e[2])
    is_set = lambda e: match(["b", "=", RUN, ["bool", True]], e)
    takes = sites(pq, lambda e: match(["b", "=", ["local", ANY], ANY], e) and any(is_front(x) for x in subexprs(e[3])), P)
    ctx.ob("ProcessQueue/takes-front", "CONTAINER-OPS", "ProcessQueue takes the callback to run from m_callbacks_pending.front()", bool(takes), pq.where)
    if not takes:
        return
    cbv = {s.expr[2][1] for s in takes}
    atoms = {"RUNNING": re.compile(r"(this\.)?m_are_callbacks_running"), "EMPTY": re.compile(r"(this\.)?m_callbacks_pending\.empty\(\)")}
    check_guard(ctx, pq, P, lambda e: is_front(e) or is_pop(e) or is_set(e), "!RUNNING && !EMPTY", atoms, "ProcessQueue/serial",
                "ProcessQueue takes a callback (front/pop_front) and raises the running flag only if no callback is running and the queue is not empty", min_sites=3)
    is_take = lambda e: match(["b", "=", ["local", lambda n: n in cbv], ANY], e) and any(is_front(x) for x in subexprs(e[3]))
    mf = MustFlow(pq, P, marks=[("flag", is_set), ("taken", is_take), ("popped", is_pop)])
    mf.watch = lambda e: is_pop(e) or (e[0] == "opcall" and len(e) > 3 and match(["local", lambda n: n in cbv], e[3])) or (e[0] == "opcall" and len(e) > 3 and match(["local", ANY], e[3]))
    mf.run()
    runs = [(e, s, st) for e, s, st in mf.events if e[0] == "opcall"]
    ctx.floor("ProcessQueue callback invocations", len(runs), 1)
    for e, state, st in mf.events:
        where = "%s:%s" % (pq.file, st.get("l"))
        if is_pop(e):
            ctx.ob("ProcessQueue/pop-after-front@L%s" % st.get("l"), "ORDER", "pop_front removes the element only after it was moved out of front()", "taken" in state, where)
        else:
            ok = {"flag", "taken", "popped"} <= state and e[3][1] in cbv
            ctx.ob("ProcessQueue/runs-taken@L%s" % st.get("l"), "ORDER", "the callable executed is exactly the one taken from the front, after it was popped and the running flag was set",
                   ok, where, {"state": sorted(state), "callable": show(e[3])})
            lk = in_lock_scope(pq, lambda i: contains([".", ["this"], "SerialTaskRunner::m_callbacks_mutex"], i), st)
            ctx.ob("ProcessQueue/runs-unlocked@L%s" % st.get("l"), "ORDER", "the callback runs outside the m_callbacks_mutex critical section", not lk, where)
    ins = ctx.used(P.fn("SerialTaskRunner::insert"))
    app = sites(ins, lambda e: e[0] == "mcall" and e[1].rsplit("::", 1)[-1] in ("emplace_back", "push_back") and match(Q, e[2]), P)
    ok = len(app) == 1 and not _cond_guards(app[0]) and contains(["param", ins.params[0]["n"]], app[0].expr)
    ctx.ob("SerialTaskRunner/insert-appends", "EFFECT", "SerialTaskRunner::insert unconditionally appends the given function at the back of the queue", ok, ins.where)
    vs_impl = P.record("ValidationSignalsImpl")
    tr = [f for f in vs_impl["fields"] if f["n"] == "m_task_runner"]
    ctx.ob("ValidationSignalsImpl/one-runner", "PROVENANCE", "ValidationSignalsImpl owns a single task runner (std::unique_ptr<util::TaskRunnerInterface> m_task_runner)",
           len(tr) == 1 and "TaskRunnerInterface" in tr[0].get("ty", ""), None)


# ------------------------------------------------------------------------------------------------ (3)
def _who(ctx, cg, ev, allowed):
    callers = sorted({c[0] for c in cg.call_sites(VS + ev)})
    ok = bool(callers) and set(callers) <= set(allowed)
    ctx.ob("who-calls/%s" % ev, "WHO-MAY-CALL", "ValidationSignals::%s is emitted only from %s" % (ev, " / ".join(allowed)), ok, None, {"callers": callers})


def block_events(ctx, P, cg):
    SIG = lambda ev: (lambda e: e[0] in ("mcall", "vcall") and e[1] == VS + ev)
    CH = [".", ["this"], "Chainstate::m_chain"]
    cs_main = lambda i: contains(["global", "cs_main"], i)
    # ---- BlockDisconnected
    _who(ctx, cg, "BlockDisconnected", ["Chainstate::DisconnectTip"])
    dt = ctx.used(P.fn("Chainstate::DisconnectTip"))
    is_settip = lambda e: e[0] == "mcall" and e[1] == "CChain::SetTip" and match(CH, e[2])
    is_read = lambda e: e[0] == "mcall" and e[1] == "node::BlockManager::ReadBlock"
    is_disc = lambda e: e[0] == "mcall" and e[1] == "Chainstate::DisconnectBlock"
    mf = MustFlow(dt, P, marks=[("tip-moved", is_settip)], branch_marks=[("read-ok", is_read, True)])
    mf.watch = SIG("BlockDisconnected")
    mf.run()
    ctx.floor("DisconnectTip BlockDisconnected sites", len(mf.events), 1)
    defs = {st["n"]: st.get("i") for st in stmts(dt.body) if st.get("k") == "decl" and st.get("n")}

    def resolve(e):
        e = _strip(e)
        seen = set()
        while match(["local", ANY], e) and e[1] in defs and e[1] not in seen and is_expr(defs[e[1]]) and defs[e[1]][0] in ("u", "local"):
            seen.add(e[1])
            e = defs[e[1]]
            if e[0] == "u" and e[1] == "*":
                e = _strip(e[2])
        return e

    for e, state, st in mf.events:
        where = "%s:%s" % (dt.file, st.get("l"))
        ctx.ob("DisconnectTip/signal-after-tip-moved@L%s" % st.get("l"), "ORDER", "BlockDisconnected is emitted only after m_chain.SetTip(..) moved the tip (and the block was read)",
               {"tip-moved", "read-ok"} <= state, where, {"state": sorted(state)})
        a = call_args(e)
        pidx = _strip(a[1]) if len(a) == 2 else None
        ok = False
        detail = {}
        if match(["local", ANY], pidx) and len(local_values(dt, pidx[1])) == 1:
            init = defs.get(pidx[1])
            tips = [s for s in sites(dt, is_settip, P)]
            reads = [s for s in sites(dt, is_read, P)]
            discs = [s for s in sites(dt, is_disc, P)]
            blk = resolve(a[0])
            ok = match(["mcall", "CChain::Tip", CH], init) and len(tips) == 1 and (match(["u", "*", [".", pidx, "CBlockIndex::pprev"]], call_args(tips[0].expr)[0]) or
                                                                                 (match(["u", "*", ["local", ANY]], call_args(tips[0].expr)[0]) and
                                                                                  match([".", pidx, "CBlockIndex::pprev"], expand_local(dt, call_args(tips[0].expr)[0][2])))) and \
                len(reads) == 1 and match(["u", "*", pidx], call_args(reads[0].expr)[1]) and show(resolve(call_args(reads[0].expr)[0])) == show(blk) and \
                len(discs) == 1 and match(pidx, call_args(discs[0].expr)[1]) and show(resolve(call_args(discs[0].expr)[0])) == show(blk)
            detail = {"index": show(pidx), "index_init": show(init) if is_expr(init) else None, "block": show(blk)}
        ctx.ob("DisconnectTip/reports-the-disconnected-block@L%s" % st.get("l"), "PROVENANCE", "the (block, index) reported are the old tip m_chain.Tip(): the block read from disk for "
               "that index, the one passed to DisconnectBlock, and the new tip is its pprev", bool(ok), where, detail)
    # ---- BlockConnected / UpdatedBlockTip
    _who(ctx, cg, "BlockConnected", ["Chainstate::ActivateBestChain"])
    _who(ctx, cg, "UpdatedBlockTip", ["Chainstate::ActivateBestChain"])
    ab = ctx.used(P.fn("Chainstate::ActivateBestChain"))
    bc = sites(ab, SIG("BlockConnected"), P)
    ctx.floor("ActivateBestChain BlockConnected sites", len(bc), 1)
    for s in bc:
        lp = s.loops[-1] if s.loops else None
        rng = _strip(lp.get("range")) if lp is not None and lp.get("k") == "foreach" else None
        if is_expr(rng) and rng[0] == "call" and rng[1] == "std::move":
            rng = rng[2]
        binds = lp["var"].get("binds") if lp is not None and lp.get("k") == "foreach" else None
        a = [_strip(x) for x in call_args(s.expr)]
        ok = False
        detail = {"range": show(rng) if is_expr(rng) else None, "bindings": binds, "args": [show(x) for x in a]}
        var = lp["var"].get("n") if lp is not None and lp.get("k") == "foreach" else None
        if match(["local", ANY], rng) and len(a) == 3 and ((binds and len(binds) == 2) or var):
            d = [st for st in stmts(ab.body) if st.get("k") == "decl" and st.get("n") == rng[1]]
            steps = [c for c in sites(ab, lambda e: e[0] == "mcall" and e[1] == "Chainstate::ActivateBestChainStep", P) if any(match(rng, x) for x in call_args(c.expr))]
            ig = F.mk_and([g.formula(naming(ab, P)) for g in s.guards if g.kind in ("if", "sc", "case", "post") and g.line >= lp.get("l")])
            ig, _, _ = F.bind_atoms(ig, {"SIGNALS": re.compile(r".*m_options\.signals")})
            inner_guards = not F.implies(F.parse("SIGNALS"), ig)   # anything beyond "a signals object exists" skips blocks
            ok = len(d) == 1 and "ConnectedBlock" in d[0].get("ty", "") and bool(steps) and not has_break(lp.get("b")) and \
                not [x for x in stmts(lp.get("b")) if x.get("k") == "ret"] and not inner_guards and \
                ((bool(binds) and match(["local", binds[1]], a[1]) and match(["local", binds[0]], a[2])) or
                 (bool(var) and match([".", ["local", var], "ConnectedBlock::pblock"], a[1]) and match([".", ["local", var], "ConnectedBlock::pindex"], a[2]))) and \
                lp.get("l") > max(c.line for c in steps)
        ctx.ob("ActivateBestChain/connected-in-order@L%s" % s.line, "ORDER", "BlockConnected is emitted in a complete range-for (no break/continue/extra condition) over the "
               "connected_blocks vector filled by ActivateBestChainStep, forwarding each element's (pblock, pindex)", bool(ok), s.where, detail)
        ctx.ob("ActivateBestChain/connected-under-cs_main@L%s" % s.line, "ORDER", "BlockConnected is enqueued inside the scope of LOCK(cs_main)", in_lock_scope(ab, cs_main, s.stmt), s.where)
    fields = [f["n"] for f in P.record("ConnectedBlock")["fields"]]
    ctx.ob("ConnectedBlock/fields", "PROVENANCE", "struct ConnectedBlock is {pindex, pblock} (the structured binding order used above)", fields == ["pindex", "pblock"], None, {"fields": fields})
    for s in sites(ab, SIG("UpdatedBlockTip"), P):
        a = [_strip(x) for x in call_args(s.expr)]
        ok = False
        if len(a) == 3 and match(["local", ANY], a[0]):
            vals = [v for _, v in local_values(ab, a[0][1])]
            ok = bool(vals) and all(match(["null"], v) or match(["mcall", "CChain::Tip", CH], v) for v in vals) and any(match(["mcall", "CChain::Tip", CH], v) for v in vals)
        ctx.ob("ActivateBestChain/tip-reported@L%s" % s.line, "PROVENANCE", "UpdatedBlockTip reports m_chain.Tip() as read after the connection step", bool(ok), s.where)
        ctx.ob("ActivateBestChain/tip-under-cs_main@L%s" % s.line, "ORDER", "UpdatedBlockTip is enqueued inside the scope of LOCK(cs_main) (same critical section as the tip change)",
               in_lock_scope(ab, cs_main, s.stmt), s.where)
    # ---- ConnectTip appends after the tip moved
    ct = ctx.used(P.fn("Chainstate::ConnectTip"))
    cbp = [p["n"] for p in ct.params if "ConnectedBlock" in p["ty"]]
    if len(cbp) != 1:
        raise AnalysisBroken("ConnectTip: connected_blocks parameter not found")
    cbp = ["param", cbp[0]]
    muts = sites(ct, lambda e: e[0] == "mcall" and match(cbp, e[2]), P)
    bad = [(s.line, s.expr[1]) for s in muts if s.expr[1].rsplit("::", 1)[-1] not in ("emplace_back", "push_back", "size", "empty")]
    apps = [s for s in muts if s.expr[1].rsplit("::", 1)[-1] in ("emplace_back", "push_back")]
    ctx.ob("ConnectTip/appends-at-back", "CONTAINER-OPS", "ConnectTip only appends to connected_blocks at the back", not bad and len(apps) >= 1, ct.where, {"other": bad} if bad else None)
    pn = ct.params[1]["n"]
    is_settip_new = lambda e: e[0] == "mcall" and e[1] == "CChain::SetTip" and match(CH, e[2]) and match(["u", "*", ["param", pn]], call_args(e)[0])
    mf = MustFlow(ct, P, marks=[("tip-set", is_settip_new)])
    mf.watch = lambda e: e[0] == "mcall" and match(cbp, e[2]) and e[1].rsplit("::", 1)[-1] in ("emplace_back", "push_back")
    mf.run()
    for e, state, st in mf.events:
        a = [_strip(x) for x in call_args(e)]
        flat = [y for x in a for y in ([x] if x[0] != "init" else [_strip(z) for z in x[2:]])]
        ok = "tip-set" in state and len(flat) == 2 and match(["param", pn], flat[0]) and (match(["param", ANY], flat[1]) or match(["local", ANY], flat[1]))
        ctx.ob("ConnectTip/append-after-tip@L%s" % st.get("l"), "ORDER", "a block is queued for BlockConnected only after m_chain.SetTip(*pindexNew), together with that same index",
               ok, "%s:%s" % (ct.file, st.get("l")), {"args": [show(x) for x in a]})


def mempool_events(ctx, P, cg):
    SIG = lambda ev: (lambda e: e[0] in ("mcall", "vcall") and e[1] == VS + ev)
    _who(ctx, cg, "TransactionAddedToMempool", ["MemPoolAccept::AcceptSingleTransactionInternal", "MemPoolAccept::SubmitPackage"])
    _who(ctx, cg, "TransactionRemovedFromMempool", ["CTxMemPool::removeUnchecked"])
    is_fin = lambda e: e[0] == "mcall" and e[1] == "MemPoolAccept::FinalizeSubpackage"
    removers = None
    for q in ("MemPoolAccept::AcceptSingleTransactionInternal", "MemPoolAccept::SubmitPackage"):
        f = ctx.used(P.fn(q))
        mf = MustFlow(f, P, marks=[("finalized", is_fin)])
        mf.watch = SIG("TransactionAddedToMempool")
        mf.run()
        ctx.floor("%s TransactionAddedToMempool sites" % q, len(mf.events), 1)
        for e, state, st in mf.events:
            ctx.ob("%s/added-after-finalize@L%s" % (q.rsplit("::", 1)[-1], st.get("l")), "ORDER", "TransactionAddedToMempool is emitted only after FinalizeSubpackage put the "
                   "transaction(s) into the mempool", "finalized" in state, "%s:%s" % (f.file, st.get("l")))
        # completeness: once FinalizeSubpackage put the transaction(s) into the pool, a successful return must have announced them
        # (unless there is no signals object): a committed-but-unannounced transaction would later be reported "removed" only
        from sa.engine.paths import MayFlow as EngineMayFlow2
        pend = EngineMayFlow2(f, P, gens=[("unannounced", is_fin)], kills=[("unannounced", SIG("TransactionAddedToMempool"))],
                              branch_kills=[("unannounced", lambda a: F.atoms(F.to_formula(a)) == ["m_pool.m_opts.signals"], False)])
        pend.run()
        nsucc = 0
        for st_, stm in pend.exits:
            v = stm.get("v")
            if stm.get("k") == "ret" and is_expr(v) and any((callee(x) or "").endswith("MempoolAcceptResult::Success") for x in subexprs(v)):
                nsucc += 1
                ctx.ob("%s/success-implies-announced@L%s" % (q.rsplit("::", 1)[-1], stm.get("l")), "MPT", "a Success result after FinalizeSubpackage is returned only once "
                       "TransactionAddedToMempool was emitted for the committed transaction (or no signals object exists)", "unannounced" not in st_, "%s:%s" % (f.file, stm.get("l")))
        subst = naming(f, P)
        for s in sites(f, SIG("TransactionAddedToMempool"), P):
            g, _, _ = F.bind_atoms(s.formula(subst), {"TEST": "args.m_test_accept", "PKG": "args.m_package_submission", "BYPASS": "args.m_bypass_limits",
                                                      "EXISTS": re.compile(r"m_pool\.exists\(ws\.m_hash\)")})
            if q.endswith("AcceptSingleTransactionInternal"):
                # (the reference tree additionally requires that the transaction survived LimitMempoolSize; the property only needs
                #  that it really was added - FinalizeSubpackage above - and that this is not a test-accept, so that is all we demand)
                # the notification must not come after a size-limit eviction of that very transaction (that would be "removed, then
                # added"): either no LimitMempoolSize can have run before this site, or the site is guarded by the still-exists test
                from sa.engine.paths import MayFlow as EngineMayFlow
                lim = EngineMayFlow(f, P, gens=[("limited", lambda e: callee(e) in ("LimitMempoolSize", "CTxMemPool::TrimToSize", "CTxMemPool::Expire"))])
                lim.watch = SIG("TransactionAddedToMempool")
                lim.run()
                limited_before = any("limited" in st_ for _, st_, stm in lim.events if stm.get("l") == s.line)
                cex2 = F.counterexample(g, F.parse("PKG || BYPASS || EXISTS")) if limited_before else None
                ctx.ob("AcceptSingleTransactionInternal/added-not-after-eviction@L%s" % s.line, "ORDER", "TransactionAddedToMempool is not emitted for a transaction that a preceding "
                       "LimitMempoolSize may already have evicted (it is sent before the limit, or only if the transaction still exists)", cex2 is None, s.where,
                       None if cex2 is None else {"counterexample": cex2})
                cex = F.counterexample(g, F.parse("!TEST"))
                ctx.ob("AcceptSingleTransactionInternal/added-only-if-real@L%s" % s.line, "MPT", "a single transaction is reported added only if this was not a test-accept "
                       "(and, by the ORDER obligation, after it entered the mempool)", cex is None, s.where, None if cex is None else {"counterexample": cex})
            # info is built from the workspace transaction
            a = [_strip(x) for x in call_args(s.expr)]
            ok = False
            if len(a) == 2 and match(["local", ANY], a[0]):
                d = [st for st in stmts(f.body) if st.get("k") == "decl" and st.get("n") == a[0][1]]
                if len(d) == 1 and is_expr(d[0].get("i")):
                    i0 = d[0]["i"]
                    first = _strip(i0[2]) if i0[0] in ("ctor", "init") and len(i0) > 2 else None
                    wsn = None
                    if match([".", ANY, "MemPoolAccept::Workspace::m_ptx"], first):
                        wsn = first[1]
                    lp = s.loops[-1] if s.loops else None
                    if q.endswith("SubmitPackage"):
                        ok = wsn is not None and lp is not None and lp.get("k") == "foreach" and match(["local", lp["var"].get("n")], wsn) and match(["param", "workspaces"], lp.get("range")) \
                            and not has_break(lp.get("b"))
                    else:
                        ok = wsn is not None and match(["local", ANY], wsn) and not s.loops
            ctx.ob("%s/added-info@L%s" % (q.rsplit("::", 1)[-1], s.line), "PROVENANCE", "the NewMempoolTransactionInfo reported is built from the workspace transaction (ws.m_ptx) that was "
                   "just submitted%s" % (" - one per element of the complete loop over workspaces" if q.endswith("SubmitPackage") else ""), bool(ok), s.where)
            ok = len(a) == 2 and match(["mcall", "CTxMemPool::GetAndIncrementSequence"], a[1])
            ctx.ob("%s/added-sequence@L%s" % (q.rsplit("::", 1)[-1], s.line), "PROVENANCE", "the mempool sequence reported is a fresh GetAndIncrementSequence()", bool(ok), s.where)
        # finding candidate: eviction between finalize and the add notification
        if q.endswith("AcceptSingleTransactionInternal"):
            removers = {c for c in cg.callees(q) if "CTxMemPool::removeUnchecked" in cg.reach({c})}

            class EvictFlow(MayFlow):
                def on_expr(self, state, e, stmt):
                    c = callee(e)
                    if c in removers and c != "MemPoolAccept::FinalizeSubpackage" and "finalized" in state:
                        state = state | {"evicted:%s@L%s" % (c, stmt.get("l"))}
                    return super().on_expr(state, e, stmt)
            ef = EvictFlow(f, P, marks=[("finalized", is_fin)])
            ef.watch = SIG("TransactionAddedToMempool")
            ef.run()
            ev = sorted({x for _, st_, _ in ef.events for x in st_ if x.startswith("evicted:")})
            rets = sorted({(st.get("l")) for state, st in ef.exits if any(x.startswith("evicted:") for x in state)})
            if ev:
                text = ("between FinalizeSubpackage and TransactionAddedToMempool %s may remove mempool entries (TransactionRemovedFromMempool is enqueued from "
                        "removeUnchecked); if the just-added transaction is evicted, the function returns at the `!m_pool.exists` check without ever reporting it added: "
                        "subscribers see a removal of a transaction that was never reported added" % ", ".join(x.split(":", 1)[1] for x in ev))
                if FINDING_KEY in load_known(ctx.prop):
                    ctx.ob("AcceptSingleTransactionInternal/added-before-removed", "ORDER", "no mempool removal can be notified between a transaction entering the mempool and its "
                           "TransactionAddedToMempool notification", False, f.where, {"path": ev}, key=FINDING_KEY)
                else:
                    ctx.note("FINDING CANDIDATE (key %s, not registered in known_findings.json, therefore not reported as a violation): %s" % (FINDING_KEY, text))
                    ctx.extra["finding_candidates"] = [{"key": FINDING_KEY, "where": f.where, "what": text, "calls": ev}]
    # ---- removal
    ru = ctx.used(P.fn("CTxMemPool::removeUnchecked"))
    itp = ["param", ru.params[0]["n"]]
    rsn = ru.params[1]["n"]
    erasers = cg.field_calls("CTxMemPool::mapTx")
    er = sorted({c[0] for c in erasers if c[2].rsplit("::", 1)[-1] in ("erase", "clear", "extract")})
    ctx.ob("mapTx/erasers", "WHO-MAY-CALL", "entries leave CTxMemPool::mapTx only in removeUnchecked", er == ["CTxMemPool::removeUnchecked"], None, {"erasers": er})
    is_erase = lambda e: e[0] == "mcall" and e[1].rsplit("::", 1)[-1] == "erase" and match([".", ["this"], "CTxMemPool::mapTx"], e[2])
    may = MayFlow(ru, P, marks=[("erased", is_erase)])
    may.watch = SIG("TransactionRemovedFromMempool")
    may.run()
    ctx.floor("removeUnchecked TransactionRemovedFromMempool sites", len(may.events), 1)
    for e, state, st in may.events:
        ctx.ob("removeUnchecked/signal-before-erase@L%s" % st.get("l"), "ORDER", "TransactionRemovedFromMempool is emitted before the entry is erased from mapTx (the iterator is still valid)",
               "erased" not in state, "%s:%s" % (ru.file, st.get("l")))
        a = [_strip(x) for x in call_args(e)]
        ok = len(a) == 3 and match(["mcall", "CTxMemPoolEntry::GetSharedTx", itp], expand_local(ru, a[0])) and match(["param", rsn], a[1])
        seq_ok = False
        if ok and match(["local", ANY], a[2]):
            vals = [v for _, v in local_values(ru, a[2][1])]
            seq_ok = len(vals) == 1 and match(["mcall", "CTxMemPool::GetAndIncrementSequence"], vals[0])
        ctx.ob("removeUnchecked/reports-the-entry@L%s" % st.get("l"), "PROVENANCE", "the notification carries the removed entry's own transaction, the caller's reason and a fresh "
               "mempool sequence number", bool(ok and seq_ok), "%s:%s" % (ru.file, st.get("l")), {"args": [show(x) for x in a]})
    for s in sites(ru, SIG("TransactionRemovedFromMempool"), P):
        g = F.mk_and([x.formula(naming(ru, P)) for x in s.guards if x.kind in ("if", "sc")])
        bf, _, un = F.bind_atoms(g, {"BLOCK": "%s == MemPoolRemovalReason::BLOCK" % rsn, "SIGNALS": re.compile(r"(this\.)?m_opts\.signals")})
        ok = F.equivalent(bf, F.parse("!BLOCK && SIGNALS"))
        ctx.ob("removeUnchecked/every-non-block-removal@L%s" % s.line, "TABLE", "a removal is notified exactly when its reason is not BLOCK (block removals are reported through "
               "MempoolTransactionsRemovedForBlock) and a signals object exists", ok, s.where, None if ok else {"guard": F.fshow(g), "unbound": un})
    may2 = MayFlow(ru, P, marks=[("erased", is_erase)])
    may2.run()
    n_er = len(sites(ru, is_erase, P))
    ctx.ob("removeUnchecked/erases-entry", "EFFECT", "removeUnchecked erases the entry from mapTx", n_er >= 1, ru.where)
