"""C44 Wallet balances match the chain and mempool - structural clauses only (originally listed N/A; partial claim).

Decided is the decision structure the balances are computed with: which TXOs GetBalance counts and into which category,
when a transaction is trusted, when a coin counts as spent (IsSpent / HowSpent: conflicted and abandoned spenders do not
spend), and how the conflicted state is set and propagated.  Equality with a recomputation over histories is not decided."""
import re

from sa.engine.api import *
from sa.engine import callgraph
from sa.rules._helpers_J import (bound_by, safe_naming, own_guard, site_formula, site_formula_sw, inline_preds, origins, unwrap, in_loop, assign_lhs, assign_rhs,
                                 counterexample, implies, equivalent)

UNITS = ["wallet/receive.cpp", "wallet/wallet.cpp"]
EXPLANATION = ("Taken whole (balances equal a recomputation from the active chain and mempool after any history) the property is dynamic; decided is the shape of the "
               "computation. (1) GetBalance: an amount is added to a balance only for a TXO whose HowSpent is UNSPENT, or NONMEMPOOL when include_nonmempool (the switch "
               "with fall-through is analysed exactly); the amount is that TXO's own nValue, added once through one pointer that is null at the start of each TXO; the "
               "pointer is aimed at m_mine_immature only for a confirmed immature coinbase, at m_mine_trusted only if CachedTxIsTrusted, depth >= min_depth and not a "
               "confirmed immature coinbase, at m_mine_untrusted_pending only if not trusted, in the mempool and not a confirmed immature coinbase; only GetBalance's "
               "own sites write the Balance it returns and the fields start at 0. (2) CachedTxIsTrusted returns true only if already in trusted_parents, or confirmed, "
               "or (m_spend_zero_conf_change, from me, in the mempool and the loop over all inputs completed), returns false never for a confirmed transaction, and an "
               "iteration of the input loop survives only if the parent is in the wallet, the spent output is mine and the parent is trusted (memoised or recursively); "
               "the two-argument overload forwards. (3) IsSpent returns true exactly for a spender recorded in mapTxSpends for the queried outpoint that is in "
               "mapWallet and is not abandoned, not block-conflicted and not mempool-conflicted; HowSpent starts at UNSPENT, leaves UNSPENT only for a spender that is "
               "confirmed, in the mempool or (not abandoned, not block-conflicted, not mempool-conflicted), reports CONFIRMED / MEMPOOL for every such spender and never "
               "downgrades MEMPOOL to NONMEMPOOL; m_state is written only by the known functions; MarkConflicted writes TxStateBlockConflicted{hashBlock, "
               "conflicting_height} only where the conflict is deeper than the current depth and hands that update with its hashTx to RecursiveUpdateTxState, which "
               "applies the update to the start transaction and, after a change, queues every spender of every output; AddToWalletIfInvolvingMe calls "
               "MarkConflicted(conf block hash, height, spender) for every other recorded spender of every input of a confirmed transaction; blockDisconnected turns "
               "block-conflicted states back to inactive only at or above the disconnected height; GetTxDepthInMainChain is negative-shaped exactly in the "
               "block-conflicted branch and 0 outside both state branches.")
ASSUMPTIONS = ["CWalletTx::isConfirmed / InMempool / isBlockConflicted / isAbandoned test which alternative the state variant holds (transaction.h/.cpp), so at most one of them is true "
               "for one transaction; the explicit template argument of state<T>() is not in the extracted facts, so these one-line definitions cannot be pinned by a twin",
               "mapTxSpends records every wallet transaction spending an outpoint (AddToSpends), wallet.GetTXOs() holds the wallet's own outputs",
               "GetTxDepthInMainChain arithmetic (heights) is numeric and not decided beyond its sign shape"]
CLAIM = dict(
    technique="static analysis: guard implication on every balance accumulation (exact switch fall-through conditions), category table by truth table, exit ladders of "
              "CachedTxIsTrusted / IsSpent / HowSpent, who-may-write of the transaction state, argument provenance and loop shape of the conflict propagation",
    text="PARTIAL. Decided for all paths, of 'the wallet's trusted, untrusted-pending and immature balances and its list of spendable coins ...; transactions conflicted "
         "by the chain are not counted and coins spent by them are restored': GetBalance counts a TXO at most once, with its own value, only if it is unspent "
         "(HowSpent), and puts it into the immature / trusted / untrusted-pending category only under that category's defining condition (so a transaction that is "
         "neither confirmed, in the mempool nor trusted is in no category); CachedTxIsTrusted has the trust ladder of the statement; IsSpent and HowSpent count a "
         "spender only if it is not abandoned, not block-conflicted and not mempool-conflicted, and do count every other one; the conflicted state is written by "
         "MarkConflicted for every competing spender of a confirmed transaction and propagated to all descendants.",
    note="NOT decided (dynamic / numeric): equality of the balances and of the coin list with a recomputation after arbitrary histories of blocks, reorgs and mempool "
         "changes; amounts and heights as numbers (depth values, maturity arithmetic, min_depth comparison); that mapTxSpends / the TXO set are complete; the m_mine_used "
         "(avoid-reuse) and m_mine_nonmempool buckets are not part of the statement - only that they are reached under the same not-spent condition; the definitions of "
         "the four state predicates cannot be pinned (template arguments of member calls are not extracted). The list of spendable coins itself is C41's AvailableCoins "
         "ladder. This is a weak, structural claim.",
    ref="DESIGN.md §3 C44 (listed N/A at design time; structural clauses claimed partially, like C54/C56)")

ST = "wallet::CWallet::SpendType::"
STATE = "wallet::CWalletTx::m_state"
_PRED = re.compile(r"^(.+)\.(isConfirmed|InMempool|isBlockConflicted|isAbandoned)\(\)$")


def K(e, sub=None):
    return F.key(F.expand(e, sub) if sub else e)


def meth(e):
    return e[1].rsplit("::", 1)[-1] if is_expr(e) and e[0] in ("mcall", "vcall") and isinstance(e[1], str) else None


def with_state_axioms(fm):
    """fm && (at most one of isConfirmed / InMempool / isBlockConflicted / isAbandoned per transaction object): see ASSUMPTIONS."""
    objs = set()
    for k in F.atoms(fm):
        m = _PRED.match(k)
        if m:
            objs.add(m.group(1))
    ax = []
    for o in sorted(objs):
        # all four predicates of every transaction object mentioned (the conclusion may name one the premise does not)
        ks = ["%s.%s()" % (o, p) for p in ("InMempool", "isAbandoned", "isBlockConflicted", "isConfirmed")]
        for i in range(len(ks)):
            for j in range(i + 1, len(ks)):
                ax.append(F.mk_not(F.mk_and([F.atom(ks[i]), F.atom(ks[j])])))
    return F.mk_and([fm] + ax) if ax else fm


def check(ctx):
    PR = ctx.program(["wallet/receive.cpp"])
    PW = ctx.program(["wallet/wallet.cpp"])
    get_balance(ctx, PR)
    trusted(ctx, PR)
    is_spent(ctx, PW)
    how_spent(ctx, PW)
    state_writers(ctx)
    mark_conflicted(ctx, PW)
    recursive_update(ctx, PW)
    conflict_detection(ctx, PW)
    block_disconnected(ctx, PW)
    block_connected(ctx, PW)
    depth_shape(ctx, PW)


# ================================================================================================ (1) GetBalance
CATS = {"m_mine_immature": ("IMM && CONF", "only for a confirmed immature coinbase"),
        "m_mine_trusted": ("TRUSTED && !DEPTHLOW && !(IMM && CONF)", "only if CachedTxIsTrusted, depth >= min_depth and not a confirmed immature coinbase"),
        "m_mine_untrusted_pending": ("!TRUSTED && INMP && !(IMM && CONF)", "only if not trusted, in the mempool and not a confirmed immature coinbase")}


def get_balance(ctx, P):
    f = ctx.used(P.fn("wallet::GetBalance"))
    if len(f.params) != 4:
        raise AnalysisBroken("GetBalance: expected (wallet, min_depth, avoid_reuse, include_nonmempool)")
    W, MIN, _, INC = (p["n"] for p in f.params)
    sub = safe_naming(f, P)
    loops = [st for st in stmts(f.body) if st.get("k") == "foreach" and K(st.get("range"), sub) == "%s.GetTXOs()" % W]
    if len(loops) != 1:
        raise AnalysisBroken("GetBalance: expected exactly one range-for over %s.GetTXOs(), found %d" % (W, len(loops)))
    loop = loops[0]
    EL = "each(%s.GetTXOs())" % W
    OP, TXO = EL + ".first", EL + ".second"
    WTX = TXO + ".GetWalletTx()"
    HS = "%s.HowSpent(%s)" % (W, OP)
    atoms = {"UNSPENT": "%s == %sUNSPENT" % (HS, ST), "NONMEMPOOL": "%s == %sNONMEMPOOL" % (HS, ST), "INCL": INC,
             "IMM": "%s.IsTxImmatureCoinBase(%s)" % (W, WTX), "CONF": WTX + ".isConfirmed()", "INMP": WTX + ".InMempool()",
             "TRUSTED": re.compile(r"wallet::CachedTxIsTrusted\(%s, %s(, \w+)?\)" % (re.escape(W), re.escape(WTX))),
             "DEPTHLOW": "%s.GetTxDepthInMainChain(%s) < %s" % (W, WTX, MIN)}
    rets = [st["n"] for st in stmts(f.body) if st.get("k") == "decl" and st.get("ty") in ("wallet::Balance", "Balance") and st.get("n")]
    if len(rets) != 1:
        raise AnalysisBroken("GetBalance: expected one local Balance, found %s" % rets)
    RET = ["local", rets[0]]

    def field_of(x):
        """Balance field named by an lvalue / address expression rooted at the returned object"""
        x = unwrap(x) if not (is_expr(x) and x[0] == "u" and x[1] == "*") else x
        if is_expr(x) and x[0] == "." and x[1] == RET and str(x[2]).startswith("wallet::Balance::"):
            return x[2].rsplit("::", 1)[-1]
        return None

    # every write that can reach a field of the returned Balance: direct, or through a local pointer aimed at a field
    ptrs = {}
    for s in sites(f, lambda e: assign_lhs(e) is not None and is_expr(assign_lhs(e)) and assign_lhs(e)[0] == "local", P):
        rhs = assign_rhs(s.expr)
        if is_expr(rhs) and rhs[0] == "u" and rhs[1] == "&" and field_of(rhs[2]):
            ptrs.setdefault(assign_lhs(s.expr)[1], []).append((s, field_of(rhs[2])))
    for st in stmts(f.body):
        if st.get("k") == "decl" and st.get("n") and is_expr(st.get("i")) and st["i"][0] == "u" and st["i"][1] == "&" and field_of(st["i"][2]):
            raise AnalysisBroken("GetBalance: pointer %s initialised to a Balance field at its declaration (idiom not handled)" % st["n"])
    accs = []      # (site, [(field, aiming site or None)])
    for s in sites(f, lambda e: assign_lhs(e) is not None or (e[0] == "u" and e[1] in ("++", "--", "post++", "post--")), P):
        lhs = assign_lhs(s.expr) if assign_lhs(s.expr) is not None else s.expr[2]
        if field_of(lhs):
            accs.append((s, [(field_of(lhs), None)]))
        elif is_expr(lhs) and lhs[0] == "u" and lhs[1] == "*" and is_expr(lhs[2]) and lhs[2][0] == "local" and lhs[2][1] in ptrs:
            accs.append((s, [(fld, a) for a, fld in ptrs[lhs[2][1]]]))
    ctx.floor("GetBalance accumulation sites", len(accs), 1)
    amount = TXO + ".GetTxOut().nValue"
    cat_sites = []
    for s, targets in accs:
        fm = site_formula_sw(s, f, P, sub, keep=bound_by(atoms))
        fb, mapping, unmatched = F.bind_atoms(fm, atoms)
        cex = counterexample(fb, F.parse("UNSPENT || (NONMEMPOOL && INCL)")) if in_loop(s, loop) else {"site": "outside the loop over the wallet's TXOs"}
        ctx.ob("GetBalance/unspent-only@L%s" % s.line, "MPT", "an amount is added to a balance (line %s) only for a TXO whose HowSpent(outpoint) is UNSPENT, or NONMEMPOOL when "
               "include_nonmempool: outputs spent by a confirmed or mempool transaction are not counted" % s.line, cex is None, s.where,
               None if cex is None else {"path_condition": F.fshow(fm)[:1200], "unbound_code_atoms": unmatched[:12], "counterexample": cex})
        fields = sorted({fld for fld, _ in targets})
        if any(fld in CATS for fld in fields):
            cat_sites.append((s, fm))
            op = s.expr[1] if s.expr[0] in ("b", "opcall") else s.expr[1]
            rhs = assign_rhs(s.expr)
            okv = op == "+=" and is_expr(rhs) and K(rhs, sub) == amount
            ctx.ob("GetBalance/amount-is-the-txo-value@L%s" % s.line, "VALUE-SHAPE", "what is added to a balance category is the TXO's own value (`+= txo.GetTxOut().nValue`)", okv, s.where,
                   {"op": op, "value": K(rhs, sub) if is_expr(rhs) else None})
            ctx.ob("GetBalance/once-per-txo@L%s" % s.line, "LOOP", "the accumulation is executed at most once per TXO (directly in the loop over the TXOs, in no inner loop)",
                   len(s.loops) == 1 and s.loops[0] is loop, s.where)
        for fld, a in targets:
            if fld not in CATS:
                continue
            spec, text = CATS[fld]
            cs = a if a is not None else s
            cfm = site_formula_sw(cs, f, P, sub, keep=bound_by(atoms))
            cb, cmap, cun = F.bind_atoms(cfm, atoms)
            cex = counterexample(cb, F.parse(spec)) if in_loop(cs, loop) else {"site": "outside the loop over the wallet's TXOs"}
            ctx.ob("GetBalance/category:%s@L%s" % (fld, cs.line), "LADDER", "a TXO is put into %s %s" % (fld, text), cex is None, cs.where,
                   None if cex is None else {"path_condition": F.fshow(cfm)[:1200], "unbound_code_atoms": cun[:12], "counterexample": cex})
    ctx.ob("GetBalance/counts-the-three-categories", "WHO-MAY-WRITE", "GetBalance fills m_mine_trusted, m_mine_untrusted_pending and m_mine_immature",
           {fld for _, ts in accs for fld, _ in ts} >= set(CATS), f.where)
    # at most one category per TXO
    bad = []
    for i in range(len(cat_sites)):
        for j in range(i + 1, len(cat_sites)):
            if counterexample(F.mk_and([cat_sites[i][1], cat_sites[j][1]]), F.Fa) is not None:
                bad.append((cat_sites[i][0].line, cat_sites[j][0].line))
    ctx.ob("GetBalance/one-category-per-txo", "LADDER", "no TXO can be added at two category accumulation sites (the sites' conditions exclude each other; a single site "
           "through one pointer adds to one category)", not bad, f.where, bad or None)
    for name, aims in sorted(ptrs.items()):
        ds = [st for st in stmts(loop.get("b")) if st.get("k") == "decl" and st.get("n") == name]
        okn = len(ds) == 1 and is_expr(ds[0].get("i")) and ds[0]["i"][0] == "null" and all(in_loop(a, loop) for a, _ in aims)
        ctx.ob("GetBalance/pointer-fresh-per-txo/%s" % name, "TYPESTATE", "the category pointer `%s` is declared null inside the loop body, so a TXO that matches no category adds "
               "to none (never to the previous TXO's category)" % name, okn, f.where)
    # nothing else writes the returned object; it starts at zero and is what is returned
    others = []
    for s in sites(f, lambda e: e[0] in ("mcall", "call", "vcall", "opcall") and any(a == RET or a == ["u", "&", RET] for a in (call_args(e) if e[0] != "opcall" else e[3:])), P):
        others.append((s.line, show(s.expr)[:80]))
    rec = P.record("wallet::Balance")
    zero = bool(rec) and all(match(["int", 0], x.get("i")) for x in rec["fields"] if x["n"] in CATS)
    ex = [e for e in exits(f, P, sub) if e.kind == "ret"]
    okr = bool(ex) and all(is_expr(e.value) and unwrap(e.value) == RET for e in ex)
    d = [st for st in stmts(f.body) if st.get("k") == "decl" and st.get("n") == RET[1]]
    okd = len(d) == 1 and (not is_expr(d[0].get("i")) or (d[0]["i"][0] in ("ctor", "init") and not call_args(d[0]["i"])))
    ctx.ob("GetBalance/result", "PROVENANCE", "GetBalance returns the Balance it accumulated, default-constructed (category fields start at 0) and passed to no other function",
           zero and okr and okd and not others, f.where, {"zero_defaults": zero, "returns_it": okr, "default_constructed": okd, "passed_to": others})


# ================================================================================================ (2) CachedTxIsTrusted
def trusted(ctx, P):
    fs = P.fns("wallet::CachedTxIsTrusted")
    f3 = [f for f in fs if len(f.params) == 3]
    f2 = [f for f in fs if len(f.params) == 2]
    if len(f3) != 1 or len(f2) != 1:
        raise AnalysisBroken("CachedTxIsTrusted: expected the (wallet, wtx, trusted_parents) and (wallet, wtx) overloads")
    f = ctx.used(f3[0])
    W, X, TPS = (p["n"] for p in f.params)
    sub = safe_naming(f, P)
    vin = "each(%s.GetTx().vin)" % X
    loops = [st for st in stmts(f.body) if st.get("k") in ("foreach", "for") and loop_range_key(st, sub) == vin]
    if len(loops) != 1:
        raise AnalysisBroken("CachedTxIsTrusted: expected one loop over %s.GetTx()->vin" % X)
    loop = loops[0]
    PARENT = "%s.GetWalletTx(%s.prevout.hash)" % (W, vin)
    atoms = {"TP": "%s.contains(%s.GetHash())" % (TPS, X), "CONF": X + ".isConfirmed()", "BC": X + ".isBlockConflicted()",
             "SZC": "%s.m_spend_zero_conf_change" % W, "FROMME": "wallet::CachedTxIsFromMe(%s, %s)" % (W, X), "INMP": X + ".InMempool()",
             "DONE": "done(loop@%s)" % loop.get("l"),
             "PARENT": PARENT, "MINE": "%s.IsMine(%s.GetTx().vout[%s.prevout.n])" % (W, PARENT, vin),
             "TPP": "%s.contains(%s.GetHash())" % (TPS, PARENT), "REC": "wallet::CachedTxIsTrusted(%s, *%s, %s)" % (W, PARENT, TPS)}
    ex = exits(f, P, sub)
    if any(e.kind != "ret" or not (is_true_ret(e) or is_false_ret(e)) for e in ex):
        raise AnalysisBroken("CachedTxIsTrusted: an exit is not `return true/false` (idiom changed)")
    n_t = n_f = 0
    for e in ex:
        fm = with_state_axioms(inline_preds(e.formula, f, P, sub, keep=bound_by(atoms)))
        fb, mapping, unmatched = F.bind_atoms(fm, atoms)
        if is_true_ret(e):
            n_t += 1
            cex = counterexample(fb, F.parse("TP || CONF || (SZC && FROMME && INMP && DONE)"))
            ctx.ob("CachedTxIsTrusted/trusted-only-if@L%s" % e.line, "LADDER", "CachedTxIsTrusted returns true only if the transaction is already in trusted_parents, or confirmed, or "
                   "(m_spend_zero_conf_change && from me && in the mempool && the loop over all its inputs completed)", cex is None, "%s:%s" % (f.file, e.line),
                   None if cex is None else {"path_condition": F.fshow(fm)[:1000], "unbound_code_atoms": unmatched[:12], "counterexample": cex})
        else:
            n_f += 1
            cex = counterexample(fb, F.parse("!CONF"))
            ctx.ob("CachedTxIsTrusted/confirmed-is-trusted@L%s" % e.line, "LADDER", "CachedTxIsTrusted never returns false for a confirmed transaction (depth >= 1 is trusted)",
                   cex is None, "%s:%s" % (f.file, e.line), None if cex is None else {"path_condition": F.fshow(fm)[:1000], "counterexample": cex})
    ctx.floor("CachedTxIsTrusted true exits", n_t, 1)
    ctx.floor("CachedTxIsTrusted false exits", n_f, 1)
    # per input: an iteration is survived (falls off the end of the body or `continue`s) only with a trusted, owned parent
    from sa.engine.paths import post_formula
    body = sub_function(f, loop["b"], "inputs")
    surv = [post_formula(body.body, sub)]
    for s in stmt_sites(body, lambda st: st.get("k") == "continue", P):
        if not s.loops:
            surv.append(s.formula(sub))
    sfm = inline_preds(F.mk_or(surv), f, P, sub, keep=bound_by(atoms))
    sb, smap, sun = F.bind_atoms(sfm, atoms)
    cex = counterexample(sb, F.parse("PARENT && MINE && (TPP || REC)"))
    ctx.ob("CachedTxIsTrusted/every-input", "LADDER", "an iteration of the loop over the inputs is survived only if the parent transaction is in the wallet, the spent output is mine "
           "and the parent is trusted (already in trusted_parents, or recursively CachedTxIsTrusted)", cex is None and not has_break(loop["b"]), "%s:%s" % (f.file, loop.get("l")),
           None if cex is None else {"survival_condition": F.fshow(sfm)[:1000], "unbound_code_atoms": sun[:12], "counterexample": cex})
    # memo: only trusted parents enter trusted_parents
    ins = sites(f, lambda e: e[0] == "mcall" and e[2] == ["param", TPS] and meth(e) in ("insert", "emplace"), P)
    for s in ins:
        fb, _, _ = F.bind_atoms(site_formula(s, f, P, sub, keep=bound_by(atoms)), atoms)
        okm = K(call_args(s.expr)[0], sub) == PARENT + ".GetHash()" and implies(fb, F.parse("REC || TPP"))
        ctx.ob("CachedTxIsTrusted/memo-only-trusted@L%s" % s.line, "MPT", "a txid enters trusted_parents only after CachedTxIsTrusted returned true for that transaction", okm, s.where)
    # the convenience overload forwards
    g = ctx.used(f2[0])
    gex = [e for e in exits(g, P) if e.kind == "ret"]
    okf = len(gex) == 1 and is_expr(gex[0].value) and is_call_to("wallet::CachedTxIsTrusted", gex[0].value) and \
        call_args(gex[0].value)[:2] == [["param", g.params[0]["n"]], ["param", g.params[1]["n"]]]
    ctx.ob("CachedTxIsTrusted/overload-forwards", "TWIN", "CachedTxIsTrusted(wallet, wtx) is CachedTxIsTrusted(wallet, wtx, <fresh set>)", okf, g.where)


# ================================================================================================ (3) spentness
_SPRED = re.compile(r"^(.+)\.(isAbandoned|isBlockConflicted|isMempoolConflicted|isConfirmed|InMempool)\(\)$")


def spender_atoms(f, P, sub):
    """Atoms of IsSpent / HowSpent about the current spender (after inlining helper predicates); the state tests must all be about one object."""
    objs = set()
    forms = [inline_preds(e.formula, f, P, sub) for e in exits(f, P, sub)] + [site_formula(s, f, P, sub) for s in sites(f, lambda e: assign_lhs(e) is not None, P)]
    for fm in forms:
        for k in F.atoms(fm):
            m = _SPRED.match(F.strip_stale(k) if F.is_stale_atom(k) else k)
            if m:
                objs.add(m.group(1))
    if len(objs) != 1:
        raise AnalysisBroken("%s: expected the state tests to be about one spender object, found %s" % (f.q, sorted(objs)))
    X = objs.pop()
    atoms = {"AB": X + ".isAbandoned()", "BC": X + ".isBlockConflicted()", "MC": X + ".isMempoolConflicted()", "CONF": X + ".isConfirmed()", "INMP": X + ".InMempool()",
             "FOUND": [(re.compile(r"mapWallet\.end\(\) == mapWallet\.find\(.+\)|mapWallet\.find\(.+\) == mapWallet\.end\(\)"), False), re.compile(r"mapWallet\.(contains|count)\(.+\)")]}
    return X, atoms


def spender_provenance(ctx, f, P, sub, X, name):
    p0 = f.params[0]["n"]
    rng = [K(x, sub) for st, e in all_exprs(f.body) for x in subexprs(e) if x[0] in ("mcall",) and meth(x) == "equal_range"]
    ok = bool(rng) and all(r == "mapTxSpends.equal_range(%s)" % p0 for r in rng) and "mapWallet" in X and (".second" in X or "each(" in X)
    ctx.ob("%s/spenders-of-the-outpoint" % name, "PROVENANCE", "%s examines the wallet transactions (mapWallet entries) recorded in mapTxSpends.equal_range(<the queried outpoint>)" % name,
           ok, f.where, {"ranges": rng, "spender": X})


def is_spent(ctx, P):
    f = ctx.used(P.fn("wallet::CWallet::IsSpent"))
    sub = safe_naming(f, P)
    X, atoms = spender_atoms(f, P, sub)
    spender_provenance(ctx, f, P, sub, X, "IsSpent")
    ex = exits(f, P, sub)
    if any(e.kind != "ret" or not (is_true_ret(e) or is_false_ret(e)) for e in ex):
        raise AnalysisBroken("IsSpent: an exit is not `return true/false` (idiom changed)")
    trues = [e for e in ex if is_true_ret(e)]
    for e in trues:
        fm = inline_preds(e.formula, f, P, sub)
        fb, mapping, unmatched = F.bind_atoms(fm, atoms)
        cex = counterexample(fb, F.parse("!AB && !BC && !MC")) if e.loops else {"exit": "outside the loop over the spenders"}
        ctx.ob("IsSpent/conflicted-spender-does-not-spend@L%s" % e.line, "LADDER", "IsSpent returns true only for a spender that is not abandoned, not block-conflicted and not "
               "mempool-conflicted (a coin spent only by conflicted transactions is restored)", cex is None, "%s:%s" % (f.file, e.line),
               None if cex is None else {"path_condition": F.fshow(fm)[:1000], "unbound_code_atoms": unmatched[:12], "counterexample": cex})
        own = inline_preds(F.mk_and([g.formula(sub) for g in e.guards if g.kind in ("if", "sc", "case") and e.loops and g.line >= e.loops[-1].get("l")]), f, P, sub)
        ob_, _, oun = F.bind_atoms(own, atoms)
        cex2 = counterexample(F.parse("FOUND && !AB && !BC && !MC"), ob_)
        ctx.ob("IsSpent/live-spender-spends@L%s" % e.line, "LADDER", "every recorded spender that is in the wallet and neither abandoned nor conflicted makes IsSpent return true (no "
               "further condition)", cex2 is None, "%s:%s" % (f.file, e.line), None if cex2 is None else {"own_guard": F.fshow(own)[:600], "unbound_code_atoms": oun[:12], "counterexample": cex2})
    ctx.ob("IsSpent/has-spent-exit", "LADDER", "IsSpent can return true (inside the loop over the spenders)", len(trues) >= 1, f.where)
    falses = [e for e in ex if is_false_ret(e)]
    loops = [x for x in stmts(f.body) if x.get("k") in ("for", "foreach", "while")]
    okf = bool(falses) and bool(loops) and not any(has_break(x.get("b")) for x in loops) and \
        all(not e.loops and implies(e.formula, F.atom("done(loop@%s)" % loops[0].get("l"))) for e in falses)
    ctx.ob("IsSpent/unspent-after-all-spenders", "LOOP", "IsSpent returns false only after the loop over all recorded spenders completed (no break)", okf, f.where)


def how_spent(ctx, P):
    f = ctx.used(P.fn("wallet::CWallet::HowSpent"))
    sub = safe_naming(f, P)
    X, atoms = spender_atoms(f, P, sub)
    spender_provenance(ctx, f, P, sub, X, "HowSpent")
    # the accumulator: a local of the enum type
    accs = [st for st in stmts(f.body) if st.get("k") == "decl" and st.get("n") and "SpendType" in str(st.get("ty"))]
    if len(accs) != 1:
        raise AnalysisBroken("HowSpent: expected one local SpendType accumulator")
    A = accs[0]["n"]
    atoms = dict(atoms)
    atoms["ST_UNSPENT"] = "%s == %sUNSPENT" % (A, ST)

    def enum_of(v):
        v = unwrap(v)
        return v[1][len(ST):] if is_expr(v) and v[0] == "enum" and str(v[1]).startswith(ST) else None

    ctx.ob("HowSpent/starts-unspent", "VALUE-SHAPE", "HowSpent starts from UNSPENT", enum_of(accs[0].get("i")) == "UNSPENT", f.where)
    effects = []        # (line, kind, formula, own guard, where)
    for s in sites(f, lambda e: assign_lhs(e) == ["local", A], P):
        effects.append((s.line, enum_of(assign_rhs(s.expr)), site_formula(s, f, P, sub), s))
    rets = exits(f, P, sub)
    okr = True
    for e in rets:
        if e.kind != "ret":
            raise AnalysisBroken("HowSpent: unexpected exit")
        k = enum_of(e.value)
        if k is not None:
            effects.append((e.line, k, inline_preds(e.formula, f, P, sub), e))
        elif not (is_expr(e.value) and unwrap(e.value) == ["local", A] and not e.loops):
            okr = False
    ctx.ob("HowSpent/result", "VALUE-SHAPE", "HowSpent returns a SpendType constant or, after the loop, its accumulator", okr, f.where)
    loops = [x for x in stmts(f.body) if x.get("k") in ("for", "foreach", "while")]
    have = set()
    for line, kind, fm, s in effects:
        if kind == "UNSPENT":
            continue
        have.add(kind)
        fb, mapping, unmatched = F.bind_atoms(with_state_axioms(fm), atoms)
        inl = bool(s.loops)
        cex = counterexample(fb, F.parse("CONF || INMP || (!AB && !BC && !MC)")) if inl else {"site": "outside the loop over the spenders"}
        ctx.ob("HowSpent/conflicted-spender-does-not-spend:%s@L%s" % (kind, line), "LADDER", "HowSpent leaves UNSPENT (here: %s) only for a spender that is confirmed, in the mempool, or "
               "neither abandoned nor block-conflicted nor mempool-conflicted" % kind, cex is None, "%s:%s" % (f.file, line),
               None if cex is None else {"path_condition": F.fshow(fm)[:1000], "unbound_code_atoms": unmatched[:12], "counterexample": cex})
        want = {"CONFIRMED": "CONF", "MEMPOOL": "INMP", "NONMEMPOOL": "!AB && !BC && !MC"}.get(kind)
        if want is None or kind is None:
            ctx.ob("HowSpent/known-kind@L%s" % line, "VALUE-SHAPE", "HowSpent reports only UNSPENT / CONFIRMED / MEMPOOL / NONMEMPOOL constants", False, "%s:%s" % (f.file, line))
            continue
        cex = counterexample(fb, F.parse(want))
        ctx.ob("HowSpent/kind:%s@L%s" % (kind, line), "LADDER", "HowSpent reports %s only for a spender with (%s)" % (kind, want), cex is None, "%s:%s" % (f.file, line),
               None if cex is None else {"path_condition": F.fshow(fm)[:1000], "counterexample": cex})
        if kind == "NONMEMPOOL":
            cex = counterexample(fb, F.parse("ST_UNSPENT"))
            ctx.ob("HowSpent/no-downgrade@L%s" % line, "TYPESTATE", "NONMEMPOOL is recorded only while the accumulator is still UNSPENT (a MEMPOOL spender found earlier is not "
                   "downgraded)", cex is None, "%s:%s" % (f.file, line), None if cex is None else {"counterexample": cex})
        else:
            own = inline_preds(F.mk_and([g.formula(sub) for g in s.guards if g.kind in ("if", "sc", "case") and s.loops and g.line >= s.loops[-1].get("l")]), f, P, sub)
            ob_, _, oun = F.bind_atoms(own, atoms)
            cex2 = counterexample(F.parse("FOUND && " + want), ob_)
            ctx.ob("HowSpent/live-spender-spends:%s@L%s" % (kind, line), "LADDER", "every recorded spender in the wallet with (%s) is reported as %s (no further condition)" % (want, kind),
                   cex2 is None, "%s:%s" % (f.file, line), None if cex2 is None else {"own_guard": F.fshow(own)[:600], "unbound_code_atoms": oun[:12], "counterexample": cex2})
    ctx.ob("HowSpent/reports-all-kinds", "VALUE-SHAPE", "HowSpent can report CONFIRMED, MEMPOOL and NONMEMPOOL", have >= {"CONFIRMED", "MEMPOOL", "NONMEMPOOL"}, f.where, sorted(x for x in have if x))
    ctx.ob("HowSpent/all-spenders", "LOOP", "the loop over the recorded spenders has no break", len(loops) >= 1 and not any(has_break(x.get("b")) for x in loops), f.where)


# ================================================================================================ conflicted state
def encl(q):
    return q.split("::lambda@")[0]


def state_writers(ctx):
    cg = callgraph.load_all()
    w = sorted({encl(q) for q, fl, ls in cg.writers(STATE) if not encl(q).startswith("wallet::CWalletTx::CWalletTx")})
    want = ["wallet::CWallet::AbandonTransaction", "wallet::CWallet::AddToWallet", "wallet::CWallet::MarkConflicted", "wallet::CWallet::SubmitTxMemoryPoolAndRelay",
            "wallet::CWallet::blockDisconnected", "wallet::CWalletTx::Unserialize", "wallet::CWalletTx::Update", "wallet::RefreshMempoolStatus"]
    ctx.ob("who-writes/m_state", "WHO-MAY-WRITE", "a wallet transaction's chain state (CWalletTx::m_state) is written only by AddToWallet, MarkConflicted, AbandonTransaction, "
           "blockDisconnected, SubmitTxMemoryPoolAndRelay, RefreshMempoolStatus, CWalletTx::Update and deserialisation", w == want, None, {"writers": w})


def state_writes(g, P):
    return sites(g, lambda e: assign_lhs(e) is not None and match([".", ANY, STATE], assign_lhs(e)), P)


def lambdas_of(P, q):
    return [P.fn(n) for n in sorted(P.funcs) if n.startswith(q + "::lambda@")]


def mark_conflicted(ctx, P):
    f = ctx.used(P.fn("wallet::CWallet::MarkConflicted"))
    if len(f.params) != 3:
        raise AnalysisBroken("MarkConflicted: expected (hashBlock, conflicting_height, hashTx)")
    HB, CH, HT = (p["n"] for p in f.params)
    sub = safe_naming(f, P)
    writes = []
    for g in lambdas_of(P, f.q):
        for s in state_writes(g, P):
            writes.append((g, s))
    for s in state_writes(f, P):
        writes.append((f, s))
    ctx.ob("MarkConflicted/writes-the-state", "VALUE-SHAPE", "MarkConflicted sets the conflicted state", len(writes) >= 1, f.where)
    lam = None
    for g, s in writes:
        rhs = unwrap(assign_rhs(s.expr))
        okv = is_expr(rhs) and rhs[0] in ("ctor", "init") and rhs[1] == "wallet::TxStateBlockConflicted" and call_args(rhs) == [["param", HB], ["param", CH]]
        ctx.ob("MarkConflicted/state-value@L%s" % s.line, "VALUE-SHAPE", "the state written is TxStateBlockConflicted{hashBlock, conflicting_height} of the conflicting block given by the caller",
               okv, s.where, {"value": show(rhs)[:120] if is_expr(rhs) else None})
        gs = dict(sub)
        gs.update(safe_naming(g, P))
        fm = s.formula(gs)
        obj = K(assign_lhs(s.expr)[1])
        depth = re.compile(r"(.+) < (wallet::CWallet::|this\.)?GetTxDepthInMainChain\(%s\)" % re.escape(obj))
        okg = any(depth.fullmatch(k) and implies(fm, F.atom(k)) for k in F.atoms(fm))
        ctx.ob("MarkConflicted/only-if-deeper@L%s" % s.line, "MPT", "a transaction is marked conflicted only if the conflict is deeper than its current depth "
               "(conflictconfirms < GetTxDepthInMainChain(wtx)): a confirmed transaction is not overridden by a shallower conflict", okg, s.where, {"guard": F.fshow(fm)[:300]})
        if g is not f:
            lam = g
    calls = sites(f, lambda e: callee(e) == "wallet::CWallet::RecursiveUpdateTxState", P)
    okc = bool(calls)
    for s in calls:
        a = call_args(s.expr)
        a = a[-2:]
        fn_arg = unwrap(a[1]) if len(a) == 2 else None
        if is_expr(fn_arg) and fn_arg[0] == "ctor" and fn_arg[1] == "std::function" and call_args(fn_arg):
            fn_arg = unwrap(call_args(fn_arg)[0])
        src = origins(f, fn_arg, line=s.line) if is_expr(fn_arg) else []
        okc = okc and len(a) == 2 and a[0] == ["param", HT] and lam is not None and src == [["lambda", lam.q]]
    ctx.ob("MarkConflicted/propagates", "PROVENANCE", "MarkConflicted hands the state update and the conflicted transaction's id (hashTx) to RecursiveUpdateTxState, which applies it to "
           "that transaction and its descendants", okc, f.where)


def recursive_update(ctx, P):
    fs = P.fns("wallet::CWallet::RecursiveUpdateTxState")
    f3 = [f for f in fs if len(f.params) == 3]
    f2 = [f for f in fs if len(f.params) == 2]
    if len(f3) != 1 or len(f2) != 1:
        raise AnalysisBroken("RecursiveUpdateTxState: expected the 2- and 3-parameter overloads")
    g = ctx.used(f2[0])
    fw = sites(g, lambda e: callee(e) == "wallet::CWallet::RecursiveUpdateTxState", P)
    okf = len(fw) == 1 and call_args(fw[0].expr)[-2:] == [["param", g.params[0]["n"]], ["param", g.params[1]["n"]]] and not [x for x in fw[0].guards if x.kind in ("if", "sc", "loop", "case")]
    ctx.ob("RecursiveUpdateTxState/overload-forwards", "TWIN", "RecursiveUpdateTxState(tx_hash, fn) forwards both to the batch overload unconditionally", okf, g.where)
    f = ctx.used(f3[0])
    _, TH, FN = (p["n"] for p in f.params)
    sub = safe_naming(f, P)
    # work list: seeded with tx_hash
    sets = {}
    for s in sites(f, lambda e: e[0] == "mcall" and meth(e) in ("insert", "emplace", "push_back", "push") and is_expr(e[2]) and e[2][0] == "local", P):
        sets.setdefault(e2n(s.expr), []).append(s)
    todo = [n for n, ss in sets.items() if any(call_args(s.expr)[:1] == [["param", TH]] and not s.loops for s in ss)]
    if len(todo) != 1:
        raise AnalysisBroken("RecursiveUpdateTxState: work list seeded with %s not found" % TH)
    T = todo[0]
    wl = [st for st in stmts(f.body) if st.get("k") == "while" and K(st.get("c"), sub) in ("!%s.empty()" % T, "!(%s.empty())" % T)]
    if len(wl) != 1:
        raise AnalysisBroken("RecursiveUpdateTxState: `while (!%s.empty())` loop not found" % T)
    loop = wl[0]
    calls = sites(f, lambda e: (e[0] == "opcall" and e[1] == "()" and len(e) > 3 and e[3] == ["param", FN]) or (e[0] == "icall" and e[1] == ["param", FN]), P)
    okc = len(calls) == 1 and in_loop(calls[0], loop) and not [x for x in calls[0].guards if x.kind in ("if", "sc") and x.line >= loop.get("l")]
    ctx.ob("RecursiveUpdateTxState/applies-update", "LOOP", "the update function is applied to every transaction taken from the work list (unconditionally inside the loop)", okc, f.where)
    res = None
    if calls:
        st = calls[0].stmt
        res = st.get("n") if st.get("k") == "decl" else None
    # descendants: after a change every spender of every output is queued
    ins = [s for s in sets.get(T, []) if in_loop(s, loop)]
    okd = False
    det = {}
    for s in ins:
        rk = [loop_range_key(l, sub) for l in s.loops]
        own = F.mk_and([x.formula(sub) for x in s.guards if x.kind in ("if", "sc", "case") and x.line >= loop.get("l")])
        fb, _, un = F.bind_atoms(own, {"CHANGED": [("%s == wallet::CWallet::TxUpdate::UNCHANGED" % res, False)] if res else [],
                                       "SEEN": re.compile(r"\w+\.(contains|count)\(.+\)")})
        all_outputs = any(re.fullmatch(r"each\(.+\.GetTx\(\)\.vout\)", r) for r in rk)
        spenders = any("mapTxSpends.equal_range(COutPoint{" in K(x, sub) for st_, e in all_exprs(loop["b"]) for x in subexprs(e) if x[0] == "mcall" and meth(x) == "equal_range")
        no_extra = counterexample(F.parse("CHANGED && !SEEN"), fb) is None
        det = {"loops": rk, "own_guard": F.fshow(own)[:300], "unbound": un[:8]}
        if all_outputs and spenders and no_extra:
            okd = True
    ctx.ob("RecursiveUpdateTxState/descendants", "LOOP", "after a state change every recorded spender (mapTxSpends.equal_range(COutPoint(txid, i))) of every output i of the transaction "
           "is queued unless already done: the update reaches all descendants", okd and not has_break(loop["b"]), f.where, det)


def e2n(e):
    return e[2][1]


def conflict_detection(ctx, P):
    f = ctx.used(P.fn("wallet::CWallet::AddToWalletIfInvolvingMe"))
    PTX, STN = f.params[0]["n"], f.params[1]["n"]
    sub = safe_naming(f, P)
    calls = sites(f, lambda e: callee(e) == "wallet::CWallet::MarkConflicted", P)
    ctx.ob("AddToWalletIfInvolvingMe/marks-conflicts", "MPT", "AddToWalletIfInvolvingMe calls MarkConflicted for wallet transactions that conflict with a confirmed transaction", len(calls) >= 1, f.where)
    for s in calls:
        a = [unwrap(x) for x in call_args(s.expr)]
        confs = [x[1][1] for x in a[:2] if is_expr(x) and x[0] == "." and is_expr(x[1]) and x[1][0] == "local"]
        conf = confs[0] if len(confs) == 2 and confs[0] == confs[1] else None
        okv = conf is not None and a[0][2] == "wallet::TxStateConfirmed::confirmed_block_hash" and a[1][2] == "wallet::TxStateConfirmed::confirmed_block_height"
        # conf is the confirmed alternative of the state being synced
        d = [st.get("var") for st in stmts(f.body) if st.get("k") == "if" and isinstance(st.get("var"), dict) and st["var"].get("n") == conf] + \
            [st for st in stmts(f.body) if st.get("k") == "decl" and st.get("n") == conf]
        okv = okv and len(d) == 1 and is_expr(d[0].get("i")) and contains(["param", STN], d[0]["i"]) and "TxStateConfirmed" in str(d[0].get("ty"))
        ctx.ob("AddToWalletIfInvolvingMe/conflict-block@L%s" % s.line, "PROVENANCE", "the conflicting block passed to MarkConflicted is the confirming block (hash, height) of the "
               "transaction being synced", okv, s.where)
        rk = [loop_range_key(l, sub) for l in s.loops]
        spender = K(a[2], sub) if len(a) == 3 else ""
        tx = r"(\*%s|%s)" % (re.escape(PTX), re.escape(PTX))
        ranges = [K(x, sub) for st_, e in all_exprs(f.body) for x in subexprs(e) if x[0] == "mcall" and meth(x) == "equal_range"]
        okl = any(re.fullmatch(r"each\(%s\.vin\)" % tx, r) for r in rk) and any(re.fullmatch(r"mapTxSpends\.equal_range\(each\(%s\.vin\)\.prevout\)" % tx, r) for r in ranges) and \
            (".second" in spender)
        ctx.ob("AddToWalletIfInvolvingMe/every-input@L%s" % s.line, "LOOP", "MarkConflicted is reached inside a loop over all inputs of the transaction, for the spenders recorded in "
               "mapTxSpends.equal_range(txin.prevout)", okl, s.where, {"loops": rk, "ranges": ranges, "spender": spender})
        inner = [x for x in s.guards if x.kind in ("if", "sc", "case") and s.loops and x.line >= s.loops[0].get("l")]
        own = F.mk_and([x.formula(sub) for x in inner])
        fb, _, un = F.bind_atoms(own, {"OTHER": [(re.compile(r"(\*?%s\.GetHash\(\) == .+\.second|.+\.second == \*?%s\.GetHash\(\))" % (re.escape(PTX), re.escape(PTX))), False)]})
        cex = counterexample(F.parse("OTHER"), fb)
        ctx.ob("AddToWalletIfInvolvingMe/every-other-spender@L%s" % s.line, "LADDER", "every recorded spender other than the transaction itself is marked conflicted (no further condition "
               "inside the loops)", cex is None, s.where, None if cex is None else {"own_guard": F.fshow(own)[:400], "unbound_code_atoms": un[:10], "counterexample": cex})
        fm = site_formula(s, f, P, sub)
        ctx.ob("AddToWalletIfInvolvingMe/only-when-confirmed@L%s" % s.line, "MPT", "conflicts are marked only when the synced transaction is confirmed in a block", conf is not None and implies(fm, F.atom(conf)), s.where)


def block_disconnected(ctx, P):
    f = ctx.used(P.fn("wallet::CWallet::blockDisconnected"))
    sub = safe_naming(f, P)
    n = 0
    for g in lambdas_of(P, f.q):
        for s in state_writes(g, P):
            n += 1
            gs = dict(sub)
            gs.update(safe_naming(g, P))
            rhs = unwrap(assign_rhs(s.expr))
            obj = K(assign_lhs(s.expr)[1])
            fm = s.formula(gs)
            okv = is_expr(rhs) and rhs[0] in ("ctor", "init") and rhs[1] == "wallet::TxStateInactive"
            h = re.compile(r"%s\.state\(\)\.conflicting_block_height < (.+)" % re.escape(obj))
            hs = [k for k in F.atoms(fm) if h.fullmatch(k)]
            okg = implies(fm, F.atom(obj + ".isBlockConflicted()")) and len(hs) == 1 and implies(fm, F.mk_not(F.atom(hs[0]))) and \
                h.fullmatch(hs[0]).group(1) in ("block.height", "disconnect_height")
            ctx.ob("blockDisconnected/unconflict@L%s" % s.line, "MPT", "on a block disconnection a transaction goes back from block-conflicted to inactive only if it is block-conflicted and its "
                   "conflicting block is at or above the disconnected height", okv and okg, s.where, {"guard": F.fshow(fm)[:300]})
    ctx.floor("blockDisconnected state writes", n, 1)
    syncs = sites(f, lambda e: callee(e) == "wallet::CWallet::SyncTransaction", P)
    oks = False
    for s in syncs:
        rk = [loop_range_key(l, sub) for l in s.loops]
        a = call_args(s.expr)
        st = unwrap(a[1]) if len(a) > 1 else None
        if is_expr(st) and st[0] == "ctor" and st[1] == "std::variant" and call_args(st):
            st = unwrap(call_args(st)[0])
        inner = [x for x in s.guards if x.kind in ("if", "sc", "case") and s.loops and x.line >= s.loops[0].get("l")]
        if any(re.fullmatch(r"each\(\*?block\.data\.vtx\)", r) for r in rk) and not inner and is_expr(st) and st[0] in ("ctor", "init") and st[1] == "wallet::TxStateInactive":
            oks = True
    ctx.ob("blockDisconnected/all-become-inactive", "LOOP", "every transaction of a disconnected block is synced as TxStateInactive (unconditionally, in a loop over block.data->vtx)", oks, f.where)


def depth_shape(ctx, P):
    f = ctx.used(P.fn("wallet::CWallet::GetTxDepthInMainChain"))

    def is_neg(v):
        v = unwrap(v)
        return is_expr(v) and ((v[0] == "b" and v[1] == "*" and (match(["int", -1], v[2]) or match(["int", -1], v[3]))) or (v[0] == "u" and v[1] == "-"))

    branches = {}
    rest = []

    def walk(s, tag):
        if not isinstance(s, dict):
            return
        if s.get("k") == "if" and isinstance(s.get("var"), dict) and "TxState" in str(s["var"].get("ty")) and tag is None:
            t = "CONFIRMED" if "TxStateConfirmed" in s["var"]["ty"] else "CONFLICTED" if "TxStateBlockConflicted" in s["var"]["ty"] else "OTHER"
            walk(s.get("t"), t)
            walk(s.get("e"), None)
            return
        if s.get("k") == "ret":
            (branches.setdefault(tag, []) if tag else rest).append(s.get("v"))
            return
        for x in s.get("s") or []:
            walk(x, tag)
        for k in ("t", "e", "b"):
            walk(s.get(k), tag)

    walk(f.body, None)
    if set(branches) != {"CONFIRMED", "CONFLICTED"}:
        raise AnalysisBroken("GetTxDepthInMainChain: expected `if (auto* s = wtx.state<TxStateConfirmed>()) .. else if (.. TxStateBlockConflicted ..) .. else ..` (idiom changed)")
    ok = all(is_neg(v) and "conflicting_block_height" in show(v) for v in branches["CONFLICTED"]) and \
        all(not is_neg(v) and "confirmed_block_height" in show(v) and K(unwrap(v)).startswith("1 + ") for v in branches["CONFIRMED"]) and \
        bool(rest) and all(match(["int", 0], unwrap(v)) for v in rest)
    ctx.ob("GetTxDepthInMainChain/sign-shape", "VALUE-SHAPE", "depth is `tip - confirmed height + 1` for a confirmed transaction, the negation (`-1 * (tip - conflicting height + 1)`) for a "
           "block-conflicted one and 0 otherwise: negative depth means block-conflicted", ok, f.where,
           {"confirmed": [show(v) for v in branches["CONFIRMED"]], "conflicted": [show(v) for v in branches["CONFLICTED"]], "otherwise": [show(v) for v in rest]})


# ------------------------------------------------------------------------------------------------
def block_connected(ctx, P):
    """Mempool bookkeeping on block connection: every transaction of a connected block - whether or not it involves the
    wallet - is synced as confirmed AND reported as removed from the mempool, so that the mempool-conflict marks it left
    on wallet transactions are cleared (a stale mark makes a live spender look dead and its inputs look unspent)."""
    f = ctx.used(P.fn("wallet::CWallet::blockConnected"))
    sub = naming(f, P)
    sync = sites(f, lambda e: e[0] in ("mcall", "vcall") and e[1] == "wallet::CWallet::SyncTransaction", P)
    rem = sites(f, lambda e: e[0] in ("mcall", "vcall") and e[1] == "wallet::CWallet::transactionRemovedFromMempool", P)
    ctx.floor("blockConnected SyncTransaction calls", len(sync), 1)
    ok = len(sync) == 1 and len(rem) == 1
    detail = None
    if ok:
        a, b = sync[0], rem[0]
        la, lb = [l.get("l") for l in a.loops], [l.get("l") for l in b.loops]
        ka = loop_range_key(a.loops[-1], sub) if a.loops else None
        elem_a, elem_b = F.key(F.expand(call_args(a.expr)[0], sub)), F.key(F.expand(call_args(b.expr)[0], sub))
        inner = lambda s_: [g for g in s_.guards if g.kind in ("if", "sc", "case") and (g.line or 0) >= (s_.loops[-1].get("l") if s_.loops else 0)]
        ok = bool(la) and la == lb and ka is not None and re.fullmatch(r"each\(block\.data\.vtx\)|each\(\*?block\.data\.?.*vtx\)", ka) is not None and elem_a == elem_b and \
            not inner(a) and not inner(b) and not has_break(a.loops[-1].get("b")) and \
            not [x for x in stmts(a.loops[-1].get("b")) if x.get("k") == "continue"] and match(["enum", "MemPoolRemovalReason::BLOCK", ANY], call_args(b.expr)[1])
        detail = {"loop": ka, "synced": elem_a, "removed": elem_b, "guards": [repr(g) for g in inner(a) + inner(b)]}
    ctx.ob("blockConnected/every-tx-leaves-mempool", "LOOP", "blockConnected syncs every transaction of the block as confirmed and reports that same transaction as removed from the "
           "mempool (reason BLOCK), unconditionally for each transaction of the block (not only for those involving the wallet)", bool(ok), f.where, detail)
