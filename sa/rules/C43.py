"""C43 Wallet state survives restarts and crashes - transaction-bracket clause only (originally listed N/A; partial, structural claim)."""
import re

from sa.engine.api import *
from sa.engine import callgraph
from sa.rules._helpers_G import assert_false

UNITS = ["wallet/wallet.cpp", "wallet/scriptpubkeyman.cpp", "wallet/walletdb.cpp", "wallet/external_signer_scriptpubkeyman.cpp"]
EXPLANATION = ("Taken whole (reload equality of every record, crash atomicity of SQLite) the property is dynamic; decided are the structural necessary "
               "conditions of its clause 'each update performed as one database transaction is either fully present or fully absent' at the update sites "
               "CWallet::SetupDescriptorScriptPubKeyMans (own descriptors through RunWithinTxn; external-signer descriptor import with an explicit "
               "TxnBegin/TxnCommit), CWallet::EncryptWallet, DescriptorScriptPubKeyMan::TopUp, CWallet::RemoveTxs, CWallet::DelAddressBook and the generic "
               "RunWithinTxn: by a combined must/may dataflow over all paths of each bracket function, (1) every use of the batch object (method call on it or "
               "passing it to a callee) and TxnCommit happen only after TxnBegin returned true; (2) no use of the batch after TxnCommit/TxnAbort, one batch "
               "object per bracket, and nothing called inside the bracket (overload-aware call closure over the wallet units, incl. lambdas created there) "
               "constructs another WalletBatch / MakeBatch - such a write would be outside the transaction; (3) an exit that does not report failure (throw / "
               "return false / error result) is reached only if TxnCommit returned true on every path on which TxnBegin may have succeeded; no exit leaves "
               "the transaction open except a failure exit of a function whose batch lives on its own stack (the destructor rolls back); a failed "
               "(tested-false) step is followed by TxnAbort; a step (callee receiving the batch) whose false result can reach TxnCommit - untested, as in "
               "TopUp's `bool res = TopUpWithDB(batch, size)`, or tested with a failure edge that continues - must be a callee of the wallet units in which "
               "no failed write/erase on the batch leads to a normal return (storage failures throw, so only logical failures whose progress is kept are "
               "committed); `assert(false)` and helpers that can only throw end a path; (4) RunWithinTxn: func(batch) false -> TxnAbort, false; commit "
               "failure -> false; the database-taking overload only wraps the batch-taking one with a fresh batch; clients never drop RunWithinTxn's result, "
               "its false edge only reaches failure exits, and the client's procedure returns false (or the failed step's own result) on every path on "
               "which one of its steps writing through the batch failed.")
ASSUMPTIONS = ["SQLite BEGIN/COMMIT/ROLLBACK make the statements between them atomic (storage semantics, not decided)",
               "a WalletBatch destroyed with an open transaction aborts it (SQLiteBatch::Close), so an exception leaving a bracket with a stack batch rolls back",
               "calls through std::function members / boost signals are not followed by the in-bracket call closure",
               "write results that the code itself ignores (e.g. WriteMasterKey, WriteDescriptor) are not treated as failures"]
CLAIM = dict(
    technique="static analysis: combined must/may typestate dataflow over TxnBegin/use/TxnAbort/TxnCommit per batch object, overload-aware in-bracket call "
              "closure (no second WalletBatch), result-propagation checks on RunWithinTxn and its clients",
    text="PARTIAL. Decided for all paths of the listed update sites: the writes of the update are bracketed by a tested TxnBegin and a TxnCommit on one and "
         "the same batch object (nothing before Begin, nothing after Commit/Abort, no second batch created inside the bracket), every normal exit has "
         "closed the bracket, a failed step aborts or - where the bracket commits regardless of a callee's result - that callee never returns after a "
         "failed batch write, success is reported only after TxnCommit returned true, and RunWithinTxn, its clients and their procedures propagate failure.",
    note="NOT decided (remain dynamic / storage semantics): that everything recorded is reloaded unchanged after a restart; that the wallet loads after a "
         "crash at any write/fsync point; that SQLite transactions are atomic; legacy migration (excluded by the property). importdescriptors' "
         "AddWalletDescriptor path does not use a transaction at all in this tree and is therefore not one of the bracketed updates. "
         "Write results that the code itself ignores are not treated as failures. This is a weak, structural claim.",
    ref="DESIGN.md §3 C43 (listed N/A at design time; transaction-bracket clause claimed partially, like C54)")

B_ = "wallet::WalletBatch::"
BEGIN, COMMIT, ABORT = B_ + "TxnBegin", B_ + "TxnCommit", B_ + "TxnAbort"
NOT_A_USE = {BEGIN, COMMIT, ABORT, B_ + "HasActiveTxn", B_ + "RegisterTxnListener"}
BATCH_CLASS = "wallet::WalletBatch"
RWT = "wallet::RunWithinTxn"


# ------------------------------------------------------------------------------------------------
# small expression helpers
def batch_key(e):
    """Raw pointer, smart pointer (`p.get()`, `*p`, `&*p`) and reference spellings denote the same object."""
    while is_expr(e) and ((e[0] == "mcall" and isinstance(e[1], str) and e[1].endswith("::get") and len(e) == 3) or (e[0] == "u" and e[1] in ("*", "&")) or
                          (e[0] in ("cast",) and len(e) >= 3) or (e[0] == "mcall" and isinstance(e[1], str) and e[1].endswith("::operator*") and len(e) == 3) or
                          (e[0] == "call" and e[1] in ("std::move", "std::forward") and len(e) == 3)):
        e = e[2]
    return show(e) if is_expr(e) and e[0] in ("local", "param", ".") else None


def is_m(q):
    return lambda e: is_expr(e) and e[0] in ("mcall", "vcall") and e[1] == q


def fresh_batch(x):
    """x constructs a new database batch object."""
    if not is_expr(x):
        return None
    if x[0] in ("ctor", "new", "init") and len(x) > 1 and x[1] == BATCH_CLASS:
        return "WalletBatch construction"
    if x[0] == "call" and x[1] in ("std::make_unique", "std::make_shared") and BATCH_CLASS in (call_targs(x) or [""])[-1]:
        return "WalletBatch construction"
    if x[0] in ("mcall", "vcall") and isinstance(x[1], str) and x[1].endswith("::MakeBatch"):
        return "MakeBatch()"
    return None


def call_nodes(e):
    return [x for x in subexprs(e) if isinstance(callee(x), str) or (is_expr(x) and x[0] in ("new", "lambda", "init"))]


# ------------------------------------------------------------------------------------------------
class Closure:
    """Overload-aware closure of what may run inside a bracket: functions of the loaded wallet units are entered by (name, number of
    arguments); virtual calls add the overriders known to the whole-program call graph; lambdas created inside count as run; callees
    without a body in the loaded units fall back to the name-based whole-program call graph."""

    def __init__(self, P, cg):
        self.P, self.cg = P, cg
        self.ext_cache = {}

    def bodies(self, q, nargs, virtual):
        names = [q] + (sorted(self.cg.overriders.get(q, ())) if virtual else [])
        out, ext = [], []
        for n in names:
            cands = [f for f in self.P.fns(n) if f.body is not None]
            exact = [f for f in cands if len(f.params) == nargs]
            if exact or cands:
                out.extend(exact or cands)
            else:
                ext.append(n)
        return out, ext

    def ext_hit(self, q):
        if q not in self.ext_cache:
            seen = self.cg.reach([q])
            hit = [n for n in seen if n == BATCH_CLASS or n.endswith("::MakeBatch")]
            self.ext_cache[q] = self.cg.path(seen, hit[0]) if hit else None
        return self.ext_cache[q]

    def fresh_from(self, exprs, origin):
        """[(description, chain)] for every fresh batch construction reachable from the given expressions."""
        found = []
        seen = set()
        work = [(e, [origin]) for e in exprs]
        while work:
            e, chain = work.pop()
            for x in call_nodes(e):
                fb = fresh_batch(x)
                if fb:
                    found.append((fb, chain))
                    continue
                if x[0] == "lambda":
                    targets, ext = [f for f in self.P.fns(x[1]) if f.body is not None], []
                elif x[0] in ("new", "init"):
                    continue
                else:
                    targets, ext = self.bodies(callee(x), len(call_args(x)), x[0] == "vcall")
                for n in ext:
                    p = self.ext_hit(n)
                    if p:
                        found.append(("(by name) " + " > ".join(p), chain))
                for f in targets:
                    key = (f.q, f.file, f.line)
                    if key in seen:
                        continue
                    seen.add(key)
                    c2 = chain + ["%s@L%s" % (f.q.split("wallet::")[-1], f.line)]
                    for st, e2 in all_exprs(f.body):
                        work.append((e2, c2))
                    for ini in f.d.get("inits", []) or []:
                        if is_expr(ini.get("i")):
                            work.append((ini["i"], c2))
        return found, len(seen)


# ------------------------------------------------------------------------------------------------
class PathEnds:
    """Flow mixin: `assert(false)` and a call of a helper that can only throw (every path of its body ends in throw, e.g. a
    local `fail` lambda or a [[noreturn]] function of the loaded units) end the path."""

    def _never_returns(self, e):
        if not is_expr(e) or self.P is None:
            return False
        targets = []
        if e[0] == "call" and isinstance(e[1], str):
            cands = [f for f in self.P.fns(e[1]) if f.body is not None]
            targets = [f for f in cands if len(f.params) == len(call_args(e))] or cands
        elif e[0] == "opcall" and len(e) > 3 and is_expr(e[3]) and e[3][0] == "local":
            d = [st for st in stmts(self.fn.body) if st.get("k") == "decl" and st.get("n") == e[3][1] and is_expr(st.get("i"))]
            lam = [x for x in subexprs(d[0]["i"]) if x[0] == "lambda"] if len(d) == 1 and len(local_values(self.fn, e[3][1])) == 1 else []
            targets = [f for x in lam for f in self.P.fns(x[1]) if f.body is not None] if len(lam) == 1 else []
        return bool(targets) and all(always_exits(f.body) and not any(st.get("k") == "ret" for st in stmts(f.body)) for f in targets)

    def stmt(self, s, st):
        if st is not None and assert_false(s):
            return {"normal": None, "break": None, "continue": None}      # abort(): the path ends here
        if st is not None and isinstance(s, dict) and s.get("k") == "expr" and self._never_returns(s.get("e")):
            self.ev(st, s["e"], s)
            return {"normal": None, "break": None, "continue": None}
        return super().stmt(s, st)


def unwrap_result(e):
    """`result.has_value()`, `bool(result)`, `util::Result<void>{call}`: the value whose truth is the step's success."""
    while is_expr(e):
        if e[0] in ("mcall", "vcall") and len(e) == 3 and isinstance(e[1], str) and (e[1].endswith("::has_value") or e[1].endswith("operator bool")):
            e = e[2]
        elif e[0] in ("ctor", "init") and len(e) == 3 and is_expr(e[2]):
            e = e[2]
        elif e[0] == "cast" and len(e) >= 3 and is_expr(e[2]):
            e = e[2]
        elif e[0] == "defarg" and len(e) == 2:
            e = e[1]
        else:
            break
    return e


class TxnFlow(PathEnds, Flow):
    """state = (must, may): labels that definitely / possibly hold.  Tracks one batch object B through a function.
    A *step* is a call that receives B as an argument (a callee writing through the batch); a *write* is a method call on B."""

    def __init__(self, fn, P, B, bool_call):
        super().__init__(fn, P)
        self.B, self.bool_call = B, bool_call
        self.events = []    # (kind, expr, (must, may), stmt)
        self.exits = []
        self.lab = {}       # id(step expr) -> "may still have failed" label
        self.step = {}      # step id -> step expr
        self.sid = {}       # id(expr) -> step id
        self.holders = {}   # local name -> step/write expr whose result it holds

    def initial(self):
        return (frozenset(), frozenset())

    def join(self, a, b):
        return (a[0] & b[0], a[1] | b[1])

    def kind(self, e):
        if not is_expr(e):
            return None
        if e[0] in ("mcall", "vcall") and batch_key(e[2] if len(e) > 2 else None) == self.B:
            if e[1] == BEGIN:
                return "begin"
            if e[1] == COMMIT:
                return "commit"
            if e[1] == ABORT:
                return "abort"
            return None if e[1] in NOT_A_USE else "use"
        if isinstance(callee(e), str) and e[0] in ("call", "mcall", "vcall", "opcall", "ctor", "icall"):
            if any(batch_key(undefarg(a)) == self.B for a in call_args(e) if is_expr(a)):
                return "use"
        return None

    def is_write(self, e):
        return e[0] in ("mcall", "vcall") and batch_key(e[2] if len(e) > 2 else None) == self.B

    def on_expr(self, state, e, stmt):
        k = self.kind(e)
        must, may = state
        if k is not None or isinstance(callee(e), str) or (is_expr(e) and e[0] in ("new", "lambda")):
            self.events.append((k, e, state, stmt))
        if k == "begin":
            may = may | {"open", "pending"}
        elif k == "commit":
            may = (may - {"open", "failed-unaborted"}) | {"committed"}     # a step failure that is committed is judged at the commit
        elif k == "abort":
            may = (may - {"open", "failed-unaborted"}) | {"aborted"}
        elif k == "use":
            sid = "%s@L%s" % (show(e)[:60], stmt.get("l"))
            self.step[sid] = e
            self.sid[id(e)] = sid
            # whose result is it?  `T r = step(..)` / `if (T r{step(..)}; ..)` / `if (T r = step(..))`
            holder = None
            if stmt.get("k") == "decl" and unwrap_result(stmt.get("i")) is e:
                holder = stmt.get("n")
            elif isinstance(stmt.get("var"), dict) and unwrap_result(stmt["var"].get("i")) is e:
                holder = stmt["var"].get("n")
            if holder:
                self.holders[holder] = e
            if not self.is_write(e) and self.bool_call(e):
                lab = "unchecked:" + sid                     # a bool step that may have returned false and was not (yet) tested
                self.lab[id(e)] = lab
                may = may | {lab}
        return (must, may)

    def resolve(self, atom):
        seen = set()
        while True:
            atom = unwrap_result(atom)
            if is_expr(atom) and atom[0] == "local" and atom[1] not in seen:
                seen.add(atom[1])
                if atom[1] in self.holders:
                    atom = self.holders[atom[1]]
                    continue
                if atom[1] in self.defs:
                    atom = self.defs[atom[1]]            # `const bool began = batch.TxnBegin(); if (began == false)`
                    continue
            return atom

    def refine(self, state, atom, pol):
        if is_expr(atom) and atom[0] == "b" and atom[1] in ("==", "!=") and len(atom) >= 4:
            for x, y in ((atom[2], atom[3]), (atom[3], atom[2])):
                if is_expr(y) and y[0] == "bool":          # `call == false`, `true != call`
                    return self.refine(state, x, pol == ((atom[1] == "==") == bool(y[1])))
        atom = self.resolve(atom)
        must, may = state
        k = self.kind(atom)
        if k == "begin":
            if pol:
                must = must | {"begin-ok"}
            else:
                may = may - {"open", "pending"}
        elif k == "commit":
            if pol:
                must = must | {"commit-ok"}
                may = may - {"pending"}
            else:
                may = may | {"commit-failed"}
        elif k == "use":
            may = may - {self.lab.get(id(atom))}
            if not pol:
                sid = self.sid.get(id(atom), "?")
                may = may | {"failed-unaborted", "failed:" + sid}
                if self.is_write(atom):
                    may = may | {"write-failed:" + sid}
        return (must, may)

    def on_exit(self, state, stmt):
        self.exits.append((state, stmt))


def exit_reports_failure(st):
    if st.get("k") == "throw":
        return True
    v = st.get("v")
    if st.get("k") != "ret" or not is_expr(v):
        return False                      # `return;` / falling off the end of a void function is success
    return bool(match(["bool", False], v)) or any(is_expr(x) and x[0] == "init" and x[1] == "util::Error" for x in subexprs(v))


def returns_bool(P):
    def f(e):
        q = callee(e)
        if e[0] == "opcall" and len(e) > 3 and is_expr(e[3]) and e[3][0] in ("param", "local"):
            return None       # decided by the caller from the declared type
        cands = P.funcs.get(q, [])
        return bool(cands) and all(c.d.get("ret") == "bool" for c in cands)
    return f


# ------------------------------------------------------------------------------------------------
def committed_step(P, e, B):
    """[] if the step call `e` (receiving batch B) resolves to wallet functions in which no failure edge of a write on the batch
    parameter reaches a normal return; otherwise a list of reasons."""
    if e is None or e[0] not in ("call", "mcall", "vcall") or not isinstance(e[1], str):
        return ["the step is not a call of a function of the analysed wallet units (its behaviour after a failed write is unknown)"]
    args = call_args(e)
    pos = [i for i, a in enumerate(args) if is_expr(a) and batch_key(undefarg(a)) == B]
    cands = [f for f in P.fns(e[1]) if f.body is not None]
    cands = [f for f in cands if len(f.params) == len(args)] or cands
    if not cands or len(pos) != 1:
        return ["the step's callee %s has no body in the analysed wallet units" % e[1]]
    out = []
    for f in cands:
        if pos[0] >= len(f.params) or "WalletBatch" not in f.params[pos[0]]["ty"]:
            out.append("%s: batch parameter not found" % f.q)
            continue
        fl = TxnFlow(f, P, show(["param", f.params[pos[0]]["n"]]), lambda x: False)
        fl.run()
        for (must, may), st in fl.exits:
            wf = sorted(x.split(":", 1)[1] for x in may if x.startswith("write-failed:"))
            if wf and st.get("k") != "throw":
                out.append("%s returns normally at line %s after the batch write %s failed" % (f.q, st.get("l"), ", ".join(wf)))
    return out


def bracket(ctx, P, clo, f, name, expect_uses=1):
    """All obligations of one explicit TxnBegin..TxnCommit bracket function. Returns the flow."""
    ctx.used(f)
    begins = sites(f, is_m(BEGIN), P)
    ctx.floor("%s TxnBegin calls" % name, len(begins), 1)
    keys = {batch_key(call_obj(s.expr)) for s in sites(f, lambda e: is_m(BEGIN)(e) or is_m(COMMIT)(e) or is_m(ABORT)(e), P)}
    ok = len(keys) == 1 and None not in keys
    ctx.ob("%s/one-batch" % name, "PROVENANCE", "in %s TxnBegin, TxnCommit and TxnAbort all operate on one and the same WalletBatch object" % name, ok, f.where,
           {"batch_expressions": sorted(str(k) for k in keys)})
    if not ok:
        return None
    B = keys.pop()
    # the batch variable is bound once (a re-seated pointer would be another batch)
    nm = B.split(".")[0]
    vals = [v for _, v in local_values(f, nm) if is_expr(v) and not match(["null"], v)]
    ptypes = {p["n"]: p["ty"] for p in f.params}
    # does the batch live on this function's stack (destroyed - and an open transaction rolled back - on every exit)?
    stack_batch = any(st.get("k") == "decl" and st.get("n") == nm and st.get("ty") == BATCH_CLASS for st in stmts(f.body))
    rb = returns_bool(P)

    def bool_call(e):
        r = rb(e)
        if r is None:
            ty = ptypes.get(e[3][1], "")
            return "function<bool" in ty.replace(" ", "")
        return r
    fl = TxnFlow(f, P, B, bool_call)
    fl.run()
    ev = fl.events
    uses = [(e, s, st) for k, e, s, st in ev if k == "use"]
    commits = [(e, s, st) for k, e, s, st in ev if k == "commit"]
    ctx.floor("%s uses of the batch (writes / callees receiving it)" % name, len(uses), expect_uses)
    ctx.floor("%s TxnCommit calls" % name, len(commits), 1)
    ctx.ob("%s/batch-bound-once" % name, "PROVENANCE", "the batch variable `%s` of %s is bound to one WalletBatch for the whole bracket (never re-seated to another batch)" % (nm, name),
           len(vals) <= 1, f.where, {"values": [show(v) for v in vals]} if len(vals) > 1 else None)
    W = lambda st: "%s:%s" % (f.file, st.get("l"))
    # (1) begin tested
    for e, (must, may), st in uses:
        ctx.ob("%s/use-after-begin-ok@L%s" % (name, st.get("l")), "ORDER", "in %s `%s` uses the batch only after TxnBegin returned true (a failed or unchecked TxnBegin leaves "
               "without writing)" % (name, show(e)[:70]), "begin-ok" in must, W(st))
        bad = sorted(x for x in may if x in ("committed", "aborted"))
        ctx.ob("%s/no-use-after-end@L%s" % (name, st.get("l")), "ORDER", "in %s `%s` is not reachable after TxnCommit/TxnAbort on the same batch (it would be written outside the "
               "transaction)" % (name, show(e)[:70]), not bad, W(st), {"may_have_happened_before": bad} if bad else None)
    for e, (must, may), st in commits:
        ctx.ob("%s/commit-after-begin-ok@L%s" % (name, st.get("l")), "ORDER", "in %s TxnCommit is reached only after TxnBegin returned true" % name, "begin-ok" in must, W(st))
        # a step whose false result (tested or not) can reach TxnCommit: its partial progress is committed by design, which is only
        # sound if the step never *returns* after one of its own batch writes failed (a storage failure must abandon the bracket)
        steps = sorted({x.split(":", 1)[1] for x in may if x.startswith("failed:") or x.startswith("unchecked:")})
        for sid in steps:
            bad = committed_step(P, fl.step.get(sid), B)
            ctx.ob("%s/commit-after-step:%s->commit@L%s" % (name, sid, st.get("l")), "ORDER", "in %s TxnCommit at line %s can be reached although the step `%s` returned false (its result "
                   "is untested or its failure edge continues to the commit): this is atomic only if the step is a callee of the wallet units in which no failed "
                   "write/erase on the batch leads to a normal return (a storage failure throws or aborts, so only logical failures - whose progress is kept on "
                   "purpose - are committed); otherwise a failed step must reach TxnAbort, never TxnCommit" % (name, st.get("l"), sid), bad == [], W(st),
                   {"problem": bad} if bad else None)
    # (3) exits.  `pending` = a transaction was begun and TxnCommit has not (yet) returned true on this path.
    for (must, may), st in fl.exits:
        k = st.get("k")
        fails = exit_reports_failure(st)
        if "pending" in may:
            ctx.ob("%s/success-needs-commit@L%s" % (name, st.get("l")), "ORDER", "%s leaves at line %s without reporting failure (throw / return false / error result) only if "
                   "TxnCommit returned true on every path on which TxnBegin may have succeeded" % (name, st.get("l")), fails, W(st))
        if "open" in may:
            ctx.ob("%s/closed-at-exit@L%s" % (name, st.get("l")), "ORDER", "%s does not leave at line %s with the transaction still open: every path from a successful TxnBegin passes "
                   "TxnCommit or TxnAbort or aborts the process (a failure exit may leave the roll-back to the destructor of a batch that lives on this function's stack)"
                   % (name, st.get("l")), stack_batch and fails, W(st))
        elif "failed-unaborted" in may:
            ctx.ob("%s/failure-aborted@L%s" % (name, st.get("l")), "ORDER", "at the exit of %s at line %s every failed step of the bracket has been followed by TxnAbort" % (name, st.get("l")),
                   False, W(st))
    # (2) nothing inside the bracket creates another batch
    region = [e for k, e, (must, may), st in ev if "begin-ok" in must and not ({"committed", "aborted"} & may) and k not in ("begin",)]
    direct = [(fresh_batch(e), W(st)) for k, e, (must, may), st in ev if fresh_batch(e) and "open" in may]
    found, nfun = clo.fresh_from(region, name)
    found = [(d, c) for d, c in found]
    ctx.ob("%s/no-second-batch" % name, "CALLGRAPH", "between TxnBegin and TxnCommit %s and everything it calls (closure over %d wallet functions) never constructs another "
           "WalletBatch / MakeBatch: all writes of the update go through the transaction's batch" % (name, nfun), not found and not direct, f.where,
           {"constructions": [{"what": d, "via": " > ".join(c)} for d, c in found[:6]] + [{"what": d, "at": w} for d, w in direct]} if (found or direct) else None)
    return fl


# ------------------------------------------------------------------------------------------------
def reports_failure(st, client_locals):
    if st.get("k") == "throw":
        return True
    v = st.get("v")
    if st.get("k") != "ret" or not is_expr(v):
        return False                      # `return;` / falling off the end of a void function is success
    if match(["bool", False], v):
        return True
    if any(is_expr(x) and x[0] == "init" and x[1] == "util::Error" for x in subexprs(v)):
        return True
    if is_call_to(RWT, v) or (v[0] == "local" and v[1] in client_locals):
        return True                       # the transaction's own result is handed on
    return False


class ClientFlow(PathEnds, Flow):
    """may-analysis: label 'txn-failed' on the false edge of the RunWithinTxn call."""

    def __init__(self, fn, P):
        super().__init__(fn, P)
        self.exits = []
        self.discarded = []
        self.calls = 0

    def join(self, a, b):
        return a | b

    def on_expr(self, state, e, stmt):
        if is_call_to(RWT, e):
            self.calls += 1
            if stmt.get("k") == "expr" and stmt.get("e") is e:
                self.discarded.append(stmt.get("l"))
            elif not (stmt.get("k") == "ret" and stmt.get("v") is e):
                state = state | {"untested"}
        return state

    def refine(self, state, atom, pol):
        if is_call_to(RWT, atom):
            state = state - {"untested"}
            if not pol:
                state = state | {"txn-failed"}
        return state

    def on_exit(self, state, stmt):
        self.exits.append((state, stmt))


def client(ctx, P, clo, f, name, lambda_uses):
    """A function that performs its update through RunWithinTxn(GetDatabase(), desc, lambda)."""
    ctx.used(f)
    calls = sites(f, call_to(RWT), P)
    ctx.floor("%s RunWithinTxn calls" % name, len(calls), 1)
    fl = ClientFlow(f, P)
    fl.run()
    ctx.ob("%s/result-used" % name, "PROVENANCE", "%s does not drop the bool result of RunWithinTxn" % name, not fl.discarded, f.where, {"lines": fl.discarded} if fl.discarded else None)
    holders = {st["n"] for st in stmts(f.body) if st.get("k") == "decl" and is_expr(st.get("i")) and is_call_to(RWT, st["i"])}
    for state, st in fl.exits:
        if "txn-failed" in state or "untested" in state:
            ok = reports_failure(st, holders)
            ctx.ob("%s/failure-propagates@L%s" % (name, st.get("l")), "ORDER", "an exit of %s reachable when RunWithinTxn returned false (or with its result untested) reports failure "
                   "(throw, false, util::Error, or the result itself)" % name, ok, "%s:%s" % (f.file, st.get("l")))
    n = 0
    # a procedure first bound to a name (`const auto proc = [&](WalletBatch& batch) {..};`) is the same procedure
    lam_defs = {st["n"]: st["i"] for st in stmts(f.body) if st.get("k") == "decl" and st.get("n") and is_expr(st.get("i")) and contains(["lambda"], st["i"]) and
                len(local_values(f, st["n"])) == 1}
    for s in calls:
        a = call_args(s.expr)
        lam = [x for x in subexprs(F.expand(a[2], lam_defs)) if x[0] == "lambda"] if len(a) == 3 else []
        okdb = len(a) == 3 and is_expr(a[0]) and a[0][0] in ("mcall", "vcall") and a[0][1].endswith("::GetDatabase") and match(["this"], a[0][2])
        ctx.ob("%s/own-database@L%s" % (name, s.line), "PROVENANCE", "%s runs the transaction on this wallet's own database" % name, okdb, s.where)
        if len(lam) != 1:
            raise AnalysisBroken("%s: RunWithinTxn's procedure is not a lambda written at the call site" % name)
        lf = P.fn(lam[0][1])
        ctx.used(lf)
        if len(lf.params) != 1 or "WalletBatch &" not in lf.params[0]["ty"]:
            raise AnalysisBroken("%s: unexpected lambda signature" % name)
        bp = show(["param", lf.params[0]["n"]])
        uses = [x for st, e in all_exprs(lf.body) for x in subexprs(e)
                if (x[0] in ("mcall", "vcall") and len(x) > 2 and batch_key(x[2]) == bp) or
                (isinstance(callee(x), str) and x[0] in ("call", "mcall", "vcall", "ctor") and any(batch_key(undefarg(y)) == bp for y in call_args(x) if is_expr(y)))]
        n += len(uses)
        ctx.ob("%s/lambda-writes-through-its-batch@L%s" % (name, s.line), "PROVENANCE", "the procedure %s hands to RunWithinTxn performs its writes through the batch it is given" % name,
               len(uses) >= lambda_uses, lf.where)
        # the procedure reports a failed step: on every path on which a write/erase on its batch or a callee receiving the batch failed
        # (tested false), it returns false or that step's own result - otherwise RunWithinTxn commits the partial update
        lfl = TxnFlow(lf, P, bp, lambda x: False)
        lfl.run()
        for (must, may), st in lfl.exits:
            failed = sorted(x.split(":", 1)[1] for x in may if x.startswith("failed:"))
            if not failed or st.get("k") == "throw":
                continue
            v = lfl.resolve(st.get("v")) if is_expr(st.get("v")) else None
            ok = bool(match(["bool", False], st.get("v"))) or (len(failed) == 1 and v is lfl.step.get(failed[0]))
            ctx.ob("%s/lambda-reports-failed-step@L%s" % (name, st.get("l")), "ORDER", "the procedure %s hands to RunWithinTxn returns false (or the failed step's own result) on every "
                   "path on which a step writing through its batch failed, so that RunWithinTxn aborts instead of committing a partial update" % name, ok,
                   "%s:%s" % (lf.file, st.get("l")), {"failed_steps": failed, "returns": show(st.get("v")) if is_expr(st.get("v")) else None})
        found, nfun = clo.fresh_from([e for st, e in all_exprs(lf.body)], name + "::lambda")
        ctx.ob("%s/no-second-batch@L%s" % (name, s.line), "CALLGRAPH", "the procedure %s runs inside RunWithinTxn and everything it calls (closure over %d wallet functions) never "
               "constructs another WalletBatch / MakeBatch" % (name, nfun), not found, lf.where,
               {"constructions": [{"what": d, "via": " > ".join(c)} for d, c in found[:6]]} if found else None)
    return n


# ------------------------------------------------------------------------------------------------
def check(ctx):
    P = ctx.program(UNITS)
    cg = callgraph.load_all()
    clo = Closure(P, cg)
    W = "wallet::CWallet::"
    # generic bracket
    rw = [f for f in P.fns(RWT)]
    inner = [f for f in rw if f.params and f.params[0]["ty"].endswith("WalletBatch &")]
    outer = [f for f in rw if f.params and f.params[0]["ty"].endswith("WalletDatabase &")]
    if len(inner) != 1 or len(outer) != 1:
        raise AnalysisBroken("RunWithinTxn: expected the batch-taking and the database-taking overload")
    fl = bracket(ctx, P, clo, inner[0], "RunWithinTxn")
    run_within_txn(ctx, P, inner[0], outer[0], fl)
    # explicit brackets
    bracket(ctx, P, clo, P.fn(W + "EncryptWallet"), "EncryptWallet")
    bracket(ctx, P, clo, P.fn("wallet::DescriptorScriptPubKeyMan::TopUp"), "DescriptorScriptPubKeyMan::TopUp")
    setup = P.fn(W + "SetupDescriptorScriptPubKeyMans", nparams=0)
    bracket(ctx, P, clo, setup, "SetupDescriptorScriptPubKeyMans(import)")
    # RunWithinTxn clients
    n = client(ctx, P, clo, setup, "SetupDescriptorScriptPubKeyMans", 1)
    n += client(ctx, P, clo, P.fn(W + "RemoveTxs", nparams=1), "RemoveTxs", 1)
    n += client(ctx, P, clo, P.fn(W + "DelAddressBook"), "DelAddressBook", 1)
    ctx.floor("batch uses inside the RunWithinTxn procedures", n, 3)
    locked_coins(ctx, P)


def run_within_txn(ctx, P, inner, outer, fl):
    name = "RunWithinTxn"
    fn_param = [p["n"] for p in inner.params if "function<bool" in p["ty"].replace(" ", "")]
    if len(fn_param) != 1:
        raise AnalysisBroken("RunWithinTxn: procedure parameter not found")
    if fl is not None:
        procs = [(e, s, st) for k, e, s, st in fl.events if k == "use" and e[0] == "opcall" and match(["param", fn_param[0]], e[3])]
        ctx.floor("RunWithinTxn func(batch) calls", len(procs), 1)
        others = [show(e)[:80] for k, e, s, st in fl.events if k == "use" and not (e[0] == "opcall" and match(["param", fn_param[0]], e[3]))]
        ctx.ob("RunWithinTxn/runs-the-procedure", "PROVENANCE", "inside its bracket RunWithinTxn runs exactly the caller's procedure on the bracket's batch", not others, inner.where,
               {"other_uses": others} if others else None)
        # func false -> abort + false is covered by failure-aborted / failure-not-success; make the false literal explicit
        for (must, may), st in fl.exits:
            if any(x.startswith("failed:") for x in may) or "commit-failed" in may or ("begin-ok" not in must and "open" not in may and "committed" not in may):
                okv = st.get("k") == "throw" or match(["bool", False], st.get("v"))
                ctx.ob("RunWithinTxn/false-on-failure@L%s" % st.get("l"), "ORDER", "RunWithinTxn returns false when TxnBegin failed, when the procedure returned false, or when TxnCommit "
                       "failed", okv, "%s:%s" % (inner.file, st.get("l")))
    ctx.used(outer)
    ex = exits(outer, P, {})
    calls = sites(outer, call_to(RWT), P)
    ok = False
    det = None
    if len(ex) == 1 and ex[0].kind == "ret" and len(calls) == 1 and ex[0].value is calls[0].expr:
        a = call_args(calls[0].expr)
        d = [st for st in stmts(outer.body) if st.get("k") == "decl" and is_expr(a[0]) and a[0][0] == "local" and st.get("n") == a[0][1]]
        det = [show(x) for x in a]
        ok = len(a) == 3 and len(d) == 1 and fresh_batch(d[0].get("i")) is not None and contains(["param", outer.params[0]["n"]], d[0]["i"]) and \
            match(["param", outer.params[2]["n"]], undefarg(a[2])) and d[0].get("ty") == BATCH_CLASS
    ctx.ob("RunWithinTxn(database)/wraps", "PROVENANCE", "RunWithinTxn(database, ..) creates one stack WalletBatch on that database, runs the batch-taking RunWithinTxn with the "
           "caller's procedure and returns its result unchanged", ok, outer.where, det)


# ------------------------------------------------------------------------------------------------ persistently locked coins
# "Everything a wallet records (.. persistently locked coins ..) is reloaded unchanged": the in-memory flag of m_locked_coins says whether a lockedutxo
# record exists, and UnlockCoin/UnlockAllCoins erase the record only when the flag is set.  Necessary conditions decided here:
#  (W) LockCoin reports success for a persistent request only through WriteLockedUTXO(coin);
#  (F) on the way to that write the map entry is *made* persistent by an overwriting store - emplace/insert/try_emplace leave an existing (in-memory) entry
#      untouched, after which unlocking skips EraseLockedUTXO and the coin is locked again after a restart;
#  (E) UnlockCoin / UnlockAllCoins erase the record of the coin they remove under no other condition than "present" / "flag set".
LOCKED = [".", ["this"], "wallet::CWallet::m_locked_coins"]
NON_OVERWRITING = ("emplace", "insert", "try_emplace", "emplace_hint")


def _map_op(e):
    return e[1].rsplit("::", 1)[-1] if is_expr(e) and e[0] == "mcall" and len(e) > 2 and e[2] == LOCKED else None


def locked_coins(ctx, P):
    W = "wallet::CWallet::"
    lock = ctx.used(P.fn(W + "LockCoin"))
    if len(lock.params) != 2:
        raise AnalysisBroken("CWallet::LockCoin does not take (coin, persist)")
    coin, persist = lock.params[0]["n"], lock.params[1]["n"]
    # (W)
    bad = []
    n_write = 0
    for e in exits(lock, P):
        if e.kind != "ret":
            continue
        v = e.value
        is_write = is_expr(v) and v[0] == "mcall" and v[1] == "wallet::WalletBatch::WriteLockedUTXO" and match(["param", coin], v[3] if len(v) > 3 else None)
        n_write += bool(is_write)
        if is_write or F.implies(e.formula, F.mk_not(F.atom(persist))):
            continue
        if match(["bool", False], v):
            continue
        bad.append((e.line, show(v), F.fshow(e.formula)))
    if not n_write:
        raise AnalysisBroken("CWallet::LockCoin: no `return batch.WriteLockedUTXO(<coin>)` exit found")
    ctx.ob("locked-coins/LockCoin/persist-writes", "MPT", "CWallet::LockCoin reports success for a persistent lock only as the result of WriteLockedUTXO(%s): every other "
           "non-failing exit implies !%s" % (coin, persist), not bad, lock.where, {"exits_without_write": bad})
    # (F) region = LockCoin + the CWallet helpers it calls with the coin
    region = [(lock, persist)]
    for _, x in all_exprs(lock.body):
        for c in subexprs(x):
            if is_expr(c) and c[0] == "mcall" and c[1].startswith(W) and match(["this"], c[2]) and any(match(["param", coin], a) for a in call_args(c)):
                for g in P.fns(c[1]):
                    args = call_args(c)
                    pi = [i for i, a in enumerate(args) if match(["param", persist], a)]
                    if pi and pi[0] < len(g.params):
                        region.append((ctx.used(g), g.params[pi[0]]["n"]))
    inserts, stores = [], []
    for g, pflag in region:
        refs = set()
        derived = set()     # locals / bindings initialised from an operation on m_locked_coins (iterator or emplace result)
        for st in stmts(g.body):
            if st.get("k") == "decl" and _map_op(st.get("i")) in NON_OVERWRITING + ("find", "lower_bound"):
                derived |= set(st.get("binds") or []) | ({st["n"]} if st.get("n") else set())
            if st.get("k") == "decl" and st.get("n") and st.get("ty", "").endswith("&") and is_expr(st.get("i")) and st["i"][0] == "idx" and st["i"][1] == LOCKED:
                refs.add(st["n"])       # `bool& flag = m_locked_coins[coin];`
        for sx in sites(g, lambda e: _map_op(e) is not None or (e[0] == "b" and e[1] in ("=", "|=")), P):
            e = sx.expr
            op = _map_op(e)
            if op in NON_OVERWRITING:
                inserts.append((g.q, sx.line, op))
            elif op == "insert_or_assign":
                stores.append((g, pflag, sx, call_args(e)[-1]))
            elif e[0] == "b":
                lhs = e[2]
                while is_expr(lhs) and lhs[0] == "cast":
                    lhs = lhs[2]
                to_entry = (is_expr(lhs) and lhs[0] == "idx" and lhs[1] == LOCKED) or (is_expr(lhs) and lhs[0] == "local" and lhs[1] in refs) or \
                           (is_expr(lhs) and lhs[0] == "." and lhs[2].endswith("::second") and is_expr(lhs[1]) and
                            ((lhs[1][0] == "local" and lhs[1][1] in derived) or (lhs[1][0] == "." and is_expr(lhs[1][1]) and lhs[1][1][0] == "local" and lhs[1][1][1] in derived)))
                if to_entry:
                    stores.append((g, pflag, sx, e[3]))
    good = []
    for g, pflag, sx, val in stores:
        sets_true = match(["bool", True], val) or match(["param", pflag], val) or (is_expr(val) and val[0] == "b" and val[1] in ("||", "|") and any(match(["param", pflag], o) for o in val[2:4]))
        reachable_when_persistent = not F.implies(sx.formula(), F.mk_not(F.atom(pflag)))
        if sets_true and reachable_when_persistent:
            good.append((g.q, sx.line, show(sx.expr)))
    if not inserts and not stores:
        raise AnalysisBroken("CWallet::LockCoin: no store into m_locked_coins found in LockCoin or the helpers it passes the coin to")
    ctx.ob("locked-coins/LockCoin/flag-made-persistent", "TYPESTATE", "locking a coin persistently sets the in-memory flag of its m_locked_coins entry by an overwriting store "
           "(operator[] / insert_or_assign / it->second = ..), also when an in-memory lock already exists: emplace/insert leave an existing entry untouched, "
           "UnlockCoin/UnlockAllCoins then skip EraseLockedUTXO and the coin is locked again after a restart", bool(good), lock.where,
           {"non_overwriting_inserts": inserts, "overwriting_stores_reachable_with_persist": good})
    # (E)
    for q, keyp in ((W + "UnlockCoin", True), (W + "UnlockAllCoins", False)):
        g = ctx.used(P.fn(q))
        nm = naming(g, P)
        ss = sites(g, call_to("wallet::WalletBatch::EraseLockedUTXO"), P)
        if not ss:
            ctx.ob("locked-coins/%s/erases-record" % q.rsplit("::", 1)[-1], "MPT", "%s erases the lockedutxo record of a persistently locked coin it unlocks" % q, False, g.where)
            continue
        for sx in ss:
            arg = F.expand(call_args(sx.expr)[0], nm)
            arg_ok = match(["param", g.params[0]["n"]], arg) if keyp else "m_locked_coins" in F.key(arg)
            atoms = sorted(F.atoms(sx.formula(nm)))
            foreign = [a for a in atoms if "m_locked_coins" not in a and a != "success" and not a.startswith("success#")]
            ctx.ob("locked-coins/%s/erases-record@L%s" % (q.rsplit("::", 1)[-1], sx.line), "GUARD", "%s erases the lockedutxo record of the coin it unlocks, conditioned only "
                   "on the entry being present / flagged persistent" % q, bool(arg_ok) and not foreign, sx.where, {"argument": show(arg), "guard_atoms": atoms})
