"""C60 Addresses, subnets and bans are matched exactly - ONLY the ban / discouragement clause (structural part; originally listed N/A)."""
import re

from sa.engine.api import *
from sa.engine import tsa

UNITS = ["banman.cpp"]
NET_UNITS = ["netaddress.cpp"]   # canonical CSubNet keys (separate program: keeps the banman facts as they were)
EXPLANATION = ("Of C60 only the last sentence (ban list and discouragement filter of BanMan) is decided, and only its shape. (1) IsBanned(CNetAddr) "
               "returns true exactly for `some entry of m_banned has now < nBanUntil && subnet.Match(addr)` (complete loop; every exit that may answer false lies "
               "after the whole scan or under m_banned.empty(); outside the scan only an unexpired entry found under CSubNet{addr} may answer true); "
               "IsBanned(CSubNet) returns true exactly for `find(subnet) != end && now < that entry's nBanUntil`. (2) Ban(CSubNet) stores under the key it "
               "was given exactly when the key is absent or the stored nBanUntil is smaller than the new one (two-sided; emplace/try_emplace/insert count as "
               "`stores only if absent`, a default CBanEntry has nBanUntil 0) and marks the list dirty; the CNetAddr overloads of Ban/Unban forward "
               "CSubNet(addr) and all arguments; Unban erases exactly the given key and reports whether something was erased; SweepBanned erases only the "
               "entry its test looked at and only if it is invalid or not unexpired; ClearBanned clears the list; every writer sets m_is_dirty; all "
               "sides read the same clock. (3) IsDiscouraged is m_discouraged.contains(addr bytes), Discourage inserts the same bytes; the writers of "
               "m_banned and m_discouraged are a frozen table of BanMan members. (4) m_banned / m_discouraged / m_is_dirty are GUARDED_BY(m_banned_mutex) "
               "and clang -Wthread-safety is clean on banman.cpp.")
ASSUMPTIONS = ["the expiry Ban computes is positive, so an absent key (default nBanUntil 0) counts as `smaller`; CSubNet{addr} covers addr",
               "CSubNet::Match / operator< / IsValid decide subnet membership and map keys correctly (the bit-level part of C60, not analysed)",
               "CRollingBloomFilter insert/contains have set semantics up to false positives and rolling capacity",
               "GetTime() is the node's (mockable) clock in seconds"]
LEVEL = "other"   # partial, structural claim (same level as C54): static obligations, not a proof
CLAIM = dict(
    category="other",
    technique="static analysis: accept-rule twins by truth table over canonical atoms (loop-shaped and lookup-shaped), guard implication on every ban-list "
              "write/erase, who-may-write table, argument provenance of forwarded overloads, clock symmetry, dirty-flag may-flow, clang-16 -Wthread-safety",
    text="Ban clause of C60, structural part: both IsBanned overloads answer `an entry covering the query exists and now < nBanUntil` and nothing else; an "
         "entry is only replaced by a longer ban, removed by Unban under exactly its key, by ClearBanned, or by the sweep when it is invalid or no longer "
         "unexpired; discouragement is a plain insert/contains pair on the same key bytes; only the listed BanMan members write the two containers, always "
         "under m_banned_mutex. A flipped or dropped expiry test, a sweep that removes live entries, an unconditional overwrite, a new writer or a missing "
         "lock is reported.",
    note="Decided: only the sentence 'A banned address or subnet is reported as banned exactly while an unexpired ban covering it exists, and a discouraged "
         "address is reported as discouraged until discouragement is cleared'. NOT decided (rest of C60): subnet prefix matching at the bit level, string "
         "and serialization round trips of addresses, rolling-bloom capacity/false positives, the arithmetic of nBanUntil (offset/epoch normalisation), "
         "banlist persistence. In this tree nothing ever clears m_discouraged (ClearBanned does not; banman.h documents that addresses cannot be unmarked), "
         "so 'until cleared' holds trivially; a reset() added to ClearBanned is accepted by the writer table. At now == nBanUntil the entry is reported "
         "unbanned but not yet swept (sweep uses now > nBanUntil): consistent with the clause.",
    ref="DESIGN.md §3 C60 (ban clause claimed partially after the design)")

B = "BanMan::"
M_BANNED, M_DISC, M_DIRTY = B + "m_banned", B + "m_discouraged", B + "m_is_dirty"
MAP_MUTATORS = {"erase", "clear", "insert", "emplace", "try_emplace", "insert_or_assign", "emplace_hint", "swap", "merge", "extract", "operator="}
FILTER_MUTATORS = {"insert", "reset", "operator="}
# frozen who-may-write tables: function -> kinds of write it may perform
BANNED_WRITERS = {B + "LoadBanlist": {"by-reference:CBanDB::Read", "assignment"}, B + "ClearBanned": {"clear", "assignment"},
                  B + "Ban": {"operator[]", "insert_or_assign", "try_emplace", "emplace", "insert"},
                  B + "Unban": {"erase"}, B + "SweepBanned": {"erase"}}
DISC_WRITERS = {B + "Discourage": {"insert"}, B + "ClearBanned": {"reset"}}


def short(q):
    return q.rsplit("::", 1)[-1] if isinstance(q, str) else ""


def full_subst(fn, P):
    """naming() plus every local that is declared once with an initialiser and never written afterwards (value copies such as
    `CBanEntry ban_entry = it.second;` stand for the expression they were copied from)."""
    names = [st["n"] for st in stmts(fn.body) if st.get("k") == "decl" and st.get("n") and not (st.get("m") or "").startswith("LOCK")]
    # allow_overwritten: SweepBanned copies (*it).first / (*it).second and advances `it` later in the same iteration; the rule itself
    # checks (untouched_before) that the iterator is not written between those copies and the erasure
    sub = dict(local_defs(fn, P, extra_ok=tuple(names), allow_overwritten=True))
    for k, v in naming(fn, P, allow_overwritten=True).items():
        sub.setdefault(k, v)
    # shadowed names are not substituted
    seen = {}
    for st in stmts(fn.body):
        if st.get("k") == "decl" and st.get("n"):
            seen[st["n"]] = seen.get(st["n"], 0) + 1
    for n, c in seen.items():
        if c > 1:
            sub.pop(n, None)
    return sub


def strip(e):
    while is_expr(e):
        if e[0] == "cast" and len(e) > 2:
            e = e[2]
        elif e[0] == "defarg":
            e = e[1]
        elif e[0] == "call" and e[1] in ("std::move", "std::as_const") and len(call_args(e)) == 1:
            e = call_args(e)[0]
        elif e[0] == "ctor" and e[1] in ("std::span", "Span") and len(e) == 3:
            e = e[2]
        else:
            break
    return e


def is_field(e, name):
    e = strip(e)
    return is_expr(e) and e[0] == "." and e[2] == name and match(["this"], e[1])


def anchor(ctx, name, found, minimum):
    """Instance floor; when the count dropped *and* a violation is already on record the verdict stays VIOLATION (the missing
    instance is explained by the reported change) and the caller skips the dependent obligations."""
    if found >= minimum or not any(o.ok is False for o in ctx.obs):
        ctx.floor(name, found, minimum)
        return True
    ctx.note("instance floor not met (%s: %d < %d) - explained by the reported violation(s)" % (name, found, minimum))
    ctx.floors.append((name, found, minimum))
    return False


def own_guards(site, kinds=("if", "sc", "loop", "case")):
    return [g for g in site.guards if g.kind in kinds]


def clock_terms(e, sub):
    """clock reads (calls without arguments whose name mentions Time/Now/now) inside e after expansion."""
    out = set()
    for x in subexprs(F.expand(e, sub)):
        if x[0] == "call" and not call_args(x) and re.search(r"(Time|Now|now)", x[1]):
            out.add(F.key(x))
    return out


def drop_done(f):
    """`done(loop@N)` (normal completion of an earlier loop, e.g. the do/while of a logging macro) carries no decision: read it as true."""
    t = f[0]
    if t == "atom":
        return F.T if re.fullmatch(r"done\(loop@\d+\)", f[1]) else f
    if t == "not":
        return F.mk_not(drop_done(f[1]))
    if t == "and":
        return F.mk_and([drop_done(x) for x in f[1]])
    if t == "or":
        return F.mk_or([drop_done(x) for x in f[1]])
    return f


def returns_formula(fn, P, sub):
    parts = []
    for e in exits(fn, P, sub):
        if e.kind != "ret" or not is_expr(e.value):
            raise AnalysisBroken("%s: unexpected exit kind in a predicate function" % fn.q)
        parts.append(F.mk_and([e.formula, F.to_formula(e.value, sub)]))
    return F.mk_or(parts)


def writes_local(e, name):
    for x in subexprs(e):
        if x[0] == "b" and x[1] in ASSIGN_OPS and match(["local", name], x[2]):
            return True
        if x[0] == "u" and x[1] in ("++", "--", "post++", "post--") and match(["local", name], x[2]):
            return True
    return False


def untouched_before(loop, site, name):
    for st in stmts(loop.get("b")):
        if st is site.stmt or st.get("l", 0) >= site.line:
            continue
        for _, e in stmt_exprs(st):
            if writes_local(e, name):
                return False
    return True


def entry_part(which):
    """regex for the key / value of the iterated m_banned entry (pair access or structured binding)."""
    return r"(each\(m_banned\)\.%s|bind%d\(each\(m_banned\)\))" % ("first" if which == 0 else "second", which)


# ------------------------------------------------------------------------------------------------------------------------------
def is_banned(ctx, P, clocks):
    fa = ctx.used(P.fn(B + "IsBanned", param_types=["CNetAddr"]))
    fs_ = ctx.used(P.fn(B + "IsBanned", param_types=["CSubNet"]))
    # ---- by address: exists-loop
    sub = full_subst(fa, P)
    a = fa.params[0]["n"]
    NOW = r"(?P<now>[\w:<>]+\(\))"
    atoms = {"UNEXPIRED": re.compile(r"%s < %s\.nBanUntil" % (NOW, entry_part(1))),
             "MATCH": re.compile(r"%s\.Match\(%s\)" % (entry_part(0), re.escape(a)))}
    ex = [e for e in exits(fa, P, sub) if e.kind == "ret"]
    scan = []
    for st in stmts(fa.body):
        if st.get("k") in ("foreach", "for", "while") and loop_range_key(st, sub) == "each(m_banned)" and not any(st is x for x in scan):
            scan.append(st)
    if not scan:
        raise AnalysisBroken("IsBanned(CNetAddr) has no loop over m_banned (algorithm call?): a form this rule cannot read")
    trues = [e for e in ex if not is_false_ret(e)]       # may answer true
    falses = [e for e in ex if not is_true_ret(e)]       # may answer false
    ctx.floor("IsBanned(CNetAddr): accepting exits", len(trues), 1)
    ctx.floor("IsBanned(CNetAddr): rejecting exits", len(falses), 1)
    for e in ex:
        v = strip(e.value) if is_expr(e.value) else None
        if is_expr(v) and v[0] == "local" and len(local_values(fa, v[1])) > 1:
            raise AnalysisBroken("IsBanned(CNetAddr) returns a flag variable that is assigned in several places: a form this rule cannot read")
    # single-host key built from the queried address: CSubNet{addr}
    HOST = r"CSubNet\{%s\}" % re.escape(a)
    HFIND = r"m_banned\.find\(%s\)" % HOST
    HVAL = r"(\(?\*?%s\)?\.second|m_banned\.at\(%s\))" % (HFIND, HOST)
    hatoms = {"FOUND": [(re.compile(r"(%s == m_banned\.end\(\)|m_banned\.end\(\) == %s)" % (HFIND, HFIND)), False), re.compile(r"m_banned\.contains\(%s\)" % HOST),
                        re.compile(r"m_banned\.count\(%s\)" % HOST)],
              "UNEXPIRED": re.compile(r"%s < %s\.nBanUntil" % (NOW, HVAL))}
    loops = []
    for e in trues:
        lp = [l for l in e.loops if any(l is x for x in scan)]
        if lp:
            # conditions inside the loop iteration (incl. `if (..) continue;` of earlier statements) and conditions outside the loop
            ing = [g for g in e.site.guards if g.kind in ("if", "sc", "loop", "case") or (g.kind in ("post", "assert") and g.line >= lp[0].get("l", 0))]
            f0 = drop_done(F.mk_and([g.formula(sub) for g in ing] + [F.to_formula(e.value, sub)]))
            fb, mp, un = F.bind_atoms(f0, atoms)
            ok = len(lp) == 1 and len(e.loops) == 1 and F.equivalent(fb, F.parse("UNEXPIRED && MATCH")) and not un
            ctx.ob("IsBanned(addr)/accept@L%s" % e.line, "LADDER", "IsBanned(CNetAddr) answers true exactly for an entry of m_banned with now < nBanUntil whose subnet matches the address "
                   "(inside one loop over all of m_banned, no further condition)", ok, "%s:%s" % (fa.file, e.line), {"condition": F.fshow(f0), "unbound": un})
            loops += lp
            tab = atoms
        else:
            # outside the scan: only a looked-up single-host entry for this very address may answer true, and only while unexpired
            f0 = drop_done(F.mk_and([e.formula, F.to_formula(e.value, sub)]))
            fb, mp, un = F.bind_atoms(f0, hatoms)
            cex = F.counterexample(fb, F.parse("FOUND && UNEXPIRED"))
            ctx.ob("IsBanned(addr)/accept-outside-scan@L%s" % e.line, "LADDER", "outside its scan IsBanned(CNetAddr) may answer true only for an entry found under the key CSubNet{addr} "
                   "whose nBanUntil is still in the future", cex is None, "%s:%s" % (fa.file, e.line), None if cex is None else {"condition": F.fshow(f0), "counterexample": cex})
            tab = hatoms
        for k in F.atoms(f0):
            m = tab["UNEXPIRED"].fullmatch(k)
            if m:
                clocks.setdefault(m.group("now"), []).append("IsBanned(CNetAddr)")
    for l in scan:
        body_exits = [x for x in stmts(l.get("b")) if x.get("k") in ("throw",)]
        ctx.ob("IsBanned(addr)/complete-loop@L%s" % l.get("l"), "LOOP", "the loop of IsBanned(CNetAddr) visits every entry (no break)", not has_break(l.get("b")) and not body_exits,
               "%s:%s" % (fa.file, l.get("l")))
    for e in falses:
        done = ["done(loop@%s)" % l.get("l") for l in scan]
        ok = any(F.implies(e.formula, F.atom(d)) for d in done) or F.implies(e.formula, F.atom("m_banned.empty()"))
        ctx.ob("IsBanned(addr)/reject@L%s" % e.line, "LADDER", "IsBanned(CNetAddr) can answer false only after the whole list was scanned (or the list is empty): a negative verdict "
               "must not be returned before all entries were looked at", ok, "%s:%s" % (fa.file, e.line), {"value": show(e.value) if is_expr(e.value) else None, "path_condition": F.fshow(e.formula)})
    # ---- by subnet: exact-key lookup
    ssub = full_subst(fs_, P)
    s = fs_.params[0]["n"]
    FIND = r"m_banned\.find\(%s\)" % re.escape(s)
    VAL = r"(\(?\*?%s\)?\.second|m_banned\.at\(%s\))" % (FIND, re.escape(s))
    satoms = {"FOUND": [(re.compile(r"(%s == m_banned\.end\(\)|m_banned\.end\(\) == %s)" % (FIND, FIND)), False), re.compile(r"m_banned\.contains\(%s\)" % re.escape(s)),
                        re.compile(r"m_banned\.count\(%s\)" % re.escape(s))],
              "UNEXPIRED": re.compile(r"%s < %s\.nBanUntil" % (NOW, VAL))}
    code = drop_done(returns_formula(fs_, P, ssub))
    fb, mp, un = F.bind_atoms(code, satoms)
    c1, c2 = F.counterexample(fb, F.parse("FOUND && UNEXPIRED")), F.counterexample(F.parse("FOUND && UNEXPIRED"), fb)
    ok = c1 is None and c2 is None and not un and set(mp.values()) == {"FOUND", "UNEXPIRED"}
    ctx.ob("IsBanned(subnet)/returns", "TWIN", "IsBanned(CSubNet) answers true exactly when the subnet itself is a key of m_banned and now < that entry's nBanUntil", ok, fs_.where,
           None if ok else {"code": F.fshow(code), "binding": mp, "unbound": un, "counterexample": c1 or c2})
    for k in F.atoms(code):
        m = satoms["UNEXPIRED"].fullmatch(k)
        if m:
            clocks.setdefault(m.group("now"), []).append("IsBanned(CSubNet)")


INSERT_ONLY = ("insert", "emplace", "try_emplace", "emplace_hint")


def entry_iterator_key(e, sub):
    """If e (expanded) is an iterator to the m_banned entry of some key - `find(k)`, `try_emplace(k, ..).first`, the first structured
    binding of such a call - return k, else None."""
    x = strip(F.expand(e, sub))
    if is_expr(x) and x[0] == "u" and x[1] == "*":
        x = strip(x[2])
    if is_expr(x) and (x[0] == "bind0" or (x[0] == "." and short(x[2]) == "first")):
        x = strip(x[1])
        if is_expr(x) and x[0] in ("mcall", "vcall") and short(x[1]) in INSERT_ONLY and is_field(x[2], M_BANNED):
            kv = insert_args(x)
            return kv[0] if kv else None
        return None
    if is_expr(x) and x[0] in ("mcall", "vcall") and short(x[1]) == "find" and is_field(x[2], M_BANNED) and call_args(x):
        return call_args(x)[0]
    return None


def insert_args(call):
    """(key, value) of an insert-only call on the map: (k, v) or one pair{k, v} / make_pair(k, v) argument."""
    a = [x for x in call_args(call)]
    if short(call[1]) == "emplace_hint":
        a = a[1:]
    if len(a) == 2:
        return a[0], a[1]
    if len(a) == 1:
        x = strip(a[0])
        if is_expr(x) and ((x[0] in ("ctor", "init") and len([y for y in x[2:] if is_expr(y)]) == 2) or (x[0] == "call" and short(x[1]) == "make_pair" and len(call_args(x)) == 2)):
            ys = [y for y in (x[2:] if x[0] != "call" else call_args(x)) if is_expr(y) and y[0] != "targs"]
            return ys[0], ys[1]
    return None


def entry_store(e, sub):
    """(kind, key, value, whole-entry?) if expression e stores into an entry of m_banned, else None."""
    is_slot = lambda t: is_expr(t) and t[0] == "idx" and is_field(t[1], M_BANNED)
    if e[0] == "b" and e[1] in ASSIGN_OPS and is_expr(e[2]):
        lhs = e[2]
        for whole, tgt in ((True, lhs), (False, lhs[1] if lhs[0] == "." and is_expr(lhs[1]) else None)):
            if tgt is None:
                continue
            if is_slot(tgt):
                return "always", tgt[2], e[3], whole
            if is_expr(tgt) and tgt[0] == "." and short(tgt[2]) == "second":
                k = entry_iterator_key(tgt[1], sub)
                if k is not None:
                    return "always", k, e[3], whole
        return None
    if e[0] in ("mcall", "vcall") and len(e) >= 3 and is_field(e[2], M_BANNED):
        if short(e[1]) == "insert_or_assign" and len(call_args(e)) >= 2:
            return "always", call_args(e)[0], call_args(e)[1], True
        if short(e[1]) in INSERT_ONLY:
            kv = insert_args(e)
            if kv is None:
                raise AnalysisBroken("Ban(CSubNet): %s on m_banned with arguments this rule cannot read" % short(e[1]))
            return "if-absent", kv[0], kv[1], True
    return None


def ban_stores(fn, P, sub):
    out = []
    for s in sites(fn, lambda e: entry_store(e, sub) is not None, P):
        out.append((s,) + entry_store(s.expr, sub))
    return out


def mutators(ctx, P, clocks):
    # ---- Ban(CSubNet)
    ban = ctx.used(P.fn(B + "Ban", param_types=["CSubNet"]))
    sub = full_subst(ban, P)
    key = ban.params[0]["n"]
    stores = ban_stores(ban, P, sub)
    ctx.floor("Ban(CSubNet): stores into m_banned", len(stores), 1)
    vks = []
    parts = []
    for s, kind, k, val, whole in stores:
        kk = F.key(F.expand(k, sub)) if is_expr(k) else None
        ctx.ob("Ban/stores-under-its-key@L%s" % s.line, "PROVENANCE", "Ban(CSubNet) stores the entry under exactly the subnet it was given", kk == key, s.where, {"key": kk})
        vk = F.key(F.expand(val, sub)) if is_expr(val) else None
        vks.append((vk, whole))
        parts.append(F.mk_and([s.formula(sub)] + ([F.atom("@absent")] if kind == "if-absent" else [])))
    vk, whole = vks[0]
    ctx.ob("Ban/stores-one-entry", "PROVENANCE", "every store of Ban(CSubNet) writes the same new entry", len(set(vks)) == 1 and vk is not None, ban.where, {"values": sorted({str(v) for v, _ in vks})})
    d0 = P.field("CBanEntry", "nBanUntil").get("i")
    ctx.ob("const/CBanEntry-default-nBanUntil", "CONST", "a default-constructed CBanEntry has nBanUntil 0 (so `absent key` counts as `stored expiry smaller than any new one`)",
           match(["int", 0], d0), None, {"initialiser": show(d0) if is_expr(d0) else None})
    KEY = re.escape(key)
    TE = r"m_banned\.(try_emplace|emplace|insert)\((std::pair\{|std::make_pair\()?%s, .*\)" % KEY
    EXIST = r"(m_banned\[%s\]|m_banned\.at\(%s\)|\(?\*?(bind0\(%s\)|%s\.first|m_banned\.find\(%s\))\)?\.second)" % (KEY, KEY, TE, TE, KEY)
    newuntil = (re.escape(vk) + r"\.nBanUntil" if whole else re.escape(vk)) if vk else "<none>"
    table = {"LONGER": re.compile(r"%s\.nBanUntil < %s" % (EXIST, newuntil)),
             "ABSENT": ["@absent", re.compile(r"(bind1\(%s\)|%s\.second)" % (TE, TE)), (re.compile(r"m_banned\.(contains|count)\(%s\)" % KEY), False),
                        re.compile(r"(m_banned\.find\(%s\) == m_banned\.end\(\)|m_banned\.end\(\) == m_banned\.find\(%s\))" % (KEY, KEY))]}
    stored = drop_done(F.mk_or(parts))
    fb, mp, un = F.bind_atoms(stored, table)
    axiom = F.parse("!ABSENT || LONGER")
    c1 = F.counterexample(F.mk_and([fb, axiom]), F.parse("LONGER"))
    ctx.ob("Ban/only-extends", "MPT", "Ban(CSubNet) stores the new entry only if the key is absent or the stored nBanUntil is smaller than the new one (an existing longer ban survives)",
           c1 is None, ban.where, None if c1 is None else {"stored_when": F.fshow(stored), "counterexample": c1})
    c2 = F.counterexample(F.mk_and([F.parse("LONGER"), axiom]), fb)
    ctx.ob("Ban/always-extends", "MPT", "Ban(CSubNet) does store the new entry whenever the key is absent or the stored nBanUntil is smaller (an expired entry that was not swept yet "
           "must not block a new ban)", c2 is None, ban.where, None if c2 is None else {"stored_when": F.fshow(stored), "unbound": un, "counterexample": c2})
    # the new expiry is computed from the clock
    us = sites(ban, lambda e: e[0] == "b" and e[1] == "=" and e[2][0] == "." and e[2][2] == "CBanEntry::nBanUntil", P)
    ctx.floor("Ban(CSubNet): nBanUntil assignments", len(us), 1)
    for s in us:
        for c in clock_terms(s.expr[3], sub):
            clocks.setdefault(c, []).append("Ban")
    # ---- forwarding overloads
    for name, nargs in (("Ban", 3), ("Unban", 1)):
        f = ctx.used(P.fn(B + name, param_types=["CNetAddr"]))
        fsub = full_subst(f, P)
        cs = [s for s in sites(f, call_to(B + name), P)]
        ctx.floor("%s(CNetAddr): forwarding call" % name, len(cs), 1)
        for s in cs:
            a = [F.key(F.expand(x, fsub)) for x in call_args(s.expr)]
            want = ["CSubNet{%s}" % f.params[0]["n"]] + [p["n"] for p in f.params[1:]]
            ok = a == want and not own_guards(s)
            if name == "Unban":
                ex = [e for e in exits(f, P, fsub) if e.kind == "ret"]
                ok = ok and len(ex) == 1 and F.key(F.expand(ex[0].value, fsub)) == F.key(F.expand(s.expr, fsub))
            ctx.ob("%s(addr)/forwards@L%s" % (name, s.line), "PROVENANCE", "%s(CNetAddr) is %s(CSubNet(addr)%s) with every argument passed on unchanged" % (name, name, ", ..." if nargs > 1 else ""),
                   ok, s.where, {"arguments": a})
    # ---- Unban(CSubNet)
    un_ = ctx.used(P.fn(B + "Unban", param_types=["CSubNet"]))
    usub = full_subst(un_, P)
    uk = un_.params[0]["n"]
    es = sites(un_, lambda e: e[0] in ("mcall", "vcall") and short(e[1]) in ("erase", "extract") and is_field(e[2], M_BANNED), P)
    ctx.floor("Unban(CSubNet): erase", len(es), 1)
    for s in es:
        a = [F.key(F.expand(x, usub)) for x in call_args(s.expr)]
        ctx.ob("Unban/erases-its-key@L%s" % s.line, "PROVENANCE", "Unban(CSubNet) erases exactly the key it was given (one erase, unconditional)", a == [uk] and len(es) == 1 and not own_guards(s),
               s.where, {"arguments": a})
    ERASED = {"ERASED": [re.compile(r"m_banned\.erase\(%s\)" % re.escape(uk)), (re.compile(r"m_banned\.erase\(%s\) == 0" % re.escape(uk)), False),
                         (re.compile(r"m_banned\.erase\(%s\) < 1" % re.escape(uk)), False)]}
    code = drop_done(returns_formula(un_, P, usub))
    fb, mp, unb = F.bind_atoms(code, ERASED)
    ok = F.equivalent(fb, F.parse("ERASED")) and set(mp.values()) == {"ERASED"}
    ctx.ob("Unban/returns", "TWIN", "Unban(CSubNet) reports true exactly when an entry was erased", ok, un_.where, None if ok else {"code": F.fshow(code), "unbound": unb})
    # ---- SweepBanned
    sw = ctx.used(P.fn(B + "SweepBanned"))
    wsub = full_subst(sw, P)
    es = sites(sw, lambda e: e[0] in ("mcall", "vcall") and short(e[1]) in ("erase", "extract") and is_field(e[2], M_BANNED), P)
    ctx.floor("SweepBanned: erase", len(es), 1)
    for s in es:
        a = call_args(s.expr)
        it = strip(a[0]) if len(a) == 1 else None
        if is_expr(it) and it[0] == "u" and it[1] == "post++":
            it = strip(it[2])
        if not (is_expr(it) and it[0] == "local" and s.loops):
            ctx.ob("SweepBanned/erases-tested-entry@L%s" % s.line, "LOOP", "SweepBanned erases the entry its iterator points at, inside its scan loop", False, s.where, {"argument": show(s.expr)})
            continue
        n = re.escape(it[1])
        E1, E0 = r"\(?\*?%s\)?\.second" % n, r"\(?\*?%s\)?\.first" % n
        NOW = r"(?P<now>[\w:<>]+\(\))"
        atoms = {"VALID": re.compile(r"%s\.IsValid\(\)" % E0), "UNEXPIRED": re.compile(r"%s < %s\.nBanUntil" % (NOW, E1)), "EXPIRED": re.compile(r"%s\.nBanUntil < %s" % (E1, NOW))}
        loop = s.loops[-1]
        inner = [g for g in s.guards if g.kind in ("if", "sc", "loop", "case") and g.line >= loop.get("l", 0)]
        f0 = F.mk_and([g.formula(wsub) for g in inner])
        fb, mp, unb = F.bind_atoms(f0, atoms)
        axiom = F.parse("!(UNEXPIRED && EXPIRED)")
        cex = F.counterexample(F.mk_and([fb, axiom]), F.parse("!VALID || !UNEXPIRED"))
        ok = cex is None and untouched_before(loop, s, it[1])
        ctx.ob("SweepBanned/erases-only-dead-entries@L%s" % s.line, "MPT", "SweepBanned erases an entry only if its subnet is invalid or it is not unexpired (now < nBanUntil is false), and "
               "the erased entry is the one that was tested", ok, s.where, None if ok else {"guard": F.fshow(f0), "counterexample": cex})
        for k in F.atoms(f0):
            for nm in ("UNEXPIRED", "EXPIRED"):
                m = atoms[nm].fullmatch(k)
                if m:
                    clocks.setdefault(m.group("now"), []).append("SweepBanned")
    # ---- ClearBanned
    cl = ctx.used(P.fn(B + "ClearBanned"))
    cs = sites(cl, lambda e: (e[0] in ("mcall", "vcall") and short(e[1]) == "clear" and is_field(e[2], M_BANNED)) or
               (e[0] == "b" and e[1] == "=" and is_field(e[2], M_BANNED) and not [x for x in subexprs(e[3]) if x[0] in ("local", "param", ".")]), P)
    ok = any(not own_guards(s) and not s.loops for s in cs)
    ctx.ob("ClearBanned/clears", "EFFECT", "ClearBanned empties m_banned unconditionally", ok, cl.where)


def discouragement(ctx, P):
    isd = ctx.used(P.fn(B + "IsDiscouraged"))
    dis = ctx.used(P.fn(B + "Discourage"))
    isub, dsub = full_subst(isd, P), full_subst(dis, P)
    ex = [e for e in exits(isd, P, isub) if e.kind == "ret"]
    want = "m_discouraged.contains(%s.GetAddrBytes())" % isd.params[0]["n"]

    def norm(e, sub):
        return F.key(replace_spans(F.expand(e, sub)))
    ok = len(ex) == 1 and is_expr(ex[0].value) and norm(ex[0].value, isub) == want and not [g for g in ex[0].site.guards if g.kind in ("if", "sc", "loop", "case")]
    ctx.ob("IsDiscouraged/returns", "TWIN", "IsDiscouraged(addr) is exactly m_discouraged.contains(addr.GetAddrBytes())", ok, isd.where,
           {"value": [norm(e.value, isub) for e in ex if is_expr(e.value)]})
    ins = sites(dis, lambda e: e[0] in ("mcall", "vcall") and short(e[1]) == "insert" and is_field(e[2], M_DISC), P)
    ctx.floor("Discourage: insert", len(ins), 1)
    for s in ins:
        a = [norm(x, dsub) for x in call_args(s.expr)]
        ok = a == ["%s.GetAddrBytes()" % dis.params[0]["n"]] and not own_guards(s) and not s.loops
        ctx.ob("Discourage/inserts@L%s" % s.line, "SYMMETRY", "Discourage(addr) unconditionally inserts addr.GetAddrBytes() - the same key IsDiscouraged looks up", ok, s.where, {"arguments": a})


def replace_spans(e):
    if not is_expr(e):
        return e
    e = strip(e)
    if not is_expr(e):
        return e
    return [e[0]] + [replace_spans(x) if is_expr(x) else x for x in e[1:]]


def who_writes(ctx, P):
    found_b, found_d = [], []
    nfn = 0
    for q, fl in P.funcs.items():
        for g in fl:
            if g.body is None or not (g.file.endswith("/banman.cpp") or g.file.endswith("/banman.h")):
                continue
            nfn += 1
            g.simp()
            owner = g.q if not re.search(r"lambda", g.q) else g.q
            for st, e in all_exprs(g.body):
                for x in subexprs(e):
                    if x[0] in ("mcall", "vcall") and len(x) >= 3 and is_field(x[2], M_BANNED) and short(x[1]) in MAP_MUTATORS:
                        found_b.append((owner, st.get("l"), short(x[1])))
                    elif x[0] == "idx" and is_field(x[1], M_BANNED):
                        found_b.append((owner, st.get("l"), "operator[]"))
                    elif x[0] == "b" and x[1] in ASSIGN_OPS and is_field(x[2], M_BANNED):
                        found_b.append((owner, st.get("l"), "assignment"))
                    elif x[0] in ("mcall", "vcall", "call") and any(is_field(a, M_BANNED) for a in call_args(x)):
                        cq = callee(x) or "?"
                        cands = P.funcs.get(cq, [])
                        byref = not cands
                        for c in cands:
                            for i, a in enumerate(call_args(x)):
                                if is_field(a, M_BANNED) and i < len(c.params):
                                    ty = c.params[i]["ty"]
                                    if ty.endswith("&") and not ty.startswith("const "):
                                        byref = True
                        if cq.startswith("std::"):
                            byref = short(cq) in ("swap", "merge", "exchange", "move", "insert_range") or (short(cq) == "operator=" and x[0] == "call")
                        if byref:
                            found_b.append((owner, st.get("l"), "by-reference:%s" % cq))
                    if x[0] in ("mcall", "vcall") and len(x) >= 3 and is_field(x[2], M_DISC) and short(x[1]) in FILTER_MUTATORS:
                        found_d.append((owner, st.get("l"), short(x[1])))
                    elif x[0] == "b" and x[1] in ASSIGN_OPS and is_field(x[2], M_DISC):
                        found_d.append((owner, st.get("l"), "assignment"))
    ctx.floor("BanMan functions scanned", nfn, 14)
    anchor(ctx, "functions writing m_banned", len({q for q, _, _ in found_b}), 5)
    anchor(ctx, "writes of m_discouraged", len(found_d), 1)
    for table, found, what in ((BANNED_WRITERS, found_b, "m_banned"), (DISC_WRITERS, found_d, "m_discouraged")):
        bad = sorted({(q, l, k) for q, l, k in found if k not in table.get(q, ())})
        ctx.ob("who-writes/%s" % what, "WHO-MAY-WRITE", "%s is modified only by %s" % (what, ", ".join("%s (%s)" % (short(k), "/".join(sorted(v))) for k, v in sorted(table.items()))),
               not bad, None, {"writes": sorted(set(found)), "unexpected": bad})
    return found_b


class DirtyFlow(Flow):
    """Path-sensitive pairs (list changed and not yet flushed, dirty flag set): state = set of possible pairs."""

    def __init__(self, fn, P, changes, dirty_set, flush, nothing_changed):
        super().__init__(fn, P)
        self.changes, self.dirty_set, self.flush, self.nothing_changed = changes, dirty_set, flush, nothing_changed
        self.n_changes = 0
        self.bad_exits = []

    def initial(self):
        return frozenset({(False, False)})

    def join(self, a, b):
        return a | b

    def on_expr(self, state, e, stmt):
        if self.flush(e):
            # DumpBanlist writes (and clears the flag) only when the flag is set; an unflagged change stays unflushed
            return frozenset((False, False) if d else (c, d) for c, d in state)
        if self.changes(e):
            self.n_changes += 1
            state = frozenset((True, d) for c, d in state)
        if self.dirty_set(e):
            state = frozenset((c, True) for c, d in state)
        return state

    def refine(self, state, atom, pol):
        if self.nothing_changed(atom, pol):
            return frozenset((False, d) for c, d in state)
        return state

    def on_exit(self, state, stmt):
        if (True, False) in state:
            self.bad_exits.append(stmt.get("l"))


def dirty_flag(ctx, P):
    """A change of m_banned and `m_is_dirty = true` go together on every path (either order, inside the function) unless DumpBanlist()
    already wrote the list - so the change reaches disk."""
    is_dirty_set = lambda e: e[0] == "b" and e[1] == "=" and is_field(e[2], M_DIRTY) and match(["bool", True], e[3])
    flush = lambda e: is_call_to(B + "DumpBanlist", e)
    for q, pt in ((B + "Ban", ["CSubNet"]), (B + "Unban", ["CSubNet"]), (B + "SweepBanned", None), (B + "ClearBanned", None)):
        f = P.fn(q, param_types=pt) if pt else P.fn(q)
        sub = full_subst(f, P)
        changes = lambda e, sub=sub: (e[0] in ("mcall", "vcall") and short(e[1]) in ("erase", "clear") and is_field(e[2], M_BANNED)) or \
            (e[0] == "b" and e[1] in ASSIGN_OPS and is_field(e[2], M_BANNED)) or (e[0] in ("b", "mcall", "vcall") and entry_store(e, sub) is not None)

        def nothing_erased(atom, pol, sub=sub):
            a = strip(F.expand(atom, sub))
            if not pol:
                # `inserted` of try_emplace / emplace / insert is false: nothing was stored
                if is_expr(a) and (a[0] == "bind1" or (a[0] == "." and short(a[2]) == "second")):
                    c = strip(a[1])
                    return is_expr(c) and c[0] in ("mcall", "vcall") and short(c[1]) in INSERT_ONLY and is_field(c[2], M_BANNED)
                return False
            return is_expr(a) and a[0] == "b" and a[1] == "==" and any(is_expr(x) and x[0] in ("mcall", "vcall") and short(x[1]) == "erase" and is_field(x[2], M_BANNED) for x in a[2:4]) \
                and any(match(["int", 0], x) for x in a[2:4])
        df = DirtyFlow(f, P, changes, is_dirty_set, flush, nothing_erased)
        df.run()
        anchor(ctx, "%s: changes of m_banned" % short(q), df.n_changes, 1)
        ctx.ob("%s/marks-dirty" % short(q), "ORDER", "%s sets m_is_dirty on every path on which it changed m_banned" % short(q), not df.bad_exits, f.where, {"exits_without_dirty": df.bad_exits})


def check(ctx):
    P = ctx.program(UNITS)
    clocks = {}
    is_banned(ctx, P, clocks)
    mutators(ctx, P, clocks)
    users = sorted({u for v in clocks.values() for u in v})
    ok = len(clocks) == 1 and {"IsBanned(CNetAddr)", "IsBanned(CSubNet)", "SweepBanned", "Ban"} <= set(users)
    ctx.ob("clock/symmetry", "SYMMETRY", "the expiry written by Ban and the expiry tests of both IsBanned overloads and of SweepBanned read one and the same clock function",
           ok, None, {"clocks": {k: sorted(set(v)) for k, v in clocks.items()}})
    discouragement(ctx, P)
    who_writes(ctx, P)
    dirty_flag(ctx, P)
    # ---- lock discipline
    for fld in ("m_banned", "m_discouraged", "m_is_dirty"):
        tsa.guarded_by(ctx, P, "BanMan", fld, "m_banned_mutex")
    sw = P.fn(B + "SweepBanned")
    tsa.fn_requires(ctx, sw, r"requires_capability\(\s*(this->)?m_banned_mutex\s*\)", text="SweepBanned requires its caller to hold m_banned_mutex")
    tsa.check_units(ctx, UNITS)
    canonical_subnet_mask(ctx, ctx.program(NET_UNITS))


# ------------------------------------------------------------------------------------------------ canonical subnet keys
# banmap_t is keyed by CSubNet, whose operator== / operator< compare the WHOLE netmask array.  Two spellings of one subnet (built from an address, parsed from
# "a.b.c.d/32", reloaded from banlist.json) are the same key only if every constructor leaves the mask bytes beyond the address size zero.  Decided: as long as the
# comparisons cover the whole array, every block write (memset with a non-zero fill / memcpy) into `netmask` by a constructor is bounded by an `m_addr.size()`
# term, never by a constant larger than the IPv4 address size (seeded change C60w).  Indexed stores (the prefix-length constructor) are not decided here.
NETMASK = [".", ["this"], "CSubNet::netmask"]


def canonical_subnet_mask(ctx, P):
    whole = []
    for op in ("operator==", "operator<"):
        for f in P.funcs.get(op, []):
            if [p["ty"] for p in f.params] != ["const CSubNet &", "const CSubNet &"]:
                continue
            ctx.used(f)
            for _, e in all_exprs(f.body):
                for x in subexprs(e):
                    if is_expr(x) and x[0] == "call" and x[1] == "memcmp" and len(x) == 5 and all(is_expr(a) and a[0] == "." and a[2] == "CSubNet::netmask" for a in x[2:4]):
                        whole.append((op, x[4]))
    if len(whole) < 2:
        raise AnalysisBroken("C60: CSubNet operator== / operator< no longer compare the netmask arrays with memcmp (unknown idiom)")
    full = all(is_expr(n) and n[0] == "int" and int(n[1]) == 16 for _, n in whole)
    ctx.note("CSubNet comparisons cover the whole 16-byte netmask: %s" % full)
    n = 0
    for f in P.funcs.get("CSubNet::CSubNet", []):
        for sx in sites(f, lambda e: is_expr(e) and e[0] == "call" and e[1] in ("memset", "memcpy") and len(e) == 5 and e[2] == NETMASK, P):
            x = sx.expr
            if x[1] == "memset" and match(["int", 0], x[3]):
                continue                                   # zeroing the whole array is what makes the tail canonical
            ctx.used(f)
            n += 1
            ln = x[4]
            while is_expr(ln) and ln[0] == "cast":
                ln = ln[2]
            by_addr = is_expr(ln) and ln[0] == "mcall" and ln[1].endswith("::size") and is_expr(ln[2]) and ln[2][0] == "." and ln[2][2] == "CNetAddr::m_addr"
            const = int(ln[1]) if is_expr(ln) and ln[0] == "int" else None
            if not by_addr and const is None:
                raise AnalysisBroken("C60: %s into CSubNet::netmask at %s has a length of unknown shape: %s" % (x[1], sx.where, show(ln)))
            ok = by_addr or const <= 4 or not full
            ctx.ob("CSubNet/canonical-mask/%s@L%s" % (x[1], sx.line), "BOUNDED-WRITE", "a CSubNet constructor fills netmask only up to the size of the network address "
                   "(bytes beyond it stay zero): operator== and operator< compare all 16 bytes, so an IPv4 subnet with a longer mask would be a different ban-list key than "
                   "the same subnet parsed from its string", ok, sx.where, {"length": show(ln)})
    ctx.floor("block writes into CSubNet::netmask", n, 2)
