"""C53 Soft-fork deployment states follow BIP9 (DESIGN §3 C53)."""
import re

from sa.engine.api import *

UNITS = ["versionbits.cpp"]
EXPLANATION = ("TABLE/EXHAUST rule on AbstractThresholdConditionChecker::GetStateFor: the switch over the previous period's state is extracted "
               "as a transition table {from-state -> {to-state -> guard}} (guards as truth tables over canonical atoms, counted from the "
               "switch inwards) and must EQUAL the BIP9+min_activation_height table: DEFINED->STARTED iff MTP >= start; STARTED->LOCKED_IN "
               "iff count >= threshold, STARTED->FAILED iff count < threshold and MTP >= timeout (lock-in takes precedence); LOCKED_IN->ACTIVE "
               "iff height+1 >= min_activation_height; ACTIVE and FAILED have no outgoing transition; every ThresholdState enumerator has a case. "
               "The next state is written only inside the switch, the value cached and carried to the next period is that next state, the "
               "function returns the carried state. ALWAYS_ACTIVE / NEVER_ACTIVE short-circuit before anything else. The queried block is "
               "first moved to the last block of the previous period (h - ((h+1) % period)) or is null before the cache is touched, every "
               "other step moves by exactly one period, DEFINED is cached directly only for the null block or MTP < start. The signalling "
               "count is 0 plus one per block satisfying Condition over exactly `period` consecutive ancestors starting at the period's last block. "
               "Predicate twin of the signalling condition the loop dispatches to (VersionBitsConditionChecker in versionbits_impl.h): "
               "Condition(block) == Condition(block->nVersion); Condition(v) is true exactly when (v & VERSIONBITS_TOP_MASK) == VERSIONBITS_TOP_BITS and "
               "(v & Mask()) != 0; Mask() == 1 << dep.bit; TOP_MASK == 0xE0000000, TOP_BITS == 0x20000000.")
ASSUMPTIONS = ["Period/Threshold/BeginTime/EndTime/MinActivationHeight are pure accessors (opaque atoms)",
               "CBlockIndex::GetAncestor/GetMedianTimePast/pprev navigate the block tree correctly (C54, not claimed)",
               "std::map/vector semantics of the cache and the work list"]
CLAIM = dict(
    technique="static analysis: EXACT transition-table extraction from the switch (truth tables over canonical guard atoms), enumerator exhaustiveness, "
              "must-precede dataflow for period alignment, counting-loop shape",
    text="Decides, for every path through GetStateFor, that one period step applies exactly the BIP9 transition relation (with lock-in tested before "
         "timeout and min_activation_height gating ACTIVE), that ACTIVE/FAILED are absorbing, that always/never-active deployments short-circuit, "
         "that the state is computed for the period boundary block (so it is the same for all blocks of a period), and that the threshold is "
         "compared with a count over exactly one period of ancestors of blocks whose version has top bits 001 and the deployment bit set. Unit tests run specific scenarios; this covers every state/guard combination.",
    note="Not decided: cache-independence over query orders as a behavioural fact (only: the cache is keyed by the period-boundary block and every "
         "value stored is either the computed next state or DEFINED under the start-time/genesis guard); GetStateSinceHeightFor/GetStateStatisticsFor; "
         "block-tree navigation (GetAncestor, MTP).",
    ref="DESIGN.md §3 C53")

FN = "AbstractThresholdConditionChecker::GetStateFor"
A = "AbstractThresholdConditionChecker::"
MTP = r"pindexPrev\.GetMedianTimePast\(\)"
ATOMS = {
    "BEFORE_START": re.compile(MTP + r" < " + A + r"BeginTime\(\)$"),
    "BEFORE_TIMEOUT": re.compile(MTP + r" < " + A + r"EndTime\(\)$"),
    "BELOW_THRESHOLD": re.compile(r"^\w+ < " + A + r"Threshold\(\)$"),
    "BELOW_MINHEIGHT": [re.compile(r"^1 \+ pindexPrev\.nHeight < " + A + r"MinActivationHeight\(\)$"),
                        re.compile(r"^pindexPrev\.nHeight \+ 1 < " + A + r"MinActivationHeight\(\)$")],
    # post-conditions of the counting loop (always true where they appear)
    "LOOPDONE": re.compile(r"^done\(loop@\d+\)$"),
    "INLOOP": re.compile(r"^\w+ < " + A + r"Period\(\)$"),
}
# spec[from][to] = guard
SPEC = {
    "DEFINED": {"STARTED": "!BEFORE_START"},
    "STARTED": {"LOCKED_IN": "!BELOW_THRESHOLD", "FAILED": "BELOW_THRESHOLD && !BEFORE_TIMEOUT"},
    "LOCKED_IN": {"ACTIVE": "!BELOW_MINHEIGHT"},
    "ACTIVE": {},
    "FAILED": {},
}
TS = "ThresholdState::"


def _is_enum(e, prefix=TS):
    return is_expr(e) and e[0] == "enum" and str(e[1]).startswith(prefix)


def check(ctx):
    P = ctx.program(UNITS)
    f = ctx.used(P.fn(FN))
    subst = naming(f, P)
    transition_table(ctx, P, f, subst)
    short_circuits(ctx, P, f, subst)
    alignment(ctx, P, f, subst)
    counting(ctx, P, f, subst)
    signalling_condition(ctx, P)


# ------------------------------------------------------------------------------------------------
def transition_table(ctx, P, f, subst):
    sw = [st for st in stmts(f.body) if st.get("k") == "switch"]
    if len(sw) != 1:
        raise AnalysisBroken("%s: expected exactly one switch, found %d" % (FN, len(sw)))
    sw = sw[0]
    where = "%s:%s" % (f.file, sw.get("l"))
    if not match(["local", ANY], sw.get("c")):
        raise AnalysisBroken("%s: the switch does not test a local state variable" % FN)
    state_var = sw["c"][1]
    cases = {show(it.get("v")) for it in sw.get("s", []) if it.get("k") == "case"}
    has_default = any(it.get("k") == "default" for it in sw.get("s", []))
    names = [v[0] for v in P.enum("ThresholdState")["values"]]
    ctx.ob("GetStateFor/exhaustive", "EXHAUST", "the state switch of GetStateFor has an explicit case for every ThresholdState enumerator, no default, "
           "and the spec table covers exactly these states", set(names) == set(SPEC) and cases == {TS + n for n in names} and not has_default,
           where, {"enumerators": names, "cases": sorted(cases)})

    # the variable holding the next state: the one assigned enum constants inside the switch
    writes = sites(f, lambda e: match(["b", "=", ["local", ANY], _is_enum], e), P)
    nvars = {s.expr[2][1] for s in writes}
    if len(nvars) != 1:
        raise AnalysisBroken("%s: cannot identify the next-state variable (%s)" % (FN, sorted(nvars)))
    nv = nvars.pop()
    table = {n: {} for n in names}
    outside = []
    for s in writes:
        idx = [i for i, g in enumerate(s.guards) if g.kind == "case" and show(g.expr) == state_var]
        if len(idx) != 1:
            outside.append(s.line)
            continue
        g = s.guards[idx[0]]
        inner = F.mk_and([x.formula(subst) for x in s.guards[idx[0] + 1:]])
        to = s.expr[3][1][len(TS):]
        for v in g.vals:
            if v == "default":
                raise AnalysisBroken("%s: default case carries a transition" % FN)
            frm = show(v)[len(TS):]
            table.setdefault(frm, {})
            table[frm][to] = F.mk_or([table[frm].get(to, F.Fa), inner])
    ctx.floor("GetStateFor transitions", sum(len(v) for v in table.values()), 4)
    ctx.ob("GetStateFor/next-state-only-in-switch", "TABLE", "the next-state variable `%s` is given a state constant only inside a case of the state switch" % nv,
           not outside, where, {"lines": outside} if outside else None)
    # all other writes of the next-state variable: its initialisation from the current state
    vals = local_values(f, nv)
    other = [(l, show(v)) for l, v in vals if not _is_enum(v)]
    ok = len(other) == 1 and other[0][1] == state_var
    decl_in_loop = [st for st in stmts(sw_parent_loop(f, sw).get("b")) if st.get("k") == "decl" and st.get("n") == nv]
    ctx.ob("GetStateFor/default-stay", "TABLE", "without a transition the next state equals the current state (`%s` starts each period step as `%s`, "
           "re-initialised inside the period loop)" % (nv, state_var), ok and len(decl_in_loop) == 1, where, {"other_values": other})

    for frm in names:
        spec = SPEC.get(frm, {})
        code = table.get(frm, {})
        for to in sorted(set(spec) | set(code)):
            cf = code.get(to, F.Fa)
            bf, mapping, unbound = F.bind_atoms(cf, ATOMS)
            sf = F.parse(spec.get(to, "false")) if to in spec else F.Fa
            always = F.parse("LOOPDONE && !INLOOP")
            c1 = F.counterexample(bf, sf)
            c2 = F.counterexample(F.mk_and([sf, always]), bf)
            ok = c1 is None and c2 is None
            ctx.ob("GetStateFor/%s->%s" % (frm, to), "TABLE",
                   "a period whose previous state is %s moves to %s exactly when (%s)" % (frm, to, spec.get(to, "never")), ok, where,
                   None if ok else {"code_guard": F.fshow(cf)[:600], "binding": mapping, "unbound_code_atoms": unbound[:8], "counterexample": c1 or c2})
        if not spec:
            ctx.ob("GetStateFor/%s-terminal" % frm, "TABLE", "state %s has no outgoing transition" % frm, not code, where,
                   None if not code else {"transitions": sorted(code)})

    # the carried/cached value is the next state; the function returns the carried state
    sv_vals = local_values(f, state_var)
    assigns = [(l, v) for l, v in sv_vals]
    init_ok = [show(v) for l, v in assigns if not match(["local", nv], v)]
    ok = any(match(["local", nv], v) for l, v in assigns) and all(re.match(r"^cache\[pindexPrev\]$", x) for x in init_ok) and len(init_ok) == 1
    ctx.ob("GetStateFor/carry", "PROVENANCE", "the current state `%s` is only ever the cached state of the known ancestor or the next state computed by the switch" % state_var,
           ok, where, {"values": [(l, show(v)) for l, v in assigns]})
    # cache[pindexPrev] = state = stateNext after the switch, inside the loop
    loop = sw_parent_loop(f, sw)
    body = loop["b"].get("s", [])
    after = body[body.index(sw) + 1:] if sw in body else []
    stores = [st for st in after if st.get("k") == "expr" and match(["b", "=", ["idx", ["param", "cache"], ["param", "pindexPrev"]], ANY], st.get("e"))]
    ok = False
    if len(stores) == 1:
        rhs = stores[0]["e"][3]
        ok = match(["b", "=", ["local", state_var], ["local", nv]], rhs) or match(["local", nv], rhs) or \
            (match(["local", state_var], rhs) and any(match(["b", "=", ["local", state_var], ["local", nv]], x.get("e")) for x in after[:after.index(stores[0])]))
    ctx.ob("GetStateFor/cache-store", "PROVENANCE", "after the switch every period step stores the next state in cache[pindexPrev] (unconditionally, once)",
           ok, "%s:%s" % (f.file, stores[0].get("l") if stores else sw.get("l")))
    rets = [e for e in exits(f, P, subst) if e.kind == "ret" and not _is_enum(e.value)]
    ok = len(rets) >= 1 and all(match(["local", state_var], e.value) for e in rets)
    ctx.ob("GetStateFor/returns-state", "PROVENANCE", "apart from the always/never-active short-circuits GetStateFor returns the carried state variable",
           ok, f.where, {"returns": [(e.line, show(e.value)) for e in rets]})
    for e in rets:
        g, _, _ = F.bind_atoms(e.formula, {"EMPTY": "vToCompute.empty()"})
        ok = F.implies(g, F.parse("EMPTY"))
        ctx.ob("GetStateFor/all-steps-done@L%s" % e.line, "MPT", "the state is returned only after every queued period has been stepped (work list empty)", ok,
               "%s:%s" % (f.file, e.line))
    # a throw would be an unknown exit
    if any(e.kind != "ret" for e in exits(f, P, subst)):
        raise AnalysisBroken("%s: non-return exit" % FN)


def sw_parent_loop(f, sw):
    for st in stmts(f.body):
        if st.get("k") in ("while", "for", "do", "foreach") and isinstance(st.get("b"), dict) and sw in st["b"].get("s", []):
            return st
    raise AnalysisBroken("%s: the state switch is not directly inside the period loop" % FN)


# ------------------------------------------------------------------------------------------------
def short_circuits(ctx, P, f, subst):
    aa, na = P.const("Consensus::BIP9Deployment::ALWAYS_ACTIVE"), P.const("Consensus::BIP9Deployment::NEVER_ACTIVE")
    ctx.ob("const/ALWAYS_NEVER", "CONST", "BIP9Deployment::ALWAYS_ACTIVE == -1 and NEVER_ACTIVE == -2 (distinct sentinels)", aa == -1 and na == -2, None,
           {"ALWAYS_ACTIVE": aa, "NEVER_ACTIVE": na})
    atoms = {"ALWAYS": A + "BeginTime() == -1", "NEVER": A + "BeginTime() == -2"}
    n = 0
    # implications are decided over the code's own atoms (not renamed), so that the truth table knows that `x == -1` and `x == -2`
    # exclude each other: the order of the two early returns does not matter.
    ALWAYS, NEVER = F.atom(atoms["ALWAYS"]), F.atom(atoms["NEVER"])
    for e in exits(f, P, subst):
        g = e.formula
        where = "%s:%s" % (f.file, e.line)
        if _is_enum(e.value):
            name = e.value[1][len(TS):]
            want = {"ACTIVE": F.mk_and([ALWAYS, F.mk_not(NEVER)]), "FAILED": F.mk_and([NEVER, F.mk_not(ALWAYS)])}.get(name)
            ok = want is not None and F.implies(g, want)
            ctx.ob("GetStateFor/short-circuit-%s@L%s" % (name, e.line), "LADDER", "a constant %s is returned only for the %s sentinel start time" % (
                name, {"ACTIVE": "ALWAYS_ACTIVE", "FAILED": "NEVER_ACTIVE"}.get(name, "?")), ok, where)
            n += 1
        else:
            ok = F.implies(g, F.mk_and([F.mk_not(ALWAYS), F.mk_not(NEVER)]))
            ctx.ob("GetStateFor/computed-only-if-normal@L%s" % e.line, "LADDER", "the computed state is returned only if the deployment is neither ALWAYS_ACTIVE nor "
                   "NEVER_ACTIVE (both short-circuit first)", ok, where)
    ctx.floor("GetStateFor constant returns", n, 2)
    # the short-circuits precede every cache access
    cache_use = lambda e: (e[0] in ("idx", "mcall") and any(match(["param", "cache"], x) for x in e[1:] if is_expr(x)))
    for s in sites(f, cache_use, P):
        if not F.implies(s.formula(subst), F.mk_and([F.mk_not(ALWAYS), F.mk_not(NEVER)])):
            ctx.ob("GetStateFor/cache-after-short-circuit@L%s" % s.line, "ORDER", "the cache is touched only for normal deployments", False, s.where)


# ------------------------------------------------------------------------------------------------
def alignment(ctx, P, f, subst):
    """pindexPrev is null or moved to height h - ((h+1) % period) before the first cache access; all later
    moves are by exactly one period or pop a queued (aligned) block."""
    H = "pindexPrev.nHeight"
    per = A + "Period()"
    is_write = lambda e: match(["b", "=", ["param", "pindexPrev"], ANY], e)

    def arg_of(e):
        r = e[3]
        if is_expr(r) and r[0] in ("mcall", "vcall") and r[1] == "CBlockIndex::GetAncestor":
            return call_args(r)[0], call_obj(r)
        return None, None

    def rendered(x):
        return F.key(_subst(x, subst))        # canonical: commutative operands sorted, so `1 + h` == `h + 1`

    hN = [".", ["param", "pindexPrev"], "CBlockIndex::nHeight"]
    perN = ["vcall", A + "Period", ["this"]]
    align_key = F.key(["b", "-", hN, ["b", "%", ["b", "+", hN, ["int", 1]], perN]])
    step_key = F.key(["b", "-", hN, perN])
    kinds = {}
    for s in sites(f, is_write, P):
        a, obj = arg_of(s.expr)
        if a is not None and match(["param", "pindexPrev"], obj):
            r = rendered(a)
            if r == align_key:
                kinds.setdefault("align", []).append(s)
            elif r == step_key:
                kinds.setdefault("step", []).append(s)
            else:
                kinds.setdefault("other", []).append((s, r))
        elif show(s.expr[3]) == "vToCompute.back()":
            kinds.setdefault("pop", []).append(s)
        else:
            kinds.setdefault("other", []).append((s, show(s.expr[3])))
    if not kinds.get("align") and not kinds.get("other"):
        raise AnalysisBroken("%s: period alignment assignment not found" % FN)
    other = kinds.get("other", [])
    ctx.ob("GetStateFor/moves", "TABLE", "pindexPrev is only ever moved to the period boundary GetAncestor(h - ((h+1) % period)), back by one period "
           "GetAncestor(h - period), or to a queued boundary block", not other and len(kinds.get("align", [])) >= 1 and len(kinds.get("step", [])) >= 1, f.where,
           {"unexpected": [(s.line, r) for s, r in other]} if other else None)
    # queued blocks are boundary blocks
    pushes = sites(f, lambda e: e[0] == "mcall" and e[1].endswith("vector::push_back") and show(call_obj(e)) == "vToCompute", P)
    ok = bool(pushes) and all(match(["param", "pindexPrev"], call_args(s.expr)[0]) for s in pushes)
    ctx.ob("GetStateFor/queue", "PROVENANCE", "only the current boundary block pindexPrev is queued for computation", ok, f.where)
    # must-precede: (aligned or null) before any cache access
    is_align = lambda e: is_write(e) and any(e is s.expr for s in kinds.get("align", []))
    mf = MustFlow(f, P, marks=[("aligned", is_align)],
                  branch_marks=[("aligned", lambda a: match(["param", "pindexPrev"], a) or match(["b", "!=", ["param", "pindexPrev"], ["null"]], a), False),
                                ("aligned", lambda a: match(["b", "==", ["param", "pindexPrev"], ["null"]], a), True)])
    cache_use = lambda e: (e[0] in ("idx", "mcall") and any(match(["param", "cache"], x) for x in e[1:] if is_expr(x)))
    mf.watch = cache_use
    mf.run()
    ctx.floor("GetStateFor cache accesses", len(mf.events), 4)
    bad = [st.get("l") for e, state, st in mf.events if "aligned" not in state]
    ctx.ob("GetStateFor/aligned-before-cache", "ORDER", "on every path the queried block has been replaced by its period boundary (or is null) before the cache is "
           "read or written, so all blocks of a period share one cache entry and one state", not bad, f.where, {"unaligned_cache_access_lines": sorted(set(bad))} if bad else None)
    # direct DEFINED entries
    atoms = {"NONNULL": "pindexPrev", "BEFORE_START": ATOMS["BEFORE_START"]}
    check_guard(ctx, f, P, lambda e: match(["b", "=", ["idx", ["param", "cache"], ANY], lambda x: _is_enum(x)], e), "!NONNULL || BEFORE_START", atoms,
                "GetStateFor/direct-DEFINED", "a state constant is stored in the cache directly only for the null (pre-genesis) block or a boundary block whose MTP is before the start time",
                rule="MPT", min_sites=2)
    for s in sites(f, lambda e: match(["b", "=", ["idx", ["param", "cache"], ANY], lambda x: _is_enum(x)], e), P):
        ok = s.expr[3][1] == TS + "DEFINED"
        ctx.ob("GetStateFor/direct-DEFINED-value@L%s" % s.line, "TABLE", "the only state constant stored directly is DEFINED", ok, s.where)


def _subst(e, subst):
    if not is_expr(e):
        return e
    if e[0] == "local" and e[1] in subst:
        return _subst(subst[e[1]], subst)
    return [e[0]] + [_subst(x, subst) if is_expr(x) else x for x in e[1:]]


# ------------------------------------------------------------------------------------------------
def counting(ctx, P, f, subst):
    fors = [st for st in stmts(f.body) if st.get("k") == "for" and any(
        is_expr(x) and x[0] in ("vcall", "mcall") and x[1] == A + "Condition" for _, e in all_exprs(st) for x in subexprs(e))]
    if len(fors) != 1:
        raise AnalysisBroken("%s: expected one counting loop calling Condition(), found %d" % (FN, len(fors)))
    lp = fors[0]
    where = "%s:%s" % (f.file, lp.get("l"))
    init, c, inc = lp.get("init"), lp.get("c"), lp.get("inc")
    iv = init.get("n") if isinstance(init, dict) and init.get("k") == "decl" else None
    shape = (iv is not None and match(["int", 0], init.get("i")) and match(["b", "<", ["local", iv], ANY], c)
             and show(_subst(c[3], subst)) == A + "Period()"
             and (match(["u", "post++", ["local", iv]], inc) or match(["u", "++", ["local", iv]], inc)))
    body = lp.get("b")
    jumps = [st.get("l") for st in stmts(body) if st.get("k") in ("break", "continue", "ret", "throw")]
    iv_written = [st.get("l") for st, e in all_exprs(body) for x in subexprs(e)
                  if (x[0] == "b" and x[1] in ASSIGN_OPS and match(["local", iv], x[2])) or (x[0] == "u" and x[1] in ("++", "--", "post++", "post--", "&") and match(["local", iv], x[2]))]
    ctx.ob("GetStateFor/count-loop-range", "LOOP", "the signalling count loop runs exactly Period() times: for (i = 0; i < Period(); i++) with no break/continue/return "
           "and no other write to the index", bool(shape) and not jumps and not iv_written, where,
           {"init": show(init.get("i")) if isinstance(init, dict) and is_expr(init.get("i")) else None, "cond": show(c), "inc": show(inc), "jumps": jumps})
    # cursor: Condition(<cursor>) ; cursor = cursor.pprev every iteration; cursor starts at pindexPrev
    cond_calls = [x for _, e in all_exprs(body) for x in subexprs(e) if x[0] in ("vcall", "mcall") and x[1] == A + "Condition"]
    cur = call_args(cond_calls[0])[0] if len(cond_calls) == 1 else None
    if not (cur and cur[0] == "local"):
        raise AnalysisBroken("%s: Condition() is not applied to a local cursor" % FN)
    cv = cur[1]
    top = body.get("s", []) if body.get("k") == "seq" else [body]
    steps = [i for i, st in enumerate(top) if st.get("k") == "expr" and match(["b", "=", ["local", cv], [".", ["local", cv], "CBlockIndex::pprev"]], st.get("e"))]
    cvals = local_values(f, cv)
    starts = [show(v) for l, v in cvals if not match([".", ["local", cv], "CBlockIndex::pprev"], v)]
    cond_idx = [i for i, st in enumerate(top) if any(x is cond_calls[0] for _, e in all_exprs(st) for x in subexprs(e))]
    ok = len(steps) == 1 and len(cvals) == 2 and starts == ["pindexPrev"] and cond_idx and cond_idx[0] < steps[0]
    ctx.ob("GetStateFor/count-cursor", "LOOP", "the counting cursor starts at the period's last block pindexPrev and moves to pprev exactly once per iteration, "
           "unconditionally, after Condition() was evaluated on it", bool(ok), where, {"cursor_values": [(l, show(v)) for l, v in cvals]})
    # the counter
    thr = [a for s in sites(f, lambda e: match(["b", ANY, ["local", ANY], ["local", "nThreshold"]], e) or match(["b", ANY, ["local", ANY], ["vcall", A + "Threshold"]], e), P)
           for a in [s.expr[2][1]]]
    if len(set(thr)) != 1:
        raise AnalysisBroken("%s: cannot identify the counter compared with Threshold()" % FN)
    cnt = thr[0]
    vals = local_values(f, cnt)
    incs = sites(f, lambda e: match(["u", "post++", ["local", cnt]], e) or match(["u", "++", ["local", cnt]], e) or match(["b", "+=", ["local", cnt], ["int", 1]], e), P)
    zero = [v for l, v in vals if match(["int", 0], v)]
    ok = len(vals) == 2 and len(zero) == 1 and len(incs) == 1 and lp in incs[0].loops
    ctx.ob("GetStateFor/counter-writes", "PROVENANCE", "the value compared with Threshold() starts at 0 and is only ever incremented by one inside the counting loop",
           bool(ok), where, {"values": [(l, show(v)) for l, v in vals]})
    if incs:
        s = incs[0]
        i0 = [i for i, g in enumerate(s.guards) if g.kind == "loop" and g.line == lp.get("l")]
        inner = F.mk_and([g.formula(subst) for g in s.guards[i0[0] + 1:]]) if i0 else F.T
        bf, _, un = F.bind_atoms(inner, {"COND": A + "Condition(%s)" % cv})
        ok = F.equivalent(bf, F.parse("COND")) if hasattr(F, "equivalent") else (F.implies(bf, F.parse("COND")) and F.implies(F.parse("COND"), bf))
        ctx.ob("GetStateFor/counter-guard", "TABLE", "inside the counting loop the counter is incremented exactly when Condition(cursor) holds", bool(ok), s.where,
               None if ok else {"guard": F.fshow(inner)})
    # the counter is declared (zeroed) inside the STARTED case, i.e. per period
    sw = [st for st in stmts(f.body) if st.get("k") == "switch"][0]
    in_sw = any(st.get("k") == "decl" and st.get("n") == cnt for st in stmts(sw))
    ctx.ob("GetStateFor/counter-per-period", "PROVENANCE", "the counter is declared inside the switch (reset for every period step)", in_sw, where)


# ------------------------------------------------------------------------------------------------
def signalling_condition(ctx, P):
    """Predicate twin of the BIP9 signalling condition used by the counting loop (VersionBitsConditionChecker, versionbits_impl.h):
    a block signals exactly when (nVersion & TOP_MASK) == TOP_BITS and (nVersion & Mask()) != 0, Mask() == 1 << bit."""
    V = "VersionBitsConditionChecker::"
    tm, tb = P.const("VERSIONBITS_TOP_MASK"), P.const("VERSIONBITS_TOP_BITS")
    ctx.ob("const/VERSIONBITS_TOP", "CONST", "VERSIONBITS_TOP_MASK == 0xE0000000 and VERSIONBITS_TOP_BITS == 0x20000000 (as 32-bit patterns)",
           tm is not None and tb is not None and (tm & 0xFFFFFFFF) == 0xE0000000 and (tb & 0xFFFFFFFF) == 0x20000000, None, {"TOP_MASK": tm, "TOP_BITS": tb})
    rec = P.record("VersionBitsConditionChecker")
    ctx.ob("VersionBitsConditionChecker/base", "EXHAUST", "VersionBitsConditionChecker derives from AbstractThresholdConditionChecker (its Condition is the one the counting loop "
           "of GetStateFor dispatches to for consensus deployments)", "AbstractThresholdConditionChecker" in rec.get("bases", []), "%s:%s" % (rec["file"], rec.get("l")))
    conds = P.fns(V + "Condition")
    by_block = [f for f in conds if len(f.params) == 1 and "CBlockIndex" in f.params[0]["ty"]]
    by_version = [f for f in conds if len(f.params) == 1 and "CBlockIndex" not in f.params[0]["ty"]]
    if len(by_block) != 1 or len(by_version) != 1:
        raise AnalysisBroken("VersionBitsConditionChecker::Condition overloads not found (block: %d, version: %d)" % (len(by_block), len(by_version)))
    fb, fv = ctx.used(by_block[0]), ctx.used(by_version[0])
    # Condition(const CBlockIndex*) == Condition(pindex->nVersion)
    sb = naming(fb, P)
    ex = exits(fb, P, sb)
    pn = fb.params[0]["n"]
    ok = len(ex) == 1 and ex[0].kind == "ret" and match(["mcall", V + "Condition", ["this"], [".", ["param", pn], "CBlockIndex::nVersion"]], F.expand(ex[0].value, {k: v for k, v in sb.items() if k != "@idx"}))
    ctx.ob("Condition(block)/forwards-version", "TWIN", "Condition(const CBlockIndex*) is exactly Condition(pindex->nVersion), on every path", bool(ok), fb.where,
           {"returns": [show(e.value) for e in ex if e.value]})
    # Condition(int32_t)
    vn = fv.params[0]["n"]
    top = ["%d & %s == %d" % (tm, vn, tb), "%s & %d == %d" % (vn, tm, tb)]
    bit = ["%sMask() & %s" % (V, vn), "%s & %sMask()" % (vn, V)]
    check_return_formula(ctx, fv, P, "TOP && BIT", {"TOP": top, "BIT": bit}, oid="Condition(version)")
    # Mask() == 1 << dep.bit
    fm = ctx.used(P.fn(V + "Mask"))
    exm = exits(fm, P)
    want = F.key(["b", "<<", ["int", 1], [".", [".", ["this"], V + "dep"], "Consensus::BIP9Deployment::bit"]])
    ok = len(exm) == 1 and exm[0].kind == "ret" and F.key(F.expand(exm[0].value, {k: v for k, v in naming(fm, P).items() if k != "@idx"})) == want
    ctx.ob("Mask/one-shifted-by-bit", "TWIN", "VersionBitsConditionChecker::Mask() is 1 << dep.bit", bool(ok), fm.where, {"returns": [show(e.value) for e in exm if e.value]})
