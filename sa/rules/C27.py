"""C27 Mempool resource and topology limits always hold (DESIGN §3 C27)."""
import re

from sa.engine.api import *
from sa.rules._helpers_D import *

UNITS = ["validation.cpp", "policy/truc_policy.cpp", "policy/ephemeral_policy.cpp", "policy/policy.cpp", "txmempool.cpp"]
EXPLANATION = ("LADDER (NECESSARY): SingleTRUCChecks / PackageTRUCChecks return no error only if the version-3 inheritance holds for every parent in both "
               "directions and, for a version-3 transaction, vsize <= TRUC_MAX_VSIZE, at most one unconfirmed parent which itself has no unconfirmed ancestor, "
               "child vsize <= TRUC_CHILD_MAX_VSIZE, and the parent has no other child (single: unless that child is a direct conflict; the sibling offered for "
               "eviction exists only in the 1-parent-1-child shape); PreCheckEphemeralTx, CheckEphemeralSpends and the IsStandardTx dust rung against their spec "
               "conditions. MPT: PreChecks succeeds only past the TRUC rung (unless bypass_limits; sibling-eviction exception only when allowed) and, when "
               "require_standard, past IsStandardTx and PreCheckEphemeralTx; the commit (FinalizeSubpackage / SubmitPackage) is reached only past "
               "CheckMemPoolPolicyLimits, the package TRUC loop and CheckEphemeralSpends; every single-transaction commit is followed by LimitMempoolSize unless "
               "package_submission or bypass_limits, and AcceptPackage always trims after evaluating. CheckMemPoolPolicyLimits is !IsOversized(TOP) after "
               "dependencies are processed; TrimToSize leaves its loop only when the pool is empty or usage <= limit, and each eviction first calls "
               "trackPackageRemoved(evicted chunk feerate + incremental relay feerate), which raises rollingMinimumFeeRate to at least that; GetMinFee returns the "
               "rolling rate undecayed until the next block. CONST: the TRUC and dust constants.")
ASSUMPTIONS = ["TxGraph::IsOversized(TOP) is true exactly when a staged cluster exceeds the configured count / size limits (txgraph.cpp, not decided)",
               "CTxMemPool::GetAncestorCount / GetDescendantCount count the entry itself", "GetDust / IsDust implement the dust threshold (policy.cpp)",
               "DynamicMemoryUsage is the usage compared with -maxmempool"]
CLAIM = dict(
    technique="static analysis: reject-ladder conformance (truth tables over canonical guard atoms, constants compared in the safe direction), must-pass-through guards, "
              "must-flow ordering, loop post-conditions, constants",
    text="For all paths of acceptance: a transaction is committed only past the cluster-limit check, the TRUC topology/size rungs and the ephemeral-dust rungs "
         "(when standardness is required), each with the specified condition; after a commit the mempool is trimmed unless the caller defers it, trimming "
         "stops only below the limit, and each eviction bumps the rolling minimum feerate above the evicted feerate before removing. Tests use fixed cases.",
    note="Not decided: the post-state bounds as numeric facts (TxGraph internals, memory accounting), TRUC invariants across reorgs (the property excludes them), "
         "the choice of the evicted sibling beyond its shape condition. Comparisons stricter than the spec constants are tolerated.",
    ref="DESIGN.md §3 C27")


def lt(prefix_re, kmax):
    """matcher for the canonical atom `<prefix> < K` with K <= kmax (at least as strict as the spec)"""
    def m(key):
        mm = re.fullmatch(prefix_re + r" < (\d+)", key)
        return bool(mm) and int(mm.group(1)) <= kmax
    return m


def check(ctx):
    P = ctx.program(UNITS)
    for name, want in (("TRUC_VERSION", 3), ("TRUC_ANCESTOR_LIMIT", 2), ("TRUC_DESCENDANT_LIMIT", 2), ("TRUC_MAX_VSIZE", 10000), ("TRUC_CHILD_MAX_VSIZE", 1000),
                       ("MAX_DUST_OUTPUTS_PER_TX", 1)):
        v = P.const(name)
        ctx.ob("const/" + name, "CONST", "%s == %d" % (name, want), v == want, None, {"value": v})
    _single_truc(ctx, P)
    _package_truc(ctx, P)
    _ephemeral(ctx, P)
    _dust_rung(ctx, P)
    _prechecks(ctx, P)
    _commit_guards(ctx, P)
    _trim_after_commit(ctx, P)
    _limits_and_trim(ctx, P)


# ------------------------------------------------------------------------------------------ TRUC

PARENT0 = r"mempool_parents\[0\](?:\.get\(\)|\.std::reference_wrapper::operator const CTxMemPoolEntry &\(\))"


def _single_truc(ctx, P):
    f = ctx.used(P.fn("SingleTRUCChecks"))
    sub = naming(f, P)
    atoms = {
        "V3": "ptx.version == 3",
        "VSIZE_OK": lt(r"vsize", 10001),
        "CHILD_OK": lt(r"vsize", 1001),
        "ONE_PARENT": lt(r"1 \+ mempool_parents\.size\(\)", 3),
        "NO_PARENT": "mempool_parents.empty()",
        "PARENT_NO_ANC": lt(r"1 \+ pool\.GetAncestorCount\(" + PARENT0 + r"\)", 3),
        "PARENT_NO_CHILD": lt(r"1 \+ pool\.GetDescendantCount\(" + PARENT0 + r"\)", 3),
        "NO_DESC": re.compile(r"\w+\.empty\(\)"),
        "CHILD_REPLACED": re.compile(r"std::any_of\((\w+)\.cbegin\(\), \1\.cend\(\), \[lambda [^\]]*\]\)"),
    }
    # CHILD_OK and VSIZE_OK are both `vsize < K`: bind by constant
    atoms["VSIZE_OK"] = lambda k: lt(r"vsize", 10001)(k) and not lt(r"vsize", 1001)(k)
    spec = "!V3 || (VSIZE_OK && ONE_PARENT && (NO_PARENT || (PARENT_NO_ANC && CHILD_OK && (PARENT_NO_CHILD || (!NO_DESC && CHILD_REPLACED)))))"
    accept_implies(ctx, f, P, is_nullopt_ret, spec, atoms, "SingleTRUCChecks/accept",
                   "SingleTRUCChecks reports no violation for a version-3 transaction only if vsize <= 10000, it has at most one unconfirmed parent, and with a parent: the "
                   "parent has no unconfirmed ancestor, vsize <= 1000 and the parent has no other child except one being replaced", min_accepts=2)
    check_ladder(ctx, f, P, [
        Rung("non-v3 spends v3", "!V3 && PV3", {"V3": "ptx.version == 3", "PV3": re.compile(r"&?each\(mempool_parents\)\.get\(\)\.GetTx\(\)\.version == 3")},
             loop=r"each\(mempool_parents\)"),
        Rung("v3 spends non-v3", "V3 && !PV3", {"V3": "ptx.version == 3", "PV3": re.compile(r"&?each\(mempool_parents\)\.get\(\)\.GetTx\(\)\.version == 3")},
             loop=r"each\(mempool_parents\)"),
    ], is_accept=is_nullopt_ret, is_reject=is_error_ret, oid="SingleTRUCChecks/inherit")
    # the child-replaced predicate and the sibling offered for eviction
    anys = sites(f, call_to("std::any_of"), P)
    okp = False
    for s in anys:
        a = call_args(s.expr)
        lam = resolve_lambda(f, a[2]) if len(a) >= 3 else None     # inline or named (single-definition local) predicate
        fs = P.fns(lam[1]) if lam else []
        if len(fs) == 1:
            rets = [st for st in stmts(fs[0].body) if st.get("k") == "ret"]
            okp = len(rets) == 1 and re.fullmatch(r"direct_conflicts\.contains\(\w+\.GetTx\(\)\.GetHash\(\)\)", show(rets[0].get("v"))) is not None
    ctx.ob("SingleTRUCChecks/child-replaced", "PROVENANCE", "the exception to the descendant limit applies only when an existing descendant of the parent is among the "
           "direct conflicts (direct_conflicts.contains(child->GetTx().GetHash()))", okp, anys[0].where if anys else f.where)
    allex = exits(f, P, sub)
    sib = [e for e in allex if is_error_ret(e) and any(x[0] == "?:" for x in subexprs(e.value))]
    ctx.floor("SingleTRUCChecks sibling-offering exits", len(sib), 1)
    for e in sib:
        q = [x for x in subexprs(e.value) if x[0] == "?:"][0]
        c = F.to_formula(q[1], sub)
        g, _, un = F.bind_atoms(c, {"TWO": re.compile(r"pool\.GetDescendantCount\(" + PARENT0 + r"\) == 2"),
                                    "SIBTWO": re.compile(r"pool\.GetAncestorCount\(\*\*\w+\.begin\(\)\) == 2")})
        ok = F.counterexample(g, F.parse("TWO && SIBTWO")) is None and match(["null"], strip_wrappers(q[3])) or \
            (F.counterexample(g, F.parse("TWO && SIBTWO")) is None and "nullptr" in show(q[3]))
        ctx.ob("SingleTRUCChecks/sibling-shape@L%s" % e.line, "LADDER", "a sibling is offered for eviction only when the parent has exactly one child and that child has no "
               "other ancestor (1-parent-1-child), otherwise nullptr", bool(ok), "%s:%s" % (f.file, e.line), {"condition": F.fshow(c), "unbound": un})
    # every error other than the descendant-limit one carries no sibling
    for e in allex:
        if is_error_ret(e) and e not in sib:
            mp = [x for x in subexprs(e.value) if is_call_to("std::make_pair", x)]
            ok = bool(mp) and match(["null"], strip_wrappers(call_args(mp[0])[1]))
            ctx.ob("SingleTRUCChecks/no-sibling@L%s" % e.line, "LADDER", "TRUC errors other than the descendant limit cannot be waived by sibling eviction (second == nullptr)",
                   ok, "%s:%s" % (f.file, e.line))


def _package_truc(ctx, P):
    f = ctx.used(P.fn("PackageTRUCChecks"))
    sub = naming(f, P)
    npar = r"(?:FindInPackageParents\(package, ptx\)|in_package_parents)\.size\(\) \+ mempool_parents\.size\(\)"
    lam = r"\[lambda [^\]]*\]\(\)"
    atoms = {
        "V3": "ptx.version == 3",
        "VSIZE_OK": lambda k: lt(r"vsize", 10001)(k) and not lt(r"vsize", 1001)(k),
        "CHILD_OK": lt(r"vsize", 1001),
        "ONE_PARENT": lt(r"1 \+ \(" + npar + r"\)", 3),
        "HAS_MP": [("mempool_parents.empty()", False)],
        "MP_NO_ANC": lt(r"1 \+ \((?:FindInPackageParents\(package, ptx\)|in_package_parents)\.size\(\) \+ pool\.GetAncestorCount\(" + PARENT0 + r"\)\)", 3),
        "NO_PARENT": re.compile(npar + r" < 1"),
        "PARENT_V3": re.compile(lam + r"\.m_version == 3"),
        "PARENT_HAS_DESC": re.compile(lam + r"\.m_has_mempool_descendant"),
    }
    accs = [e for e in exits(f, P, sub) if is_nullopt_ret(e)]
    if len(accs) != 1:
        raise AnalysisBroken("PackageTRUCChecks: expected one accepting exit, found %d" % len(accs))
    # the sibling scan loop over the package
    scan = [lp for lp in loops_over(f, P, sub, r"each\(package\)")]
    ctx.floor("PackageTRUCChecks package scan loops", len(scan), 1)
    atoms["SCANNED"] = "done(loop@%s)" % scan[0].get("l")
    spec = "!V3 || (VSIZE_OK && ONE_PARENT && (!HAS_MP || MP_NO_ANC) && (NO_PARENT || (CHILD_OK && PARENT_V3 && SCANNED && !PARENT_HAS_DESC)))"
    accept_implies(ctx, f, P, is_nullopt_ret, spec, atoms, "PackageTRUCChecks/accept",
                   "PackageTRUCChecks reports no violation for a version-3 transaction only if vsize <= 10000, mempool + in-package parents <= 1, a mempool parent has no "
                   "ancestor, and with a parent: vsize <= 1000, the parent is version 3, no other package transaction spends the parent or this transaction, and a "
                   "mempool parent has no other descendant")
    # inside the scan: another package tx spending the parent, or spending ptx, rejects
    rej = [e for e in exits(f, P, sub) if is_error_ret(e) and scan[0] in e.loops and len(e.loops) == 2]
    conds = []
    for e in rej:
        ssub = site_subst(sub, e.site)
        conds.append(F.mk_and([g.formula(ssub) for g in in_loop_guards(e.site, e.loops[1]) if g.kind != "post"]))
    cov, _, un = F.bind_atoms(F.mk_or(conds), {"SPENDS_PARENT": re.compile(lam + r"\.m_txid == each\(each\(package\)\.vin\)\.prevout\.hash"),
                                                "SPENDS_ME": re.compile(r"each\(each\(package\)\.vin\)\.prevout\.hash == ptx\.GetHash\(\)|ptx\.GetHash\(\) == each\(each\(package\)\.vin\)\.prevout\.hash")})
    ok = F.counterexample(F.parse("SPENDS_PARENT || SPENDS_ME"), cov) is None
    inner_ok = bool(rej) and not any(st.get("k") in ("break", "continue") for st in stmts(rej[0].loops[1].get("b"))) and not has_break(scan[0].get("b"))
    ctx.ob("PackageTRUCChecks/sibling-scan", "LADDER", "for every input of every other package transaction: spending the version-3 parent (a second child) or spending this "
           "child (a grandchild) is rejected; the scan is complete", ok and inner_ok, rej[0].site.where if rej else f.where, None if ok else {"covered": F.fshow(F.mk_or(conds)), "unbound": un})
    # the scan skips only ptx itself
    skips = [s for s in stmt_sites(f, lambda st: st.get("k") == "continue", P) if scan[0] in s.loops]
    oks = all(re.fullmatch(r"&\*each\(package\) == &\*ptx|&\*ptx == &\*each\(package\)",
                           F.fshow(F.mk_and([g.formula(site_subst(sub, s)) for g in in_loop_guards(s, scan[0]) if g.kind != "post"]))) for s in skips)
    ctx.ob("PackageTRUCChecks/scan-skips-self-only", "LADDER", "the package scan skips only the transaction under test", oks, f.where)
    # parent info: version and descendant flag of the actual parent
    lams = [x for _, e in all_exprs(f.body) for x in subexprs(e) if x[0] == "lambda"]
    okl = False
    for x in lams:
        g = P.fns(x[1])
        if len(g) == 1 and any(st.get("k") == "ret" and contains(["ctor", "ParentInfo"], st.get("v")) or st.get("k") == "ret" and contains(["init", "ParentInfo"], st.get("v"))
                               for st in stmts(g[0].body)):
            rets = [st for st in stmts(g[0].body) if st.get("k") == "ret"]
            texts = [show(st.get("v")) for st in rets]
            okl = len(rets) == 2 and any(re.search(r"\.GetTx\(\)\.version, pool\.GetDescendantCount\(\*\w+\) > 1\}", t) for t in texts) and \
                any(re.search(r"\w+\.version, false\}", t) for t in texts)
    ctx.ob("PackageTRUCChecks/parent-info", "PROVENANCE", "the parent's version is the (mempool or in-package) parent's own version and has_mempool_descendant is "
           "GetDescendantCount(parent) > 1 for a mempool parent", okl, f.where)
    check_ladder(ctx, f, P, [
        Rung("non-v3 spends v3 (mempool parent)", "!V3 && PV3", {"V3": "ptx.version == 3", "PV3": "each(mempool_parents).get().GetTx().version == 3"},
             loop=r"each\(mempool_parents\)", when="!V3"),
        Rung("non-v3 spends v3 (package parent)", "!V3 && PV3", {"V3": "ptx.version == 3",
                                                                  "PV3": re.compile(r"package\.at\(each\((?:FindInPackageParents\(package, ptx\)|in_package_parents)\)\)\.version == 3")},
             loop=r"each\((?:FindInPackageParents\(package, ptx\)|in_package_parents)\)", when="!V3"),
    ], is_accept=is_nullopt_ret, is_reject=is_error_ret, oid="PackageTRUCChecks/inherit")


# ------------------------------------------------------------------------------------------ ephemeral dust

def _ephemeral(ctx, P):
    f = ctx.used(P.fn("PreCheckEphemeralTx"))
    accept_implies(ctx, f, P, is_true_ret, "(!BASE && !MOD) || NODUST",
                   {"BASE": "base_fee", "MOD": "mod_fee", "NODUST": "GetDust(tx, dust_relay_rate).empty()"}, "PreCheckEphemeralTx/accept",
                   "a transaction with a dust output passes only if both its base fee and its modified fee are zero")
    g = ctx.used(P.fn("CheckEphemeralSpends"))
    sub = naming(g, P)
    outer = loops_over(g, P, sub, r"each\(package\)")
    rejs = [e for e in exits(g, P, sub) if is_false_ret(e)]
    main = [lp for lp in outer if any(lp in e.loops for e in rejs)]
    if len(main) != 1 or len(rejs) != 1:
        raise AnalysisBroken("CheckEphemeralSpends: expected one rejecting exit inside one loop over the package")
    lp, rj = main[0], rejs[0]
    own = F.mk_and([x.formula(site_subst(sub, rj.site)) for x in in_loop_guards(rj.site, lp) if x.kind != "post"])
    m = re.fullmatch(r"!\((\w+)\.empty\(\)\)", F.fshow(own))
    ctx.ob("CheckEphemeralSpends/reject", "LADDER", "a package transaction is rejected whenever its set of unspent parent dust is non-empty", bool(m), rj.site.where,
           {"guard": F.fshow(own)})
    if not m:
        return
    D = m.group(1)
    for e in exits(g, P, sub):
        if is_true_ret(e) and not F.implies(e.formula, F.mk_not(F.atom([a for a in F.atoms(e.formula) if "all_of" in a][0]))) if any("all_of" in a for a in F.atoms(e.formula)) else is_true_ret(e):
            ctx.ob("CheckEphemeralSpends/complete@L%s" % e.line, "ORDER", "CheckEphemeralSpends succeeds only after every package transaction was examined",
                   F.implies(e.formula, done_atom(lp)) and not has_break(lp.get("b")), "%s:%s" % (g.file, e.line))
    # what enters / leaves the dust set
    ins = sites(g, lambda e: callee(e) in ("std::unordered_set::insert", "std::unordered_set::emplace", "std::set::insert") and match(["local", D], call_obj(e)), P)
    ctx.floor("dust set insertions", len(ins), 1)
    for s in ins:
        ssub = site_subst(sub, s)
        k = xkey(call_args(s.expr)[0], ssub)
        gl = s.loops[-1] if s.loops else None
        rng, ivar = index_loop(gl, ssub) if gl is not None else (None, None)     # index loop or range-for over <parent>.vout
        okk = re.fullmatch(r"COutPoint\{each\(each\(package\)\.vin\)\.prevout\.hash, (\w+)\}", k)
        dust = F.mk_and([x.formula(ssub) for x in in_loop_guards(s, gl) if x.kind != "post"]) if gl is not None else F.T
        okl = rng is not None and re.fullmatch(r"\w+\.vout", rng) is not None and loop_is_total(gl) and okk is not None and okk.group(1) == ivar
        okd = okl and F.fshow(dust) in ("IsDust(each(%s), dust_relay_rate)" % rng, "IsDust(%s[%s], dust_relay_rate)" % (rng, ivar))
        ctx.ob("CheckEphemeralSpends/collect@L%s" % s.line, "PROVENANCE", "every dust output (IsDust at the relay rate) of every output index of a spent parent is "
               "collected as COutPoint(parent txid, index)", okd and okl, s.where, {"key": k, "guard": F.fshow(dust), "loop": loop_range_key(gl, ssub) if gl else None})
    parent_src = [(l, show(v)) for l, v in local_values(g, "parent_ref")] if any(st.get("n") == "parent_ref" for st in stmts(g.body)) else None
    if parent_src is not None:
        ok = any("tx_pool.get(" in v for _, v in parent_src) and any(".second" in v for _, v in parent_src)
        ctx.ob("CheckEphemeralSpends/parent-lookup", "PROVENANCE", "the parent is looked up in the package and otherwise in the mempool", ok, g.where, {"sources": parent_src})
    er = sites(g, lambda e: callee(e) in ("std::unordered_set::erase", "std::unordered_set::clear", "std::unordered_set::extract", "std::set::erase") and match(["local", D], call_obj(e)), P)
    ctx.floor("dust set removals", len(er), 1)
    for s in er:
        k = [xkey(a, site_subst(sub, s)) for a in call_args(s.expr)]
        ctx.ob("CheckEphemeralSpends/spent-only@L%s" % s.line, "PROVENANCE", "dust leaves the unspent set only by being an outpoint spent by the transaction under test",
               k == ["each(each(package).vin).prevout"], s.where, {"args": k})
    # skipping parents already processed must not skip new ones
    conts = [s for s in stmt_sites(g, lambda st: st.get("k") == "continue", P) if lp in s.loops]
    for s in conts:
        gg = F.fshow(F.mk_and([x.formula(site_subst(sub, s)) for x in in_loop_guards(s, s.loops[-1]) if x.kind != "post"]))
        ok = re.fullmatch(r"\w+\.contains\(each\(each\(package\)\.vin\)\.prevout\.hash\)|%s\.empty\(\)" % re.escape(D), gg) is not None
        ctx.ob("CheckEphemeralSpends/skip@L%s" % s.line, "LADDER", "an input / transaction is skipped only if its parent was already processed or there is no unspent dust",
               ok, s.where, {"guard": gg})


def _dust_rung(ctx, P):
    f = ctx.used(P.fn("IsStandardTx"))
    accept_implies(ctx, f, P, is_true_ret, "ONEDUST", {"ONEDUST": lt(r"GetDust\(tx, dust_relay_fee\)\.size\(\)", 2)}, "IsStandardTx/dust",
                   "a standard transaction has at most MAX_DUST_OUTPUTS_PER_TX (1) dust outputs")


# ------------------------------------------------------------------------------------------ validation.cpp

TRUC_CALL = r"SingleTRUCChecks\(m_pool, ws\.m_ptx, ws\.m_parents, ws\.m_conflicts, ws\.m_vsize\)"


def _prechecks(ctx, P):
    f = inline_condvars(ctx.used(P.fn("MemPoolAccept::PreChecks")))
    atoms = {"BYPASS": "args.m_bypass_limits", "TRUCERR": re.compile(TRUC_CALL), "SIBLING": re.compile(TRUC_CALL + r"\.second"),
             "ALLOW_SIB": "args.m_allow_sibling_eviction", "REQSTD": "m_pool.m_opts.require_standard",
             "STANDARD": re.compile(r"IsStandardTx\(\*ws\.m_ptx, .*m_pool\.m_opts\.dust_relay_feerate, \w+\)"),
             "EPH_OK": re.compile(r"PreCheckEphemeralTx\(\*ws\.m_ptx, m_pool\.m_opts\.dust_relay_feerate, ws\.m_base_fees, ws\.m_modified_fees, \w+\)")}
    accept_implies(ctx, f, P, is_true_ret, "BYPASS || !TRUCERR || (ALLOW_SIB && SIBLING)", atoms, "PreChecks/truc",
                   "PreChecks succeeds only if SingleTRUCChecks(pool, tx, its mempool parents, its direct conflicts, its vsize) reported nothing, unless limits are "
                   "bypassed (reorg) or sibling eviction is allowed and a sibling was offered")
    accept_implies(ctx, f, P, is_true_ret, "!REQSTD || (STANDARD && EPH_OK)", atoms, "PreChecks/standard-dust",
                   "with standardness required PreChecks succeeds only past IsStandardTx (dust count) and PreCheckEphemeralTx(tx, dust rate, base fee, modified fee)")
    # the parents handed to the TRUC check are the staged transaction's mempool parents
    ws = [s for s in sites(f, lambda e: e[0] == "b" and e[1] == "=" and is_expr(e[2]) and e[2][0] == "." and e[2][2].endswith("Workspace::m_parents"), P)]
    ok = len(ws) == 1 and show(ws[0].expr[3]) == "m_pool.GetParents(*ws.m_tx_handle)"
    ctx.ob("PreChecks/parents", "PROVENANCE", "ws.m_parents = m_pool.GetParents(*ws.m_tx_handle)", ok, ws[0].where if ws else f.where)
    vs = [s for s in sites(f, lambda e: e[0] == "b" and e[1] == "=" and is_expr(e[2]) and e[2][0] == "." and e[2][2].endswith("Workspace::m_vsize"), P)]
    ok = len(vs) == 1 and show(vs[0].expr[3]) == "ws.m_tx_handle.GetTxSize()"
    ctx.ob("PreChecks/vsize", "PROVENANCE", "ws.m_vsize is the staged entry's sigop-adjusted virtual size (GetTxSize())", ok, vs[0].where if vs else f.where)


def _commit_guards(ctx, P):
    f = inline_condvars(ctx.used(P.fn("MemPoolAccept::AcceptSingleTransactionInternal")))
    sub = naming(f, P)
    atoms = {"PRE": "MemPoolAccept::PreChecks(args, ws)", "LIMITS": "m_subpackage.m_changeset.CheckMemPoolPolicyLimits()", "BYPASS": "args.m_bypass_limits",
             "REQSTD": "m_pool.m_opts.require_standard",
             "SPENDS_DUST": re.compile(r"CheckEphemeralSpends\(std::vector\{.*\{ptx\}\}, m_pool\.m_opts\.dust_relay_feerate, m_pool, ws\.m_state, \w+\)")}
    spec = "PRE && LIMITS && (BYPASS || !REQSTD || SPENDS_DUST)"
    site_implies(ctx, sites(f, call_to("MemPoolAccept::FinalizeSubpackage"), P), sub, spec, atoms, "AcceptSingle/commit",
                 "the commit is reached only past PreChecks, CheckMemPoolPolicyLimits and (outside reorg handling, standardness required) CheckEphemeralSpends")
    accept_implies(ctx, f, P, lambda e: e.kind == "ret" and result_kind(e.value) == "VALID", spec, atoms, "AcceptSingle/valid",
                   "VALID is answered only past PreChecks, CheckMemPoolPolicyLimits and CheckEphemeralSpends", min_accepts=2)

    m = inline_condvars(ctx.used(P.fn("MemPoolAccept::AcceptMultipleTransactionsInternal")))
    msub = naming(m, P)
    truc = [lp for lp in loops_over(m, P, msub, r"each\(workspaces\)")
            if any(is_call_to("PackageTRUCChecks", x) for _, x in body_exprs(lp))]
    pre = [lp for lp in loops_over(m, P, msub, r"each\(workspaces\)") if any(is_call_to("MemPoolAccept::PreChecks", x) for _, x in body_exprs(lp))]
    if len(truc) != 1 or len(pre) != 1:
        raise AnalysisBroken("AcceptMultipleTransactionsInternal: PreChecks / PackageTRUCChecks loops not found")
    matoms = {"LIMITS": "m_subpackage.m_changeset.CheckMemPoolPolicyLimits()", "REQSTD": "m_pool.m_opts.require_standard",
              "TRUC_DONE": "done(loop@%s)" % truc[0].get("l"), "PRE_DONE": "done(loop@%s)" % pre[0].get("l"),
              "SPENDS_DUST": re.compile(r"CheckEphemeralSpends\(txns, m_pool\.m_opts\.dust_relay_feerate, m_pool, \w+, \w+\)")}
    mspec = "PRE_DONE && TRUC_DONE && LIMITS && (!REQSTD || SPENDS_DUST)"
    site_implies(ctx, sites(m, call_to("MemPoolAccept::SubmitPackage"), P), msub, mspec, matoms, "AcceptMultiple/commit",
                 "SubmitPackage is reached only after PreChecks and PackageTRUCChecks ran for every transaction, CheckMemPoolPolicyLimits and CheckEphemeralSpends")
    site_implies(ctx, sites(m, call_to("MempoolAcceptResult::Success"), P), msub, mspec, matoms, "AcceptMultiple/valid",
                 "a VALID (test) result is produced only after the same checks")
    # per-element: a TRUC error / a failed PreChecks leaves the function
    for lp, what, hit in ((truc[0], "PackageTRUCChecks", re.compile(r"PackageTRUCChecks\(m_pool, each\(workspaces\)\.m_ptx, each\(workspaces\)\.m_vsize, txns, each\(workspaces\)\.m_parents\)")),
                          (pre[0], "PreChecks", (re.compile(r"MemPoolAccept::PreChecks\(args, each\(workspaces\)\)"), False))):
        rets = [r for r in returns(m, P) if lp in r.loops]
        conds = [F.mk_and([g.formula(site_subst(msub, r)) for g in in_loop_guards(r, lp) if g.kind != "post"]) for r in rets]
        cov, _, un = F.bind_atoms(F.mk_or(conds), {"HIT": hit})
        ok = F.counterexample(F.parse("HIT"), cov) is None and not has_break(lp.get("b")) and not any(st.get("k") == "continue" for st in stmts(lp.get("b")))
        ctx.ob("AcceptMultiple/%s-loop" % what, "LADDER", "in its loop over all package transactions a failing %s (called with that transaction's own data) ends the "
               "evaluation" % what, ok, "%s:%s" % (m.file, lp.get("l")), None if ok else {"covered": F.fshow(F.mk_or(conds))[:500], "unbound": un[:6]})


def _trim_after_commit(ctx, P):
    f = ctx.used(P.fn("MemPoolAccept::AcceptSingleTransactionInternal"))
    mf = MustFlow(f, P, marks=[("COMMIT", call_to("MemPoolAccept::FinalizeSubpackage")), ("TRIM_OR_DEFERRED", call_to("LimitMempoolSize"))],
                  branch_marks=[("TRIM_OR_DEFERRED", lambda a: match([".", ANY, "MemPoolAccept::ATMPArgs::m_package_submission"], a), True),
                                ("TRIM_OR_DEFERRED", lambda a: match([".", ANY, "MemPoolAccept::ATMPArgs::m_bypass_limits"], a), True)],
                  kills=[("TRIM_OR_DEFERRED", call_to("MemPoolAccept::FinalizeSubpackage"))])
    mf.run()
    n = 0
    for st, s in mf.exits:
        if "COMMIT" in st:
            n += 1
            ctx.ob("AcceptSingle/trim-after-commit@L%s" % s.get("l"), "ORDER", "every exit after the commit has called LimitMempoolSize, unless the caller defers trimming "
                   "(m_package_submission) or limits are bypassed (m_bypass_limits)", "TRIM_OR_DEFERRED" in st, "%s:%s" % (f.file, s.get("l")))
    ctx.floor("AcceptSingleTransactionInternal exits after the commit", n, 2)
    # the deferred trim of package submission
    ap = ctx.used(P.fn("MemPoolAccept::AcceptPackage"))
    mf = MustFlow(ap, P, marks=[("TRIM", call_to("LimitMempoolSize"))], kills=[("TRIM", call_to("MemPoolAccept::AcceptSubPackage"))])
    mf.watch = call_to("MemPoolAccept::AcceptSubPackage")
    mf.run()
    ctx.floor("AcceptPackage AcceptSubPackage calls", len(mf.events), 2)
    first = min(st.get("l") for _, _, st in mf.events)
    n = 0
    for st, s in mf.exits:
        if (s.get("l") or 0) > first:
            n += 1
            ctx.ob("AcceptPackage/trim@L%s" % s.get("l"), "ORDER", "AcceptPackage calls LimitMempoolSize after its last sub-package evaluation on every path that evaluated anything",
                   "TRIM" in st, "%s:%s" % (ap.file, s.get("l")))
    ctx.floor("AcceptPackage exits after evaluation", n, 1)
    lm = ctx.used(P.fn("LimitMempoolSize"))
    ts = sites(lm, call_to("CTxMemPool::TrimToSize"), P)
    ok = len(ts) == 1 and not [g for g in ts[0].guards if g.kind != "post"] and show(call_args(ts[0].expr)[0]) == "pool.m_opts.max_size_bytes"
    ctx.ob("LimitMempoolSize/trim", "EFFECT", "LimitMempoolSize unconditionally calls TrimToSize(pool.m_opts.max_size_bytes)", ok, lm.where)


# ------------------------------------------------------------------------------------------ txmempool.cpp

def _limits_and_trim(ctx, P):
    cl = ctx.used(P.fn("CTxMemPool::ChangeSet::CheckMemPoolPolicyLimits"))
    code = []
    for e in exits(cl, P):
        if e.kind != "ret":
            raise AnalysisBroken("CheckMemPoolPolicyLimits: unexpected exit")
        code.append(F.mk_and([e.formula, F.to_formula(e.value, naming(cl, P))]))
    g, _, un = F.bind_atoms(F.mk_or(code), {"OVERSIZED": re.compile(r"m_pool\.m_txgraph\.IsOversized\(TxGraph::Level::TOP\)")})
    ok = F.counterexample(g, F.parse("!OVERSIZED")) is None
    ctx.ob("CheckMemPoolPolicyLimits/returns", "TWIN", "CheckMemPoolPolicyLimits returns true only if the staged graph is not oversized (IsOversized(TOP) false)", ok, cl.where,
           None if ok else {"code": F.fshow(F.mk_or(code)), "unbound": un})
    mf = MustFlow(cl, P, marks=[("DEPS", call_to("CTxMemPool::ChangeSet::ProcessDependencies"))],
                  branch_marks=[("DEPS", lambda a: match([".", ANY, "CTxMemPool::ChangeSet::m_dependencies_processed"], a), True)])
    mf.watch = lambda e: callee(e) == "TxGraph::IsOversized"
    mf.run()
    ok = bool(mf.events) and all("DEPS" in st for _, st, _ in mf.events)
    ctx.ob("CheckMemPoolPolicyLimits/dependencies", "ORDER", "IsOversized is asked only after the staged transactions' dependencies were added to the graph", ok, cl.where)
    ct = ctx.used(P.fn("CTxMemPool::CTxMemPool"))
    mk = [x for i in (ct.d.get("inits") or []) if is_expr(i.get("i")) for x in subexprs(i["i"]) if is_call_to("MakeTxGraph", x)] + \
         [s.expr for s in sites(ct, call_to("MakeTxGraph"), P)]
    ok = bool(mk) and [show(a) for a in call_args(mk[0])[:2]] == ["m_opts.limits.cluster_count", "m_opts.limits.cluster_size_vbytes * 4"] or \
        (bool(mk) and [show(a) for a in call_args(mk[0])[:2]] == ["m_opts.limits.cluster_count", "4 * m_opts.limits.cluster_size_vbytes"])
    ctx.ob("CTxMemPool/cluster-limits", "PROVENANCE", "the transaction graph is created with the configured cluster count and cluster size (vbytes * WITNESS_SCALE_FACTOR) limits",
           bool(ok), ct.where, {"args": [show(a) for a in call_args(mk[0])[:2]] if mk else None})

    tr = ctx.used(P.fn("CTxMemPool::TrimToSize"))
    sub = naming(tr, P)
    ends = [e for e in exits(tr, P, sub)]
    atoms = {"EMPTY": "mapTx.empty()", "OVER": re.compile(r"sizelimit < CTxMemPool::DynamicMemoryUsage\(\)")}
    for e in ends:
        implies_ob(ctx, "TrimToSize/post@L%s" % e.line, "LADDER", "TrimToSize returns only when the pool is empty or DynamicMemoryUsage() <= sizelimit", e.formula,
                   "EMPTY || !OVER", atoms, "%s:%s" % (tr.file, e.line))
    loops = [st for st in stmts(tr.body) if st.get("k") == "while"]
    if len(loops) != 1:
        raise AnalysisBroken("TrimToSize: eviction loop not found")
    lp = loops[0]
    ctx.ob("TrimToSize/no-early-exit", "LADDER", "the eviction loop is left only through its condition", not has_break(lp.get("b")) and
           not any(st.get("k") in ("ret", "throw") for st in stmts(lp.get("b"))), "%s:%s" % (tr.file, lp.get("l")))
    tp = sites(tr, call_to("CTxMemPool::trackPackageRemoved"), P)
    rm = sites(tr, call_to("CTxMemPool::removeUnchecked"), P)
    ctx.floor("TrimToSize trackPackageRemoved / removeUnchecked sites", min(len(tp), len(rm)), 1)
    for s in tp:
        a = call_args(s.expr)[0]
        vals = local_values(tr, a[1]) if a[0] == "local" else []
        texts = [show(v) for _, v in vals]
        ok = lp in s.loops and not [g for g in in_loop_guards(s, lp) if g.kind != "post"] and len(vals) == 2 and \
            re.fullmatch(r"CFeeRate\{(\w+)\.fee, \1\.size\}", texts[0]) is not None and vals[1][1][0] == "compound" and vals[1][1][1] == "+=" and \
            show(vals[1][1][2]) == "m_opts.incremental_relay_feerate" and vals[1][0] < s.line
        ctx.ob("TrimToSize/bump@L%s" % s.line, "PROVENANCE", "every eviction round calls trackPackageRemoved(feerate of the evicted chunk + incremental relay feerate)", ok, s.where,
               {"value": texts})
        fr = [show(v) for _, v in local_values(tr, re.fullmatch(r"CFeeRate\{(\w+)\.fee.*", texts[0]).group(1))] if ok else []
        okf = ok and any("ToFeePerVSize(" in t for t in fr) and any("GetWorstMainChunk" in show(v) for st in stmts(lp.get("b")) if st.get("k") == "decl" for v in [st.get("i")] if is_expr(v))
        ctx.ob("TrimToSize/evicted-feerate@L%s" % s.line, "PROVENANCE", "the tracked feerate is that of TxGraph::GetWorstMainChunk() (the chunk being evicted)", okf, s.where)
    for s in rm:
        ok = tp and all(t.line < s.line for t in tp) and lp in s.loops
        ctx.ob("TrimToSize/bump-before-remove@L%s" % s.line, "ORDER", "the rolling minimum fee is bumped before the chunk is removed (same loop iteration)", bool(ok), s.where)
    tk = ctx.used(P.fn("CTxMemPool::trackPackageRemoved"))
    wr = [s for s in sites(tk, lambda e: e[0] == "b" and e[1] == "=" and match([".", ANY, "CTxMemPool::rollingMinimumFeeRate"], e[2]), P)]
    ok = len(wr) == 1 and show(wr[0].expr[3]).replace("(double)", "") == "rate.GetFeePerK()" and \
        F.fshow(F.mk_and([g.formula(naming(tk, P)) for g in wr[0].guards if g.kind != "post"])).replace("(double)", "") == "rollingMinimumFeeRate < rate.GetFeePerK()"
    ctx.ob("trackPackageRemoved/raise", "EFFECT", "trackPackageRemoved raises rollingMinimumFeeRate to rate.GetFeePerK() whenever that is larger", ok, tk.where,
           {"write": show(wr[0].expr) if wr else None})
    bs = [s for s in sites(tk, lambda e: match(["b", "=", [".", ANY, "CTxMemPool::blockSinceLastRollingFeeBump"], ["bool", False]], e), P)]
    ctx.ob("trackPackageRemoved/no-decay", "EFFECT", "and clears blockSinceLastRollingFeeBump in the same branch (no decay until the next block)",
           len(bs) == 1 and wr and [g.line for g in bs[0].guards] == [g.line for g in wr[0].guards], tk.where)
    gm = ctx.used(P.fn("CTxMemPool::GetMinFee", nparams=1))
    ok = False
    for e in exits(gm, P):
        if e.kind == "ret" and re.fullmatch(r"CFeeRate\{llround\(rollingMinimumFeeRate\)\}", show(e.value)):
            g2, _, _ = F.bind_atoms(e.formula, {"BLOCKSINCE": "blockSinceLastRollingFeeBump", "ROLLING": "rollingMinimumFeeRate"})
            ok = F.counterexample(F.parse("!BLOCKSINCE"), g2) is None
    ctx.ob("GetMinFee/undecayed", "LADDER", "while no block arrived since the last bump GetMinFee returns the rolling minimum feerate itself", ok, gm.where)
