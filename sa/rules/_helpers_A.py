"""Helpers shared by the rule modules C04-C07 (written by the author of those rules; no engine change).

* full_subst       naming() plus *every* declared-once, never-written local (any type), so that e.g.
                   `uint256 merkle_root = BlockMerkleRoot(..)` is seen through.
* drop_done        `done(loop@N)` is a fact at every point behind loop N; set those atoms to true
                   (needed for equivalence checks; logging macros expand to do/while loops).
* check_excludes   NECESSARY ladder clause with a caller-chosen substitution: accepting exits imply !cond.
* check_results    every `state.Invalid(R, "reason")` exit is in the table with that result; all table rows present.
* check_equiv      a return-value / site guard formula is *equivalent* to a spec formula.
* for_shape        (var, init, canonical condition, increment) of a counted for-loop.
"""
import re

from sa.engine.api import *

DONE = re.compile(r"done\(loop@\d+\)")


def full_subst(fn, P, keep=()):
    subst = dict(naming(fn, P))
    names = [st["n"] for st in stmts(fn.body) if st.get("k") == "decl" and st.get("n")]
    for n, v in local_defs(fn, P, extra_ok=tuple(names)).items():
        if n not in subst and n not in keep:
            subst[n] = v
    for k in keep:
        subst.pop(k, None)
    return subst


def drop_atoms(f, rx, value=True):
    t = f[0]
    if t == "atom":
        if rx.fullmatch(f[1]):
            return F.T if value else F.Fa
        return f
    if t == "not":
        return F.mk_not(drop_atoms(f[1], rx, value))
    if t == "and":
        return F.mk_and([drop_atoms(x, rx, value) for x in f[1]])
    if t == "or":
        return F.mk_or([drop_atoms(x, rx, value) for x in f[1]])
    return f


def drop_done(f):
    return drop_atoms(f, DONE, True)


def bound(f, atoms):
    """bind + report: (renamed formula, mapping, unbound atoms that are not done()-markers)."""
    g, mapping, un = F.bind_atoms(f, atoms)
    return g, mapping, [u for u in un if not DONE.fullmatch(u)]


def check_excludes(ctx, fn, P, exits_, cond, atoms, oid, text, rule="LADDER"):
    """Every exit in exits_ is reached only if NOT cond."""
    spec = F.mk_not(F.parse(cond))
    allok = True
    for e in exits_:
        f, mapping, un = bound(e.formula, atoms)
        cex = F.counterexample(f, spec)
        ok = cex is None
        allok = allok and ok
        ctx.ob("%s@L%s" % (oid, e.line), rule, "%s [exit of %s at line %s is reached only if NOT (%s)]" % (text, fn.q, e.line, cond), ok,
               "%s:%s" % (fn.file, e.line),
               None if ok else {"path_condition": F.fshow(e.formula)[:1500], "binding": mapping, "unbound_code_atoms": un[:12], "counterexample": cex})
    return allok


def check_results(ctx, fn, P, table, oid=None, closed=True, ex=None):
    """table: {reason: result enum}.  Every listed reason has a rejecting exit, each with the listed result;
    with closed=True no other `Invalid(..)` exit exists."""
    oid = oid or fn.q
    ex = exits(fn, P) if ex is None else ex
    seen = {}
    for e in ex:
        ic = invalid_call(e.value)
        if not ic:
            continue
        res, reason = ic
        where = "%s:%s" % (fn.file, e.line)
        if reason in table:
            seen[reason] = seen.get(reason, 0) + 1
            ok = (res == table[reason])
            ctx.ob("%s/result:%s@L%s" % (oid, reason, e.line), "LADDER", "%s reports '%s' as %s" % (fn.q, reason, table[reason]), ok, where,
                   None if ok else {"got": res})
        elif closed:
            ctx.ob("%s/extra-reject@L%s" % (oid, e.line), "LADDER", "every rejection of %s is one of %s" % (fn.q, sorted(table)), False, where,
                   {"reason": reason, "result": res})
    for reason in table:
        if reason not in seen:
            ctx.ob("%s/missing:%s" % (oid, reason), "LADDER", "%s has a rejecting exit '%s'" % (fn.q, reason), False, fn.where)
    return seen


def return_formula(fn, P, subst=None, value=None):
    """Disjunction over the `return e` exits of (path && value(e)); value defaults to the truth of e."""
    subst = naming(fn, P) if subst is None else subst
    parts = []
    for e in exits(fn, P, subst):
        if e.kind != "ret" or not is_expr(e.value):
            raise AnalysisBroken("%s: unexpected exit kind in a predicate function" % fn.q)
        v = F.to_formula(e.value, subst) if value is None else value(e)
        parts.append(F.mk_and([e.formula, v]))
    return drop_done(F.mk_or(parts))


def check_equiv(ctx, code, spec_text, atoms, oid, rule, text, where, strict=True):
    """code formula <=> spec formula (after binding); with strict, unbound code atoms are a failure."""
    f, mapping, un = bound(drop_done(code), atoms)
    spec = F.parse(spec_text)
    c1 = F.counterexample(f, spec)
    c2 = F.counterexample(spec, f)
    ok = c1 is None and c2 is None and not (strict and un)
    ctx.ob(oid, rule, text, ok, where,
           None if ok else {"code": F.fshow(code)[:1500], "spec": spec_text, "binding": mapping, "unbound_code_atoms": un[:12],
                            "counterexample": c1 or c2})
    return ok


def check_returns(ctx, fn, P, spec_text, atoms, subst=None, oid=None, rule="TWIN", strict=True):
    code = return_formula(fn, P, subst)
    ctx.used(fn)
    return check_equiv(ctx, code, spec_text, atoms, "%s/returns" % (oid or fn.q), rule,
                       "%s returns true exactly when (%s)" % (fn.q, spec_text), fn.where, strict)


def own_formula(site, subst, kinds=("if", "sc", "loop", "case")):
    """Conjunction of the enclosing branch/loop/short-circuit conditions of a site (no post-conditions)."""
    return F.mk_and([g.formula(subst) for g in site.guards if g.kind in kinds])


def for_shape(loop, subst=None):
    """(var, show(init), canonical condition text, show(inc)) of a `for (T v = init; cond; inc)` loop."""
    init = loop.get("init") or {}
    var = init.get("n") if isinstance(init, dict) else None
    start = show(init.get("i")) if isinstance(init, dict) and is_expr(init.get("i")) else None
    s2 = {k: v for k, v in (subst or {}).items() if k != var}
    cond = F.fshow(F.to_formula(loop.get("c"), s2)) if is_expr(loop.get("c")) else None
    inc = show(loop.get("inc")) if is_expr(loop.get("inc")) else None
    return var, start, cond, inc


def loops_in(fn, kind=None):
    return [st for st in stmts(fn.body) if st.get("k") in ((kind,) if kind else ("for", "while", "foreach", "do"))]


def writes_to_local(fn, name):
    """[(line, op, rhs)] for every assignment / inc / address-of of local `name` (declaration excluded)."""
    out = []
    for st in stmts(fn.body):
        for _, e in stmt_exprs(st):
            for x in subexprs(e):
                if x[0] == "b" and x[1] in ASSIGN_OPS and match(["local", name], x[2]):
                    out.append((st.get("l"), x[1], x[3]))
                if x[0] == "u" and x[1] in ("++", "--", "post++", "post--", "&") and match(["local", name], x[2]):
                    out.append((st.get("l"), x[1], None))
    return out


def decl_of(fn, name):
    ds = [st for st in stmts(fn.body) if st.get("k") == "decl" and st.get("n") == name]
    return ds[0] if len(ds) == 1 else None


def max_line(s):
    return max([x.get("l") or 0 for x in stmts(s)] + [s.get("l") or 0])


def index_in(seq_stmt, pred):
    """Indices of the direct children of a seq statement that contain an expression satisfying pred."""
    out = []
    for i, st in enumerate(seq_stmt.get("s", [])):
        if any(pred(x) for _, e in all_exprs(st) for x in subexprs(e)):
            out.append(i)
    return out


def check_loop_rung(ctx, fn, P, label, cond, atoms, loop_rx, accepts, rejects, when="true", subst=None, oid=None):
    """Per-element reject rung (same obligations as the engine's ladder, but the 'loop completed before accept'
    implication is stated as  accept-path => done(loop) || !when  so that cone-of-influence slicing keeps the
    scalar pre-condition).  (A) in a loop whose range key matches loop_rx: cond => some rejection in the iteration;
    (B) the loop has no break; (C) every accepting exit (under `when`) lies behind the completed loop."""
    oid = oid or fn.q
    subst = naming(fn, P) if subst is None else subst
    spec = F.parse(cond)
    loops = {}
    for e in rejects:
        for lp in e.loops:
            key = loop_range_key(lp, subst)
            if re.fullmatch(loop_rx, key):
                loops.setdefault(id(lp), (lp, key, []))[2].append(e)
    if not loops:
        ctx.ob("%s/rung:%s" % (oid, label), "LADDER", "%s has a rejecting exit inside a loop over %s for [%s]" % (fn.q, loop_rx, label), False, fn.where,
               {"loops_with_rejects": sorted({loop_range_key(lp, subst) for e in rejects for lp in e.loops})})
        return None
    best = None
    for lp, key, es in loops.values():
        lo, hi = lp.get("l"), max_line(lp)
        parts = []
        for e in es:
            gs = [g for g in e.guards if g.line is not None and lo <= g.line <= hi and not (g.kind == "loop" and g.line == lo)]
            parts.append(F.mk_and([g.formula(subst) for g in gs]))
        rej = drop_done(F.mk_or(parts))
        f, mapping, un = bound(rej, atoms)
        cex = F.counterexample(spec, f)
        res = (cex is None, lp, key, rej, mapping, un, cex, es)
        if best is None or (res[0] and not best[0]):
            best = res
    ok, lp, key, rej, mapping, un, cex, es = best
    ctx.ob("%s/rung:%s/elem" % (oid, label), "LADDER", "inside the loop %s of %s: (%s) => the iteration rejects [%s]" % (key, fn.q, cond, label), ok,
           "%s:%s" % (fn.file, es[0].line), None if ok else {"in_loop_reject_condition": F.fshow(rej), "binding": mapping, "unbound_code_atoms": un[:12], "counterexample": cex})
    brk = has_break(lp.get("b"))
    ctx.ob("%s/rung:%s/complete" % (oid, label), "LADDER", "the loop %s at line %s is left only by completing or rejecting (no break)" % (key, lp.get("l")), not brk,
           "%s:%s" % (fn.file, lp.get("l")))
    concl = F.mk_or([F.atom("done(loop@%s)" % lp.get("l")), F.mk_not(F.parse(when))])
    for a in accepts:
        f, mapping, un = F.bind_atoms(a.formula, atoms)
        cex = F.counterexample(f, concl)
        ok2 = cex is None
        ctx.ob("%s/rung:%s/before-accept@L%s" % (oid, label, a.line), "LADDER",
               "the accepting exit at line %s is reached (when %s) only after the loop %s at line %s completed" % (a.line, when, key, lp.get("l")), ok2,
               "%s:%s" % (fn.file, a.line), None if ok2 else {"accept_path_condition": F.fshow(a.formula)[:1200], "counterexample": cex})
    return lp


def in_loop_formula(site, loop, subst):
    """Conjunction of the site's dominating conditions that arise inside `loop` (its own condition included)."""
    lo, hi = loop.get("l"), max_line(loop)
    return F.mk_and([g.formula(subst) for g in site.guards if g.line is not None and lo <= g.line <= hi])


def invalid_sites(fn, P, reason):
    """Call sites `<state>.Invalid(<result>, "<reason>", ..)`."""
    def pred(e):
        if e[0] in ("mcall", "vcall") and e[1] == "ValidationState::Invalid":
            ic = invalid_call(e)
            return bool(ic) and ic[1] == reason
        return False
    return sites(fn, pred, P)


def check_deferred_rung(ctx, fn, P, reason, result, spec_text, atoms, subst, oid=None, state_param="state"):
    """ConnectBlock-style rung: `state.Invalid(R, "reason"); break;` inside the transaction loop with the verdict taken
    after the loop.  The Invalid call must be reached in an iteration exactly when spec_text holds (no extra condition,
    none missing), must carry `result`, and must address the function's own state parameter."""
    oid = oid or fn.q
    ss = invalid_sites(fn, P, reason)
    if len(ss) != 1:
        ctx.ob("%s/rung:%s" % (oid, reason), "LADDER", "%s has exactly one rejection '%s'" % (fn.q, reason), False, fn.where, {"found": len(ss)})
        return None
    s = ss[0]
    if not s.loops:
        raise AnalysisBroken("%s: rejection '%s' is not inside a loop (idiom changed)" % (fn.q, reason))
    lp = s.loops[0]
    code = drop_loop_conds(in_loop_formula(s, lp, subst), all_loop_infos(fn, subst))
    check_equiv(ctx, code, spec_text, atoms, "%s/rung:%s/cond" % (oid, reason), "LADDER",
                "in an iteration of the transaction loop of %s, '%s' is raised exactly when (%s)" % (fn.q, reason, spec_text), s.where)
    ic = invalid_call(s.expr)
    obj = call_obj(s.expr)
    ok = ic[0] == result and match(["param", state_param], obj)
    ctx.ob("%s/rung:%s/result" % (oid, reason), "LADDER", "'%s' is recorded as %s in the block's validation state" % (reason, result), ok, s.where,
           None if ok else {"result": ic[0], "object": show(obj)})
    return s


def check_deferred_accepts(ctx, fn, P, spec_text, atoms, subst=None, oid=None):
    """Every `return true` of fn is reached only if spec_text (typically `state.IsValid()` or a named exemption)."""
    oid = oid or fn.q
    subst = naming(fn, P) if subst is None else subst
    acc = [e for e in exits(fn, P, subst) if is_true_ret(e)]
    if not acc:
        raise AnalysisBroken("%s: no accepting exit" % fn.q)
    spec = F.parse(spec_text)
    for e in acc:
        f, mapping, un = bound(e.formula, atoms)
        cex = F.counterexample(f, spec)
        ok = cex is None
        ctx.ob("%s/accept-valid@L%s" % (oid, e.line), "TYPESTATE", "%s returns true at line %s only if (%s): a recorded rejection is never overridden" % (fn.q, e.line, spec_text),
               ok, "%s:%s" % (fn.file, e.line), None if ok else {"binding": mapping, "counterexample": cex})
    return acc


def loop_subst(fn, P, loop):
    """naming(fn) corrected for sites inside `loop`: a `const T& v = init;` declared directly in the loop body (and never written)
    wins over an unrelated range-for variable of the same name elsewhere in the function."""
    subst = dict(naming(fn, P))
    body = loop.get("b") or {}
    for st in body.get("s", []) if body.get("k") == "seq" else []:
        if st.get("k") == "decl" and st.get("n") and is_expr(st.get("i")) and (st.get("ty") or "").startswith("const ") and not writes_to_local(fn, st["n"]):
            subst[st["n"]] = st["i"]
    return subst


def check_accumulator(ctx, fn, P, name, init_rx, adds, oid=None, subst=None, scope=None, init_text="0", own=False):
    """The local `name` is a sum: declared with an initialiser whose canonical text fullmatches init_rx and modified only by the listed
    `name += term` statements.  adds: [(term_rx, cond_spec, atoms, loop_rx or None, text)] - for each, exactly one `+=` whose canonical
    term fullmatches term_rx, whose dominating condition (inside `scope` if given, a loop statement) is *equivalent* to cond_spec, and
    which sits in a break-free loop whose range key fullmatches loop_rx (innermost) / in no loop beyond `scope`."""
    oid = oid or "%s/sum:%s" % (fn.q, name)
    subst = naming(fn, P) if subst is None else subst
    d = decl_of(fn, name)
    k0 = F.key(F.expand(d["i"], subst)) if d is not None and is_expr(d.get("i")) else None
    ok0 = k0 is not None and re.fullmatch(init_rx, k0) is not None
    ctx.ob("%s/init" % oid, "SUM", "%s of %s starts as %s" % (name, fn.q, init_text), ok0, fn.where, {"init": k0})
    ws = sites(fn, lambda e: e[0] in ("b", "u") and ((e[0] == "b" and e[1] in ASSIGN_OPS) or (e[0] == "u" and e[1] in ("++", "--", "post++", "post--", "&")))
               and match(["local", name], e[2]), P)
    used = set()
    for term_rx, spec, atoms, loop_rx, text in adds:
        hit = None
        for i, s in enumerate(ws):
            if i in used or s.expr[0] != "b" or s.expr[1] != "+=":
                continue
            if re.fullmatch(term_rx, F.key(F.expand(s.expr[3], subst))):
                hit = i
                break
        if hit is None:
            ctx.ob("%s/add:%s" % (oid, text), "SUM", "%s adds %s" % (fn.q, text), False, fn.where, {"writes": [F.key(F.expand(s.expr, subst)) for s in ws]})
            continue
        used.add(hit)
        s = ws[hit]
        inner = [lp for lp in s.loops if lp is not scope]
        if scope is not None and scope not in s.loops:
            inner = None
        if loop_rx is None:
            okl = inner == []
        else:
            okl = bool(inner) and len(inner) == 1 and re.fullmatch(loop_rx, loop_range_key(inner[0], subst)) is not None and not has_break(inner[0].get("b")) \
                and _counted_ok(fn, inner[0], subst)
        ctx.ob("%s/add-loop:%s" % (oid, text), "SUM", "%s adds %s %s" % (fn.q, text, "once (outside any inner loop)" if loop_rx is None else "for every element of a complete loop " + loop_rx),
               bool(okl), s.where, {"loops": [loop_range_key(lp, subst) for lp in s.loops]})
        code = own_formula(s, subst) if own else (in_loop_formula(s, scope, subst) if scope is not None else s.formula(subst))
        code = drop_loop_conds(code, all_loop_infos(fn, subst))
        check_equiv(ctx, code, spec, atoms, "%s/add-cond:%s" % (oid, text), "SUM", "%s adds %s exactly when (%s)" % (fn.q, text, spec), s.where)
    extra = [s for i, s in enumerate(ws) if i not in used]
    ctx.ob("%s/no-other-write" % oid, "SUM", "%s is modified by nothing but the listed additions" % name, not extra, fn.where,
           {"other_writes": [(s.line, show(s.expr)) for s in extra]} if extra else None)
    return ws


def _counted_ok(fn, loop, subst):
    """A counted for-loop must start at its stated initial value and step by one over an unmodified index; foreach loops are complete by construction."""
    if loop.get("k") != "for":
        return loop.get("k") == "foreach"
    var, start, cond, inc = for_shape(loop, subst)
    return var is not None and inc in ("%s++" % var, "++%s" % var) and not [w for w in writes_to_local(fn, var) if w[1] not in ("post++", "++")]


# ---------------------------------------------------------------------------------------------- operation sequences on a mutable local
READ_METHODS = {"GetCompact", "getdouble", "GetHex", "ToString", "bits", "GetLow64", "size", "begin", "end", "data", "has_value", "value", "operator bool",
                "operator*", "operator->", "IsNull", "empty"}


class Op:
    def __init__(self, site, kind, args, guard):
        self.site, self.kind, self.args, self.guard, self.line = site, kind, args, guard, site.line

    def __repr__(self):
        return "L%s %s(%s) if %s" % (self.line, self.kind, ", ".join(self.args), F.fshow(self.guard))


def ops_on(fn, P, name, subst):
    """Every operation that may modify local `name`, in source order: assignments/compound assignments (built-in or overloaded), ++/--/&,
    and member calls other than known pure readers.  Each with canonical argument texts and its enclosing branch conditions."""
    out = []
    for s in all_sites(fn, P):
        e = s.expr
        if e is None:
            continue
        if e[0] == "b" and e[1] in ASSIGN_OPS and match(["local", name], e[2]):
            kind, args = e[1], [e[3]]
        elif e[0] == "u" and e[1] in ("++", "--", "post++", "post--", "&") and match(["local", name], e[2]):
            kind, args = e[1], []
        elif e[0] in ("mcall", "vcall") and match(["local", name], e[2]) and e[1].rsplit("::", 1)[-1] not in READ_METHODS:
            kind, args = e[1].rsplit("::", 1)[-1], [a for a in call_args(e) if not (is_expr(a) and a[0] == "defarg")]
        else:
            continue
        out.append(Op(s, kind, [F.key(F.expand(a, subst)) for a in args], own_formula(s, subst)))
    out.sort(key=lambda o: o.line or 0)
    return out


def check_ops(ctx, fn, ops, groups, atoms, oid, text):
    """ops must consist of the expected groups in order; inside a group the alternatives may come in any order.
    groups: [[(kind, [arg regex...], guard spec text), ...], ...]"""
    flat = sum(len(g) for g in groups)
    detail = {"operations": [repr(o) for o in ops]}
    if len(ops) != flat:
        ctx.ob(oid, "SEQUENCE", text, False, fn.where, detail)
        return False
    pos = 0
    ok = True
    for g in groups:
        chunk = ops[pos:pos + len(g)]
        pos += len(g)
        left = list(chunk)
        for kind, arg_rx, spec in g:
            hit = None
            for o in left:
                if o.kind != kind or len(o.args) != len(arg_rx) or not all(re.fullmatch(rx, a) for rx, a in zip(arg_rx, o.args)):
                    continue
                f, mapping, un = bound(drop_done(o.guard), atoms)
                if un or not F.equivalent(f, F.parse(spec)):
                    continue
                hit = o
                break
            if hit is None:
                ok = False
                detail.setdefault("unmatched_expected", []).append([kind, arg_rx, spec])
            else:
                left.remove(hit)
    ctx.ob(oid, "SEQUENCE", text, ok, "%s:%s" % (fn.file, ops[0].line) if ops else fn.where, None if ok else detail)
    return ok


# ---------------------------------------------------------------------------------------------- loops in either spelling (range-for / counting loop)
def _plain(subst):
    return {k: v for k, v in (subst or {}).items() if k != "@idx"}


def loop_info(fn, lp, subst):
    """Describe a loop independent of its spelling.  kind: 'each' (range-for) | 'index' (for (T v = S; v < R.size(); ++v)) | 'other';
    ranges: canonical texts of R (with and without the engine's element normalisation); var: loop variable; start: text of S ('0' for
    range-for); conds: canonical loop-condition atoms of an index loop; complete: no break, and for an index loop step +1 over an index
    that nothing but the loop header writes."""
    k = lp.get("k")
    s0 = _plain(subst)
    both = [s0, dict(subst or {})]

    def texts(e, drop=None):
        out = []
        for sb in both:
            t = F.key(F.expand(e, {k2: v2 for k2, v2 in sb.items() if k2 != drop}))
            if t not in out:
                out.append(t)
        return out
    if k == "foreach":
        v = lp.get("var") or {}
        rs = texts(lp.get("range"))
        return dict(kind="each", range=rs[0], ranges=rs, var=v.get("n"), start="0", cond=None, conds=[], counted=True, complete=not has_break(lp.get("b")), loop=lp)
    if k == "for":
        var, start, cond, inc = for_shape(lp, s0)
        c = lp.get("c")
        if var and is_expr(c) and c[0] == "b" and c[1] == "<" and match(["local", var], c[2]) and is_expr(c[3]) and c[3][0] in ("mcall", "vcall") and len(c[3]) == 3 \
                and c[3][1].endswith("::size"):
            rs = texts(c[3][2], drop=var)
            nloops = len([1 for l2 in loops_in(fn, "for") if for_shape(l2, s0)[0] == var])
            ws = writes_to_local(fn, var)
            counted = inc in ("%s++" % var, "++%s" % var) and not [w for w in ws if w[1] not in ("post++", "++")] and len(ws) == nloops
            conds = ["%s < %s.size()" % (var, r) for r in rs]
            return dict(kind="index", range=rs[0], ranges=rs, var=var, start=start, cond=conds[0], conds=conds, counted=counted,
                        complete=counted and not has_break(lp.get("b")), loop=lp)
    return dict(kind="other", range=None, ranges=[], var=None, start=None, cond=None, conds=[], counted=False, complete=False, loop=lp)


def elem_rx(info):
    """Regex for 'the current element' of the loop in canonical terms: each(R) (range-for, or a counting loop the engine normalised) or R[v]."""
    alts = []
    for r in info["ranges"]:
        alts.append(r"each\(" + re.escape(r) + r"\)")
        if info["kind"] == "index":
            alts.append(re.escape(r) + r"\[" + re.escape(info["var"]) + r"\]")
    return r"(?:" + "|".join(alts or ["(?!)"]) + r")"


def loop_key_rx(info):
    """Regex accepting the engine's range key of this loop in either spelling."""
    alts = []
    for r in info["ranges"]:
        alts.append(r"each\(" + re.escape(r) + r"\)")
    for c in info["conds"]:
        alts.append(r"for\(" + re.escape(info["start"] or "?") + r"; " + re.escape(c) + r"\)")
    return r"(?:" + "|".join(alts or ["(?!)"]) + r")"


def drop_loop_conds(f, infos):
    """Inside a complete index loop its condition `v < R.size()` holds, behind it the negation holds: both are spelling artefacts of the
    counting form (a range-for has neither), so they are set to true - only for loops whose index steps by one and is written by nothing else
    (the engine emits the negated condition behind a loop only when the loop has no break)."""
    for info in infos:
        if info.get("kind") == "index" and info.get("counted"):
            for c in info["conds"]:
                f = _drop_both(f, c)
    return f


def _drop_both(f, key):
    t = f[0]
    if t == "atom":
        return F.T if f[1] == key else f
    if t == "not":
        if f[1][0] == "atom" and f[1][1] == key:
            return F.T
        return F.mk_not(_drop_both(f[1], key))
    if t == "and":
        return F.mk_and([_drop_both(x, key) for x in f[1]])
    if t == "or":
        return F.mk_or([_drop_both(x, key) for x in f[1]])
    return f


def all_loop_infos(fn, subst):
    return [loop_info(fn, lp, subst) for lp in loops_in(fn) if lp.get("k") in ("for", "foreach")]


def nf(fn, subst, f):
    """Spelling-neutral form of a path condition: done()-markers and the conditions of counted index loops set to true."""
    return drop_loop_conds(drop_done(f), all_loop_infos(fn, subst))
