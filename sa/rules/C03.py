"""C03 Context-free transaction checks accept exactly the spec-valid transactions (DESIGN §3 C03)."""
import re

from sa.engine.api import *

UNITS = ["consensus/tx_check.cpp"]
EXPLANATION = ("LADDER rule in EXACT mode on CheckTransaction: every accepting exit's path condition excludes each of the 9 "
               "spec reject conditions (per-element conditions are enforced by complete loops over vin/vout that precede "
               "acceptance), every rejecting exit is one of the 9 spec rungs with the TX_CONSENSUS result and rejects only "
               "under its spec condition, rungs are in spec order; the predicate atoms MoneyRange, CTransaction::IsCoinBase "
               "and COutPoint::IsNull are pinned by truth-table equivalence with their definitions; the value accumulator "
               "feeding the total-range rung adds every output's nValue. Decides the decision structure for all inputs; "
               "GetSerializeSize and std::set::insert are trusted atoms.")
ASSUMPTIONS = ["clang-14 front end + /verif/shim", "GetSerializeSize(TX_NO_WITNESS(tx)) computes the stripped size (opaque atom)",
               "std::set<COutPoint>::insert(...).second is false exactly for duplicates (library semantics)"]

CLAIM = dict(
    technique="static analysis: LADDER (EXACT) reject-ladder conformance by truth tables over canonical guard atoms + predicate twins + constants",
    text="Decides, for all inputs, the decision structure of CheckTransaction: every accepting path excludes each of the nine spec "
         "reject conditions (per-element ones via complete loops), every rejection is a spec rung with its reason/result and fires only "
         "under its spec condition, in spec order; MoneyRange/IsCoinBase/IsNull equal their definitions. A unit test samples inputs; "
         "this quantifies over all paths.",
    note="Not decided: GetSerializeSize arithmetic, std::set semantics (opaque atoms).",
    ref="DESIGN.md §3 C03")

R = "TxValidationResult::TX_CONSENSUS"
SIZE = "tx.vin[0].scriptSig.size()"

RUNGS = [
    Rung("bad-txns-vin-empty", "VIN_EMPTY", {"VIN_EMPTY": "tx.vin.empty()"}, result=R),
    Rung("bad-txns-vout-empty", "VOUT_EMPTY", {"VOUT_EMPTY": "tx.vout.empty()"}, result=R),
    Rung("bad-txns-oversize", "OVERSIZE", {"OVERSIZE": ("4 * GetSerializeSize(TX_NO_WITNESS(tx)) < 4000001", False)}, result=R),
    Rung("bad-txns-vout-negative", "NEG", {"NEG": "each(tx.vout).nValue < 0"}, loop=r"each\(tx\.vout\)", result=R),
    Rung("bad-txns-vout-toolarge", "LARGE", {"LARGE": ("each(tx.vout).nValue < 2100000000000001", False)}, loop=r"each\(tx\.vout\)", result=R),
    Rung("bad-txns-txouttotal-toolarge", "TOTAL_OUT_OF_RANGE",
         {"TOTAL_OUT_OF_RANGE": (re.compile(r"MoneyRange\(\w+\)"), False),
          "NEG": "each(tx.vout).nValue < 0", "LARGE": ("each(tx.vout).nValue < 2100000000000001", False)}, loop=r"each\(tx\.vout\)", result=R),
    Rung("bad-txns-inputs-duplicate", "DUP",
         {"DUP": (re.compile(r"\w+\.insert\(each\(tx\.vin\)\.prevout\)\.second"), False)}, loop=r"each\(tx\.vin\)", result=R),
    Rung("bad-cb-length", "COINBASE && (SHORT || LONG)",
         {"COINBASE": "tx.IsCoinBase()", "SHORT": SIZE + " < 2", "LONG": (SIZE + " < 101", False)}, result=R),
    Rung("bad-txns-prevout-null", "NULLPREV", {"COINBASE": "tx.IsCoinBase()", "NULLPREV": "each(tx.vin).prevout.IsNull()"},
         loop=r"each\(tx\.vin\)", result=R, when="!COINBASE"),
]


def check(ctx):
    P = ctx.program(UNITS)
    f = ctx.used(P.fn("CheckTransaction"))
    ex = check_ladder(ctx, f, P, RUNGS, is_accept=is_true_ret, mode="EXACT", ordered=True)
    ctx.floor("CheckTransaction exits", len(ex), 10)
    # the exact-mode rungs for loop conditions that sit under a structural branch: the coinbase split
    accumulator(ctx, P, f)
    # atoms pinned by their definitions
    mr = ctx.used(P.fn("MoneyRange"))
    check_return_formula(ctx, mr, P, "!NEG && !BIG", {"NEG": "nValue < 0", "BIG": ("nValue < 2100000000000001", False)})
    cb = ctx.used(P.fn("CTransaction::IsCoinBase"))
    check_return_formula(ctx, cb, P, "ONE && NULL0", {"ONE": "vin.size() == 1", "NULL0": "vin[0].prevout.IsNull()"})
    isnull = ctx.used(P.fn("COutPoint::IsNull"))
    check_return_formula(ctx, isnull, P, "HNULL && NMAX", {"HNULL": "hash.IsNull()", "NMAX": "n == 4294967295"})
    v = P.const("COutPoint::NULL_INDEX")
    ctx.ob("const/NULL_INDEX", "CONST", "COutPoint::NULL_INDEX == 0xffffffff", v == 0xffffffff, None, {"value": v})
    ctx.ob("const/MAX_MONEY", "CONST", "MAX_MONEY == 21,000,000 * 100,000,000", P.const("MAX_MONEY") == 21000000 * 100000000, None)
    ctx.ob("const/MAX_BLOCK_WEIGHT", "CONST", "MAX_BLOCK_WEIGHT == 4,000,000 and WITNESS_SCALE_FACTOR == 4",
           P.const("MAX_BLOCK_WEIGHT") == 4000000 and P.const("WITNESS_SCALE_FACTOR") == 4, None)


def accumulator(ctx, P, f):
    """The total checked by MoneyRange is the sum of all outputs: inside the vout loop,
    `<acc> += <loopvar>.nValue` precedes the MoneyRange rung and acc starts at 0."""
    ok = False
    where = f.where
    for st in stmts(f.body):
        if st.get("k") == "foreach" and show(st.get("range")) == "tx.vout":
            lv = st["var"]["n"]
            body = st["b"].get("s", [])
            acc_idx = None
            for i, b in enumerate(body):
                e = b.get("e")
                if b.get("k") == "expr" and match(["b", "+=", ["local", ANY], [".", ["local", lv], "CTxOut::nValue"]], e):
                    acc_idx, acc = i, e[2][1]
            if acc_idx is None:
                continue
            for b in body[acc_idx + 1:]:
                if b.get("k") == "if" and contains(["call", "MoneyRange", ["local", acc]], b.get("c")):
                    ok = True
                    where = "%s:%s" % (f.file, b.get("l"))
            # no other write to the accumulator
            writes = [x for s2, x in all_exprs(f.body) for y in [x] for z in subexprs(y)
                      if z[0] == "b" and z[1] in ASSIGN_OPS and match(["local", acc], z[2])]
            if len(writes) != 1:
                ok = False
    ctx.ob("CheckTransaction/accumulator", "PROVENANCE",
           "the value tested by the total-range rung is 0 + the sum of every output's nValue (single += in the vout loop, before the test)",
           ok, where)
