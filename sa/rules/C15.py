"""C15 Layered coin caches behave like one map (DESIGN §3 C15)."""
import re

from sa.engine.api import *
from sa.rules._helpers_C import naming_x, strip

UNITS = ["coins.cpp", "txdb.cpp"]
COMPRESSION_UNITS = ["compressor.cpp"]
EXPLANATION = ("TYPESTATE (path-sensitive forward flow; join = union of per-path fact sets) over every CCoinsViewCache function of coins.cpp that touches "
               "cacheCoins entries, the dirty counter or the memory-usage counter: (1) each SetDirty(*e) happens only for an entry that is newly "
               "inserted, known not dirty, or whose dirtiness was first subtracted from m_dirty_count, and is followed on every path by exactly one "
               "++m_dirty_count; (2) each overwrite / Clear / erase of an entry's coin happens only for a new slot or after TrySub(cachedCoinsUsage, "
               "old usage), and each assignment is followed on every path by cachedCoinsUsage += new usage; (3) every path that modifies an entry's coin "
               "(other than FetchCoin's fill from the parent) leaves the entry DIRTY or erased. MPT/guard rules for the FRESH discipline: SetFresh call "
               "sites are only AddCoin (value computed as !IsDirty() under !possible_overwrite after the overwrite check) and BatchWrite's inserted "
               "branch under the child's IsFresh(); SpendCoin erases iff FRESH else SetDirty+Clear; Uncache erases only non-dirty entries; the "
               "BatchWrite effects (erase / copy / throw / SetFresh / SetDirty) are compared, as truth tables, with the 5-row parent-present x child "
               "FRESH/spent decision table; Flush writes to the parent before clearing and resets the usage counter; the cursor's will_erase flag "
               "agrees with what the caller does afterwards and NextAndMaybeErase erases exactly spent entries / unflags the others when the map is "
               "kept; CCoinsViewDB::BatchWrite erases spent and writes unspent dirty entries, one of the two for every dirty entry. Imported from C18: "
               "ScriptCompression writer/reader agreement incl. the oversize cut-off (a script of length <= MAX_SCRIPT_SIZE read from the database is not "
               "replaced by OP_RETURN).")
ASSUMPTIONS = ["std::unordered_map::try_emplace/emplace return (iterator, inserted) and value-initialise a new CCoinsCacheEntry (empty coin, no flags, usage 0)",
               "TrySub(a, b) subtracts b from a; Coin::Clear()/moved-from coins have DynamicMemoryUsage() == 0 afterwards only as far as SpendCoin relies on it"]
CLAIM = dict(
    technique="static analysis: path-sensitive typestate (pairing of flag / counter updates), must-pass-through guard implication, decision-table equivalence by truth tables",
    text="For every path of every CCoinsViewCache mutator the DIRTY flag, the dirty counter and the memory-usage counter are updated in matching pairs, "
         "modified entries end DIRTY or erased, FRESH is set only where the parent provably lacks the coin, and BatchWrite / SpendCoin / Uncache / the "
         "flush cursor / the database writer implement the documented decision tables exactly. Fuzz and unit tests sample operation sequences; this "
         "covers all paths of each operation (not sequences of operations).",
    note="Not decided: equivalence with a map model over operation sequences, the linked-list manipulation inside AddFlags/SetClean, allocator/memory-resource behaviour, "
         "CoinsViewOverlay's parallel fetching (StartFetching is a degraded function for the front end).",
    ref="DESIGN.md §3 C15")

THIS_USAGE = [".", ["this"], "CCoinsViewCache::cachedCoinsUsage"]
THIS_DIRTY = [".", ["this"], "CCoinsViewCache::m_dirty_count"]
THIS_MAP = [".", ["this"], "CCoinsViewCache::cacheCoins"]
EMPLACERS = ("std::unordered_map::try_emplace", "std::unordered_map::emplace")
REQUIRED = ["CCoinsViewCache::AddCoin", "CCoinsViewCache::SpendCoin", "CCoinsViewCache::BatchWrite", "CCoinsViewCache::FetchCoin",
            "CCoinsViewCache::Uncache", "CCoinsViewCache::EmplaceCoinInternalDANGER"]


# --------------------------------------------------------------------------------------------------
# entry identity

class Names:
    def __init__(self, fn):
        self.alias = {}      # reference locals bound to an entry expression
        self.flag = {}       # insertion flag local -> iterator local
        self.valued = {}     # iterator local -> value argument of try_emplace(key, value)
        for st in stmts(fn.body):
            if st.get("k") == "decl" and st.get("n") and st.get("ty", "").endswith("&") and is_expr(st.get("i")):
                self.alias[st["n"]] = strip(st["i"])
            if st.get("k") == "decl" and st.get("binds") and is_expr(st.get("i")) and len(st["binds"]) == 2:
                c = strip(st["i"])
                if callee(c) in EMPLACERS and c[2] == THIS_MAP:
                    self._reg(st["binds"][0], st["binds"][1], c)
            for _, e in stmt_exprs(st):
                for x in subexprs(e):
                    if x[0] == "b" and x[1] == "=" and is_call_to("std::tie", x[2]) and len(x[2]) == 4 and callee(strip(x[3])) in EMPLACERS \
                            and strip(x[3])[2] == THIS_MAP and x[2][2][0] == "local" and x[2][3][0] == "local":
                        self._reg(x[2][2][1], x[2][3][1], strip(x[3]))

    def _reg(self, it, flag, c):
        self.flag[flag] = it
        a = call_args(c)
        if callee(c) == "std::unordered_map::try_emplace" and len(a) >= 2:
            self.valued[it] = strip(a[1])

    def entry(self, e):
        """Name of the iterator / pair an entry expression denotes, or None."""
        e = strip(e)
        if not is_expr(e):
            return None
        if e[0] == "." and len(e) == 3 and e[2] == "std::pair::second":
            return self.root(e[1])
        if e[0] == "u" and e[1] == "*":
            return self.root(e[2])
        if e[0] == "local" and e[1] in self.alias:
            return self.entry(self.alias[e[1]])
        return None

    def root(self, e):
        e = strip(e)
        if is_expr(e) and e[0] in ("local", "param"):
            if e[0] == "local" and e[1] in self.alias:
                return self.root(self.alias[e[1]])
            return e[1]
        return None

    def coin(self, e):
        """Entry name if e is `<entry>.coin`."""
        e = strip(e)
        if is_expr(e) and e[0] == "." and len(e) == 3 and e[2] == "CCoinsCacheEntry::coin":
            return self.entry(e[1])
        return None

    def usage_of(self, e):
        """Entry name if e is `<entry>.coin.DynamicMemoryUsage()`."""
        e = strip(e)
        if is_call_to("Coin::DynamicMemoryUsage", e):
            return self.coin(e[2])
        return None


# --------------------------------------------------------------------------------------------------
# path-sensitive accounting flow

class Accounting(Flow):
    """State: frozenset of alternatives; each alternative is a frozenset of facts (tuples)."""

    def __init__(self, fn, P, track_dirty_end=True):
        super().__init__(fn, P)
        self.nm = Names(fn)
        self.subst = naming_x(fn, P)
        self.track_dirty_end = track_dirty_end
        self.events = {}     # (line, kind, entry) -> list of problems
        self.unknown = []

    def initial(self):
        return frozenset([frozenset()])

    def join(self, a, b):
        return a | b

    # helpers
    def _map(self, state, fn):
        return frozenset(fn(alt) for alt in state)

    def _event(self, stmt, kind, X, state, need_any=None, forbid=None, text=""):
        key = (stmt.get("l"), kind, X)
        probs = self.events.setdefault(key, [])
        for alt in state:
            if need_any is not None and not any(n in alt for n in need_any):
                probs.append("%s: on some path none of %s holds (facts: %s)" % (text, [" ".join(n) for n in need_any], sorted(" ".join(f) for f in alt)))
            if forbid is not None and any(n in alt for n in forbid):
                probs.append("%s: on some path %s is still pending" % (text, [" ".join(n) for n in forbid if n in alt]))

    def on_stmt(self, state, stmt):
        # (re)definition of an iterator / flag: forget what was known about the previous binding
        names = []
        if stmt.get("k") == "decl":
            names = ([stmt["n"]] if stmt.get("n") else []) + list(stmt.get("binds") or [])
        if stmt.get("k") == "decl" and is_expr(stmt.get("i")) and not stmt.get("ty", "").endswith("&"):
            src = self.nm.coin(stmt["i"])
            if src:
                state = self._map(state, lambda alt: alt | {("moved", src)})
        if names:
            for n in names:
                pend = [f for alt in state for f in alt if len(f) > 1 and f[1] == n and f[0] in ("padd", "pdirty")]
                if pend:
                    self.events.setdefault((stmt.get("l"), "rebind", n), []).append("entry %s is re-bound while %s is pending" % (n, pend))
            state = self._map(state, lambda alt: frozenset(f for alt_f in [alt] for f in alt_f if not (len(f) > 1 and f[1] in names)))
        return state

    def refine(self, state, atom, pol):
        nm = self.nm
        atom = strip(atom)
        if is_expr(atom) and atom[0] == "local" and atom[1] in nm.flag:
            X = nm.flag[atom[1]]
            if pol:
                extra = {("new", X)}
                if X in nm.valued:
                    extra |= {("padd", X)} | ({("pdirty", X)} if self.track_dirty_end else set())
                return self._map(state, lambda alt: alt | extra)
            return self._map(state, lambda alt: alt | {("old", X)})
        if is_call_to("CCoinsCacheEntry::IsDirty", atom):
            X = nm.entry(atom[2])
            if X:
                if pol:
                    return self._map(state, lambda alt: (alt - {("pdirty", X), ("clean", X)}) | {("isdirty", X)})
                return self._map(state, lambda alt: alt | {("clean", X)})
        return state

    def on_expr(self, state, e, stmt):
        nm = self.nm
        # --- subtractions
        if is_call_to("TrySub", e) and len(e) >= 4:
            tgt, amt = e[2], strip(e[3])
            if tgt == THIS_DIRTY:
                X = nm.entry(amt[2]) if is_call_to("CCoinsCacheEntry::IsDirty", amt) else None
                if X is None:
                    self.unknown.append((stmt.get("l"), show(e)))
                    return state
                self._event(stmt, "dirty-sub", X, state)
                return self._map(state, lambda alt: alt | {("dsub", X)})
            if tgt == THIS_USAGE:
                X = nm.usage_of(amt)
                if X is None:
                    self.unknown.append((stmt.get("l"), show(e)))
                    return state
                self._event(stmt, "usage-sub", X, state, forbid=[("moved", X)],
                            text="the usage of %s's coin is read for TrySub(cachedCoinsUsage, .) after the coin was handed out" % X)
                return self._map(state, lambda alt: alt | {("usub", X)})
            return state
        # --- SetDirty
        if is_call_to("CCoinsCacheEntry::SetDirty", e):
            X = nm.entry(call_args(e)[0])
            if X is None:
                self.unknown.append((stmt.get("l"), show(e)))
                return state
            self._event(stmt, "SetDirty", X, state, need_any=[("new", X), ("dsub", X), ("clean", X)], forbid=[("pinc",)],
                        text="SetDirty(*%s) needs the entry to be new, known not dirty, or its dirtiness subtracted from m_dirty_count" % X)
            return self._map(state, lambda alt: (alt - {("pdirty", X), ("clean", X), ("dsub", X)}) | {("isdirty", X), ("pinc",)})
        # --- ++m_dirty_count
        if e[0] == "u" and e[1] in ("++", "post++") and e[2] == THIS_DIRTY:
            self._event(stmt, "dirty-inc", "", state, need_any=[("pinc",)], text="++m_dirty_count must follow a SetDirty on every path")
            return self._map(state, lambda alt: alt - {("pinc",)})
        # --- coin writes
        if e[0] == "b" and e[1] == "=" and not nm.coin(e[2]) and nm.coin(e[3]):
            Y = nm.coin(e[3])          # `<other object> = [std::move](<entry>.coin)`: std::move is transparent in the facts
            return self._map(state, lambda alt: alt | {("moved", Y)})
        if e[0] == "b" and e[1] == "=" and nm.coin(e[2]):
            X = nm.coin(e[2])
            Y = nm.coin(e[3])
            if Y and Y != X:
                state = self._map(state, lambda alt: alt | {("moved", Y)})
            state = self._map(state, lambda alt: alt - {("moved", X)})
            self._event(stmt, "coin-assign", X, state, need_any=[("new", X), ("usub", X)],
                        text="overwriting %s's coin needs a new slot or TrySub(cachedCoinsUsage, old usage) first" % X)
            def upd(alt):
                alt = (alt - {("usub", X)}) | {("padd", X)}
                if self.track_dirty_end and ("isdirty", X) not in alt:
                    alt = alt | {("pdirty", X)}
                return alt
            return self._map(state, upd)
        if is_call_to("Coin::Clear", e) and nm.coin(e[2]):
            X = nm.coin(e[2])
            self._event(stmt, "coin-clear", X, state, need_any=[("new", X), ("usub", X)],
                        text="clearing %s's coin needs TrySub(cachedCoinsUsage, old usage) first" % X)
            def upd2(alt):
                alt = alt - {("usub", X), ("padd", X)}
                if self.track_dirty_end and ("isdirty", X) not in alt:
                    alt = alt | {("pdirty", X)}
                return alt
            return self._map(state, upd2)
        # --- usage additions / resets
        if e[0] == "b" and e[1] == "+=" and e[2] == THIS_USAGE:
            rhs = strip(e[3])
            if rhs[0] == "local" and rhs[1] in self.subst:
                rhs = strip(self.subst[rhs[1]])
            X = nm.usage_of(rhs)
            if X is None and is_call_to("Coin::DynamicMemoryUsage", rhs):
                cand = [it for it, v in nm.valued.items() if v == rhs[2]]
                X = cand[0] if len(cand) == 1 else None
            if X is None:
                self.unknown.append((stmt.get("l"), show(e)))
                return state
            self._event(stmt, "usage-add", X, state, need_any=[("padd", X)], forbid=[("moved", X)],
                        text="cachedCoinsUsage += usage(%s) must follow a write of that entry's coin (and precede any hand-out of it)" % X)
            return self._map(state, lambda alt: alt - {("padd", X)})
        if e[0] == "b" and e[1] in ASSIGN_OPS and e[2] in (THIS_USAGE, THIS_DIRTY):
            if e[1] == "=" and match(["int", 0], strip(e[3])):
                which = "usage" if e[2] == THIS_USAGE else "dirty"
                self._event(stmt, "reset-" + which, "", state)
                return self._map(state, lambda alt: (alt - {("pclear-" + which,)}) | {("zero-" + which,)})
            self.unknown.append((stmt.get("l"), show(e)))
            return state
        if e[0] == "u" and e[1] in ("--", "post--") and e[2] in (THIS_USAGE, THIS_DIRTY):
            self.unknown.append((stmt.get("l"), show(e)))
            return state
        # --- erase / clear of the map
        if is_call_to("std::unordered_map::erase", e) and e[2] == THIS_MAP:
            X = nm.root(call_args(e)[0])
            if X is None:
                self.unknown.append((stmt.get("l"), show(e)))
                return state
            self._event(stmt, "erase", X, state, need_any=[("new", X), ("usub", X)], text="erasing %s needs its usage subtracted (or a new empty slot)" % X)
            self._event(stmt, "erase/dirty", X, state, need_any=[("new", X), ("dsub", X), ("clean", X)],
                        text="erasing %s needs its dirtiness subtracted from m_dirty_count (or a new / non-dirty entry)" % X)
            return self._map(state, lambda alt: frozenset(f for f in alt if not (len(f) > 1 and f[1] == X)) | {("erased", X)})
        if is_call_to("std::unordered_map::clear", e) and e[2] == THIS_MAP:
            self._event(stmt, "clear-all", "", state)
            return self._map(state, lambda alt: frozenset(f for f in alt if f[0] not in ("padd", "pdirty")) |
                             {("pclear-usage",)} | (set() if ("flushed",) in alt else {("pclear-dirty",)}))
        if e[0] in ("mcall", "vcall") and e[1] == "CCoinsView::BatchWrite":
            return self._map(state, lambda alt: alt | {("flushed",)})
        return state

    def on_exit(self, state, stmt):
        key = (stmt.get("l"), "exit", "")
        probs = self.events.setdefault(key, [])
        for alt in state:
            pend = [f for f in alt if f[0] in ("pinc", "padd", "pdirty", "pclear-usage", "pclear-dirty")]
            if pend:
                probs.append("the function can return with pending obligations %s" % sorted(" ".join(p) for p in pend))


PENDING_TEXT = {"pinc": "a SetDirty without its ++m_dirty_count", "padd": "a coin write without its cachedCoinsUsage +=",
                "pdirty": "a modified entry that is neither DIRTY nor erased", "pclear-usage": "cacheCoins.clear() without cachedCoinsUsage = 0",
                "pclear-dirty": "cacheCoins.clear() without a preceding parent BatchWrite or m_dirty_count = 0"}


def accounting(ctx, P):
    fns = []
    for q, fl in sorted(P.funcs.items()):
        if not (q.startswith("CCoinsViewCache::") or q.startswith("CoinsViewOverlay::")) or "lambda" in q:
            continue
        for fn in fl:
            if fn.body is None or not fn.file.endswith("coins.cpp"):
                continue
            txt = [x for _, e in all_exprs(fn.body) for x in subexprs(e)
                   if (x[0] == "." and len(x) == 3 and x[2] in ("CCoinsViewCache::cachedCoinsUsage", "CCoinsViewCache::m_dirty_count", "CCoinsViewCache::cacheCoins")
                       and not fn.q.endswith("SanityCheck")) or callee(x) in ("CCoinsCacheEntry::SetDirty", "CCoinsCacheEntry::SetFresh")]
            if txt:
                fns.append(fn)
    names = [f.q for f in fns]
    missing = [q for q in REQUIRED if q not in names]
    if missing:
        raise AnalysisBroken("CCoinsViewCache mutators not found: %s" % missing)
    nev = 0
    for fn in fns:
        if fn.q in ("CCoinsViewCache::ReallocateCache", "CCoinsViewCache::CCoinsViewCache"):
            continue
        if fn.degraded:
            continue
        ctx.used(fn)
        fl = Accounting(fn, P, track_dirty_end=fn.q != "CCoinsViewCache::FetchCoin")
        fl.run()
        if fl.unknown:
            raise AnalysisBroken("%s: unrecognised accounting operation(s): %s" % (fn.q, fl.unknown[:3]))
        short = fn.q.split("::", 1)[1]
        if all(k[1] == "exit" for k in fl.events):
            continue          # read-only function: nothing to pair
        for (line, kind, X), probs in sorted(fl.events.items(), key=lambda kv: (kv[0][0] or 0, kv[0][1], kv[0][2])):
            if kind in ("dirty-sub", "reset-usage", "reset-dirty", "clear-all") and not probs:
                continue
            nev += 1
            text = {
                "SetDirty": "SetDirty(*%s) is applied only to an entry that is new, known not dirty, or already subtracted from m_dirty_count (no double count)" % X,
                "dirty-inc": "++m_dirty_count is paired with a preceding SetDirty on every path",
                "coin-assign": "%s's coin is overwritten only in a new slot or after TrySub(cachedCoinsUsage, old usage)" % X,
                "coin-clear": "%s's coin is cleared only after TrySub(cachedCoinsUsage, old usage)" % X,
                "usage-sub": "the DynamicMemoryUsage() of %s's coin subtracted from cachedCoinsUsage is read before that coin is handed out (assigned as a whole object "
                             "into another object - std::move is transparent to the extractor), on every path" % X,
                "usage-add": "cachedCoinsUsage += usage(%s) is paired with a preceding write of that coin on every path" % X,
                "erase": "%s is erased only after its memory usage was subtracted (or it is a new empty slot)" % X,
                "erase/dirty": "%s is erased only if not counted in m_dirty_count (new, non-dirty, or subtracted)" % X,
                "rebind": "no accounting obligation is pending when %s is re-bound" % X,
                "exit": "every path reaching this exit has completed its pairs: SetDirty/++m_dirty_count, coin write/cachedCoinsUsage +=, modified entry DIRTY or erased, clear()/counter reset",
            }.get(kind, kind)
            ctx.ob("%s/%s%s@L%s" % (short, kind, ("(%s)" % X) if X else "", line), "TYPESTATE", "%s [in %s]" % (text, fn.q), not probs,
                   "%s:%s" % (fn.file, line), None if not probs else {"problems": sorted(set(probs))[:4]})
    ctx.floor("accounting events in CCoinsViewCache mutators", nev, 36)
    # FetchCoin's only coin write is the fill from the parent view for the same outpoint
    fc = P.fn("CCoinsViewCache::FetchCoin")
    nm = Names(fc)
    ws = [(st, x) for st, e in all_exprs(fc.body) for x in subexprs(e) if x[0] == "b" and x[1] == "=" and nm.coin(x[2])]
    ok = bool(ws)
    for st, x in ws:
        rhs = strip(x[3])
        src = None
        if is_expr(rhs) and rhs[0] == "u" and rhs[1] == "*" and rhs[2][0] == "local":
            for s2 in stmts(fc.body):
                v = s2.get("var")
                if isinstance(v, dict) and v.get("n") == rhs[2][1]:
                    src = strip(v.get("i"))
                if s2.get("k") == "decl" and s2.get("n") == rhs[2][1] and is_expr(s2.get("i")):
                    src = strip(s2["i"])
        emp = [strip(s2["i"]) for s2 in stmts(fc.body) if s2.get("k") == "decl" and s2.get("binds") and nm.coin(x[2]) in s2["binds"]]
        ok = ok and src is not None and callee(src) == "CCoinsViewCache::FetchCoinFromBase" and len(emp) == 1 and call_args(src)[:1] == call_args(emp[0])[:1]
    ctx.ob("FetchCoin/fill-from-parent", "PROVENANCE", "the only coin written by FetchCoin (exempt from the DIRTY rule) is the parent's coin for the same outpoint "
           "that was just emplaced", ok, fc.where)
    # EmplaceCoinInternalDANGER: the usage is measured before the coin is moved into the map
    em = P.fn("CCoinsViewCache::EmplaceCoinInternalDANGER")
    top = em.body.get("s", [])
    idx_emp = [i for i, st in enumerate(top) if st.get("k") == "decl" and st.get("binds") and callee(strip(st.get("i"))) in EMPLACERS]
    uses = [strip(x[3]) for _, e in all_exprs(em.body) for x in subexprs(e) if x[0] == "b" and x[1] == "+=" and x[2] == THIS_USAGE]
    ok = len(idx_emp) == 1 and bool(uses)
    for u in uses:
        if u[0] == "local":
            idx = [i for i, st in enumerate(top) if st.get("k") == "decl" and st.get("n") == u[1]]
            ok = ok and len(idx) == 1 and idx[0] < idx_emp[0]
        else:
            ok = False
    ctx.ob("EmplaceCoinInternalDANGER/usage-before-move", "ORDER", "the coin's memory usage is measured before the coin is moved into the map", ok, em.where)


# --------------------------------------------------------------------------------------------------
# FRESH discipline and decision tables

def _bind_entry_atoms(nm, f, roles):
    """Rename atoms `<X>.second.IsFresh()` / IsDirty() / coin.IsSpent() to ROLE_F / ROLE_D / ROLE_S for the entry names in roles {name: ROLE}."""
    table = {}
    for X, role in roles.items():
        x = re.escape(X)
        table[role + "_F"] = re.compile(r"%s\.second\.IsFresh\(\)" % x)
        table[role + "_D"] = re.compile(r"%s\.second\.IsDirty\(\)" % x)
        table[role + "_S"] = re.compile(r"%s\.second\.coin\.IsSpent\(\)" % x)
    return table


def asserted_premise(region, subst, loop=None):
    """Conjunction of the hard assertions inside `region` (and the loop condition): facts that hold on every path that continues."""
    from sa.engine.paths import HARD_ASSERT_MACROS
    fs = []
    for st in stmts(region):
        e = st.get("e")
        if st.get("k") == "expr" and is_expr(e) and e[0] == "asserted" and st.get("m") in HARD_ASSERT_MACROS:
            fs.append(F.to_formula(e[1], subst))
    if loop is not None and is_expr(loop.get("c")):
        fs.append(F.to_formula(loop["c"], subst))
    return F.mk_and(fs)


def fresh_rules(ctx, P):
    # who calls SetFresh (within the analysed units)
    callers = {}
    for q, fl in P.funcs.items():
        for fn in fl:
            if fn.body is None or q == "CCoinsCacheEntry::SetFresh":
                continue
            n = sum(1 for _, e in all_exprs(fn.body) for x in subexprs(e) if is_call_to("CCoinsCacheEntry::SetFresh", x))
            if n:
                callers[q] = callers.get(q, 0) + n
    ok = set(callers) == {"CCoinsViewCache::AddCoin", "CCoinsViewCache::BatchWrite"}
    ctx.ob("SetFresh/callers", "WHO-MAY-CALL", "within coins.cpp / txdb.cpp (and the headers they include) SetFresh is called only from CCoinsViewCache::AddCoin and "
           "CCoinsViewCache::BatchWrite", ok, None, {"callers": callers})
    add_coin(ctx, P)
    spend_coin(ctx, P)
    uncache(ctx, P)
    batch_write(ctx, P)


def add_coin(ctx, P):
    f = ctx.used(P.fn("CCoinsViewCache::AddCoin"))
    nm = Names(f)
    subst = naming_x(f, P)
    sf = sites(f, call_to("CCoinsCacheEntry::SetFresh"), P)
    ctx.floor("AddCoin SetFresh sites", len(sf), 1)
    for s in sf:
        X = nm.entry(call_args(s.expr)[0])
        fm = s.formula(subst)
        flags = [a for a in F.atoms(fm) if re.fullmatch(r"\w+", a) and F.implies(fm, F.atom(a))]
        flags = [a for a in flags if a not in nm.flag]
        okf = False
        detail = {"guard": F.fshow(fm)[:300]}
        for fl in flags:
            vals = local_values(f, fl)
            nonfalse = [(l, v) for l, v in vals if not match(["bool", False], strip(v))]
            if not vals or len(nonfalse) != 1:
                continue
            l, v = nonfalse[0]
            v = strip(v)
            if not (v[0] == "u" and v[1] == "!" and is_call_to("CCoinsCacheEntry::IsDirty", v[2]) and nm.entry(v[2][2]) == X):
                detail["value"] = show(v)
                continue
            asg = [s2 for s2 in sites(f, lambda e: e[0] == "b" and e[1] == "=" and e[2] == ["local", fl] and not match(["bool", False], strip(e[3])), P)]
            if len(asg) != 1:
                continue
            g, _, un = F.bind_atoms(asg[0].formula(subst), {"PO": "possible_overwrite", "SPENT": "%s.second.coin.IsSpent()" % X})
            cex = F.counterexample(g, F.parse("!PO && SPENT"))
            detail["assignment_guard"] = F.fshow(asg[0].formula(subst))[:300]
            # the flag is computed before the entry is modified
            mf = MustFlow(f, P, marks=[("modified", lambda e: is_call_to("CCoinsCacheEntry::SetDirty", e) or (e[0] == "b" and e[1] == "=" and nm.coin(e[2]) == X))])
            mf.watch = lambda e: e is asg[0].expr
            mf.run()
            before = bool(mf.events) and all("modified" not in st for _, st, _ in mf.events)
            okf = cex is None and before and _never_after(f, P, asg[0].expr, lambda e: is_call_to("CCoinsCacheEntry::SetDirty", e) or (e[0] == "b" and e[1] == "=" and nm.coin(e[2]) == X))
        ctx.ob("AddCoin/SetFresh@L%s" % s.line, "MPT", "AddCoin marks the entry FRESH only through a flag that is false by default and otherwise computed as "
               "!entry.IsDirty(), before the entry is modified, when possible_overwrite is false and the cached coin is spent/absent", okf, s.where, None if okf else detail)
    th = [e for e in exits(f, P, subst) if e.kind == "throw"]
    ctx.floor("AddCoin overwrite throw", len(th), 1)
    for e in th:
        X = [x for x in nm.flag.values()]
        g, _, un = F.bind_atoms(e.formula, {"PO": "possible_overwrite", "SPENT": re.compile(r"\w+\.second\.coin\.IsSpent\(\)")})
        ok = F.implies(g, F.parse("!PO && !SPENT"))
        ctx.ob("AddCoin/overwrite-throws@L%s" % e.line, "LADDER", "AddCoin throws only for an unspent cached coin when possible_overwrite is false", ok, "%s:%s" % (f.file, e.line))
    # the overwrite check is complete: coin assignment implies PO || SPENT
    for s in sites(f, lambda e: e[0] == "b" and e[1] == "=" and nm.coin(e[2]), P):
        X = nm.coin(s.expr[2])
        g, _, un = F.bind_atoms(s.formula(subst), {"PO": "possible_overwrite", "SPENT": "%s.second.coin.IsSpent()" % X, "UNSPENDABLE": "coin.out.scriptPubKey.IsUnspendable()"})
        cex = F.counterexample(g, F.parse("(PO || SPENT) && !UNSPENDABLE"))
        ctx.ob("AddCoin/assign@L%s" % s.line, "MPT", "AddCoin stores the coin only if overwriting is allowed or the cached coin is spent/absent, and never for an unspendable output",
               cex is None, s.where, None if cex is None else {"counterexample": cex})


def _never_after(f, P, target, pred):
    """No path executes an expression matching pred before reaching `target` (may-analysis with union join)."""
    class May(Flow):
        def initial(self):
            return frozenset()

        def join(self, a, b):
            return a | b

        def on_expr(self, state, e, stmt):
            if e is target:
                self.hit.append("m" in state)
            if pred(e):
                return state | {"m"}
            return state
    m = May(f, P)
    m.hit = []
    m.run()
    return bool(m.hit) and not any(m.hit)


def spend_coin(ctx, P):
    f = ctx.used(P.fn("CCoinsViewCache::SpendCoin"))
    nm = Names(f)
    subst = {k: v for k, v in naming_x(f, P).items()}
    its = [st["n"] for st in stmts(f.body) if st.get("k") == "decl" and is_call_to("CCoinsViewCache::FetchCoin", strip(st.get("i")))]
    if len(its) != 1:
        raise AnalysisBroken("SpendCoin: iterator from FetchCoin(outpoint) not found")
    X = its[0]
    subst.pop(X, None)
    fetch = [strip(st["i"]) for st in stmts(f.body) if st.get("k") == "decl" and st.get("n") == X][0]
    ok = call_args(fetch) == [["param", f.params[0]["n"]]]
    ctx.ob("SpendCoin/fetch", "PROVENANCE", "SpendCoin operates on FetchCoin(<its outpoint argument>)", ok, f.where)
    atoms = {"FOUND": [("%s == cacheCoins.end()" % X, False), ("cacheCoins.end() == %s" % X, False)], "FRESH": "%s.second.IsFresh()" % X}
    n = len(check_guard(ctx, f, P, lambda e: is_call_to("std::unordered_map::erase", e) and e[2] == THIS_MAP, "FOUND && FRESH", atoms, "SpendCoin/erase",
                        "SpendCoin erases the entry only if it is FRESH (the parent never saw it)", subst=subst))
    n += len(check_guard(ctx, f, P, call_to("Coin::Clear"), "FOUND && !FRESH", atoms, "SpendCoin/clear", "SpendCoin keeps a non-FRESH entry as a spent coin", subst=subst))
    n += len(check_guard(ctx, f, P, call_to("CCoinsCacheEntry::SetDirty"), "FOUND && !FRESH", atoms, "SpendCoin/dirty", "SpendCoin marks a non-FRESH spent entry DIRTY", subst=subst))
    ctx.floor("SpendCoin effects", n, 3)
    # every `return true` has erased, or marked dirty and cleared
    mf = Accounting(f, P)
    res = []

    def on_exit(state, stmt, mf=mf):
        if stmt.get("k") == "ret" and match(["bool", True], stmt.get("v")):
            res.append((stmt.get("l"), all((("erased", X) in alt) or (("isdirty", X) in alt and ("cleared", X) in alt) for alt in state)))
    orig = mf.on_expr

    def on_expr(state, e, stmt):
        state = orig(state, e, stmt)
        if is_call_to("Coin::Clear", e) and nm.coin(e[2]) == X:
            state = frozenset(alt | {("cleared", X)} for alt in state)
        return state
    mf.on_expr, mf.on_exit = on_expr, on_exit
    mf.run()
    ctx.floor("SpendCoin true exits", len(res), 1)
    for line, ok in res:
        ctx.ob("SpendCoin/spent@L%s" % line, "TYPESTATE", "when SpendCoin returns true the entry was erased, or marked DIRTY and its coin cleared", ok, "%s:%s" % (f.file, line))
    for e in exits(f, P, subst):
        if is_false_ret(e):
            g, _, _ = F.bind_atoms(e.formula, atoms)
            ctx.ob("SpendCoin/notfound@L%s" % e.line, "LADDER", "SpendCoin returns false only if the coin is in neither this cache nor its parents",
                   F.implies(g, F.parse("!FOUND")), "%s:%s" % (f.file, e.line))


def uncache(ctx, P):
    f = ctx.used(P.fn("CCoinsViewCache::Uncache"))
    subst = naming_x(f, P)
    its = [st["n"] for st in stmts(f.body) if st.get("k") == "decl" and is_call_to("std::unordered_map::find", strip(st.get("i")))]
    if len(its) != 1:
        raise AnalysisBroken("Uncache: iterator from cacheCoins.find not found")
    X = its[0]
    subst.pop(X, None)
    atoms = {"FOUND": [("%s == cacheCoins.end()" % X, False), ("cacheCoins.end() == %s" % X, False)], "DIRTY": "%s.second.IsDirty()" % X}
    ss = check_guard(ctx, f, P, lambda e: is_call_to("std::unordered_map::erase", e) and e[2] == THIS_MAP, "FOUND && !DIRTY", atoms, "Uncache/erase",
                     "Uncache drops an entry only if it is not DIRTY (identical to the parent)", subst=subst)
    for s in ss:
        ok = call_args(s.expr) == [["local", X]]
        ctx.ob("Uncache/erase-arg@L%s" % s.line, "PROVENANCE", "the erased iterator is the one that was tested", ok, s.where)


def batch_write(ctx, P):
    f = ctx.used(P.fn("CCoinsViewCache::BatchWrite"))
    nm = Names(f)
    subst = naming(f, P)
    loops = [st for st in stmts(f.body) if st.get("k") == "for"]
    if len(loops) != 1 or not isinstance(loops[0].get("init"), dict) or not is_call_to("CoinsViewCacheCursor::Begin", strip(loops[0]["init"].get("i"))):
        raise AnalysisBroken("CCoinsViewCache::BatchWrite: cursor loop not found")
    L = loops[0]
    C = L["init"]["n"]
    if len(nm.flag) != 1:
        raise AnalysisBroken("CCoinsViewCache::BatchWrite: expected one try_emplace result")
    INS, U = next(iter(nm.flag.items()))
    subst = {k: v for k, v in subst.items() if k not in (C, U, INS)}
    emp = [strip(st["i"]) for st in stmts(L) if st.get("k") == "decl" and st.get("binds") == [U, INS]]
    ok = len(emp) == 1 and show(call_args(emp[0])[0]) == "%s.first" % C and len(call_args(emp[0])) == 1
    inc_ok = is_expr(L.get("inc")) and show(L["inc"]) == "%s = cursor.NextAndMaybeErase(*%s)" % (C, C) and show(L.get("c")) == "%s != cursor.End()" % C
    ctx.ob("BatchWrite/loop", "PROVENANCE", "BatchWrite visits every cursor entry (Begin .. End via NextAndMaybeErase) and looks up the parent's slot with the child's key",
           ok and inc_ok and not has_break(L.get("b")), "%s:%s" % (f.file, L.get("l")))
    table = _bind_entry_atoms(nm, f, {C: "C", U: "P"})
    table["INS"] = INS
    under = lambda s: L in s.loops
    premise = asserted_premise(L, subst, L)

    def effect(pred):
        ss = [s for s in sites(f, pred, P) if under(s)]
        fs = []
        for s in ss:
            g, _, un = F.bind_atoms(s.formula(subst), table)
            fs.append(g)
        return ss, F.mk_or(fs)

    is_erase = lambda e: is_call_to("std::unordered_map::erase", e) and e[2] == THIS_MAP and nm.root(call_args(e)[0]) == U
    is_copy = lambda e: e[0] == "b" and e[1] == "=" and nm.coin(e[2]) == U
    is_fresh = lambda e: is_call_to("CCoinsCacheEntry::SetFresh", e) and nm.entry(call_args(e)[0]) == U
    is_dirty = lambda e: is_call_to("CCoinsCacheEntry::SetDirty", e) and nm.entry(call_args(e)[0]) == U
    SPEC = {
        "erase": ("the parent's entry is erased exactly when (new slot and child FRESH+spent) or (existing FRESH parent entry and child spent, no misuse)",
                  is_erase, "C_D && ((INS && C_F && C_S) || (!INS && !(C_F && !P_S) && P_F && C_S))"),
        "copy": ("the child's coin is copied into the parent exactly in the two remaining rows",
                 is_copy, "C_D && ((INS && !(C_F && C_S)) || (!INS && !(C_F && !P_S) && !(P_F && C_S)))"),
        "SetFresh": ("the parent's entry is marked FRESH exactly when it is a new slot and the child's entry is FRESH and unspent",
                     is_fresh, "C_D && INS && C_F && !C_S"),
        "SetDirty": ("the parent's entry is marked DIRTY exactly when the coin is copied and the entry is new or not yet DIRTY",
                     is_dirty, "C_D && ((INS && !(C_F && C_S)) || (!INS && !(C_F && !P_S) && !(P_F && C_S) && !P_D))"),
    }
    for k, (text, pred, spec) in SPEC.items():
        ss, code = effect(pred)
        if not ss:
            raise AnalysisBroken("CCoinsViewCache::BatchWrite: no %s effect found" % k)
        sp = F.parse(spec)
        c1, c2 = F.counterexample(code, sp), F.counterexample(F.mk_and([sp, premise]), code)
        ok = c1 is None and c2 is None
        ctx.ob("BatchWrite/table:%s" % k, "TABLE", "%s [%s]" % (text, spec), ok, ss[0].where,
               None if ok else {"code": F.fshow(code)[:700], "counterexample(code but not spec)": c1, "counterexample(spec but not code)": c2})
    th = [e for e in exits(f, P, subst) if e.kind == "throw" and L in e.loops]
    fs = F.mk_or([F.bind_atoms(e.formula, table)[0] for e in th])
    sp = F.parse("C_D && !INS && C_F && !P_S")
    c1, c2 = F.counterexample(fs, sp), F.counterexample(F.mk_and([sp, premise]), fs)
    ctx.ob("BatchWrite/table:throw", "TABLE", "BatchWrite throws logic_error exactly for a FRESH child entry whose coin exists unspent in the parent [C_D && !INS && C_F && !P_S]",
           c1 is None and c2 is None and bool(th), f.where, None if (c1 is None and c2 is None) else {"code": F.fshow(fs)[:500], "cex": c1 or c2})
    # the copy source is the child's coin
    for s in [s for s in sites(f, is_copy, P) if under(s)]:
        ok = nm.coin(s.expr[3]) == C
        ctx.ob("BatchWrite/copy-source@L%s" % s.line, "PROVENANCE", "the coin written into the parent's entry is the child's coin", ok, s.where)
    # SetBestBlock(in_block_hash) after the loop
    sb = sites(f, call_to("CCoinsViewCache::SetBestBlock"), P)
    ok = len(sb) == 1 and not sb[0].loops and call_args(sb[0].expr) == [["param", f.params[1]["n"]]] and F.implies(sb[0].formula(subst), F.atom("done(loop@%s)" % L.get("l")))
    ctx.ob("BatchWrite/best-block", "ORDER", "after all entries were merged the cache's best block becomes the batch's block hash", ok, f.where)


# --------------------------------------------------------------------------------------------------
def flush_sync(ctx, P):
    for q in ("CCoinsViewCache::Flush", "CCoinsViewCache::Sync"):
        f = ctx.used(P.fn(q))
        cur = [(st, strip(st["i"])) for st in stmts(f.body) if st.get("k") == "decl" and is_expr(st.get("i")) and contains(["ctor", "CoinsViewCacheCursor"], st["i"])]
        if len(cur) != 1:
            raise AnalysisBroken("%s: cursor construction not found" % q)
        c = [x for x in subexprs(cur[0][1]) if x[0] == "ctor" and x[1] == "CoinsViewCacheCursor" and len(x) >= 6][0]
        args = call_args(c)
        clears = sites(f, lambda e: is_call_to("std::unordered_map::clear", e) and e[2] == THIS_MAP, P)
        will = strip(args[3])
        ok = args[0] == THIS_DIRTY and args[1] == [".", ["this"], "CCoinsViewCache::m_sentinel"] and args[2] == THIS_MAP and \
            match(["bool", ANY], will) and will[1] == bool(clears)
        ctx.ob("%s/cursor" % q.split("::")[1], "PROVENANCE", "%s hands (m_dirty_count, m_sentinel, cacheCoins) to the cursor and will_erase is true exactly when the "
               "function clears the map afterwards" % q, ok, f.where, {"will_erase": show(will), "clears_map": bool(clears)})
        bw = sites(f, lambda e: e[0] in ("mcall", "vcall") and e[1] == "CCoinsView::BatchWrite", P)
        ok = len(bw) == 1 and not bw[0].guards and show(bw[0].expr[2]) == "base" and \
            call_args(bw[0].expr) == [["local", cur[0][0]["n"]], [".", ["this"], "CCoinsViewCache::m_block_hash"]]
        ctx.ob("%s/writes-parent" % q.split("::")[1], "MPT", "%s unconditionally calls base->BatchWrite(cursor, m_block_hash)" % q, ok, f.where)
        if clears:
            mf = MustFlow(f, P, marks=[("written", lambda e: e[0] in ("mcall", "vcall") and e[1] == "CCoinsView::BatchWrite")])
            mf.watch = lambda e: is_call_to("std::unordered_map::clear", e) and e[2] == THIS_MAP
            mf.run()
            ok = bool(mf.events) and all("written" in st for _, st, _ in mf.events)
            ctx.ob("%s/write-before-clear" % q.split("::")[1], "ORDER", "%s clears the cache only after the parent's BatchWrite" % q, ok, f.where)
    # NextAndMaybeErase
    f = ctx.used(P.fn("CoinsViewCacheCursor::NextAndMaybeErase"))
    subst = naming(f, P)
    cur = f.params[0]["n"]
    atoms = {"WILL": "m_will_erase", "SPENT": "%s.second.coin.IsSpent()" % cur}
    check_guard(ctx, f, P, call_to("std::unordered_map::erase"), "!WILL && SPENT", atoms, "Cursor/erase", "when the map is kept (Sync) the cursor erases exactly the spent entries")
    check_guard(ctx, f, P, call_to("CCoinsCacheEntry::SetClean"), "!WILL && !SPENT", atoms, "Cursor/unflag", "when the map is kept (Sync) unspent entries are kept and only unflagged")
    both = F.mk_or([F.bind_atoms(s.formula(subst), atoms)[0] for s in sites(f, lambda e: is_call_to("std::unordered_map::erase", e) or is_call_to("CCoinsCacheEntry::SetClean", e), P)])
    ctx.ob("Cursor/complete", "TABLE", "when the map is kept every visited entry is either erased or unflagged", F.implies(F.mk_and([F.parse("!WILL"), asserted_premise(f.body, subst)]), both), f.where)
    ts = sites(f, lambda e: is_call_to("TrySub", e) and show(e[2]) == "m_dirty_count", P)
    ok = len(ts) == 1 and not [g for g in ts[0].guards if g.kind != "post"] and show(strip(ts[0].expr[3])) == "%s.second.IsDirty()" % cur
    ctx.ob("Cursor/dirty-count", "EFFECT", "every visited entry's dirtiness is subtracted from the owner's m_dirty_count unconditionally", ok, f.where)
    mf = MustFlow(f, P, marks=[("next", lambda e: is_call_to("CCoinsCacheEntry::Next", e))])
    mf.watch = lambda e: is_call_to("std::unordered_map::erase", e) or is_call_to("CCoinsCacheEntry::SetClean", e)
    mf.run()
    ok = bool(mf.events) and all("next" in st for _, st, _ in mf.events)
    ctx.ob("Cursor/next-before-unlink", "ORDER", "the successor is read before the current entry is erased or unlinked", ok, f.where)


def db_batch_write(ctx, P):
    f = ctx.used(P.fn("CCoinsViewDB::BatchWrite"))
    subst = naming(f, P)
    loops = [st for st in stmts(f.body) if st.get("k") == "for" and isinstance(st.get("init"), dict) and is_call_to("CoinsViewCacheCursor::Begin", strip(st["init"].get("i")))]
    if len(loops) != 1:
        raise AnalysisBroken("CCoinsViewDB::BatchWrite: cursor loop not found")
    L = loops[0]
    C = L["init"]["n"]
    subst = {k: v for k, v in subst.items() if k != C}
    atoms = {"DIRTY": "%s.second.IsDirty()" % C, "SPENT": "%s.second.coin.IsSpent()" % C}
    er = [s for s in sites(f, call_to("CDBBatch::Erase"), P) if L in s.loops]
    wr = [s for s in sites(f, call_to("CDBBatch::Write"), P) if L in s.loops]
    ctx.floor("CCoinsViewDB::BatchWrite coin erases", len(er), 1)
    ctx.floor("CCoinsViewDB::BatchWrite coin writes", len(wr), 1)

    def inloop(s):
        return F.bind_atoms(F.mk_and([g.formula(subst) for g in s.guards if g.line is not None and g.line >= L.get("l") and g.kind != "loop"]), atoms)[0]
    fe, fw = F.mk_or([inloop(s) for s in er]), F.mk_or([inloop(s) for s in wr])
    ctx.ob("DB-BatchWrite/erase", "TABLE", "the database batch erases a coin exactly for DIRTY spent entries", F.equivalent(fe, F.parse("DIRTY && SPENT")),
           er[0].where, {"code": F.fshow(fe)})
    ctx.ob("DB-BatchWrite/write", "TABLE", "the database batch writes a coin exactly for DIRTY unspent entries", F.equivalent(fw, F.parse("DIRTY && !SPENT")),
           wr[0].where, {"code": F.fshow(fw)})
    # key / value provenance
    def keyname(e):
        e = strip(F.expand(e, subst))
        if is_expr(e) and e[0] == "local":
            d = [strip(st["i"]) for st in stmts(L) if st.get("k") == "decl" and st.get("n") == e[1] and is_expr(st.get("i"))]
            e = d[0] if len(d) == 1 else e
        if is_expr(e) and e[0] in ("ctor", "init") and "CoinEntry" in str(e[1]):
            return show(strip(e[-1]))
        return show(e)
    ok = all(keyname(call_args(s.expr)[0]) == "&%s.first" % C for s in er + wr) and all(show(strip(call_args(s.expr)[1])) == "%s.second.coin" % C for s in wr)
    ctx.ob("DB-BatchWrite/key-value", "PROVENANCE", "the key erased/written is the visited entry's outpoint and the value written is that entry's coin", ok, f.where,
           {"keys": [keyname(call_args(s.expr)[0]) for s in er + wr], "values": [show(strip(call_args(s.expr)[1])) for s in wr]})
    adv = [s for s in sites(f, call_to("CoinsViewCacheCursor::NextAndMaybeErase"), P) if L in s.loops]
    ok = len(adv) == 1 and not [g for g in adv[0].guards if g.line is not None and g.line >= L.get("l") and g.kind not in ("loop", "post")] and \
        show(adv[0].stmt.get("e")) == "%s = cursor.NextAndMaybeErase(*%s)" % (C, C) and not has_break(L.get("b")) and show(L.get("c")) == "%s != cursor.End()" % C
    ctx.ob("DB-BatchWrite/loop", "LADDER", "every cursor entry is visited (unconditional advance via NextAndMaybeErase, no break)", ok, "%s:%s" % (f.file, L.get("l")))
    # the write of each entry precedes the advance that may erase it
    order_ok = all(s.line < adv[0].line for s in er + wr) if adv else False
    ctx.ob("DB-BatchWrite/order", "ORDER", "an entry is serialised into the batch before the cursor advances past (and possibly erases) it", order_ok, f.where)


def check(ctx):
    P = ctx.program(UNITS)
    accounting(ctx, P)
    fresh_rules(ctx, P)
    flush_sync(ctx, P)
    db_batch_write(ctx, P)
    # the bottom layer stores coins through the compressed script encoding: a coin read back from the database must be the coin that was
    # written (otherwise the layered view "loses" a spendable coin).  The writer/reader agreement of ScriptCompression, including the
    # oversize cut-off at MAX_SCRIPT_SIZE, is C18's rule; it is imported here because its breakage is a C15 failure too.
    from sa.rules import C18
    C18.script_compression(ctx, ctx.program(COMPRESSION_UNITS))
