"""C56 Fee bumping replaces the original safely - refusal clause only (originally listed N/A; partial, structural claim)."""
import re

from sa.engine.api import *
from sa.engine import callgraph
from sa.rules._helpers_G import DbWriters, inline_predicates

UNITS = ["wallet/feebumper.cpp"]
EXPLANATION = ("Taken whole (fees, preserved inputs/outputs, mempool acceptance of the replacement) the property is numeric and dynamic; decided is only "
               "its last sentence, 'a transaction that cannot be bumped is refused without wallet changes', as a shape of the code: (a) LADDER on "
               "PreconditionChecks: Result::OK is returned only if the transaction has no wallet spend, no mempool descendants, depth 0 in the main "
               "chain (neither mined nor conflicted), no m_replaced_by_txid, and - when require_mine - all inputs are the wallet's; (b) in "
               "feebumper::CreateRateBumpTransaction and feebumper::CommitTransaction every call that can reach a wallet database write in the "
               "whole-program call graph (CreateTransaction; CWallet::CommitTransaction, MarkReplaced) and every return that may carry Result::OK is "
               "reached only past PreconditionChecks(wallet, <the wallet's tx for txid>, ..) == Result::OK, so a refusal leaves before any of them; the "
               "caller's require_mine is what CreateRateBumpTransaction forwards; PreconditionChecks and TransactionCanBeBumped reach no database "
               "write at all; (c) TransactionCanBeBumped returns true only if PreconditionChecks returned OK.")
ASSUMPTIONS = ["HasWalletSpend / hasDescendantsInMempool / GetTxDepthInMainChain / AllInputsMine compute what their names say (opaque atoms)",
               "wallet changes are database writes reached through direct, virtual or callback-reference calls (std::function indirections are not followed)",
               "the caller holds cs_wallet across check and effect (enforced by EXCLUSIVE_LOCKS_REQUIRED on PreconditionChecks, not re-checked here)"]
CLAIM = dict(
    technique="static analysis: LADDER (accept implies no refusal condition) on PreconditionChecks + must-pass-through guard implication on every "
              "call-graph writer and success return of its three callers + argument provenance",
    text="PARTIAL. Decided for all paths: the refusal clause - PreconditionChecks accepts only a transaction with no descendants (wallet or mempool), "
         "unconfirmed and unconflicted, not already replaced, and all-inputs-mine where required; CreateRateBumpTransaction, CommitTransaction and "
         "TransactionCanBeBumped reach a wallet-database-writing call or a success result only past a successful PreconditionChecks of the wallet's own "
         "transaction for the given txid.",
    note="NOT decided (remain dynamic/numeric): that the replacement spends every input of the original, keeps non-change outputs, pays at least old "
         "fee + incremental relay fee and the requested feerate (CheckFeeRate / EstimateFeeRate arithmetic), and is accepted by the mempool as a replacement; "
         "the 'not signalling' reason of the statement has no rung in this tree (full-RBF) and is not checked; in-memory-only wallet changes are not "
         "tracked (only database writers); the semantics of the predicate atoms are trusted. This is a weak, structural claim.",
    ref="DESIGN.md §3 C56 (listed N/A at design time; refusal clause claimed partially, like C54)")

PRE = "wallet::PreconditionChecks"
RES = "wallet::feebumper::Result::"
OK = RES + "OK"
FB = "wallet::feebumper::"


def is_ok_enum(v):
    return is_expr(v) and v[0] == "enum" and v[1] == OK


def pre_subst(f, P):
    """naming() plus locals that are defined once as the result of PreconditionChecks (their type is not a 'simple' one for local_defs)."""
    names = tuple(st["n"] for st in stmts(f.body) if st.get("k") == "decl" and st.get("n") and is_expr(st.get("i")) and contains(["call", PRE], st["i"]))
    sub = dict(naming(f, P))
    for k, v in local_defs(f, P, extra_ok=names).items():
        sub.setdefault(k, v)
    # a local that is only ever assigned PreconditionChecks results or non-OK constants (declared first, assigned later): `name == OK` implies the check returned OK
    late = []
    for st in stmts(f.body):
        if st.get("k") == "decl" and st.get("n") and st["n"] not in sub and "Result" in st.get("ty", ""):
            vals = [v for _, v in local_values(f, st["n"]) if is_expr(v)]
            is_refusal = lambda v: v[0] == "enum" and v[1].startswith(RES) and v[1] != OK
            if any(is_call_to(PRE, v) for v in vals) and all(is_call_to(PRE, v) or is_refusal(v) for v in vals):
                late.append(st["n"])
    return sub, late


def pre_ok_matcher(late):
    rx = re.compile(r"(%s\(.*\)%s) == %s" % (re.escape(PRE), "".join("|" + re.escape(n) for n in late), re.escape(OK)))
    return lambda k: rx.fullmatch(k) is not None


def check(ctx):
    P = ctx.program(UNITS)
    cg = callgraph.load_all()
    dbw = DbWriters(cg)
    ladder(ctx, P, dbw)
    n_writer_calls = 0
    n_writer_calls += caller(ctx, P, dbw, FB + "CreateRateBumpTransaction", want_writers=1, forward_require_mine=True)
    n_writer_calls += caller(ctx, P, dbw, FB + "CommitTransaction", want_writers=2, forward_require_mine=False)
    ctx.floor("database-writing calls in CreateRateBumpTransaction + CommitTransaction", n_writer_calls, 3)
    can_be_bumped(ctx, P, dbw)
    mark_replaced(ctx)
    fee_check_uses_new_outputs(ctx, P)


# ------------------------------------------------------------------------------------------------
def ladder(ctx, P, dbw):
    f = ctx.used(P.fn(PRE))
    if len(f.params) != 4:
        raise AnalysisBroken("PreconditionChecks: unexpected signature")
    w, t, rm = (re.escape(f.params[i]["n"]) for i in range(3))
    TX = r"(\*?%s\.GetTx\(\)|\*?%s\.tx)" % (t, t)
    atoms = {
        "HASSPEND": re.compile(r"%s\.HasWalletSpend\(%s\)" % (w, TX)),
        "DESC": re.compile(r"%s\.chain\(\)\.hasDescendantsInMempool\(%s\.GetHash\(\)\)" % (w, t)),
        "DEPTH": re.compile(r"%s\.GetTxDepthInMainChain\(%s\)" % (w, t)),
        "REPLACED": re.compile(r"%s\.m_replaced_by_txid" % t),
        "REQ": f.params[2]["n"],
        "MINE": re.compile(r"wallet::AllInputsMine\(%s, %s\)" % (w, TX)),
    }
    rungs = [Rung("has-wallet-descendants", "HASSPEND", atoms), Rung("has-mempool-descendants", "DESC", atoms),
             Rung("mined-or-conflicted", "DEPTH", atoms), Rung("already-replaced", "REPLACED", atoms),
             Rung("inputs-not-all-mine-where-required", "REQ && !MINE", atoms)]
    sub = naming(f, P)
    ex = exits(f, P, sub)
    bad = [e.line for e in ex if e.kind != "ret" or not (is_expr(e.value) and e.value[0] == "enum" and e.value[1].startswith(RES))]
    if bad:
        raise AnalysisBroken("PreconditionChecks: exit at line(s) %s is not `return feebumper::Result::<constant>` (idiom changed)" % bad)
    accepts = [e for e in ex if is_ok_enum(e.value)]
    ctx.floor("PreconditionChecks accepting exits", len(accepts), 1)
    ctx.floor("PreconditionChecks refusing exits", len(ex) - len(accepts), 1)
    for a in accepts:
        fa = inline_predicates(a.formula, f, P, sub)
        for r in rungs:
            fb, mapping, unmatched = F.bind_atoms(fa, r.atoms)
            cex = F.counterexample(fb, F.mk_not(r.spec))
            ctx.ob("PreconditionChecks/rung:%s/accept@L%s" % (r.label, a.line), "LADDER",
                   "PreconditionChecks returns Result::OK at line %s only if NOT (%s) [%s]" % (a.line, r.cond, r.label), cex is None, "%s:%s" % (f.file, a.line),
                   None if cex is None else {"accept_path_condition": F.fshow(fa)[:1200], "atom_binding": mapping, "unbound_code_atoms": unmatched[:12],
                                             "counterexample": cex})
    no_writers(ctx, f, P, dbw, "PreconditionChecks")


def writer_calls(f, P, dbw):
    out = []
    for s in sites(f, lambda e: isinstance(callee(e), str), P):
        p = dbw.path(callee(s.expr))
        if p is not None:
            out.append((s, p))
    return out


def no_writers(ctx, f, P, dbw, name):
    ws = writer_calls(f, P, dbw)
    ctx.ob("%s/no-database-write" % name, "CALLGRAPH", "%s itself reaches no wallet database write (it only decides)" % f.q, not ws, f.where,
           [{"line": s.line, "path": " > ".join(p)} for s, p in ws] or None)


# ------------------------------------------------------------------------------------------------
def caller(ctx, P, dbw, q, want_writers, forward_require_mine):
    f = ctx.used(P.fn(q))
    name = q.rsplit("::", 1)[-1]
    sub, late = pre_subst(f, P)
    atoms = {"PRE_OK": pre_ok_matcher(late)}
    pn = [p["n"] for p in f.params]
    if "txid" not in pn or not f.params[0]["ty"].endswith("CWallet &"):
        raise AnalysisBroken("%s: expected (CWallet& wallet, const Txid& txid, ...)" % q)
    calls = sites(f, call_to(PRE), P)
    # (an obligation, not a floor: a caller that stops calling the check has lost the guard, it is not a vanished anchor)
    ctx.ob("%s/calls-the-check" % name, "MPT", "%s runs PreconditionChecks before it changes the wallet or reports success" % name, len(calls) >= 1, f.where)
    for s in calls:
        a = [F.expand(x, sub) for x in call_args(s.expr)]
        ok = len(a) == 4 and match(["param", pn[0]], a[0]) and contains(["param", "txid"], a[1]) and contains(["param", pn[0]], a[1])
        ctx.ob("%s/checks-the-bumped-tx@L%s" % (name, s.line), "PROVENANCE", "%s runs PreconditionChecks on its own wallet and on that wallet's transaction looked up by "
               "the txid argument" % name, ok, s.where, {"args": [F.key(x) for x in a]})
        if forward_require_mine:
            ok = len(a) == 4 and match(["param", "require_mine"], a[2])
            ctx.ob("%s/forwards-require_mine@L%s" % (name, s.line), "PROVENANCE", "%s passes its caller's require_mine to PreconditionChecks (inputs must all be the wallet's "
                   "where the caller requires it)" % name, ok, s.where, {"arg": F.key(a[2]) if len(a) > 2 else None})
    # every call that may write the wallet database lies past PRE_OK
    ws = writer_calls(f, P, dbw)
    ctx.floor("%s database-writing calls" % name, len(ws), want_writers)
    spec = F.parse("PRE_OK")
    for s, p in ws:
        f0 = s.formula(sub)
        fb, mapping, unmatched = F.bind_atoms(f0, atoms)
        cex = F.counterexample(fb, spec)
        ctx.ob("%s/effect-past-check:%s@L%s" % (name, callee(s.expr).rsplit("::", 1)[-1], s.line), "MPT",
               "in %s the call of %s (which can reach a wallet database write: %s) is reached only if PreconditionChecks returned Result::OK" % (name, callee(s.expr), " > ".join(p[-3:])),
               cex is None, s.where, None if cex is None else {"path_condition": F.fshow(f0)[-900:], "counterexample": cex})
    # success only past the check; a refusal is passed on as a refusal
    n_ok = 0
    for e in exits(f, P, sub):
        if e.kind != "ret":
            continue
        v = F.expand(e.value, sub) if is_expr(e.value) else None
        if is_expr(v) and v[0] == "enum" and v[1].startswith(RES) and v[1] != OK:
            continue            # a refusal / error constant
        fb, mapping, unmatched = F.bind_atoms(e.formula, atoms)
        if is_ok_enum(v):
            n_ok += 1
            cex = F.counterexample(fb, spec)
            ctx.ob("%s/success-past-check@L%s" % (name, e.line), "MPT", "%s returns Result::OK only if PreconditionChecks returned Result::OK" % name, cex is None,
                   "%s:%s" % (f.file, e.line), None if cex is None else {"path_condition": F.fshow(e.formula)[-900:], "counterexample": cex})
        else:
            # a computed result: either we are past the check, or it is the failed check's own result
            past = F.counterexample(fb, spec) is None
            n_ok += 1 if (is_expr(v) and (is_call_to(PRE, v) or (v[0] == "local" and v[1] in late))) else 0
            own = is_expr(v) and (is_call_to(PRE, v) or (v[0] == "local" and v[1] in late))   # it is OK only if the check said OK
            ctx.ob("%s/refusal-passed-on@L%s" % (name, e.line), "MPT", "a non-constant result returned by %s is either produced past a successful PreconditionChecks or is "
                   "PreconditionChecks' own result" % name, past or own, "%s:%s" % (f.file, e.line),
                   None if past or own else {"value": show(v) if is_expr(v) else None, "path_condition": F.fshow(e.formula)[-900:]})
    ctx.floor("%s returns that may carry Result::OK" % name, n_ok, 1)
    return len(ws)


# ------------------------------------------------------------------------------------------------
def can_be_bumped(ctx, P, dbw):
    f = ctx.used(P.fn(FB + "TransactionCanBeBumped"))
    sub, late = pre_subst(f, P)
    atoms = {"PRE_OK": pre_ok_matcher(late)}
    calls = sites(f, call_to(PRE), P)
    ctx.ob("TransactionCanBeBumped/calls-the-check", "MPT", "TransactionCanBeBumped decides through PreconditionChecks", len(calls) >= 1, f.where)
    pn = [p["n"] for p in f.params]
    for s in calls:
        a = [F.expand(x, sub) for x in call_args(s.expr)]
        ok = len(a) == 4 and len(pn) == 2 and match(["param", pn[0]], a[0]) and contains(["param", pn[1]], a[1]) and contains(["param", pn[0]], a[1])
        ctx.ob("TransactionCanBeBumped/checks-the-queried-tx@L%s" % s.line, "PROVENANCE", "TransactionCanBeBumped runs PreconditionChecks on the wallet's transaction for the "
               "queried txid", ok, s.where, {"args": [F.key(x) for x in a]})
    parts = []
    for e in exits(f, P, sub):
        if e.kind != "ret" or not is_expr(e.value):
            raise AnalysisBroken("TransactionCanBeBumped: unexpected exit kind")
        parts.append(F.mk_and([e.formula, F.to_formula(e.value, sub)]))
    code = F.mk_or(parts)
    fb, mapping, unmatched = F.bind_atoms(code, atoms)
    cex = F.counterexample(fb, F.parse("PRE_OK"))
    ctx.ob("TransactionCanBeBumped/true-only-if-ok", "TWIN", "TransactionCanBeBumped returns true only if PreconditionChecks returned Result::OK", cex is None, f.where,
           None if cex is None else {"returns_true_when": F.fshow(code)[:900], "counterexample": cex})
    no_writers(ctx, f, P, dbw, "TransactionCanBeBumped")


# ------------------------------------------------------------------------------------------------
def mark_replaced(ctx):
    """"already replaced" must survive a restart: the refusal rung reads CWalletTx::m_replaced_by_txid, which
    CWallet::MarkReplaced has to set BEFORE it writes the transaction record (the record written is the one that is reloaded)."""
    PW = ctx.program(["wallet/wallet.cpp"])
    f = ctx.used(PW.fn("wallet::CWallet::MarkReplaced"))
    FIELD = "wallet::CWalletTx::m_replaced_by_txid"
    sets = sites(f, lambda e: e[0] in ("b", "opcall") and e[1] == "=" and is_expr(e[2 if e[0] == "b" else 3]) and match([".", ANY, FIELD], e[2 if e[0] == "b" else 3]), PW)
    wr = sites(f, lambda e: e[0] in ("mcall", "vcall") and e[1] == "wallet::WalletBatch::WriteTx", PW)
    ctx.floor("MarkReplaced marker assignments", len(sets), 1)
    ctx.floor("MarkReplaced WriteTx calls", len(wr), 1)
    pn = [p_["n"] for p_ in f.params]
    okv = len(sets) == 1 and len(pn) == 2 and sets[0].expr[3 if sets[0].expr[0] == "b" else 4] == ["param", pn[1]] and not [g for g in sets[0].guards if g.kind in ("if", "sc", "loop", "case")]
    ctx.ob("MarkReplaced/sets-marker", "VALUE-SHAPE", "MarkReplaced unconditionally records the replacement's txid in the original's m_replaced_by_txid", okv, f.where)
    mf = MustFlow(f, PW, marks=[("marked", lambda e: e[0] in ("b", "opcall") and e[1] == "=" and is_expr(e[2 if e[0] == "b" else 3]) and match([".", ANY, FIELD], e[2 if e[0] == "b" else 3]))])
    mf.watch = lambda e: e[0] in ("mcall", "vcall") and e[1] == "wallet::WalletBatch::WriteTx"
    mf.run()
    for e, state, st in mf.events:
        obj = sets[0].expr[2 if sets[0].expr[0] == "b" else 3][1] if sets else None
        same = obj is not None and call_args(e)[:1] == [obj]
        ctx.ob("MarkReplaced/persist-after-mark@L%s" % st.get("l"), "ORDER", "the wallet transaction record is written only after the replaced-by marker was set on that same transaction "
               "(otherwise the marker is lost on reload and an already replaced transaction is bumpable again)", "marked" in state and same, "%s:%s" % (f.file, st.get("l")))
    ctx.floor("MarkReplaced WriteTx events", len(mf.events), 1)


# ------------------------------------------------------------------------------------------------ explicit fee rate is checked at the replacement's size
# The refusal "new fee rate too low / insufficient total fee" (CheckFeeRate) is evaluated for a maximum signed size.  When the caller replaces the outputs,
# the size must be that of the transaction with the *new* outputs: the temporary transaction handed to CalculateMaximumSignedTxSize and CheckFeeRate gets the
# same output list the recipients are built from, on every path to the check.  Otherwise a smaller replacement is accepted with an absolute fee below the
# original's (seeded change C56w).
def fee_check_uses_new_outputs(ctx, P):
    f = ctx.used(P.fn(FB + "CreateRateBumpTransaction"))
    nm = naming(f, P)
    checks = sites(f, lambda e: is_call_to(FB + "CheckFeeRate", e) or (is_expr(e) and e[0] == "call" and e[1].endswith("CheckFeeRate")), P)
    if not checks:
        raise AnalysisBroken("CreateRateBumpTransaction: no call of CheckFeeRate found")
    # the output list the recipients are built from: the range of the loop that fills `recipients`
    fills = [sx for sx in sites(f, lambda e: is_expr(e) and e[0] == "mcall" and e[1].rsplit("::", 1)[-1] in ("emplace_back", "push_back") and
                                 match(["local", "recipients"], e[2]), P) if sx.loops]
    ranges = set()
    for sx in fills:
        for lp in sx.loops:
            k = loop_range_key(lp, nm) if callable(loop_range_key) else None
            if k:
                ranges.add(k)
    if not ranges:
        raise AnalysisBroken("CreateRateBumpTransaction: the loop building the recipients from the output list was not recognised")
    n = 0
    for sx in checks:
        args = call_args(sx.expr)
        tmp = [a for a in args if is_expr(a) and a[0] == "local"]
        if len(args) < 2 or not is_expr(args[1]) or args[1][0] != "local":
            raise AnalysisBroken("CreateRateBumpTransaction: CheckFeeRate is not called with a local temporary transaction")
        t = args[1][1]
        vout_of_t = [".", ["local", t], "CMutableTransaction::vout"]

        def is_vout_store(e):
            return is_expr(e) and e[0] == "b" and e[1] == "=" and e[2] == vout_of_t
        flow = MustFlow(f, P, marks=[("vout-set", is_vout_store)])
        flow.watch = lambda e, _sx=sx: e is _sx.expr
        flow.run()
        must = [m for e, m, st in flow.events if e is sx.expr]
        stores = sites(f, is_vout_store, P)
        vals = {F.key(F.expand(s2.expr[3], nm)) for s2 in stores}
        if not stores:
            init = [st.get("i") for st in stmts(f.body) if st.get("k") == "decl" and st.get("n") == t]
            itxt = F.key(F.expand(init[0], nm)) if init and is_expr(init[0]) else ""
            if "GetTx()" not in itxt and "mapWallet" not in itxt:
                raise AnalysisBroken("CreateRateBumpTransaction: %s is neither a copy of the original transaction nor given an output list by assignment (unknown idiom)" % t)
        ok = bool(must) and all("vout-set" in m for m in must) and bool(vals) and all(any(r == "each(%s)" % v or ("(%s).size()" % v) in r or ("%s.size()" % v) in r for r in ranges) for v in vals)
        ctx.ob("CreateRateBumpTransaction/fee-check-at-new-size@L%s" % sx.line, "PROVENANCE", "the temporary transaction whose maximum signed size enters CheckFeeRate carries the "
               "output list the replacement's recipients are built from (%s.vout is assigned that list on every path to the check)" % t, ok, sx.where,
               {"recipient_loop_ranges": sorted(ranges), "assigned_to_vout": sorted(vals), "assigned_on_every_path": bool(must) and all("vout-set" in m for m in must)})
        n += 1
    ctx.floor("CheckFeeRate calls in CreateRateBumpTransaction", n, 1)
